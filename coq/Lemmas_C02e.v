(* Lemmas_C02e.v — end-to-end dispatch (glue for C02): the command machine of Fsm.v, fed the bytes of a
   line through the scripted always-ready io of Script.v one cat_service call at a time (event machine idle,
   no mutex), performs exactly the iterations name_char_step / search_run of ResolveDefs.v, so that by
   Lemmas_C02 it stops in CS_COMMAND_FOUND with the command Spec.resolve selects.
   Structure: (1) quiet traces; (2) one svc call = one command-machine step (per state); (3) the relation
   [steps m s q s' q'] (m calls, only reads) and its composition; (4) frame facts of update_command /
   search_command (k_state, k_index, k_type, u, mem; independence of the search from k_type/k_cr/gL);
   (5) the sweeps; (6) a whole line: "AT" name term / "AT" name "?" CR* LF / implicit write;
   (7) final statements and examples. *)
From Coq Require Import List NArith ZArith Bool Arith Lia.
From Coq Require Import ZifyBool ZifyNat ZifyN.
From CatV Require Import Bytes Defs Codec Spec Fsm Script ResolveDefs SchedDefs GlueDefs.
From CatV Require Lemmas_C02.
Import ListNotations.
Local Open Scope nat_scope.

Local Notation wst := (Fsm.st sio smu shs).
Local Notation wio := (Fsm.io sio smu shs).
Local Notation whs := (Fsm.hs sio smu shs).
Local Notation wtr := (Fsm.tr sio smu shs).

(* ---------- quiet traces ---------- *)
Definition qev (e : event) : bool :=
  match e with ECall _ _ => false | EWr _ _ true => false | _ => true end.
Definition quiet (t : list event) : bool := forallb qev t.

Lemma quiet_flat : forall l, forallb qev l = true ->
  flat_map (fun e => match e with ECall q c => [(q, c)] | _ => [] end) l = [] /\
  flat_map (fun e => match e with EWr _ ch true => [ch] | _ => [] end) l = [].
Proof.
  induction l as [|e l IH]; intros H; [split; reflexivity|].
  simpl in H. apply andb_true_iff in H. destruct H as [He Hl]. destruct (IH Hl) as [A B].
  simpl. rewrite A, B. destruct e; try (split; reflexivity); simpl in He; try discriminate.
  destruct ok; [discriminate | split; reflexivity].
Qed.

Lemma quiet_spec : forall t, quiet t = true -> calls_of t = [] /\ output_of t = [].
Proof.
  intros t H. unfold calls_of, output_of. apply quiet_flat.
  apply forallb_forall. intros x Hx. apply in_rev in Hx.
  unfold quiet in H. rewrite forallb_forall in H. apply H. exact Hx.
Qed.

Lemma quiet_app : forall a b, quiet a = true -> quiet b = true -> quiet (a ++ b) = true.
Proof. intros a b Ha Hb. unfold quiet. rewrite forallb_app. unfold quiet in Ha, Hb. rewrite Ha, Hb. reflexivity. Qed.

Lemma iter_add {A} : forall a b (f : A -> A) x, iter (a + b) f x = iter b f (iter a f x).
Proof. induction a as [|a IH]; intros b f x; simpl; [reflexivity | apply IH]. Qed.

(* the event machine has nothing to do *)
Definition idle (s : state) : Prop := u_state (u s) = US_IDLE /\ u_count (u s) = 0.

Section Glue.
Variable D : desc.
Hypothesis Hmx : d_mutex D = false.
Local Notation n := (ncmds D).

Local Notation cmdsvc := (cmd_service D sio smu shs s_read s_write s_lock s_unlock s_call).

Lemma ues_idle : forall w : sworld, idle (wst w) ->
  unsolicited_events_service D sio smu shs s_write s_lock s_unlock s_call w = (w, ST_OK).
Proof.
  intros w [H1 H2]. unfold unsolicited_events_service. rewrite H1. unfold ring_empty. rewrite H2. reflexivity.
Qed.

(* one cat_service call whose command-machine half answers BUSY *)
Lemma svc_busy : forall (w w2 : sworld), idle (wst w) -> cmdsvc w = (w2, ST_BUSY) ->
  svc D w = logw sio smu shs (ERet OService ST_BUSY) w2.
Proof.
  intros w w2 Hi Hc. unfold svc, step, do_op, api_service, bracket. rewrite Hmx.
  unfold service_body. rewrite (ues_idle w Hi), Hc.
  destruct (negb (ST_OK =? ST_OK)%Z || negb (ustate_beq (u_state (u (wst w2))) US_IDLE)); reflexivity.
Qed.

(* ---------- m service calls that only read input: s, q  ==>  s', q' ---------- *)
Definition steps (m : nat) (s : state) (q : list N) (s' : state) (q' : list N) : Prop :=
  forall h t, exists t', quiet t' = true /\ nsvc D m (mkw s q h t) = mkw s' q' h (t' ++ t).

Lemma steps_0 : forall s q, steps 0 s q s q.
Proof. intros s q h t. exists []. split; reflexivity. Qed.

Lemma steps_trans : forall a b s q s1 q1 s2 q2,
  steps a s q s1 q1 -> steps b s1 q1 s2 q2 -> steps (a + b) s q s2 q2.
Proof.
  intros a b s q s1 q1 s2 q2 H1 H2 h t.
  destruct (H1 h t) as [t1 [Q1 E1]]. destruct (H2 h (t1 ++ t)) as [t2 [Q2 E2]].
  exists (t2 ++ t1). split; [apply quiet_app; assumption|].
  unfold nsvc in *. rewrite iter_add, E1, E2, app_assoc. reflexivity.
Qed.

(* a non-reading state *)
Lemma step_pure : forall s q f, idle s ->
  (forall h t, cmdsvc (mkw s q h t) = (mkw (f s) q h t, ST_BUSY)) ->
  steps 1 s q (f s) q.
Proof.
  intros s q f Hi Hc h t. exists [ERet OService ST_BUSY]. split; [reflexivity|].
  unfold nsvc. simpl iter. rewrite (svc_busy (mkw s q h t) _ Hi (Hc h t)). reflexivity.
Qed.

(* what read_cmd_char leaves in the state when it receives byte c *)
Definition rd_state (s : state) (c : N) : state :=
  let ch' := if cstate_beq (k_state (k s)) CS_PARSE_COMMAND_ARGS then c else to_upper c in
  let s1 := setk_char ch' s in
  if (ch' =? ch_LF)%N && negb (cstate_beq (k_state (k s)) CS_IDLE) then set_gL (S (gL s1)) s1 else s1.

Lemma reading_eq : forall s c q h t body,
  reading sio smu shs s_read (mkw s (c :: q) h t) body =
  (mkw (body (k_char (k (rd_state s c))) (rd_state s c)) q h (ERd (Some c) :: t), ST_BUSY).
Proof. intros. reflexivity. Qed.

Lemma step_read : forall s c q body, idle s ->
  (forall h t, cmdsvc (mkw s (c :: q) h t) = reading sio smu shs s_read (mkw s (c :: q) h t) body) ->
  steps 1 s (c :: q) (body (k_char (k (rd_state s c))) (rd_state s c)) q.
Proof.
  intros s c q body Hi Hc h t. exists [ERet OService ST_BUSY; ERd (Some c)]. split; [reflexivity|].
  unfold nsvc. simpl iter.
  rewrite (svc_busy (mkw s (c :: q) h t) _ Hi (eq_trans (Hc h t) (reading_eq s c q h t body))). reflexivity.
Qed.

Ltac cmdsvc_state H := intros; unfold cmd_service; cbn [Fsm.st mkw]; rewrite H; reflexivity.

Definition idle_body (ch : N) (s : state) : state :=
    if (ch =? ch_A)%N then setk_state CS_PARSE_PREFIX s
    else if (ch =? ch_LF)%N || (ch =? ch_CR)%N then s
    else setk_state CS_ERROR s.

Lemma step_idle : forall s c q, idle s -> k_state (k s) = CS_IDLE ->
  steps 1 s (c :: q) (idle_body (k_char (k (rd_state s c))) (rd_state s c)) q.
Proof. intros s c q Hi Hs. apply (step_read s c q idle_body Hi). cmdsvc_state Hs. Qed.

Definition prefix_body (ch : N) (s : state) : state :=
    if (ch =? ch_T)%N then s |> prepare_parse_command |> setk_state CS_PARSE_COMMAND_CHAR
    else if (ch =? ch_LF)%N then ack_error s
    else if (ch =? ch_CR)%N then setk_cr true s
    else setk_state CS_ERROR s.

Lemma step_prefix : forall s c q, idle s -> k_state (k s) = CS_PARSE_PREFIX ->
  steps 1 s (c :: q) (prefix_body (k_char (k (rd_state s c))) (rd_state s c)) q.
Proof. intros s c q Hi Hs. apply (step_read s c q prefix_body Hi). cmdsvc_state Hs. Qed.

Definition pc_body (ch : N) (s : state) : state :=
    if (ch =? ch_LF)%N then
      if negb (k_length (k s) =? 0) then s |> prepare_search_command |> setk_state CS_SEARCH_COMMAND
      else ack_ok s
    else if (ch =? ch_CR)%N then setk_cr true s
    else if (ch =? ch_QM)%N then
      if k_length (k s) =? 0 then setk_state CS_ERROR s
      else s |> setk_type T_READ |> setk_state CS_WAIT_READ_ACK
    else if (ch =? ch_EQ)%N then
      if k_length (k s) =? 0 then setk_state CS_ERROR s
      else s |> setk_type T_WRITE |> prepare_search_command |> setk_state CS_SEARCH_COMMAND
    else if is_name_char ch then
      s |> setk_length (S (k_length (k s))) |> setk_state CS_UPDATE_COMMAND_STATE
    else setk_state CS_ERROR s.

Lemma step_pc : forall s c q, idle s -> k_state (k s) = CS_PARSE_COMMAND_CHAR ->
  steps 1 s (c :: q) (pc_body (k_char (k (rd_state s c))) (rd_state s c)) q.
Proof. intros s c q Hi Hs. apply (step_read s c q pc_body Hi). cmdsvc_state Hs. Qed.

Definition wra_body (ch : N) (s : state) : state :=
    if (ch =? ch_LF)%N then s |> prepare_search_command |> setk_state CS_SEARCH_COMMAND
    else if (ch =? ch_CR)%N then setk_cr true s
    else setk_state CS_ERROR s.

Lemma step_wra : forall s c q, idle s -> k_state (k s) = CS_WAIT_READ_ACK ->
  steps 1 s (c :: q) (wra_body (k_char (k (rd_state s c))) (rd_state s c)) q.
Proof. intros s c q Hi Hs. apply (step_read s c q wra_body Hi). cmdsvc_state Hs. Qed.

Lemma step_update : forall s q, idle s -> k_state (k s) = CS_UPDATE_COMMAND_STATE ->
  steps 1 s q (update_command D s) q.
Proof. intros s q Hi Hs. apply (step_pure s q _ Hi). cmdsvc_state Hs. Qed.

Lemma step_search : forall s q, idle s -> k_state (k s) = CS_SEARCH_COMMAND ->
  steps 1 s q (search_command D s) q.
Proof. intros s q Hi Hs. apply (step_pure s q _ Hi). cmdsvc_state Hs. Qed.


(* ---------- frame facts of the two sweep functions ---------- *)
Ltac destr_all := repeat match goal with
  | |- context [if ?b then _ else _] => destruct b
  | |- context [match ?x with _ => _ end] => destruct x
  end.

Lemma upd_s1_frame : forall s c cs, let s1 := Lemmas_C02.upd_s1 s c cs in
  k_state (k s1) = k_state (k s) /\ k_index (k s1) = k_index (k s) /\ u s1 = u s /\ mem s1 = mem s.
Proof.
  intros s c cs s1. unfold s1, Lemmas_C02.upd_s1, set_cmd_state. destr_all; repeat split; reflexivity.
Qed.

Lemma upd_frame : forall s, let s' := update_command D s in
  u s' = u s /\ mem s' = mem s /\ k_index (k s') <= S (k_index (k s)) /\
  (S (k_index (k s)) < n -> k_state (k s') = k_state (k s)).
Proof.
  intros s s'. unfold s'. rewrite Lemmas_C02.update_command_unf.
  destruct (cmd_by_index (d_groups D) (k_index (k s))) as [c|]; [|repeat split; cbn; lia].
  destruct (get_cmd_state D s (k_index (k s))) as [cs|]; [|repeat split; cbn; lia].
  destruct (upd_s1_frame s c cs) as [A [B [C E]]].
  unfold Lemmas_C02.upd_fin. destruct (n <=? S (k_index (k s))) eqn:L.
  - apply Nat.leb_le in L.
    destruct (negb (k_implicit (k (setk_index 0 (Lemmas_C02.upd_s1 s c cs))))); cbn;
      (split; [exact C|]); (split; [exact E|]); (split; [lia|]); intros; lia.
  - apply Nat.leb_gt in L. cbn. split; [exact C|]. split; [exact E|]. split; [lia|]. intros _. exact A.
Qed.

(* the search sweep does not look at k_type, k_cr, gL *)
Definition tweak (ty : ctype) (cr : bool) (g : nat) (s : state) : state :=
  s |> setk_type ty |> setk_cr cr |> set_gL g.

Lemma search_command_tweak : forall ty cr g s,
  search_command D (tweak ty cr g s) = tweak ty cr g (search_command D s).
Proof.
  intros ty cr g s. unfold search_command.
  change (get_cmd_state D (tweak ty cr g s)) with (get_cmd_state D s).
  change (k_index (k (tweak ty cr g s))) with (k_index (k s)).
  change (k_char (k (tweak ty cr g s))) with (k_char (k s)).
  change (k_cmd (k (tweak ty cr g s))) with (k_cmd (k s)).
  destruct (get_cmd_state D s (k_index (k s))) as [cs|]; [|reflexivity].
  cbv zeta. cbn [k_index k_cmd k_partial k setk_index setk_cmd setk_partial set_k set_k_index set_k_cmd set_k_partial tweak setk_type setk_cr set_gL set_k_type set_k_cr].
  destr_all; reflexivity.
Qed.

Lemma search_command_frame : forall s, let s' := search_command D s in
  u s' = u s /\ mem s' = mem s /\ k_char (k s') = k_char (k s) /\ k_type (k s') = k_type (k s).
Proof.
  intros s s'. unfold s', search_command.
  destruct (get_cmd_state D s (k_index (k s))) as [cs|]; [|repeat split].
  cbv zeta. cbn [k_index k_cmd k_partial k setk_index setk_cmd setk_partial set_k set_k_index set_k_cmd set_k_partial].
  destr_all; repeat split.
Qed.


Lemma idle_of_u : forall s s', u s' = u s -> idle s -> idle s'.
Proof. intros s s' E [A B]. unfold idle. rewrite E. split; assumption. Qed.

(* ---------- the update sweep: m calls in CS_UPDATE_COMMAND_STATE ---------- *)
Lemma upd_steps : forall m s q, idle s -> k_state (k s) = CS_UPDATE_COMMAND_STATE ->
  k_index (k s) + m <= n -> steps m s q (iter m (update_command D) s) q.
Proof.
  induction m as [|m IH]; intros s q Hi Hs Hm; [apply steps_0|].
  destruct (upd_frame s) as [A [_ [B C]]].
  change (S m) with (1 + m). simpl iter.
  apply (steps_trans 1 m s q (update_command D s) q); [apply step_update; assumption|].
  destruct m as [|m]; [apply steps_0|].
  apply IH.
  - apply (idle_of_u s); assumption.
  - rewrite C by lia. exact Hs.
  - lia.
Qed.

Lemma iter_upd_frame : forall m s, u (iter m (update_command D) s) = u s /\ mem (iter m (update_command D) s) = mem s.
Proof.
  induction m as [|m IH]; intros s; [split; reflexivity|]. simpl iter.
  destruct (IH (update_command D s)) as [A B]. destruct (upd_frame s) as [A' [B' _]].
  rewrite A, B, A', B'. split; reflexivity.
Qed.

Lemma ncs_frame : forall s ch, u (name_char_step D s ch) = u s /\ mem (name_char_step D s ch) = mem s.
Proof. intros s ch. unfold name_char_step. destruct (iter_upd_frame n (s |> setk_char ch |> setk_length (S (k_length (k s))) |> setk_state CS_UPDATE_COMMAND_STATE)) as [A B]. rewrite A, B. split; reflexivity. Qed.

Lemma fold_ncs_frame : forall t s, u (fold_left (name_char_step D) t s) = u s /\
  mem (fold_left (name_char_step D) t s) = mem s.
Proof.
  induction t as [|c t IH]; intros s; [split; reflexivity|]. simpl fold_left.
  destruct (IH (name_char_step D s c)) as [A B]. destruct (ncs_frame s c) as [A' B'].
  rewrite A, B, A', B'. split; reflexivity.
Qed.

(* ---------- character classes ---------- *)
Lemma name_char_facts : forall x, is_name_char x = true ->
  (x =? ch_LF)%N = false /\ (x =? ch_CR)%N = false /\ (x =? ch_QM)%N = false /\ (x =? ch_EQ)%N = false.
Proof. intros x H. unfold is_name_char in H. unfold ch_LF, ch_CR, ch_QM, ch_EQ. lia. Qed.

(* one name character: the read and the whole update sweep *)
Lemma char_steps : forall s c q, idle s -> k_state (k s) = CS_PARSE_COMMAND_CHAR -> k_index (k s) = 0 ->
  is_name_char (to_upper c) = true ->
  steps (S n) s (c :: q) (name_char_step D s (to_upper c)) q.
Proof.
  intros s c q Hi Hs Hx Hc.
  destruct (name_char_facts _ Hc) as [E1 [E2 [E3 E4]]].
  assert (Hrd : rd_state s c = setk_char (to_upper c) s).
  { unfold rd_state. rewrite Hs. cbn [cstate_beq]. rewrite E1. reflexivity. }
  assert (Hb : pc_body (k_char (k (rd_state s c))) (rd_state s c) =
               (s |> setk_char (to_upper c) |> setk_length (S (k_length (k s))) |> setk_state CS_UPDATE_COMMAND_STATE)).
  { rewrite Hrd. change (k_char (k (setk_char (to_upper c) s))) with (to_upper c).
    unfold pc_body. rewrite E1, E2, E3, E4, Hc. reflexivity. }
  change (S n) with (1 + n). unfold name_char_step.
  eapply steps_trans; [apply step_pc; assumption|]. rewrite Hb.
  apply upd_steps; [exact Hi | reflexivity | cbn; lia].
Qed.

(* ---------- the search sweep ---------- *)
Lemma search_steps : forall fuel s q, idle s -> k_state (k s) = CS_SEARCH_COMMAND ->
  k_state (k (search_run D fuel s)) <> CS_SEARCH_COMMAND ->
  exists j, j <= fuel /\ steps j s q (search_run D fuel s) q.
Proof.
  induction fuel as [|f IH]; intros s q Hi Hs Hend; [simpl in Hend; congruence|].
  rewrite (Lemmas_C02.search_run_S D f s Hs) in *.
  destruct (search_command_frame s) as [A _].
  assert (H1 : steps 1 s q (search_command D s) q) by (apply step_search; assumption).
  destruct (cstate_beq (k_state (k (search_command D s))) CS_SEARCH_COMMAND) eqn:E.
  - apply internal_cstate_dec_bl in E.
    destruct (IH (search_command D s) q (idle_of_u s _ A Hi) E Hend) as [j [Hj Hst]].
    exists (1 + j). split; [lia|]. eapply steps_trans; eassumption.
  - rewrite (Lemmas_C02.search_run_stop D f _ _ eq_refl E). exists 1. split; [lia | exact H1].
Qed.

Lemma search_run_tweak : forall ty cr g fuel s,
  search_run D fuel (tweak ty cr g s) = tweak ty cr g (search_run D fuel s).
Proof.
  intros ty cr g. induction fuel as [|f IH]; intros s; [reflexivity|]. simpl search_run.
  change (k_state (k (tweak ty cr g s))) with (k_state (k s)).
  destruct (cstate_beq (k_state (k s)) CS_SEARCH_COMMAND); [|reflexivity].
  rewrite search_command_tweak. apply IH.
Qed.

Lemma search_run_frame : forall fuel s, let s' := search_run D fuel s in
  u s' = u s /\ mem s' = mem s /\ k_char (k s') = k_char (k s) /\ k_type (k s') = k_type (k s).
Proof.
  induction fuel as [|f IH]; intros s; [repeat split|]. simpl search_run.
  destruct (cstate_beq (k_state (k s)) CS_SEARCH_COMMAND); [|repeat split].
  destruct (IH (search_command D s)) as [A [B [C E]]]. destruct (search_command_frame s) as [A' [B' [C' E']]].
  cbv zeta. rewrite A, B, C, E, A', B', C', E'. repeat split.
Qed.


(* ---------- k_type during the update sweep ---------- *)
Lemma upd_type : forall s, k_type (k (update_command D s)) = k_type (k s) \/
  k_state (k (update_command D s)) = CS_SEARCH_COMMAND.
Proof.
  intros s. rewrite Lemmas_C02.update_command_unf.
  destruct (cmd_by_index (d_groups D) (k_index (k s))) as [c|]; [|left; reflexivity].
  destruct (get_cmd_state D s (k_index (k s))) as [cs|]; [|left; reflexivity].
  assert (T : k_type (k (Lemmas_C02.upd_s1 s c cs)) = k_type (k s)).
  { unfold Lemmas_C02.upd_s1, set_cmd_state. destr_all; reflexivity. }
  unfold Lemmas_C02.upd_fin. destruct (n <=? S (k_index (k s))).
  - destruct (negb (k_implicit (k (setk_index 0 (Lemmas_C02.upd_s1 s c cs))))); [left; exact T | right; reflexivity].
  - left. exact T.
Qed.

Lemma iter_upd_type : forall m s, k_state (k s) = CS_UPDATE_COMMAND_STATE -> k_index (k s) + m <= n ->
  k_state (k (iter m (update_command D) s)) <> CS_SEARCH_COMMAND ->
  k_type (k (iter m (update_command D) s)) = k_type (k s).
Proof.
  induction m as [|m IH]; intros s Hs Hm Hend; [reflexivity|]. simpl iter in *.
  destruct (upd_frame s) as [_ [_ [B C]]].
  destruct m as [|m].
  - simpl iter in *. destruct (upd_type s) as [T|T]; [exact T | contradiction].
  - assert (Hs' : k_state (k (update_command D s)) = CS_UPDATE_COMMAND_STATE) by (rewrite C by lia; exact Hs).
    rewrite IH; [| exact Hs' | lia | exact Hend].
    destruct (upd_type s) as [T|T]; [exact T | congruence].
Qed.

Lemma ncs_type : forall s ch, k_index (k s) = 0 -> k_state (k (name_char_step D s ch)) <> CS_SEARCH_COMMAND ->
  k_type (k (name_char_step D s ch)) = k_type (k s).
Proof.
  intros s ch Hx Hend. unfold name_char_step in *.
  rewrite iter_upd_type; [reflexivity | reflexivity | cbn; lia | exact Hend].
Qed.

(* ================= one command line ================= *)
Section Line.
Variable s : state.
Hypothesis Hn : 0 < n.
Hypothesis HL : n <= 4 * length (cbuf s).
Hypothesis Hf : fault s = false.
Hypothesis Hst : k_state (k s) = CS_IDLE.
Hypothesis Himp : k_implicit (k s) = false.
Hypothesis Hidle : idle s.

(* the state in which 'T' has been read *)
Definition sT : state := s |> setk_char ch_A |> setk_state CS_PARSE_PREFIX |> setk_char ch_T.
Definition P0 : state := sT |> prepare_parse_command |> setk_state CS_PARSE_COMMAND_CHAR.
Definition run (t : list N) : state := fold_left (name_char_step D) t P0.

Lemma at_steps : forall q, steps 2 s (ch_A :: ch_T :: q) P0 q.
Proof.
  intros q. change 2 with (1 + 1).
  apply (steps_trans 1 1 s _ (s |> setk_char ch_A |> setk_state CS_PARSE_PREFIX) (ch_T :: q)).
  - assert (E : idle_body (k_char (k (rd_state s ch_A))) (rd_state s ch_A) =
               (s |> setk_char ch_A |> setk_state CS_PARSE_PREFIX)).
    { unfold rd_state. rewrite Hst. reflexivity. }
    rewrite <- E. apply step_idle; assumption.
  - apply (step_prefix (s |> setk_char ch_A |> setk_state CS_PARSE_PREFIX) ch_T q); [exact Hidle | reflexivity].
Qed.

Lemma run_eq : forall t, t <> [] -> run t = fold_left (name_char_step D) t (prepare_parse_command sT).
Proof. intros t Ht. destruct t as [|c t]; [congruence | reflexivity]. Qed.

Lemma run_good : forall t, implicit_hit D s t = false ->
  fault (run t) = false /\ k_length (k (run t)) = length t /\ k_index (k (run t)) = 0 /\
  k_state (k (run t)) = CS_PARSE_COMMAND_CHAR /\ idle (run t) /\ u (run t) = u s /\ mem (run t) = mem s.
Proof.
  intros t Hh. destruct (fold_ncs_frame t P0) as [A B]. fold (run t) in A, B.
  assert (Hu : u (run t) = u s) by (rewrite A; reflexivity).
  assert (Hm : mem (run t) = mem s) by (rewrite B; reflexivity).
  assert (Hi : idle (run t)) by (apply (idle_of_u s); assumption).
  destruct t as [|c t].
  - repeat split; try assumption; try reflexivity; apply Hi.
  - rewrite run_eq in * by discriminate.
    destruct (Lemmas_C02.C02_lanes D sT (c :: t) Hn HL Hf Himp Hh) as [F [_ [Hl [Hx [Hs _]]]]].
    repeat split; try assumption; try apply Hi. apply Hs. discriminate.
Qed.

Lemma hit_snoc : forall t x, implicit_hit D s (t ++ [x]) = false -> implicit_hit D s t = false.
Proof.
  intros t x H. rewrite (Lemmas_C02.implicit_hit_snoc D s Hn HL) in H. apply orb_false_iff in H. apply H.
Qed.

Lemma run_snoc : forall t x, run (t ++ [x]) = name_char_step D (run t) x.
Proof. intros t x. unfold run. rewrite fold_left_app. reflexivity. Qed.

Lemma run_type : forall t, implicit_hit D s t = false -> k_type (k (run t)) = T_RUN.
Proof.
  induction t as [|x t IH] using rev_ind; intros Hh; [reflexivity|].
  pose proof (hit_snoc t x Hh) as Hh'.
  destruct (run_good t Hh') as [_ [_ [Hx _]]]. destruct (run_good (t ++ [x]) Hh) as [_ [_ [_ [Hs _]]]].
  rewrite run_snoc in *. rewrite ncs_type; [apply IH; exact Hh' | exact Hx | congruence].
Qed.

Definition chars_ok (name : list N) : bool := forallb (fun c => is_name_char (to_upper c)) name.

Lemma name_steps : forall name q, chars_ok name = true -> implicit_hit D s (upper name) = false ->
  steps (length name * S n) P0 (name ++ q) (run (upper name)) q.
Proof.
  induction name as [|c name IH] using rev_ind; intros q Hc Hh; [apply steps_0|].
  unfold chars_ok in Hc. rewrite forallb_app in Hc. apply andb_true_iff in Hc. destruct Hc as [Hc1 Hc2].
  simpl in Hc2. rewrite andb_true_r in Hc2.
  unfold upper in *. rewrite map_app in *. simpl map in *. fold (upper name) in *.
  pose proof (hit_snoc _ _ Hh) as Hh'.
  destruct (run_good (upper name) Hh') as [_ [_ [Hx [Hs [Hi _]]]]].
  rewrite app_length. simpl length. rewrite Nat.mul_add_distr_r, Nat.mul_1_l, <- app_assoc. simpl app.
  eapply steps_trans; [apply IH; assumption|].
  rewrite run_snoc. apply char_steps; assumption.
Qed.

Lemma name_ok_split : forall name, name_ok name = true -> name <> [] /\ chars_ok name = true.
Proof.
  intros name H. unfold name_ok in H. apply andb_true_iff in H. destruct H as [A B].
  split; [|exact B]. destruct name; [discriminate | discriminate].
Qed.


Definition NF (term : N) : cstate := if (term =? ch_LF)%N then CS_COMMAND_NOT_FOUND else CS_ERROR.

(* result of the lookup, as a predicate on the final state *)
Definition looked_up (typed : list N) (term : N) (ty : ctype) (s2 : state) : Prop :=
  mem s2 = mem s /\ fault s2 = false /\ u s2 = u s /\
  match resolve typed (enabled D s) (cmds D) with
  | Some i => k_state (k s2) = CS_COMMAND_FOUND /\ k_cmd (k s2) = Some i /\ k_type (k s2) = ty /\
              k_char (k s2) = term
  | None => k_state (k s2) = NF term
  end.

Lemma finish_search : forall typed term ty cr g q,
  typed <> [] -> implicit_hit D s typed = false ->
  exists j s2, j <= n /\ steps j (tweak ty cr g (start_search (run typed) term)) q s2 q /\
               looked_up typed term ty s2.
Proof.
  intros typed term ty cr g q Hne Hh.
  set (r := run typed). set (X := start_search r term).
  set (s2 := search_run D n X).
  destruct (run_good typed Hh) as [_ [_ [_ [_ [Hi [Hu Hm]]]]]]. fold r in Hi, Hu, Hm.
  pose proof (Lemmas_C02.C02_resolve D sT typed term Hn HL Hf Himp Hne Hh) as R.
  cbv zeta in R. rewrite <- (run_eq typed Hne) in R. fold r X s2 in R. destruct R as [F R].
  change (enabled D sT) with (enabled D s) in R.
  destruct (search_run_frame n X) as [A [B [C E]]]. fold s2 in A, B, C, E.
  assert (Hend : k_state (k (search_run D n (tweak ty cr g X))) <> CS_SEARCH_COMMAND).
  { rewrite search_run_tweak. fold s2. change (k_state (k (tweak ty cr g s2))) with (k_state (k s2)).
    destruct (resolve typed (enabled D s) (cmds D)) as [i|].
    - destruct R as [R _]. rewrite R. discriminate.
    - rewrite R. destruct (term =? ch_LF)%N; discriminate. }
  destruct (search_steps n (tweak ty cr g X) q) as [j [Hj Hst']]; [exact Hi | reflexivity | exact Hend |].
  exists j, (tweak ty cr g s2). split; [exact Hj|]. split.
  - rewrite search_run_tweak in Hst'. exact Hst'.
  - unfold looked_up. split; [change (mem s2 = mem s); rewrite B; exact Hm|]. split; [exact F|].
    split; [change (u s2 = u s); rewrite A; exact Hu|].
    destruct (resolve typed (enabled D s) (cmds D)) as [i|].
    + destruct R as [R1 R2]. split; [exact R1|]. split; [exact R2|]. split; [reflexivity|].
      change (k_char (k (tweak ty cr g s2))) with (k_char (k s2)). rewrite C. reflexivity.
    + exact R.
Qed.

(* the terminator of a RUN or WRITE request *)
Lemma term_step : forall typed term q, typed <> [] -> implicit_hit D s typed = false ->
  term = ch_LF \/ term = ch_EQ ->
  exists cr g, steps 1 (run typed) (term :: q)
    (tweak (if (term =? ch_EQ)%N then T_WRITE else T_RUN) cr g (start_search (run typed) term)) q.
Proof.
  intros typed term q Hne Hh Ht. set (r := run typed).
  destruct (run_good typed Hh) as [_ [Hl [_ [Hs [Hi _]]]]]. fold r in Hl, Hs, Hi.
  pose proof (run_type typed Hh) as Hty. fold r in Hty.
  assert (E0 : (k_length (k r) =? 0) = false).
  { apply Nat.eqb_neq. rewrite Hl. destruct typed; [congruence | simpl; lia]. }
  pose proof (step_pc r term q Hi Hs) as H1.
  destruct Ht as [-> | ->].
  - exists (k_cr (k r)), (S (gL r)).
    assert (E : pc_body (k_char (k (rd_state r ch_LF))) (rd_state r ch_LF) =
                tweak T_RUN (k_cr (k r)) (S (gL r)) (start_search r ch_LF)).
    { assert (Hrd : rd_state r ch_LF = set_gL (S (gL r)) (setk_char ch_LF r))
        by (unfold rd_state; rewrite Hs; reflexivity).
      rewrite Hrd. change (k_char (k (set_gL (S (gL r)) (setk_char ch_LF r)))) with ch_LF.
      unfold pc_body. change (ch_LF =? ch_LF)%N with true. cbv iota.
      change (k_length (k (set_gL (S (gL r)) (setk_char ch_LF r)))) with (k_length (k r)).
      rewrite E0. cbn [negb]. rewrite <- Hty. reflexivity. }
    rewrite E in H1. exact H1.
  - exists (k_cr (k r)), (gL r).
    assert (E : pc_body (k_char (k (rd_state r ch_EQ))) (rd_state r ch_EQ) =
                tweak T_WRITE (k_cr (k r)) (gL r) (start_search r ch_EQ)).
    { assert (Hrd : rd_state r ch_EQ = setk_char ch_EQ r)
        by (unfold rd_state; rewrite Hs; reflexivity).
      rewrite Hrd. change (k_char (k (setk_char ch_EQ r))) with ch_EQ.
      unfold pc_body. change (ch_EQ =? ch_LF)%N with false. change (ch_EQ =? ch_CR)%N with false.
      change (ch_EQ =? ch_QM)%N with false. change (ch_EQ =? ch_EQ)%N with true. cbv iota.
      change (k_length (k (setk_char ch_EQ r))) with (k_length (k r)).
      rewrite E0. reflexivity. }
    rewrite E in H1. exact H1.
Qed.

Lemma dispatch_line : forall name term rest,
  name_ok name = true -> term = ch_LF \/ term = ch_EQ -> implicit_hit D s (upper name) = false ->
  exists calls s2, calls <= 3 + length name * S n + n /\
    steps calls s ([ch_A; ch_T] ++ name ++ [term] ++ rest) s2 rest /\
    looked_up (upper name) term (if (term =? ch_EQ)%N then T_WRITE else T_RUN) s2.
Proof.
  intros name term rest Hok Ht Hh.
  destruct (name_ok_split name Hok) as [Hne Hc].
  assert (Hne' : upper name <> []) by (destruct name; [congruence | discriminate]).
  destruct (term_step (upper name) term rest Hne' Hh Ht) as [cr [g H3]].
  destruct (finish_search (upper name) term (if (term =? ch_EQ)%N then T_WRITE else T_RUN) cr g rest Hne' Hh)
    as [j [s2 [Hj [H4 HR]]]].
  exists (2 + (length name * S n + (1 + j))), s2. split; [lia|]. split; [|exact HR].
  simpl app.
  eapply steps_trans; [apply at_steps|].
  eapply steps_trans; [apply (name_steps name (term :: rest) Hc Hh)|].
  eapply steps_trans; [exact H3 | exact H4].
Qed.


(* ---------- the READ form: '?' , CRs, LF ---------- *)
Definition WR (typed : list N) (cr : bool) (ch : N) : state :=
  run typed |> setk_char ch |> setk_type T_READ |> setk_cr cr |> setk_state CS_WAIT_READ_ACK.

Lemma qm_step : forall typed q, typed <> [] -> implicit_hit D s typed = false ->
  steps 1 (run typed) (ch_QM :: q) (WR typed (k_cr (k (run typed))) ch_QM) q.
Proof.
  intros typed q Hne Hh. set (r := run typed).
  destruct (run_good typed Hh) as [_ [Hl [_ [Hs [Hi _]]]]]. fold r in Hl, Hs, Hi.
  assert (E0 : (k_length (k r) =? 0) = false).
  { apply Nat.eqb_neq. rewrite Hl. destruct typed; [congruence | simpl; lia]. }
  pose proof (step_pc r ch_QM q Hi Hs) as H1.
  assert (E : pc_body (k_char (k (rd_state r ch_QM))) (rd_state r ch_QM) = WR typed (k_cr (k r)) ch_QM).
  { assert (Hrd : rd_state r ch_QM = setk_char ch_QM r)
      by (unfold rd_state; rewrite Hs; reflexivity).
    rewrite Hrd. change (k_char (k (setk_char ch_QM r))) with ch_QM.
    unfold pc_body. change (ch_QM =? ch_LF)%N with false. change (ch_QM =? ch_CR)%N with false.
    change (ch_QM =? ch_QM)%N with true. cbv iota.
    change (k_length (k (setk_char ch_QM r))) with (k_length (k r)).
    rewrite E0. reflexivity. }
  rewrite E in H1. exact H1.
Qed.

Lemma cr_steps : forall typed, implicit_hit D s typed = false ->
  forall m cr ch q, exists cr' ch', steps m (WR typed cr ch) (repeat ch_CR m ++ q) (WR typed cr' ch') q.
Proof.
  intros typed Hh. destruct (run_good typed Hh) as [_ [_ [_ [_ [Hi _]]]]].
  induction m as [|m IH]; intros cr ch q.
  - exists cr, ch. apply steps_0.
  - destruct (IH true ch_CR q) as [cr' [ch' H2]]. exists cr', ch'.
    change (S m) with (1 + m). simpl repeat. simpl app.
    eapply steps_trans; [|exact H2].
    exact (step_wra (WR typed cr ch) ch_CR (repeat ch_CR m ++ q) Hi eq_refl).
Qed.

Lemma lf_step : forall typed, implicit_hit D s typed = false ->
  forall cr ch q, steps 1 (WR typed cr ch) (ch_LF :: q)
    (tweak T_READ cr (S (gL (run typed))) (start_search (run typed) ch_LF)) q.
Proof.
  intros typed Hh cr ch q. destruct (run_good typed Hh) as [_ [_ [_ [_ [Hi _]]]]].
  exact (step_wra (WR typed cr ch) ch_LF q Hi eq_refl).
Qed.

Lemma read_line : forall name m rest,
  name_ok name = true -> implicit_hit D s (upper name) = false ->
  exists calls s2, calls <= 4 + m + length name * S n + n /\
    steps calls s ([ch_A; ch_T] ++ name ++ [ch_QM] ++ repeat ch_CR m ++ [ch_LF] ++ rest) s2 rest /\
    looked_up (upper name) ch_LF T_READ s2.
Proof.
  intros name m rest Hok Hh.
  destruct (name_ok_split name Hok) as [Hne Hc].
  assert (Hne' : upper name <> []) by (destruct name; [congruence | discriminate]).
  destruct (cr_steps (upper name) Hh m (k_cr (k (run (upper name)))) ch_QM (ch_LF :: rest)) as [cr [ch H4]].
  destruct (finish_search (upper name) ch_LF T_READ cr (S (gL (run (upper name)))) rest Hne' Hh)
    as [j [s2 [Hj [H6 HR]]]].
  exists (2 + (length name * S n + (1 + (m + (1 + j))))), s2. split; [lia|]. split; [|exact HR].
  simpl app.
  eapply steps_trans; [apply at_steps|].
  eapply steps_trans; [apply (name_steps name (ch_QM :: repeat ch_CR m ++ ch_LF :: rest) Hc Hh)|].
  eapply steps_trans; [apply qm_step; assumption|].
  eapply steps_trans; [exact H4|].
  eapply steps_trans; [apply lf_step; assumption | exact H6].
Qed.

(* ---------- the implicit-write form ---------- *)
Lemma implicit_line : forall name rest,
  name_ok name = true ->
  implicit_hit D s (removelast (upper name)) = false -> implicit_hit D s (upper name) = true ->
  exists calls s2, calls <= 2 + length name * S n + n /\
    steps calls s ([ch_A; ch_T] ++ name ++ rest) s2 rest /\
    mem s2 = mem s /\ fault s2 = false /\ u s2 = u s /\
    k_state (k s2) = CS_COMMAND_FOUND /\ k_cmd (k s2) = find_full (upper name) (enabled D s) (cmds D) 0 /\
    k_cmd (k s2) <> None /\ k_type (k s2) = T_WRITE.
Proof.
  intros name rest Hok H1 H2.
  destruct (name_ok_split name Hok) as [Hne Hc].
  assert (Hne' : upper name <> []) by (destruct name; [congruence | discriminate]).
  pose proof (Lemmas_C02.C02_implicit D sT (upper name) Hn HL Hf Himp Hne' H1 H2) as R.
  cbv zeta in R. rewrite <- (run_eq _ Hne') in R.
  destruct R as [Rs [Rt [_ [F [Rf [Rc Rn]]]]]].
  change (enabled D sT) with (enabled D s) in Rc.
  destruct (exists_last Hne) as [name' [c E]]. subst name.
  unfold chars_ok in Hc. rewrite forallb_app in Hc. apply andb_true_iff in Hc. destruct Hc as [Hc1 Hc2].
  simpl in Hc2. rewrite andb_true_r in Hc2.
  unfold upper in *. rewrite map_app in *. simpl map in *. fold (upper name') in *.
  rewrite removelast_last in H1.
  destruct (run_good (upper name') H1) as [_ [_ [Hx [Hs [Hi _]]]]].
  set (s1 := run (upper name' ++ [to_upper c])) in *.
  destruct (fold_ncs_frame (upper name' ++ [to_upper c]) P0) as [A B]. fold (run (upper name' ++ [to_upper c])) in A, B.
  fold s1 in A, B.
  assert (Hi1 : idle s1) by (apply (idle_of_u s); [rewrite A; reflexivity | exact Hidle]).
  destruct (search_steps n s1 rest Hi1 Rs) as [j [Hj H4]]; [rewrite Rf; discriminate|].
  destruct (search_run_frame n s1) as [A' [B' [_ E']]].
  exists (2 + (length name' * S n + (S n + j))), (search_run D n s1). split.
  { rewrite app_length. simpl length. lia. }
  split.
  { simpl app. rewrite <- app_assoc. simpl app.
    eapply steps_trans; [apply at_steps|].
    eapply steps_trans; [apply (name_steps name' (c :: rest) Hc1 H1)|].
    eapply steps_trans; [|exact H4].
    unfold s1. rewrite run_snoc. apply char_steps; assumption. }
  split; [rewrite B', B; reflexivity|]. split; [exact F|]. split; [rewrite A', A; reflexivity|].
  split; [exact Rf|]. split; [exact Rc|]. split; [exact Rn|]. rewrite E'. exact Rt.
Qed.

End Line.
End Glue.

(* ================= the final statements ================= *)
Lemma steps_world : forall D calls s q s2 q2 h, steps D calls s q s2 q2 ->
  let w := nsvc D calls (mkw s q h []) in
  wst w = s2 /\ inq (wio w) = q2 /\ whs w = h /\ calls_of (wtr w) = [] /\ output_of (wtr w) = [].
Proof.
  intros D calls s q s2 q2 h H w. destruct (H h []) as [t' [Q E]]. unfold w. rewrite E.
  rewrite app_nil_r. destruct (quiet_spec t' Q) as [A B].
  split; [reflexivity|]. split; [reflexivity|]. split; [reflexivity|]. split; [exact A | exact B].
Qed.

Theorem C02_dispatch : forall D s name term rest h,
  d_mutex D = false ->
  let n := ncmds D in
  0 < n -> n <= 4 * length (cbuf s) -> fault s = false ->
  k_state (k s) = CS_IDLE -> k_implicit (k s) = false ->
  u_state (u s) = US_IDLE -> u_count (u s) = 0 ->
  name_ok name = true -> (term = ch_LF \/ term = ch_EQ) ->
  implicit_hit D s (upper name) = false ->
  let typed := upper name in
  let w0 := mkw s ([ch_A; ch_T] ++ name ++ [term] ++ rest) h [] in
  exists calls, calls <= 3 + length name * (S n) + n /\
    let w := nsvc D calls w0 in
    inq (wio w) = rest /\ whs w = h /\ calls_of (wtr w) = [] /\ output_of (wtr w) = [] /\
    mem (wst w) = mem s /\ fault (wst w) = false /\ u (wst w) = u s /\
    match resolve typed (enabled D s) (cmds D) with
    | Some i => k_state (k (wst w)) = CS_COMMAND_FOUND /\ k_cmd (k (wst w)) = Some i /\
                k_type (k (wst w)) = (if (term =? ch_EQ)%N then T_WRITE else T_RUN) /\
                k_char (k (wst w)) = term
    | None => k_state (k (wst w)) = (if (term =? ch_LF)%N then CS_COMMAND_NOT_FOUND else CS_ERROR)
    end.
Proof.
  intros D s name term rest h Hmx n Hn HL Hf Hst Himp Hu1 Hu2 Hok Ht Hh typed w0.
  destruct (dispatch_line D Hmx s Hn HL Hf Hst Himp (conj Hu1 Hu2) name term rest Hok Ht Hh)
    as [calls [s2 [Hc [Hsteps [M [F [U R]]]]]]].
  exists calls. split; [exact Hc|]. intros w.
  destruct (steps_world D calls s _ s2 rest h Hsteps) as [E1 [E2 [E3 [E4 E5]]]].
  fold w0 in E1, E2, E3, E4, E5. fold w in E1, E2, E3, E4, E5. rewrite E1.
  repeat (split; [assumption|]). exact R.
Qed.

Theorem C02_dispatch_read_cr : forall D s name m rest h,
  d_mutex D = false ->
  let n := ncmds D in
  0 < n -> n <= 4 * length (cbuf s) -> fault s = false ->
  k_state (k s) = CS_IDLE -> k_implicit (k s) = false ->
  u_state (u s) = US_IDLE -> u_count (u s) = 0 ->
  name_ok name = true ->
  implicit_hit D s (upper name) = false ->
  let typed := upper name in
  let w0 := mkw s ([ch_A; ch_T] ++ name ++ [ch_QM] ++ repeat ch_CR m ++ [ch_LF] ++ rest) h [] in
  exists calls, calls <= 4 + m + length name * (S n) + n /\
    let w := nsvc D calls w0 in
    inq (wio w) = rest /\ whs w = h /\ calls_of (wtr w) = [] /\ output_of (wtr w) = [] /\
    mem (wst w) = mem s /\ fault (wst w) = false /\ u (wst w) = u s /\
    match resolve typed (enabled D s) (cmds D) with
    | Some i => k_state (k (wst w)) = CS_COMMAND_FOUND /\ k_cmd (k (wst w)) = Some i /\
                k_type (k (wst w)) = T_READ /\ k_char (k (wst w)) = ch_LF
    | None => k_state (k (wst w)) = CS_COMMAND_NOT_FOUND
    end.
Proof.
  intros D s name m rest h Hmx n Hn HL Hf Hst Himp Hu1 Hu2 Hok Hh typed w0.
  destruct (read_line D Hmx s Hn HL Hf Hst Himp (conj Hu1 Hu2) name m rest Hok Hh)
    as [calls [s2 [Hc [Hsteps [M [F [U R]]]]]]].
  exists calls. split; [exact Hc|]. intros w.
  destruct (steps_world D calls s _ s2 rest h Hsteps) as [E1 [E2 [E3 [E4 E5]]]].
  fold w0 in E1, E2, E3, E4, E5. fold w in E1, E2, E3, E4, E5. rewrite E1.
  repeat (split; [assumption|]). exact R.
Qed.

Theorem C02_dispatch_read : forall D s name rest h,
  d_mutex D = false ->
  let n := ncmds D in
  0 < n -> n <= 4 * length (cbuf s) -> fault s = false ->
  k_state (k s) = CS_IDLE -> k_implicit (k s) = false ->
  u_state (u s) = US_IDLE -> u_count (u s) = 0 ->
  name_ok name = true ->
  implicit_hit D s (upper name) = false ->
  let typed := upper name in
  let w0 := mkw s ([ch_A; ch_T] ++ name ++ [ch_QM; ch_LF] ++ rest) h [] in
  exists calls, calls <= 4 + length name * (S n) + n /\
    let w := nsvc D calls w0 in
    inq (wio w) = rest /\ whs w = h /\ calls_of (wtr w) = [] /\ output_of (wtr w) = [] /\
    mem (wst w) = mem s /\ fault (wst w) = false /\ u (wst w) = u s /\
    match resolve typed (enabled D s) (cmds D) with
    | Some i => k_state (k (wst w)) = CS_COMMAND_FOUND /\ k_cmd (k (wst w)) = Some i /\
                k_type (k (wst w)) = T_READ /\ k_char (k (wst w)) = ch_LF
    | None => k_state (k (wst w)) = CS_COMMAND_NOT_FOUND
    end.
Proof.
  intros D s name rest h Hmx n Hn HL Hf Hst Himp Hu1 Hu2 Hok Hh.
  exact (C02_dispatch_read_cr D s name 0 rest h Hmx Hn HL Hf Hst Himp Hu1 Hu2 Hok Hh).
Qed.

Theorem C02_dispatch_implicit : forall D s name rest h,
  d_mutex D = false ->
  let n := ncmds D in
  0 < n -> n <= 4 * length (cbuf s) -> fault s = false ->
  k_state (k s) = CS_IDLE -> k_implicit (k s) = false ->
  u_state (u s) = US_IDLE -> u_count (u s) = 0 ->
  name_ok name = true ->
  let typed := upper name in
  implicit_hit D s (removelast typed) = false -> implicit_hit D s typed = true ->
  let w0 := mkw s ([ch_A; ch_T] ++ name ++ rest) h [] in
  exists calls, calls <= 2 + length name * (S n) + n /\
    let w := nsvc D calls w0 in
    inq (wio w) = rest /\ whs w = h /\ calls_of (wtr w) = [] /\ output_of (wtr w) = [] /\
    mem (wst w) = mem s /\ fault (wst w) = false /\ u (wst w) = u s /\
    k_state (k (wst w)) = CS_COMMAND_FOUND /\
    k_cmd (k (wst w)) = find_full typed (enabled D s) (cmds D) 0 /\ k_cmd (k (wst w)) <> None /\
    k_type (k (wst w)) = T_WRITE.
Proof.
  intros D s name rest h Hmx n Hn HL Hf Hst Himp Hu1 Hu2 Hok typed H1 H2 w0.
  destruct (implicit_line D Hmx s Hn HL Hf Hst Himp (conj Hu1 Hu2) name rest Hok H1 H2)
    as [calls [s2 [Hc [Hsteps R]]]].
  exists calls. split; [exact Hc|]. intros w.
  destruct (steps_world D calls s _ s2 rest h Hsteps) as [E1 [E2 [E3 [E4 E5]]]].
  fold w0 in E1, E2, E3, E4, E5. fold w in E1, E2, E3, E4, E5. rewrite E1.
  repeat (split; [assumption|]). exact R.
Qed.

(* ---------- examples (non-vacuity), by computation; table exC02_D of Lemmas_C02.v:
   "+TA" "+tB" ""  |  "Z" "+T" "+TA"(implicit) "+TAB"  |  "+TC"(implicit) "+TCD" "Q" "QR"(implicit) "+z" ---------- *)
Definition exC02e_obs (w : sworld) :=
  (k_state (k (wst w)), k_cmd (k (wst w)), k_type (k (wst w)), k_char (k (wst w)), inq (wio w),
   calls_of (wtr w), output_of (wtr w), fault (wst w)).
Definition exC02e_hyps (D : desc) (s : state) : bool :=
  negb (d_mutex D) && (0 <? ncmds D) && (ncmds D <=? 4 * length (cbuf s)) && negb (fault s) &&
  cstate_beq (k_state (k s)) CS_IDLE && negb (k_implicit (k s)) && ustate_beq (u_state (u s)) US_IDLE &&
  (u_count (u s) =? 0).
Definition exC02e_go (line : list N) (calls : nat) :=
  exC02e_obs (nsvc Lemmas_C02.exC02_D calls (mkw Lemmas_C02.exC02_s line [] [])).

Example exC02e_hyps_ok : exC02e_hyps Lemmas_C02.exC02_D Lemmas_C02.exC02_s = true /\
  name_ok [43; 116]%N = true /\ implicit_hit Lemmas_C02.exC02_D Lemmas_C02.exC02_s (upper [43; 116]%N) = false /\
  resolve (upper [43; 116]%N) (enabled Lemmas_C02.exC02_D Lemmas_C02.exC02_s) (cmds Lemmas_C02.exC02_D) = Some 4 /\
  resolve (upper [43]%N) (enabled Lemmas_C02.exC02_D Lemmas_C02.exC02_s) (cmds Lemmas_C02.exC02_D) = None.
Proof. vm_compute. repeat split. Qed.

(* "AT+t" LF "123" : 34 = 2 + 2*13 + 1 + 5 calls; "AT+t=123"; "AT+t?" CR LF "123"; the ambiguous "AT+" *)
Example exC02e_dispatch_ex :
  exC02e_go [65; 84; 43; 116; 10; 1; 2; 3]%N 34 =
    (CS_COMMAND_FOUND, Some 4, T_RUN, 10%N, [1; 2; 3]%N, [], [], false) /\
  exC02e_go [65; 84; 43; 116; 61; 1; 2; 3]%N 34 =
    (CS_COMMAND_FOUND, Some 4, T_WRITE, 61%N, [1; 2; 3]%N, [], [], false) /\
  exC02e_go [65; 84; 43; 116; 63; 13; 10; 1; 2; 3]%N 36 =
    (CS_COMMAND_FOUND, Some 4, T_READ, 10%N, [1; 2; 3]%N, [], [], false) /\
  (let '(a, _, _, _, q, _, _, _) := exC02e_go [65; 84; 43; 10; 1; 2; 3]%N 28 in (a, q)) =
    (CS_COMMAND_NOT_FOUND, [1; 2; 3]%N) /\
  (let '(a, _, _, _, q, _, _, _) := exC02e_go [65; 84; 43; 61; 1; 2; 3]%N 28 in (a, q)) =
    (CS_ERROR, [1; 2; 3]%N).
Proof. vm_compute. repeat split. Qed.

(* "AT+TA" : implicit write (command 5), found command 0 (same name, first), next byte not consumed *)
Example exC02e_implicit_ex :
  implicit_hit Lemmas_C02.exC02_D Lemmas_C02.exC02_s (removelast (upper [43; 84; 65]%N)) = false /\
  implicit_hit Lemmas_C02.exC02_D Lemmas_C02.exC02_s (upper [43; 84; 65]%N) = true /\
  (let '(a, b, c, _, q, _, _, _) := exC02e_go [65; 84; 43; 84; 65; 1; 2; 3]%N 42 in (a, b, c, q)) =
    (CS_COMMAND_FOUND, Some 0, T_WRITE, [1; 2; 3]%N).
Proof. vm_compute. repeat split. Qed.

Print Assumptions C02_dispatch.
Print Assumptions C02_dispatch_read_cr.
Print Assumptions C02_dispatch_read.
Print Assumptions C02_dispatch_implicit.
