(* EvSkelSim.v — the model (Fsm.v) obeys the event skeleton (EvSkel.v): for arbitrary oracles and
   ANY world, the new trace events of one step of each machine are those allowed by the row of
   the state the step was taken in.  Corollaries: input is requested only in the reading states,
   bytes are written only by the machine that is in its FLUSH state, every callback of the
   command machine concerns the selected command, at most one callback per step. *)
From Coq Require Import List NArith ZArith Bool Arith.
From CatV Require Import Bytes Defs Codec Fsm Skel SkelInv EvSkel.
Import ListNotations.
Local Open Scope nat_scope.

(* the command a request is about *)
Definition req_cmd (q : hreq) : nat :=
  match q with
  | HWrite ci _ _ _ | HRead _ ci _ _ _ | HTest _ ci _ _ _ | HRun ci | VRead _ ci _
  | VWrite ci _ _ _ => ci
  end.

Definition is_call_ev (e : event) : bool := match e with ECall _ _ => true | _ => false end.

(* ------------------------------------------------------------------ *)
(* pure facts about the skeleton rows                                   *)
(* ------------------------------------------------------------------ *)

Lemma call_evs_in : forall q evs e, call_evs q evs -> In e evs ->
  is_inner_ev e = true \/ exists code, e = ECall q code.
Proof.
  intros q evs e [code [inner [E F]]] H. subst evs. apply in_app_or in H. destruct H as [H|H].
  - left. rewrite forallb_forall in F. apply F. exact H.
  - right. destruct H as [H|[]]. exists code. symmetry. exact H.
Qed.

Lemma call_evs_no_rd : forall q evs r, call_evs q evs -> ~ In (ERd r) evs.
Proof.
  intros q evs r C H. destruct (call_evs_in _ _ _ C H) as [I|[code I]]; discriminate I.
Qed.

Lemma call_evs_no_wr : forall q evs f ch ok, call_evs q evs -> ~ In (EWr f ch ok) evs.
Proof.
  intros q evs f ch ok C H. destruct (call_evs_in _ _ _ C H) as [I|[code I]]; discriminate I.
Qed.

Lemma call_evs_call : forall q evs q' code, call_evs q evs -> In (ECall q' code) evs -> q' = q.
Proof.
  intros q evs q' code C H. destruct (call_evs_in _ _ _ C H) as [I|[code' I]].
  - discriminate I.
  - injection I as E _. exact E.
Qed.

Lemma filter_inner_nil : forall inner, forallb is_inner_ev inner = true ->
  filter is_call_ev inner = [].
Proof.
  induction inner as [|e t IH]; intros H.
  - reflexivity.
  - cbn [forallb] in H. apply andb_true_iff in H. destruct H as [He Ht].
    cbn [filter]. destruct e; try discriminate He; cbn [is_call_ev]; apply IH; exact Ht.
Qed.

Lemma call_evs_one : forall q evs, call_evs q evs -> length (filter is_call_ev evs) = 1.
Proof.
  intros q evs [code [inner [E F]]]. subst evs. rewrite filter_app.
  rewrite (filter_inner_nil _ F). reflexivity.
Qed.

(* ------------------------------------------------------------------ *)
Section EvSkelSim.
Variable D : desc.
Variables ioS muS hS : Type.
Variable io_read : ioS -> ioS * option N.
Variable io_write : ioS -> N -> ioS * bool.
Variable mu_lock : muS -> muS * bool.
Variable mu_unlock : muS -> muS * bool.
Variable h_call : hS -> hreq -> hS * hres.

Local Notation world := (Fsm.world ioS muS hS).
Local Notation st := (Fsm.st ioS muS hS).
Local Notation io := (Fsm.io ioS muS hS).
Local Notation mu := (Fsm.mu ioS muS hS).
Local Notation hs := (Fsm.hs ioS muS hS).
Local Notation tr := (Fsm.tr ioS muS hS).
Local Notation set_st := (Fsm.set_st ioS muS hS).
Local Notation set_io := (Fsm.set_io ioS muS hS).
Local Notation set_mu := (Fsm.set_mu ioS muS hS).
Local Notation set_hs := (Fsm.set_hs ioS muS hS).
Local Notation logw := (Fsm.logw ioS muS hS).
Local Notation upd_st := (Fsm.upd_st ioS muS hS).
Local Notation busy := (Fsm.busy ioS muS hS).
Local Notation bracket := (Fsm.bracket D ioS muS hS mu_lock mu_unlock).
Local Notation api_trigger := (Fsm.api_trigger D ioS muS hS mu_lock mu_unlock).
Local Notation api_hold_exit := (Fsm.api_hold_exit D ioS muS hS mu_lock mu_unlock).
Local Notation apply_icall := (Fsm.apply_icall D ioS muS hS mu_lock mu_unlock).
Local Notation call_h := (Fsm.call_h D ioS muS hS mu_lock mu_unlock h_call).
Local Notation read_cmd_char := (Fsm.read_cmd_char ioS muS hS io_read).
Local Notation reading := (Fsm.reading ioS muS hS io_read).
Local Notation parse_write_args := (Fsm.parse_write_args D ioS muS hS mu_lock mu_unlock h_call).
Local Notation format_read_args := (Fsm.format_read_args D ioS muS hS mu_lock mu_unlock h_call).
Local Notation process_write_loop := (Fsm.process_write_loop D ioS muS hS mu_lock mu_unlock h_call).
Local Notation process_run_loop := (Fsm.process_run_loop D ioS muS hS mu_lock mu_unlock h_call).
Local Notation process_rt_loop := (Fsm.process_rt_loop D ioS muS hS mu_lock mu_unlock h_call).
Local Notation process_io_write := (Fsm.process_io_write ioS muS hS io_write).
Local Notation unsolicited_process_io_write := (Fsm.unsolicited_process_io_write ioS muS hS io_write).
Local Notation unsolicited_events_service :=
  (Fsm.unsolicited_events_service D ioS muS hS io_write mu_lock mu_unlock h_call).
Local Notation cmd_service :=
  (Fsm.cmd_service D ioS muS hS io_read io_write mu_lock mu_unlock h_call).
Local Notation service_body :=
  (Fsm.service_body D ioS muS hS io_read io_write mu_lock mu_unlock h_call).

(* unfolding of the world plumbing; never touches arithmetic *)
Ltac wred := cbn [fst snd Fsm.busy Fsm.upd_st Fsm.set_st Fsm.set_io Fsm.set_mu Fsm.set_hs
                  Fsm.logw Fsm.tr Fsm.st Fsm.io Fsm.mu Fsm.hs].
Ltac wred_in H := cbn [fst snd Fsm.busy Fsm.upd_st Fsm.set_st Fsm.set_io Fsm.set_mu Fsm.set_hs
                       Fsm.logw Fsm.tr Fsm.st Fsm.io Fsm.mu Fsm.hs] in H.

(* ------------------------------------------------------------------ *)
(* lock; body; unlock                                                   *)
(* ------------------------------------------------------------------ *)

Lemma bracket_evs : forall (w : world) (body : world -> world * Z),
  (forall w0, tr (fst (body w0)) = tr w0) ->
  exists evs, tr (fst (bracket w body)) = evs ++ tr w /\ forallb is_inner_ev evs = true.
Proof.
  intros w body Hb. unfold Fsm.bracket. destruct (d_mutex D).
  - destruct (mu_lock (mu w)) as [m1 ok]. destruct ok; cbn [negb]; cbv zeta.
    + pose proof (Hb (logw (ELock true) (set_mu m1 w))) as H.
      destruct (body (logw (ELock true) (set_mu m1 w))) as [w2 s]. wred_in H.
      destruct (mu_unlock (mu w2)) as [m2 ok2]. exists [EUnlock ok2; ELock true].
      destruct ok2; cbn [negb]; wred; rewrite H; split; reflexivity.
    + exists [ELock false]. split; reflexivity.
  - exists []. split; [apply Hb | reflexivity].
Qed.

Lemma apply_icall_evs : forall (w : world) c,
  exists evs, tr (apply_icall w c) = evs ++ tr w /\ forallb is_inner_ev evs = true.
Proof.
  intros w c. unfold Fsm.apply_icall, Fsm.api_trigger, Fsm.api_hold_exit.
  destruct c as [ci t | status].
  - match goal with |- context [bracket ?w0 ?b] =>
      destruct (bracket_evs w0 b) as [evs [T I]];
      [ intros w1; destruct (push_unsolicited_cmd D (st w1) ci t); reflexivity | ];
      destruct (bracket w0 b) as [w' r] end.
    wred_in T. exists (EInner (ITrigger ci t) r :: evs). wred. rewrite T.
    split; [reflexivity | cbn [forallb is_inner_ev andb]; exact I].
  - match goal with |- context [bracket ?w0 ?b] =>
      destruct (bracket_evs w0 b) as [evs [T I]];
      [ intros w1; destruct (hold_exit (st w1) status); reflexivity | ];
      destruct (bracket w0 b) as [w' r] end.
    wred_in T. exists (EInner (IHoldExit status) r :: evs). wred. rewrite T.
    split; [reflexivity | cbn [forallb is_inner_ev andb]; exact I].
Qed.

Lemma fold_icall_evs : forall l (w : world),
  exists evs, tr (fold_left apply_icall l w) = evs ++ tr w /\ forallb is_inner_ev evs = true.
Proof.
  induction l as [|c l IH]; intros w.
  - exists []. split; reflexivity.
  - cbn [fold_left]. destruct (IH (apply_icall w c)) as [e2 [T2 I2]].
    destruct (apply_icall_evs w c) as [e1 [T1 I1]].
    exists (e2 ++ e1). split.
    + rewrite T2, T1. apply app_assoc.
    + rewrite forallb_app, I1, I2. reflexivity.
Qed.

(* one callback: the call record, then (newer) the inner API calls of the handler *)
Theorem call_h_evs : forall (w : world) q,
  exists evs, tr (fst (call_h w q)) = evs ++ tr w /\ call_evs q evs.
Proof.
  intros w q. unfold Fsm.call_h. destruct (h_call (hs w) q) as [hs' r]. cbv zeta. cbn [fst].
  match goal with |- context [fold_left apply_icall ?l ?w0] =>
    destruct (fold_icall_evs l w0) as [inner [T I]] end.
  wred_in T. exists (inner ++ [ECall q (r_code r)]). split.
  - rewrite T. rewrite <- app_assoc. reflexivity.
  - exists (r_code r), inner. split; [reflexivity | exact I].
Qed.

(* ------------------------------------------------------------------ *)
(* the state functions                                                  *)
(* ------------------------------------------------------------------ *)

Lemma read_cmd_char_evs : forall (w : world),
  exists r, tr (fst (read_cmd_char w)) = [ERd r] ++ tr w.
Proof.
  intros w. unfold Fsm.read_cmd_char. destruct (io_read (io w)) as [io' r]. cbv zeta.
  exists r. destruct r; reflexivity.
Qed.

Lemma reading_evs : forall (w : world) body,
  exists r, tr (fst (reading w body)) = [ERd r] ++ tr w.
Proof.
  intros w body. unfold Fsm.reading. destruct (read_cmd_char_evs w) as [r T].
  destruct (read_cmd_char w) as [w1 got]. wred_in T. exists r.
  destruct got; cbn [negb]; wred; exact T.
Qed.

(* drive the case analysis of a state function: split the outermost scrutinee; a callback is
   replaced by its event description *)
Ltac ev_call w q :=
  let evs := fresh "evs" in let T := fresh "T" in let C := fresh "C" in
  destruct (call_h_evs w q) as [evs [T C]];
  destruct (call_h w q) as [? ?]; wred_in T.

Ltac ev_split x :=
  lazymatch x with
  | call_h ?w ?q => ev_call w q
  | _ => destruct x eqn:?
  end.

Ltac ev_match :=
  match goal with
  | |- exists evs, tr (fst (match (match ?x with _ => _ end) with _ => _ end)) = _ /\ _ => ev_split x
  | |- exists evs, tr (fst (match ?x with _ => _ end)) = _ /\ _ => ev_split x
  end.

Ltac ev_go := repeat (cbv beta iota zeta; ev_match).

(* nothing logged *)
Ltac ev_nil := exists []; split; [reflexivity | left; reflexivity].

Lemma parse_write_args_evs : forall (w : world),
  exists evs, tr (fst (parse_write_args w)) = evs ++ tr w /\
    (evs = [] \/ exists ci ws stored, k_cmd (k (st w)) = Some ci /\
       call_evs (VWrite ci (k_var (k (st w))) ws stored) evs).
Proof.
  intros w. unfold Fsm.parse_write_args. ev_go; wred; try solve [ev_nil].
  all: eexists; split; [eassumption|]; right; do 3 eexists; split; first [eassumption | reflexivity].
Qed.

Lemma format_read_args_evs : forall f (w : world),
  exists evs, tr (fst (format_read_args f w)) = evs ++ tr w /\
    (evs = [] \/ exists ci, g_cmd f (st w) = Some ci /\ call_evs (VRead f ci (g_var f (st w))) evs).
Proof.
  intros f w. unfold Fsm.format_read_args. ev_go; wred; try solve [ev_nil].
  all: eexists; split; [eassumption|]; right; eexists; split; first [eassumption | reflexivity].
Qed.

Lemma process_write_loop_evs : forall (w : world),
  exists evs, tr (fst (process_write_loop w)) = evs ++ tr w /\
    (evs = [] \/ exists ci, k_cmd (k (st w)) = Some ci /\
       call_evs (HWrite ci (firstn (S (k_length (k (st w)))) (cbuf (st w)))
                        (k_length (k (st w))) (k_index (k (st w)))) evs).
Proof.
  intros w. unfold Fsm.process_write_loop. ev_go; wred; try solve [ev_nil].
  all: eexists; split; [eassumption|]; right; eexists; split; first [eassumption | reflexivity].
Qed.

Lemma process_run_loop_evs : forall (w : world),
  exists evs, tr (fst (process_run_loop w)) = evs ++ tr w /\
    (evs = [] \/ exists ci, k_cmd (k (st w)) = Some ci /\ call_evs (HRun ci) evs).
Proof.
  intros w. unfold Fsm.process_run_loop. ev_go; wred; try solve [ev_nil].
  all: eexists; split; [eassumption|]; right; eexists; split; first [eassumption | reflexivity].
Qed.

Lemma process_rt_loop_evs : forall rd f (w : world),
  exists evs, tr (fst (process_rt_loop rd f w)) = evs ++ tr w /\
    (evs = [] \/ exists ci, g_cmd f (st w) = Some ci /\
       call_evs (if rd then HRead f ci (firstn (S (g_pos f (st w))) (g_buf f (st w)))
                                  (g_pos f (st w)) (g_bsz f (st w))
                 else HTest f ci (firstn (S (g_pos f (st w))) (g_buf f (st w)))
                                  (g_pos f (st w)) (g_bsz f (st w))) evs).
Proof.
  intros rd f w. unfold Fsm.process_rt_loop. ev_go; wred; try solve [ev_nil].
  all: eexists; split; [eassumption|]; right; eexists; split; first [eassumption | reflexivity].
Qed.

Lemma process_io_write_evs : forall (w : world),
  exists evs, tr (fst (process_io_write w)) = evs ++ tr w /\
    (evs = [] \/ exists ch ok, evs = [EWr ATCMD ch ok] /\ ch <> 0%N /\
       wbuf_char (k_wbuf (k (st w))) (cbuf (st w)) (k_position (k (st w))) = Some ch).
Proof.
  intros w. unfold Fsm.process_io_write. cbv zeta.
  destruct (wbuf_char (k_wbuf (k (st w))) (cbuf (st w)) (k_position (k (st w)))) as [ch|] eqn:E.
  - destruct (N.eqb_spec ch 0) as [Z|NZ].
    + ev_nil.
    + destruct (io_write (io w) ch) as [io' ok]. exists [EWr ATCMD ch ok]. split.
      * destruct ok; reflexivity.
      * right. exists ch, ok. split; [reflexivity | split; [exact NZ | reflexivity]].
  - ev_nil.
Qed.

Lemma unsolicited_process_io_write_evs : forall (w : world),
  exists evs, tr (fst (unsolicited_process_io_write w)) = evs ++ tr w /\
    (evs = [] \/ exists ch ok, evs = [EWr UNSOL ch ok] /\ ch <> 0%N /\
       wbuf_char (u_wbuf (u (st w))) (ubuf (st w)) (u_position (u (st w))) = Some ch).
Proof.
  intros w. unfold Fsm.unsolicited_process_io_write. cbv zeta.
  destruct (wbuf_char (u_wbuf (u (st w))) (ubuf (st w)) (u_position (u (st w)))) as [ch|] eqn:E.
  - destruct (N.eqb_spec ch 0) as [Z|NZ].
    + ev_nil.
    + destruct (io_write (io w) ch) as [io' ok]. exists [EWr UNSOL ch ok]. split.
      * destruct ok; reflexivity.
      * right. exists ch, ok. split; [reflexivity | split; [exact NZ | reflexivity]].
  - ev_nil.
Qed.

(* ------------------------------------------------------------------ *)
(* the two machines                                                     *)
(* ------------------------------------------------------------------ *)

Ltac ev_rd :=
  match goal with |- context [reading ?w0 ?b] =>
    let r := fresh "r" in let T := fresh "T" in
    destruct (reading_evs w0 b) as [r T]; exists [ERd r]; split; [exact T | exists r; reflexivity]
  end.

Theorem cmd_service_evs : forall (w : world),
  exists evs, tr (fst (cmd_service w)) = evs ++ tr w /\ cmd_evs (st w) evs.
Proof.
  intros w. unfold Fsm.cmd_service, cmd_evs.
  destruct (k_state (k (st w))) eqn:E;
    try (exists []; split; reflexivity).
  - unfold Fsm.error_state. ev_rd.
  - unfold Fsm.process_idle_state. ev_rd.
  - unfold Fsm.parse_prefix. ev_rd.
  - unfold Fsm.parse_command. ev_rd.
  - unfold Fsm.wait_read_acknowledge. ev_rd.
  - unfold Fsm.parse_command_args. ev_rd.
  - apply parse_write_args_evs.
  - apply (format_read_args_evs ATCMD).
  - unfold Fsm.wait_test_acknowledge. ev_rd.
  - apply process_write_loop_evs.
  - apply (process_rt_loop_evs true ATCMD).
  - apply (process_rt_loop_evs false ATCMD).
  - apply process_run_loop_evs.
  - apply process_io_write_evs.
Qed.

Theorem uns_service_evs : forall (w : world),
  exists evs, tr (fst (unsolicited_events_service w)) = evs ++ tr w /\ uns_evs D (st w) evs.
Proof.
  intros w. unfold Fsm.unsolicited_events_service, uns_evs.
  destruct (u_state (u (st w))) eqn:E;
    try (exists []; split; reflexivity).
  - destruct (ring_empty (st w)); cbn [negb].
    + ev_nil.
    + destruct (ring_items D (st w)) as [|it rest] eqn:R.
      * ev_nil.
      * exists [EPop (fst it) (snd it)]. split; [reflexivity|].
        right. exists it, rest. split; reflexivity.
  - apply (format_read_args_evs UNSOL).
  - apply (process_rt_loop_evs true UNSOL).
  - apply (process_rt_loop_evs false UNSOL).
  - apply unsolicited_process_io_write_evs.
Qed.

(* one cat_service body: the event machine's events first (older), then the command machine's,
   the latter judged in the state left by the event machine's step *)
Theorem service_body_evs : forall (w : world),
  let w1 := fst (unsolicited_events_service w) in
  exists e1 e2, tr (fst (service_body w)) = e2 ++ e1 ++ tr w /\
    uns_evs D (st w) e1 /\ cmd_evs (st w1) e2.
Proof.
  intros w w1. subst w1. unfold Fsm.service_body.
  destruct (uns_service_evs w) as [e1 [T1 U]].
  destruct (unsolicited_events_service w) as [w1 us]. cbn [fst] in *.
  destruct (cmd_service_evs w1) as [e2 [T2 C]].
  destruct (cmd_service w1) as [w2 s]. cbn [fst] in *.
  exists e1, e2. split; [|split; assumption].
  rewrite <- T1, <- T2.
  destruct (negb (us =? ST_OK)%Z || negb (ustate_beq (u_state (u (st w2))) US_IDLE)); reflexivity.
Qed.

(* ------------------------------------------------------------------ *)
(* corollaries                                                          *)
(* ------------------------------------------------------------------ *)

Ltac no_in :=
  match goal with
  | H : In _ [] |- _ => destruct H
  | H : In _ [_] |- _ => destruct H as [H|[]]; try discriminate H
  | C : call_evs _ ?evs, H : In (ERd _) ?evs |- _ => destruct (call_evs_no_rd _ _ _ C H)
  | C : call_evs _ ?evs, H : In (EWr _ _ _) ?evs |- _ => destruct (call_evs_no_wr _ _ _ _ _ C H)
  end.

(* open the disjunctions, existentials and conjunctions of a row *)
Ltac open_rows :=
  repeat match goal with
         | C : _ \/ _ |- _ => destruct C as [C|C]
         | C : exists _, _ |- _ => let x := fresh "x" in destruct C as [x C]
         | C : _ /\ _ |- _ => let K := fresh "K" in destruct C as [K C]
         | C : ?e = [] |- _ => subst e
         | C : ?e = [_] |- _ => subst e
         end.

Lemma cmd_evs_rd : forall s evs r, cmd_evs s evs -> In (ERd r) evs ->
  reading_state (k_state (k s)) = true.
Proof.
  intros s evs r C H. unfold cmd_evs in C.
  destruct (k_state (k s)); try reflexivity; exfalso; open_rows; no_in.
Qed.

Lemma uns_evs_rd : forall s evs r, uns_evs D s evs -> ~ In (ERd r) evs.
Proof.
  intros s evs r C H. unfold uns_evs in C.
  destruct (u_state (u s)); open_rows; no_in.
Qed.

Lemma cmd_evs_wr : forall s evs f ch ok, cmd_evs s evs -> In (EWr f ch ok) evs ->
  f = ATCMD /\ k_state (k s) = CS_FLUSH.
Proof.
  intros s evs f ch ok C H. unfold cmd_evs in C.
  destruct (k_state (k s)); open_rows; no_in.
  injection H as E _ _. subst f. split; reflexivity.
Qed.

Lemma uns_evs_wr : forall s evs f ch ok, uns_evs D s evs -> In (EWr f ch ok) evs ->
  f = UNSOL /\ u_state (u s) = US_FLUSH.
Proof.
  intros s evs f ch ok C H. unfold uns_evs in C.
  destruct (u_state (u s)); open_rows; no_in.
  injection H as E _ _. subst f. split; reflexivity.
Qed.

(* C01/C14: input is requested only in the seven reading states *)
Theorem reads_only_in_reading_states : forall (w : world) evs r,
  tr (fst (cmd_service w)) = evs ++ tr w -> In (ERd r) evs ->
  reading_state (k_state (k (st w))) = true.
Proof.
  intros w evs r T H. destruct (cmd_service_evs w) as [evs' [T' C]].
  rewrite T in T'. apply app_inv_tail in T'. subst evs'.
  eapply cmd_evs_rd; eassumption.
Qed.

Theorem event_machine_never_reads : forall (w : world) evs r,
  tr (fst (unsolicited_events_service w)) = evs ++ tr w -> ~ In (ERd r) evs.
Proof.
  intros w evs r T. destruct (uns_service_evs w) as [evs' [T' C]].
  rewrite T in T'. apply app_inv_tail in T'. subst evs'.
  eapply uns_evs_rd; eassumption.
Qed.

(* C11: a byte is written only by the machine that is in its FLUSH state *)
Theorem writes_only_in_flush : forall (w : world) evs f ch ok,
  tr (fst (service_body w)) = evs ++ tr w -> In (EWr f ch ok) evs ->
  match f with
  | ATCMD => k_state (k (st (fst (unsolicited_events_service w)))) = CS_FLUSH
  | UNSOL => u_state (u (st w)) = US_FLUSH
  end.
Proof.
  intros w evs f ch ok T H. destruct (service_body_evs w) as [e1 [e2 [T' [U C]]]].
  rewrite T, app_assoc in T'. apply app_inv_tail in T'. subst evs.
  apply in_app_or in H. destruct H as [H|H].
  - destruct (cmd_evs_wr _ _ _ _ _ C H) as [F S]. subst f. exact S.
  - destruct (uns_evs_wr _ _ _ _ _ U H) as [F S]. subst f. exact S.
Qed.

(* C02/C09: every callback made by the command machine concerns the command selected in k_cmd *)
Lemma cmd_evs_call : forall s evs q code, cmd_evs s evs -> In (ECall q code) evs ->
  k_cmd (k s) = Some (req_cmd q).
Proof.
  intros s evs q code C H. unfold cmd_evs in C.
  destruct (k_state (k s)); open_rows; try no_in;
    rewrite (call_evs_call _ _ _ _ C H); assumption.
Qed.

Theorem callbacks_concern_selected_cmd : forall (w : world) evs q code,
  tr (fst (cmd_service w)) = evs ++ tr w -> In (ECall q code) evs ->
  k_cmd (k (st w)) = Some (req_cmd q).
Proof.
  intros w evs q code T H. destruct (cmd_service_evs w) as [evs' [T' C]].
  rewrite T in T'. apply app_inv_tail in T'. subst evs'.
  eapply cmd_evs_call; eassumption.
Qed.

(* at most one callback per machine step *)
Lemma cmd_evs_one : forall s evs, cmd_evs s evs -> length (filter is_call_ev evs) <= 1.
Proof.
  intros s evs C. unfold cmd_evs in C.
  destruct (k_state (k s)); open_rows;
    first [ rewrite (call_evs_one _ _ C); apply le_n
          | cbn [filter is_call_ev length]; auto ].
Qed.

Theorem one_callback_per_step : forall (w : world) evs,
  tr (fst (cmd_service w)) = evs ++ tr w ->
  length (filter (fun e => match e with ECall _ _ => true | _ => false end) evs) <= 1.
Proof.
  intros w evs T. destruct (cmd_service_evs w) as [evs' [T' C]].
  rewrite T in T'. apply app_inv_tail in T'. subst evs'.
  exact (cmd_evs_one _ _ C).
Qed.

End EvSkelSim.

Print Assumptions call_h_evs.
Print Assumptions cmd_service_evs.
Print Assumptions uns_service_evs.
Print Assumptions service_body_evs.
Print Assumptions reads_only_in_reading_states.
Print Assumptions event_machine_never_reads.
Print Assumptions writes_only_in_flush.
Print Assumptions callbacks_concern_selected_cmd.
Print Assumptions one_callback_per_step.
