(* Lemmas_C02i.v — property C02 at history level, three strengthenings of Lemmas_C02h.v:
     1. in CS_COMMAND_FOUND the typed name is not empty (so the declarative reading of the name
        applies) and the line ends exactly where the lookup was launched (part B);
     2. the callbacks PER OCCURRENCE: the operation that logs a command-side callback is a cat_service
        call, and the history BEFORE it splits at the CS_COMMAND_FOUND state of the SAME line: every
        byte consumed since has been appended to that line (part D, E);
     3. the request type including TEST: it is a function of the type announced at the lookup, of the
        selected command (dispatch_accepts c F_TEST) and of the bytes consumed since (first argument
        byte '?'), and, when the lookup was launched by a suffix, of the line alone (type_of');
        the callback kind EQUALS it (part A, C, D, E).
   Statements: Properties_C02i.v. *)
From Coq Require Import List NArith ZArith Bool Arith Lia.
From CatV Require Import Bytes Defs Codec Spec Fsm ResolveDefs Skel SkelInv SkelSim EvSkel EvSkelSim
  Lemmas_Ctl Lemmas_C03 Lemmas_Domain.
From CatV Require Lemmas_C02 Lemmas_C01s Lemmas_C11 Lemmas_C09 Lemmas_Calls.
From CatV Require Import Lemmas_C02h.
Import ListNotations.
Local Open Scope nat_scope.

(* ================================================================== *)
(* A. the line, with the argument part                                  *)
(* ================================================================== *)

(* the phases of a line, refined after '=':
     XEq t      name, '=', then only CRs
     XTest t    name, '=', CRs, '?' as the FIRST argument byte, then only CRs
     XTestEnd t ... then the line feed
     XTestX t   ... then some other byte
     XArgs t    name, '=', CRs, a first argument byte other than '?', anything but LF
     XWEnd t    ... then the line feed (also: name, '=', CRs, line feed) *)
Inductive xphase :=
  | XBlank | XA | XName (t : list N) | XQm (t : list N) | XEnd (t : list N) (ty : ctype)
  | XEq (t : list N) | XTest (t : list N) | XTestEnd (t : list N) | XTestX (t : list N)
  | XArgs (t : list N) | XWEnd (t : list N) | XNoCmd.

Definition xstep (p : xphase) (c : N) : xphase :=
  let u := to_upper c in
  match p with
  | XBlank => if (u =? ch_A)%N then XA else if (u =? ch_CR)%N then XBlank else XNoCmd
  | XA => if (u =? ch_T)%N then XName [] else if (u =? ch_CR)%N then XA else XNoCmd
  | XName t =>
      if (u =? ch_LF)%N then match t with [] => XNoCmd | _ => XEnd t T_RUN end
      else if (u =? ch_CR)%N then XName t
      else if (u =? ch_QM)%N then match t with [] => XNoCmd | _ => XQm t end
      else if (u =? ch_EQ)%N then match t with [] => XNoCmd | _ => XEq t end
      else if is_name_char u then XName (t ++ [u])
      else XNoCmd
  | XQm t => if (u =? ch_LF)%N then XEnd t T_READ else if (u =? ch_CR)%N then XQm t else XNoCmd
  | XEnd t ty => XEnd t ty
  | XEq t =>
      if (c =? ch_LF)%N then XWEnd t else if (c =? ch_CR)%N then XEq t
      else if (c =? ch_QM)%N then XTest t else XArgs t
  | XTest t =>
      if (c =? ch_LF)%N then XTestEnd t else if (c =? ch_CR)%N then XTest t else XTestX t
  | XTestEnd t => XTestEnd t
  | XTestX t => XTestX t
  | XArgs t => if (c =? ch_LF)%N then XWEnd t else XArgs t
  | XWEnd t => XWEnd t
  | XNoCmd => XNoCmd
  end.

Definition xscan (l : list N) : xphase := fold_left xstep l XBlank.

(* forgetting the argument part gives the phases of Lemmas_C02h.v *)
Definition xold (p : xphase) : lphase :=
  match p with
  | XBlank => LBlank | XA => LA | XName t => LName t | XQm t => LQm t | XEnd t ty => LEnd t ty
  | XEq t | XTest t | XTestEnd t | XTestX t | XArgs t | XWEnd t => LEnd t T_WRITE
  | XNoCmd => LNoCmd
  end.

(* the line has the shape  name '=' CR* '?' ...  *)
Definition test_shape (p : xphase) : bool :=
  match p with XTest _ | XTestEnd _ | XTestX _ => true | _ => false end.

(* D9: "=?" is a TEST only for a command that serves TEST and is not implicit-write *)
Definition serves_test (c : cmd) : bool := dispatch_accepts c F_TEST.

(* the request type of a line for the selected command c *)
Definition type_of' (c : cmd) (l : list N) : ctype :=
  if test_shape (xscan l) then (if serves_test c then T_TEST else T_WRITE) else type_of l.

(* the lookup is launched right after the name, by the line feed, by '?' ... line feed, or by '='
   (and not by the implicit-write rule in the middle of the name characters) *)
Definition fresh (p : xphase) : bool :=
  match p with XName _ | XEnd _ _ | XEq _ => true | _ => false end.
Definition by_suffix (p : xphase) : bool :=
  match p with XEnd _ _ | XEq _ => true | _ => false end.

Lemma xscan_snoc : forall l c, xscan (l ++ [c]) = xstep (xscan l) c.
Proof. intros l c. unfold xscan. rewrite fold_left_app. reflexivity. Qed.

Lemma xscan_app : forall a b, xscan (a ++ b) = fold_left xstep b (xscan a).
Proof. intros a b. unfold xscan. apply fold_left_app. Qed.

Lemma xold_step : forall p c, xold (xstep p c) = lstep (xold p) c.
Proof.
  intros p c. destruct p; cbn [xold]; unfold xstep, lstep; cbv zeta;
    repeat match goal with
           | |- context [if ?b then _ else _] => destruct b
           | |- context [match ?t with [] => _ | _ :: _ => _ end] => destruct t
           end; reflexivity.
Qed.

Lemma xold_scan : forall l, xold (xscan l) = scan l.
Proof.
  intros l. induction l as [|c l IH] using rev_ind; [reflexivity|].
  rewrite xscan_snoc, scan_snoc, xold_step, IH. reflexivity.
Qed.

Lemma xold_name : forall p t, xold p = LName t -> p = XName t.
Proof. intros p t H. destruct p; cbn in H; try discriminate H; congruence. Qed.
Lemma xold_qm : forall p t, xold p = LQm t -> p = XQm t.
Proof. intros p t H. destruct p; cbn in H; try discriminate H; congruence. Qed.

(* one more byte after an open phase: the lookup, if launched, is launched right there *)
Lemma fresh_after_name : forall t c, fresh (xstep (XName t) c) = true \/ xold (xstep (XName t) c) = LNoCmd \/
  ((to_upper c =? ch_LF)%N = false /\ (to_upper c =? ch_CR)%N = false /\ (to_upper c =? ch_QM)%N = true) \/
  ((to_upper c =? ch_LF)%N = false /\ (to_upper c =? ch_CR)%N = true).
Proof.
  intros t c. unfold xstep. cbv zeta.
  destruct (to_upper c =? ch_LF)%N; [destruct t; cbn; auto|].
  destruct (to_upper c =? ch_CR)%N; [auto 6|].
  destruct (to_upper c =? ch_QM)%N; [auto 6|].
  destruct (to_upper c =? ch_EQ)%N; [destruct t; cbn; auto|].
  destruct (is_name_char (to_upper c)); cbn; auto.
Qed.
Lemma fresh_after_qm : forall t c, fresh (xstep (XQm t) c) = true \/ xold (xstep (XQm t) c) = LNoCmd \/
  (to_upper c =? ch_LF)%N = false.
Proof.
  intros t c. unfold xstep. cbv zeta.
  repeat match goal with |- context [if ?b then _ else _] => destruct b end; cbn; auto.
Qed.

Lemma typed_of_x : forall l, typed_of l =
  match xold (xscan l) with LName t | LQm t | LEnd t _ => t | _ => [] end.
Proof. intros l. rewrite xold_scan. reflexivity. Qed.

(* a phase reached right after '=' (and CRs) is not reached through a line feed *)
Lemma xeq_not_lf : forall l t, xscan l = XEq t -> ends_lf l = false.
Proof.
  intros l t. destruct l as [|a l'] using rev_ind; [reflexivity|]. clear IHl'.
  rewrite xscan_snoc, ends_lf_snoc. intros H.
  destruct (N.eqb_spec a ch_LF) as [->|]; [|reflexivity]. exfalso.
  destruct (xscan l'); cbn in H; try discriminate H.
  destruct t0; discriminate H.
Qed.

(* ---- the bytes consumed after the lookup was launched ---- *)
(* the first argument byte: the first byte other than CR *)
Fixpoint first_arg (l : list N) : option N :=
  match l with c :: r => if (c =? ch_CR)%N then first_arg r else Some c | [] => None end.

Definition is_qm (o : option N) : bool :=
  match o with Some c => (c =? ch_QM)%N | None => false end.

(* the request type of a line whose lookup announced ty0, for a command that serves TEST or not
   (tc), given the bytes consumed since *)
Definition req_type (tc : bool) (ty0 : ctype) (more : list N) : ctype :=
  match ty0 with
  | T_WRITE => if tc && is_qm (first_arg more) then T_TEST else T_WRITE
  | t => t
  end.

Lemma first_arg_snoc : forall l c,
  first_arg (l ++ [c]) =
  match first_arg l with Some x => Some x | None => if (c =? ch_CR)%N then None else Some c end.
Proof.
  induction l as [|a l IH]; intros c; cbn [app first_arg]; [reflexivity|].
  destruct (a =? ch_CR)%N; [apply IH | reflexivity].
Qed.

Lemma fold_test : forall l p, test_shape p = true -> test_shape (fold_left xstep l p) = true.
Proof.
  induction l as [|c l IH]; intros p H; [exact H|]. cbn [fold_left]. apply IH.
  destruct p; try discriminate H; unfold xstep; cbv zeta;
    repeat match goal with |- context [if ?b then _ else _] => destruct b end; reflexivity.
Qed.
Definition wr_shape (p : xphase) : bool := match p with XArgs _ | XWEnd _ => true | _ => false end.
Lemma fold_wr : forall l p, wr_shape p = true -> test_shape (fold_left xstep l p) = false.
Proof.
  induction l as [|c l IH]; intros p H; [destruct p; try discriminate H; reflexivity|].
  cbn [fold_left]. apply IH.
  destruct p; try discriminate H; unfold xstep; cbv zeta;
    repeat match goal with |- context [if ?b then _ else _] => destruct b end; reflexivity.
Qed.

Lemma fold_eq_shape : forall l t, test_shape (fold_left xstep l (XEq t)) = is_qm (first_arg l).
Proof.
  induction l as [|c l IH]; intros t; [reflexivity|]. cbn [fold_left first_arg].
  unfold xstep at 2. cbv zeta.
  destruct (c =? ch_LF)%N eqn:EL.
  { apply N.eqb_eq in EL. subst c. change (ch_LF =? ch_CR)%N with false. cbn [is_qm].
    change (ch_LF =? ch_QM)%N with false. apply fold_wr. reflexivity. }
  destruct (c =? ch_CR)%N; [apply IH|]. cbn [is_qm].
  destruct (c =? ch_QM)%N; [apply fold_test | apply fold_wr]; reflexivity.
Qed.

Lemma fold_xend : forall l t ty, fold_left xstep l (XEnd t ty) = XEnd t ty.
Proof. induction l as [|c l IH]; intros; [reflexivity | apply IH]. Qed.

Lemma type_of_lend : forall l t ty, scan l = LEnd t ty -> forall more, type_of (l ++ more) = ty.
Proof.
  intros l t ty H more. unfold type_of, scan in *. rewrite fold_left_app, H, fold_end. reflexivity.
Qed.

(* when the lookup was launched by a suffix, the request type is a function of the line alone *)
Lemma type_of'_split : forall c h more, by_suffix (xscan h) = true ->
  type_of' c (h ++ more) = req_type (serves_test c) (type_of h) more.
Proof.
  intros c h more H. unfold type_of'. rewrite xscan_app.
  destruct (xscan h) eqn:E; try discriminate H.
  - rewrite fold_xend. cbn [test_shape].
    assert (S : scan h = LEnd t ty) by (rewrite <- xold_scan, E; reflexivity).
    rewrite (type_of_lend h t ty S). unfold type_of. rewrite S.
    unfold req_type. destruct ty; try reflexivity.
    (* XEnd never carries T_WRITE, but the equation holds anyway only if not a test shape: *)
    destruct (serves_test c && is_qm (first_arg more)) eqn:X; [|reflexivity].
    exfalso. clear X.
    (* XEnd t T_WRITE is not reachable *)
    revert E. clear. revert t.
    assert (G : forall l t, xscan l <> XEnd t T_WRITE).
    { induction l as [|a l IH] using rev_ind; intros t; [discriminate|].
      rewrite xscan_snoc. specialize (IH t).
      destruct (xscan l) eqn:E; unfold xstep; cbv zeta;
        repeat match goal with
               | |- context [if ?b then _ else _] => destruct b
               | |- context [match ?t with [] => _ | _ :: _ => _ end] => destruct t
               end; try discriminate; try exact IH.
      all: intros X; apply (IH); congruence. }
    intros t E. exact (G h t E).
  - rewrite fold_eq_shape.
    assert (S : scan h = LEnd t T_WRITE) by (rewrite <- xold_scan, E; reflexivity).
    unfold req_type, type_of at 2. rewrite S. rewrite andb_comm.
    destruct (is_qm (first_arg more)); cbn [andb]; [reflexivity|].
    apply (type_of_lend h t T_WRITE S).
Qed.

(* ================================================================== *)
(* B. control skeleton: where the search and the late states come from   *)
(* ================================================================== *)
Ltac solveS :=
  unfold Lemmas_Calls.a_needs, Lemmas_Calls.JT in *; unfa; cbn in *;
  try solve [ auto 8 | discriminate | intuition (try discriminate; try congruence; auto 8) ].

(* the search is entered from the name-reading states, CS_COMMAND_FOUND from the search *)
Lemma srch_pred : forall c c' r, J c -> cmd_next False c c' r ->
  (ck c' = CS_SEARCH_COMMAND ->
     ck c = CS_PARSE_COMMAND_CHAR \/ ck c = CS_UPDATE_COMMAND_STATE \/ ck c = CS_WAIT_READ_ACK \/
     ck c = CS_SEARCH_COMMAND) /\
  (ck c' = CS_COMMAND_FOUND -> ck c = CS_SEARCH_COMMAND \/ ck c = CS_COMMAND_FOUND).
Proof.
  intros c c' r HJ H. dctl c. destruct k0; cbn in H; unfrel.
  8: destruct ty; cbn in H.
  all: repeat (progress (unfrel; decomp; cbn in * )).
  all: try solve [solveS].
  all: try solve [destruct wa; solveS].
  all: try solve [destruct lf; solveS].
  all: try solve [destruct hold; solveS].
  all: try solve [unfJ; cbn in *; destruct wa; cbn in *; solveS].
Qed.

Definition early (x : cstate) : bool :=
  match x with CS_COMMAND_FOUND | CS_PARSE_COMMAND_ARGS | CS_WAIT_TEST_ACK => true | _ => false end.

(* after the argument bytes: the request type is kept, the argument states are not entered again *)
Lemma late_next : forall c c' r, Lemmas_Calls.JT c -> cmd_next False c c' r ->
  Lemmas_Calls.a_needs c = true -> Lemmas_Calls.a_needs c' = true -> early (ck c) = false ->
  cty c' = cty c /\ early (ck c') = false.
Proof.
  intros c c' r HT H N N' HE. dctl c. destruct k0; cbn in HE; try discriminate HE; cbn in H; unfrel.
  all: repeat (progress (unfrel; decomp; cbn in * )).
  all: try solve [solveS].
  all: try solve [destruct wa; solveS].
  all: try solve [destruct lf; solveS].
  all: try solve [destruct hold; solveS].
Qed.

(* ================================================================== *)
(* C. one operation: lifting a property of the command machine's step    *)
(* ================================================================== *)
(* the registers the new invariants read *)
Definition kv (s : state) :=
  (k_state (k s), k_type (k s), k_length (k s), k_cmd (k s), k_wafter (k s)).

Section World.
Variable D : desc.
Variables ioS muS hS : Type.
Variable io_read : ioS -> ioS * option N.
Variable io_write : ioS -> N -> ioS * bool.
Variable mu_lock : muS -> muS * bool.
Variable mu_unlock : muS -> muS * bool.
Variable h_call : hS -> hreq -> hS * hres.
Hypothesis no_uhold : forall hs q, unsol_req q = true -> r_code (snd (h_call hs q)) <> RC_HOLD.

Notation world := (Fsm.world ioS muS hS).
Notation mkWorld := (Fsm.mkWorld ioS muS hS).
Notation st := (Fsm.st ioS muS hS).
Notation io := (Fsm.io ioS muS hS).
Notation tr := (Fsm.tr ioS muS hS).
Notation cmd_service := (Fsm.cmd_service D ioS muS hS io_read io_write mu_lock mu_unlock h_call).
Notation unsolicited_events_service := (Fsm.unsolicited_events_service D ioS muS hS io_write mu_lock mu_unlock h_call).
Notation service_body := (Fsm.service_body D ioS muS hS io_read io_write mu_lock mu_unlock h_call).
Notation do_op := (Fsm.do_op D ioS muS hS io_read io_write mu_lock mu_unlock h_call).
Notation step := (Fsm.step D ioS muS hS io_read io_write mu_lock mu_unlock h_call).
Notation run := (Fsm.run D ioS muS hS io_read io_write mu_lock mu_unlock h_call).
Notation consumed := Lemmas_C01s.consumed.
Local Notation usim := (uns_service_sim D ioS muS hS io_write mu_lock mu_unlock h_call no_uhold).
Local Notation csim := (cmd_service_sim D ioS muS hS io_read io_write mu_lock mu_unlock h_call no_uhold).
Local Notation st_step := (Lemmas_Ctl.st_step D ioS muS hS io_read io_write mu_lock mu_unlock h_call).
Local Notation step_tr := (Lemmas_C01s.step_tr D ioS muS hS io_read io_write mu_lock mu_unlock h_call).

Lemma uns_kv : forall w : world, kv (st (fst (unsolicited_events_service w))) = kv (st w).
Proof.
  intros w.
  destruct (Lemmas_C11.C11_frame_uns_nohold_proof D ioS muS hS io_write mu_lock mu_unlock h_call no_uhold w)
    as (KP & KS & _). cbv zeta in *.
  unfold Lemmas_C11.kpart in KP. injection KP; intros. unfold kv. congruence.
Qed.

Lemma other_op_kv : forall (w : world) o, o <> OService -> kv (st (fst (do_op w o))) = kv (st w).
Proof.
  intros w o Ho.
  set (P := fun s' : state => kv s' = kv (st w)).
  assert (P0 : P (st w)) by reflexivity.
  destruct o; cbn [Fsm.do_op]; try exact P0.
  - contradiction Ho; reflexivity.
  - unfold Fsm.api_trigger.
    apply (Lemmas_C09.bracket_P D ioS muS hS mu_lock mu_unlock P); [exact P0|].
    intros w0 E0. unfold P. rewrite <- E0. unfold push_unsolicited_cmd.
    Lemmas_C09.brk; reflexivity.
  - unfold Fsm.api_hold_exit.
    apply (Lemmas_C09.bracket_P D ioS muS hS mu_lock mu_unlock P); [exact P0|].
    intros w0 E0. unfold P. rewrite <- E0. unfold hold_exit.
    Lemmas_C09.brk; reflexivity.
  - unfold Fsm.api_is_busy.
    apply (Lemmas_C09.bracket_P D ioS muS hS mu_lock mu_unlock P); [exact P0|].
    intros w0 E0. cbn [fst]. rewrite E0. exact P0.
  - unfold Fsm.api_is_hold.
    apply (Lemmas_C09.bracket_P D ioS muS hS mu_lock mu_unlock P); [exact P0|].
    intros w0 E0. cbn [fst]. rewrite E0. exact P0.
  - unfold Fsm.api_is_full.
    apply (Lemmas_C09.bracket_P D ioS muS hS mu_lock mu_unlock P); [exact P0|].
    intros w0 E0. cbn [fst]. rewrite E0. exact P0.
Qed.

Lemma nonreading_consumed : forall w : world, reading_state (k_state (k (st w))) = false ->
  consumed (tr (fst (cmd_service w))) = consumed (tr w).
Proof.
  intros w HR.
  destruct (cmd_service_evs D ioS muS hS io_read io_write mu_lock mu_unlock h_call w) as [e2 [T2 C]].
  rewrite T2. apply Lemmas_C01s.consumed_app_nord.
  intros r Hin. pose proof (cmd_evs_rd _ _ _ C Hin) as X. rewrite HR in X. discriminate X.
Qed.

Lemma step_consumed : forall (w : world) o, consumed (tr (step w o)) = consumed (tr (fst (do_op w o))).
Proof. intros w o. rewrite step_tr, Lemmas_C01s.consumed_cons. apply app_nil_r. Qed.

(* a property of (registers, bytes consumed) that the command machine's step preserves is preserved
   by every operation *)
Lemma lift_step : forall (P : state -> list N -> Prop),
  (forall s s' bs, kv s' = kv s -> P s bs -> P s' bs) ->
  forall (w : world) o,
  J (ctl_of (st w)) -> Lemmas_Calls.JT (ctl_of (st w)) -> fault (st (step w o)) = false ->
  (forall w1 : world, eqk (st w) (st w1) -> k_char (k (st w1)) = k_char (k (st w)) ->
     kv (st w1) = kv (st w) -> consumed (tr w1) = consumed (tr w) ->
     J (ctl_of (st w1)) -> Lemmas_Calls.JT (ctl_of (st w1)) -> fault (st w1) = false ->
     st (step w o) = st (fst (cmd_service w1)) ->
     consumed (tr (step w o)) = consumed (tr (fst (cmd_service w1))) ->
     P (st w1) (consumed (tr w1)) ->
     P (st (fst (cmd_service w1))) (consumed (tr (fst (cmd_service w1))))) ->
  P (st w) (consumed (tr w)) -> P (st (step w o)) (consumed (tr (step w o))).
Proof.
  intros P HP w o HJ HT Hf Hc H.
  rewrite st_step in *. rewrite step_consumed in *.
  destruct (Lemmas_C01s.op_eq_dec_service o) as [->|Ho].
  - cbn [Fsm.do_op] in *. unfold Fsm.api_service in *.
    destruct (Lemmas_C01s.bracket_shape D ioS muS hS mu_lock mu_unlock w service_body)
      as [[Es [pre [Et Hp]]] | (w1 & pre & post & E1 & T1 & Hp & Hq & Es & Et)].
    + rewrite Et, Lemmas_C01s.consumed_app_nord by exact Hp.
      apply (HP (st w)); [rewrite Es; reflexivity | exact H].
    + destruct (Lemmas_C01s.service_body_shape D ioS muS hS io_read io_write mu_lock mu_unlock h_call w1)
        as (e1 & e2 & T1' & N1 & Es2 & Et2 & _ & _). cbv zeta in *.
      set (w2 := fst (unsolicited_events_service w1)) in *.
      destruct (uns_eqk D ioS muS hS io_write mu_lock mu_unlock h_call no_uhold w1) as (E & EC).
      fold w2 in E, EC. rewrite E1 in E, EC.
      assert (KV : kv (st w2) = kv (st w)).
      { unfold w2. rewrite uns_kv, E1. reflexivity. }
      assert (C2 : consumed (tr w2) = consumed (tr w)).
      { rewrite T1', Lemmas_C01s.consumed_app_nord by exact N1.
        rewrite T1. apply Lemmas_C01s.consumed_app_nord. exact Hp. }
      assert (S2 : st (fst (Fsm.bracket D ioS muS hS mu_lock mu_unlock w service_body)) =
                   st (fst (cmd_service w2))) by (rewrite Es, Es2; reflexivity).
      assert (B2 : consumed (tr (fst (Fsm.bracket D ioS muS hS mu_lock mu_unlock w service_body))) =
                   consumed (tr (fst (cmd_service w2)))).
      { rewrite Et, Lemmas_C01s.consumed_app_nord by exact Hq. rewrite Et2. reflexivity. }
      rewrite S2 in Hf |- *. rewrite B2.
      assert (F2 : fault (st w2) = false).
      { destruct (fault (st w2)) eqn:X; [|reflexivity].
        rewrite (F_cmd_service D ioS muS hS io_read io_write mu_lock mu_unlock h_call w2 X) in Hf. discriminate. }
      apply Hc; try assumption.
      * eapply J_uns_next; [|apply (usim w1)]. rewrite E1. exact HJ.
      * eapply Lemmas_Calls.JT_uns_next; [|apply (usim w1)]. rewrite E1. exact HT.
      * rewrite C2. apply (HP (st w)); [exact KV | exact H].
  - destruct (Lemmas_C01s.other_op_nord D ioS muS hS io_read io_write mu_lock mu_unlock h_call w o Ho)
      as [evs [T Hnr]].
    rewrite T, Lemmas_C01s.consumed_app_nord by exact Hnr.
    apply (HP (st w)); [apply other_op_kv; exact Ho | exact H].
Qed.

End World.

(* ================================================================== *)
(* D. in the search and in CS_COMMAND_FOUND: a name, and a fresh line    *)
(* ================================================================== *)
Definition FN (s : state) (bs : list N) : Prop :=
  (k_state (k s) = CS_SEARCH_COMMAND \/ k_state (k s) = CS_COMMAND_FOUND) ->
  typed_of (cur_line bs) <> [] /\ fresh (xscan (cur_line bs)) = true.

Lemma kv_state : forall s s', kv s' = kv s -> k_state (k s') = k_state (k s).
Proof. intros s s' H. unfold kv in H. congruence. Qed.

Lemma FN_kv : forall s s' bs, kv s' = kv s -> FN s bs -> FN s' bs.
Proof. intros s s' bs E H. unfold FN in *. rewrite (kv_state _ _ E). exact H. Qed.

Lemma typed_nocmd : forall l, xold (xscan l) = LNoCmd -> typed_of l = [].
Proof. intros l H. rewrite typed_of_x, H. reflexivity. Qed.

Section World2.
Variable D : desc.
Variables ioS muS hS : Type.
Variable io_read : ioS -> ioS * option N.
Variable io_write : ioS -> N -> ioS * bool.
Variable mu_lock : muS -> muS * bool.
Variable mu_unlock : muS -> muS * bool.
Variable h_call : hS -> hreq -> hS * hres.
Hypothesis no_uhold : forall hs q, unsol_req q = true -> r_code (snd (h_call hs q)) <> RC_HOLD.

Notation world := (Fsm.world ioS muS hS).
Notation st := (Fsm.st ioS muS hS).
Notation io := (Fsm.io ioS muS hS).
Notation tr := (Fsm.tr ioS muS hS).
Notation cmd_service := (Fsm.cmd_service D ioS muS hS io_read io_write mu_lock mu_unlock h_call).
Notation step := (Fsm.step D ioS muS hS io_read io_write mu_lock mu_unlock h_call).
Notation consumed := Lemmas_C01s.consumed.
Local Notation csim := (cmd_service_sim D ioS muS hS io_read io_write mu_lock mu_unlock h_call no_uhold).

Lemma FN_cmd : forall w : world,
  J (ctl_of (st w)) -> fault (st (fst (cmd_service w))) = false ->
  Q0 D (st w) (cur_line (consumed (tr w))) ->
  Q0 D (st (fst (cmd_service w))) (cur_line (consumed (tr (fst (cmd_service w))))) ->
  FN (st w) (consumed (tr w)) -> FN (st (fst (cmd_service w))) (consumed (tr (fst (cmd_service w)))).
Proof.
  intros w HJ Hf HQ HQ' H HS.
  pose proof (csim w) as S. apply (cmd_next_weaken _ False) in S; [|rewrite Hf; discriminate].
  destruct (srch_pred _ _ _ HJ S) as [A B].
  change (ck (ctl_of (st (fst (cmd_service w))))) with (k_state (k (st (fst (cmd_service w))))) in A, B.
  change (ck (ctl_of (st w))) with (k_state (k (st w))) in A, B.
  assert (NR : reading_state (k_state (k (st w))) = false ->
               (k_state (k (st w)) = CS_SEARCH_COMMAND \/ k_state (k (st w)) = CS_COMMAND_FOUND) ->
               typed_of (cur_line (consumed (tr (fst (cmd_service w))))) <> [] /\
               fresh (xscan (cur_line (consumed (tr (fst (cmd_service w)))))) = true).
  { intros R X. rewrite (nonreading_consumed D ioS muS hS io_read io_write mu_lock mu_unlock h_call w R).
    apply H. exact X. }
  assert (TS : k_state (k (st (fst (cmd_service w)))) = CS_SEARCH_COMMAND ->
               typed_of (cur_line (consumed (tr (fst (cmd_service w))))) <> []).
  { intros X. unfold Q0 in HQ'. rewrite X in HQ'. cbn [Qat] in HQ'.
    destruct HQ' as (t & Ht & E & _). rewrite E. exact Ht. }
  pose proof (rd_pre_facts) as RP.
  destruct HS as [HS|HS].
  - specialize (TS HS). split; [exact TS|].
    destruct (A HS) as [Hk|[Hk|[Hk|Hk]]].
    + (* PARSE_COMMAND_CHAR *)
      unfold Q0 in HQ. rewrite Hk in HQ. cbn [Qat] in HQ. destruct HQ as (t & Hs & _).
      assert (Xs : xscan (cur_line (consumed (tr w))) = XName t) by (apply xold_name; rewrite xold_scan; exact Hs).
      revert HS TS. unfold Fsm.cmd_service. rewrite Hk. unfold Fsm.parse_command.
      rewrite Lemmas_C01s.reading_eq. rewrite Hk.
      destruct (io_read (io w)) as [io' [c|]]; cbv zeta;
        cbn [fst Fsm.st Fsm.tr Fsm.set_st Fsm.logw Fsm.set_io]; rewrite Lemmas_C01s.consumed_cons;
        cbn [Lemmas_C01s.rd_byte]; [|intros HS; congruence].
      rewrite cur_line_open by (rewrite Hs; reflexivity).
      rewrite xscan_snoc, Xs.
      destruct (RP c (st w)) as ((_ & _ & _ & _ & _ & _ & _ & _ & E9 & _) & _ & _).
      set (s1 := Lemmas_C01s.rd_pre c (st w)) in *. clearbody s1.
      intros HS TS.
      change (k_state (k (pc_body (to_upper c) s1)) = CS_SEARCH_COMMAND) in HS.
      destruct (fresh_after_name t c) as [F|[F|[(F1 & F2 & F3)|(F1 & F2)]]]; [exact F | | |]; exfalso.
      * apply TS. rewrite typed_of_x, xscan_snoc, Xs, F. reflexivity.
      * unfold pc_body in HS. rewrite F1, F2, F3 in HS.
        destruct (k_length (k s1) =? 0); cbn in HS; discriminate HS.
      * unfold pc_body in HS. rewrite F1, F2 in HS. cbn in HS. congruence.
    + (* UPDATE_COMMAND_STATE *)
      rewrite (nonreading_consumed D ioS muS hS io_read io_write mu_lock mu_unlock h_call w)
        by (rewrite Hk; reflexivity).
      unfold Q0 in HQ. rewrite Hk in HQ. cbn [Qat] in HQ. destruct HQ as (t' & ch & Hs & _).
      rewrite (xold_name _ _ (eq_trans (xold_scan _) Hs)). reflexivity.
    + (* WAIT_READ_ACK *)
      unfold Q0 in HQ. rewrite Hk in HQ. cbn [Qat] in HQ. destruct HQ as (t & Hs & _).
      assert (Xs : xscan (cur_line (consumed (tr w))) = XQm t) by (apply xold_qm; rewrite xold_scan; exact Hs).
      revert HS TS. unfold Fsm.cmd_service. rewrite Hk. unfold Fsm.wait_read_acknowledge.
      rewrite Lemmas_C01s.reading_eq. rewrite Hk.
      destruct (io_read (io w)) as [io' [c|]]; cbv zeta;
        cbn [fst Fsm.st Fsm.tr Fsm.set_st Fsm.logw Fsm.set_io]; rewrite Lemmas_C01s.consumed_cons;
        cbn [Lemmas_C01s.rd_byte]; [|intros HS; congruence].
      rewrite cur_line_open by (rewrite Hs; reflexivity).
      rewrite xscan_snoc, Xs.
      destruct (RP c (st w)) as ((_ & _ & _ & _ & _ & _ & _ & _ & E9 & _) & _ & _).
      set (s1 := Lemmas_C01s.rd_pre c (st w)) in *. clearbody s1.
      intros HS TS.
      change (k_state (k (wr_body (to_upper c) s1)) = CS_SEARCH_COMMAND) in HS.
      destruct (fresh_after_qm t c) as [F|[F|F]]; [exact F | |]; exfalso.
      * apply TS. rewrite typed_of_x, xscan_snoc, Xs, F. reflexivity.
      * unfold wr_body in HS. rewrite F in HS.
        destruct (to_upper c =? ch_CR)%N; cbn in HS; congruence.
    + apply NR; [rewrite Hk; reflexivity | left; exact Hk].
  - destruct (B HS) as [Hk|Hk].
    + apply NR; [rewrite Hk; reflexivity | left; exact Hk].
    + exfalso. revert HS Hf. unfold Fsm.cmd_service. rewrite Hk.
      cbn [fst Fsm.busy Fsm.upd_st Fsm.st Fsm.set_st]. intros HS Hf.
      destruct (command_found_moves D (st w)) as [X|X]; [congruence|]. rewrite HS in X. discriminate X.
Qed.

End World2.

(* ================================================================== *)
(* E. from CS_COMMAND_FOUND on: the bytes consumed since, the type        *)
(* ================================================================== *)
Lemma xend_not_write : forall l t, xscan l <> XEnd t T_WRITE.
Proof.
  induction l as [|a l IH] using rev_ind; intros t; [discriminate|].
  rewrite xscan_snoc. specialize (IH t).
  destruct (xscan l) eqn:E; unfold xstep; cbv zeta;
    repeat match goal with
           | |- context [if ?b then _ else _] => destruct b
           | |- context [match ?t with [] => _ | _ :: _ => _ end] => destruct t
           end; try discriminate; try exact IH.
  all: intros X; apply IH; congruence.
Qed.

Lemma fresh_write_open : forall l, fresh (xscan l) = true -> type_of l = T_WRITE -> ends_lf l = false.
Proof.
  intros l F T. destruct (xscan l) eqn:E; try discriminate F.
  - apply open_not_lf. rewrite <- xold_scan, E. reflexivity.
  - exfalso. unfold type_of in T. rewrite <- xold_scan, E in T. cbn in T. subst ty.
    exact (xend_not_write l t E).
  - exact (xeq_not_lf l t E).
Qed.

(* the body of CS_PARSE_COMMAND_ARGS (Fsm.parse_command_args), named *)
Definition pca_body (D : desc) (ch : N) (s : state) : state :=
  match cmd_of D ATCMD s with
  | None => set_fault_flag s
  | Some c =>
    if (ch =? ch_LF)%N then
      if c_only_test c then ack_error s
      else if vars_access_possible c WO then
        s |> setk_state CS_PARSE_WRITE_ARGS |> setk_position 0 |> setk_index 0 |> setk_var 0
      else if negb (c_hwrite c) then ack_error s
      else s |> setk_index 0 |> setk_state CS_WRITE_LOOP
    else if (ch =? ch_CR)%N then setk_cr true s
    else if (k_length (k s) =? 0) && (ch =? ch_QM)%N
            && (c_htest c || match c_vars c with [] => false | _ => true end)
            && negb (c_implicit c)
    then s |> setk_type T_TEST |> setk_state CS_WAIT_TEST_ACK
    else
      let len := k_length (k s) in
      if asz s <=? len then setk_state CS_ERROR s
      else
        let s1 := s |> set_cbuf (upd (cbuf s) len ch) |> setk_length (S len) in
        if S len <? asz s1 then set_cbuf (upd (cbuf s1) (S len) 0%N) s1
        else setk_state CS_ERROR s1
  end.

Lemma pca_none : forall D ch s, cmd_of D ATCMD s = None -> fault (pca_body D ch s) = true.
Proof. intros D ch s H. unfold pca_body. rewrite H. reflexivity. Qed.

Lemma pca_lf : forall D s c, cmd_of D ATCMD s = Some c ->
  Lemmas_C09.needs_cmd (pca_body D ch_LF s) = true ->
  k_type (k (pca_body D ch_LF s)) = k_type (k s) /\ early (k_state (k (pca_body D ch_LF s))) = false.
Proof.
  intros D s c H. unfold pca_body. rewrite H. change (ch_LF =? ch_LF)%N with true. cbv iota.
  destruct (c_only_test c); [intros X; discriminate X|].
  destruct (vars_access_possible c WO); [intros _; split; reflexivity|].
  destruct (negb (c_hwrite c)); [intros X; discriminate X|]. intros _; split; reflexivity.
Qed.

Lemma pca_other : forall D ch s c, cmd_of D ATCMD s = Some c -> (ch =? ch_LF)%N = false ->
  let s' := pca_body D ch s in
  ((ch =? ch_CR)%N = true /\ k_state (k s') = k_state (k s) /\ k_length (k s') = k_length (k s) /\
   k_type (k s') = k_type (k s)) \/
  ((ch =? ch_CR)%N = false /\ k_length (k s) = 0 /\ (ch =? ch_QM)%N = true /\ serves_test c = true /\
   k_state (k s') = CS_WAIT_TEST_ACK /\ k_type (k s') = T_TEST) \/
  ((ch =? ch_CR)%N = false /\
   (k_length (k s) = 0 -> (ch =? ch_QM)%N = true -> serves_test c = false) /\
   (k_state (k s') = CS_ERROR \/
    (k_state (k s') = k_state (k s) /\ k_length (k s') = S (k_length (k s)) /\ k_type (k s') = k_type (k s)))).
Proof.
  intros D ch s c H EL s'. subst s'. unfold pca_body. rewrite H, EL.
  destruct (ch =? ch_CR)%N; [left; repeat split; reflexivity|]. right.
  unfold serves_test, dispatch_accepts, nonempty.
  destruct (k_length (k s) =? 0) eqn:E0; cbn [andb].
  - apply Nat.eqb_eq in E0. destruct (ch =? ch_QM)%N; cbn [andb].
    + destruct ((c_htest c || match c_vars c with [] => false | _ :: _ => true end) && negb (c_implicit c)) eqn:T.
      * left. repeat split; try reflexivity; assumption.
      * right. split; [reflexivity|]. split; [intros _ _; reflexivity|].
        cbv zeta. destruct (asz s <=? k_length (k s)); [left; reflexivity|].
        match goal with |- context [if ?b then _ else _] => destruct b end;
          [right; repeat split; reflexivity | left; reflexivity].
    + right. split; [reflexivity|]. split; [intros _ X; discriminate X|].
      cbv zeta. destruct (asz s <=? k_length (k s)); [left; reflexivity|].
      match goal with |- context [if ?b then _ else _] => destruct b end;
        [right; repeat split; reflexivity | left; reflexivity].
  - apply Nat.eqb_neq in E0. right. split; [reflexivity|]. split; [intros X; contradiction|].
    cbv zeta. destruct (asz s <=? k_length (k s)); [left; reflexivity|].
    match goal with |- context [if ?b then _ else _] => destruct b end;
      [right; repeat split; reflexivity | left; reflexivity].
Qed.

Lemma found_len : forall D s, k_type (k s) = T_WRITE -> fault (command_found D s) = false ->
  k_state (k (command_found D s)) = CS_PARSE_COMMAND_ARGS /\ k_length (k (command_found D s)) = 0.
Proof.
  intros D s T. unfold command_found. destruct (cmd_of D ATCMD s); [|intros X; discriminate X]. rewrite T.
  cbv zeta. destruct (cbuf (setk_length 0 s)); [intros X; discriminate X|]. intros _. split; reflexivity.
Qed.

(* the control skeleton for the two other early states *)
Lemma found_next : forall c c' r, cmd_next False c c' r -> ck c = CS_COMMAND_FOUND ->
  Lemmas_Calls.a_needs c' = true ->
  cty c' = cty c /\
  (ck c' = CS_COMMAND_FOUND \/ (cty c = T_WRITE /\ ck c' = CS_PARSE_COMMAND_ARGS) \/
   (cty c <> T_WRITE /\ early (ck c') = false)).
Proof.
  intros c c' r H HK N'. dctl c. cbn in HK. subst k0. cbn in H. unfrel.
  destruct ty; cbn in H.
  all: repeat (progress (unfrel; decomp; cbn in * )).
  all: try solve [solveS].
  all: try solve [destruct wa; solveS].
Qed.

Lemma wta_rd : forall c lf c', Lemmas_C01s.rd_next False c lf c' -> ck c = CS_WAIT_TEST_ACK ->
  Lemmas_Calls.a_needs c' = true ->
  cty c' = cty c /\ (if lf then early (ck c') = false else ck c' = CS_WAIT_TEST_ACK).
Proof.
  intros c lf c' H HK N'. dctl c. cbn in HK. subst k0. cbn in H.
  all: repeat (progress (unfrel; decomp; cbn in * )).
  all: try solve [solveS].
  all: try solve [destruct wa; solveS].
Qed.

Lemma needs_ack_error : forall s, Lemmas_C09.needs_cmd (ack_error s) = false.
Proof. reflexivity. Qed.

Section Rel.
Variable D : desc.
Variable bs0 : list N.       (* the bytes consumed when CS_COMMAND_FOUND was entered *)
Variable ty0 : ctype.        (* the request type announced then *)
Variable kc : option nat.    (* the command selected then *)

(* does the selected command serve TEST (D9) *)
Definition tc_of : bool :=
  match kc with
  | Some ci => match nth_error (pool D) ci with Some c => serves_test c | None => false end
  | None => false
  end.
Local Notation tc := tc_of.

Definition Rel (s : state) (bs : list N) : Prop :=
  k_cmd (k s) = kc /\
  exists more, bs = bs0 ++ more /\ cur_line bs = cur_line bs0 ++ more /\
    k_type (k s) = req_type tc ty0 more /\
    (k_state (k s) = CS_COMMAND_FOUND ->
       more = [] /\ (ty0 = T_WRITE -> ends_lf (cur_line bs0) = false)) /\
    (k_state (k s) = CS_PARSE_COMMAND_ARGS ->
       ty0 = T_WRITE /\ ends_lf (cur_line bs) = false /\
       ((k_length (k s) = 0 /\ first_arg more = None) \/
        (0 < k_length (k s) /\ first_arg more <> None /\ (is_qm (first_arg more) = true -> tc = false)))) /\
    (k_state (k s) = CS_WAIT_TEST_ACK ->
       ty0 = T_WRITE /\ ends_lf (cur_line bs) = false /\ tc = true /\ is_qm (first_arg more) = true).

Lemma Rel_kv : forall s s' bs, kv s' = kv s -> Rel s bs -> Rel s' bs.
Proof.
  intros s s' bs E H. unfold kv in E. injection E; intros E5 E4 E3 E2 E1.
  unfold Rel in *. rewrite E1, E2, E3, E4. exact H.
Qed.

Lemma tc_cmd : forall s c, k_cmd (k s) = kc -> cmd_of D ATCMD s = Some c -> tc = serves_test c.
Proof.
  intros s c E H. unfold cmd_of, g_cmd, cmd_at in H. rewrite E in H. unfold tc_of.
  destruct kc as [ci|]; [|discriminate H]. rewrite H. reflexivity.
Qed.

Lemma req_type_write : forall more, ty0 = T_WRITE ->
  req_type tc ty0 more = if tc && is_qm (first_arg more) then T_TEST else T_WRITE.
Proof. intros more ->. reflexivity. Qed.

Variables ioS muS hS : Type.
Variable io_read : ioS -> ioS * option N.
Variable io_write : ioS -> N -> ioS * bool.
Variable mu_lock : muS -> muS * bool.
Variable mu_unlock : muS -> muS * bool.
Variable h_call : hS -> hreq -> hS * hres.
Hypothesis no_uhold : forall hs q, unsol_req q = true -> r_code (snd (h_call hs q)) <> RC_HOLD.

Notation world := (Fsm.world ioS muS hS).
Notation st := (Fsm.st ioS muS hS).
Notation io := (Fsm.io ioS muS hS).
Notation tr := (Fsm.tr ioS muS hS).
Notation cmd_service := (Fsm.cmd_service D ioS muS hS io_read io_write mu_lock mu_unlock h_call).
Notation consumed := Lemmas_C01s.consumed.
Local Notation csim := (cmd_service_sim D ioS muS hS io_read io_write mu_lock mu_unlock h_call no_uhold).

Lemma ends_lf_app1 : forall l c, (c =? ch_LF)%N = false -> ends_lf (l ++ [c]) = false.
Proof. intros l c H. rewrite ends_lf_snoc. exact H. Qed.

Lemma Rel_cmd : forall w : world,
  Lemmas_Calls.JT (ctl_of (st w)) -> fault (st (fst (cmd_service w))) = false ->
  Lemmas_C09.needs_cmd (st w) = true -> Lemmas_C09.needs_cmd (st (fst (cmd_service w))) = true ->
  Rel (st w) (consumed (tr w)) -> Rel (st (fst (cmd_service w))) (consumed (tr (fst (cmd_service w)))).
Proof.
  intros w HT Hf N N' (HC & more & Eb & El & Ety & CF & CA & CW).
  pose proof (csim w) as S. apply (cmd_next_weaken _ False) in S; [|rewrite Hf; discriminate].
  assert (KC : k_cmd (k (st (fst (cmd_service w)))) = kc).
  { rewrite <- HC. apply Lemmas_Calls.cmd_service_keeps_cmd. apply Lemmas_Calls.needs_not_writer. exact N. }
  split; [exact KC|].
  assert (N2 : Lemmas_Calls.a_needs (ctl_of (st (fst (cmd_service w)))) = true) by exact N'.
  assert (N1 : Lemmas_Calls.a_needs (ctl_of (st w)) = true) by exact N.
  set (s' := st (fst (cmd_service w))) in *.
  destruct (early (k_state (k (st w)))) eqn:EE.
  2:{ (* the late states *)
      destruct (late_next _ _ _ HT S N1 N2 EE) as [T' E'].
      change (cty (ctl_of s')) with (k_type (k s')) in T'. change (ck (ctl_of s')) with (k_state (k s')) in E'.
      change (cty (ctl_of (st w))) with (k_type (k (st w))) in T'.
      assert (NR : reading_state (k_state (k (st w))) = false).
      { clear - EE N. revert EE N. unfold Lemmas_C09.needs_cmd.
        destruct (k_state (k (st w))); cbn; intros; try reflexivity; discriminate. }
      rewrite (nonreading_consumed D ioS muS hS io_read io_write mu_lock mu_unlock h_call w NR).
      exists more. split; [exact Eb|]. split; [exact El|]. split; [rewrite T'; exact Ety|].
      split; [|split]; intros X; rewrite X in E'; discriminate E'. }
  destruct (k_state (k (st w))) eqn:Hk; try discriminate EE; clear EE.
  - (* CS_COMMAND_FOUND *)
    destruct (CF eq_refl) as [-> OL]. clear CF CA CW.
    assert (NR : reading_state (k_state (k (st w))) = false) by (rewrite Hk; reflexivity).
    rewrite (nonreading_consumed D ioS muS hS io_read io_write mu_lock mu_unlock h_call w NR).
    destruct (found_next _ _ _ S Hk N2) as [T' X].
    change (cty (ctl_of s')) with (k_type (k s')) in T'. change (ck (ctl_of s')) with (k_state (k s')) in X.
    change (cty (ctl_of (st w))) with (k_type (k (st w))) in T', X.
    exists []. split; [exact Eb|]. split; [exact El|]. split; [rewrite T'; exact Ety|].
    assert (Ty0 : k_type (k (st w)) = ty0).
    { rewrite Ety. unfold req_type. destruct ty0; try reflexivity. cbn. rewrite andb_false_r. reflexivity. }
    destruct X as [X|[[X1 X2]|[X1 X2]]].
    + split; [intros _; split; [reflexivity | exact OL]|]. split; intros Y; rewrite Y in X; discriminate X.
    + split; [intros Y; rewrite Y in X2; discriminate X2|]. split; [|intros Y; rewrite Y in X2; discriminate X2].
      intros _. assert (TW : ty0 = T_WRITE) by congruence. split; [exact TW|].
      split; [rewrite El, app_nil_r; apply OL; exact TW|]. left. split; [|reflexivity].
      revert Hf. unfold s'. unfold Fsm.cmd_service. rewrite Hk.
      cbn [fst Fsm.busy Fsm.upd_st Fsm.st Fsm.set_st]. intros Hf.
      exact (proj2 (found_len D (st w) X1 Hf)).
    + split; [|split]; intros Y; rewrite Y in X2; discriminate X2.
  - (* CS_PARSE_COMMAND_ARGS *)
    destruct (CA eq_refl) as (TW & OL & LEN). clear CF CA CW.
    assert (KW : k_type (k (st w)) = T_WRITE).
    { unfold Lemmas_Calls.JT in HT. change (ck (ctl_of (st w))) with (k_state (k (st w))) in HT.
      rewrite Hk in HT. exact HT. }
    rewrite (req_type_write more TW) in Ety.
    revert N' Hf KC. unfold s'. clear S N2 s'.
    unfold Fsm.cmd_service. rewrite Hk. unfold Fsm.parse_command_args.
    rewrite Lemmas_C01s.reading_eq. rewrite Hk.
    destruct (io_read (io w)) as [io' [c|]]; cbv zeta;
      cbn [fst Fsm.st Fsm.tr Fsm.set_st Fsm.logw Fsm.set_io]; rewrite Lemmas_C01s.consumed_cons;
      cbn [Lemmas_C01s.rd_byte].
    2:{ intros _ _ _. rewrite app_nil_r. exists more. split; [exact Eb|]. split; [exact El|].
        rewrite (req_type_write more TW).
        split; [exact Ety|]. rewrite Hk. split; [intros Y; discriminate Y|].
        split; [intros _; auto | intros Y; discriminate Y]. }
    destruct (rd_pre_facts c (st w)) as ((_ & _ & _ & _ & _ & E6 & E7 & E8 & E9 & _) & _ & _).
    set (s1 := Lemmas_C01s.rd_pre c (st w)) in *. clearbody s1.
    change (Lemmas_C01s.rd_char CS_PARSE_COMMAND_ARGS c) with c.
    match goal with |- context [Lemmas_C09.needs_cmd ?x] => change x with (pca_body D c s1) end.
    intros N' Hf KC.
    destruct (cmd_of D ATCMD s1) as [cm|] eqn:Ecm; [|rewrite (pca_none D c s1 Ecm) in Hf; discriminate Hf].
    assert (TC : tc = serves_test cm) by (apply (tc_cmd s1); [congruence | exact Ecm]).
    assert (Eb' : consumed (tr w) ++ [c] = bs0 ++ more ++ [c]) by (rewrite Eb, app_assoc; reflexivity).
    assert (El' : cur_line (consumed (tr w) ++ [c]) = cur_line bs0 ++ more ++ [c]).
    { rewrite cur_line_snoc, OL, El, app_assoc. reflexivity. }
    exists (more ++ [c]). split; [exact Eb'|]. split; [exact El'|].
    rewrite (req_type_write _ TW), first_arg_snoc. rewrite El'.
    destruct (c =? ch_LF)%N eqn:EL.
    + apply N.eqb_eq in EL. subst c.
      destruct (pca_lf D s1 cm Ecm N') as [T' E'].
      split.
      * rewrite T', E8, Ety. change (ch_LF =? ch_CR)%N with false.
        destruct LEN as [[_ L2]|(_ & L2 & L3)].
        -- rewrite L2. cbn [is_qm]. change (ch_LF =? ch_QM)%N with false. reflexivity.
        -- destruct (first_arg more); [reflexivity | contradiction].
      * split; [|split]; intros Y; rewrite Y in E'; discriminate E'.
    + destruct (pca_other D c s1 cm Ecm EL) as [(C1 & A1 & A2 & A3) | [(C1 & A0 & A1 & A2 & A3 & A4) | (C1 & A1 & A2)]];
        cbv zeta in *.
      * (* CR *)
        rewrite C1.
        assert (FA : match first_arg more with Some x => Some x | None => None end = first_arg more)
          by (destruct (first_arg more); reflexivity).
        rewrite FA. split; [rewrite A3, E8; exact Ety|].
        rewrite A1, E9, Hk. split; [intros Y; discriminate Y|]. split; [|intros Y; discriminate Y].
        intros _. split; [exact TW|]. split; [rewrite app_assoc; apply ends_lf_app1; exact EL|].
        rewrite A2, E6. exact LEN.
      * (* the test switch *)
        rewrite C1. destruct LEN as [[_ L2]|(L1 & _)]; [|rewrite E6 in A0; lia].
        rewrite L2. cbn [is_qm]. rewrite A1, TC, A2. cbn [andb].
        split; [exact A4|]. rewrite A3.
        split; [intros Y; discriminate Y|]. split; [intros Y; discriminate Y|].
        intros _. split; [exact TW|]. split; [rewrite app_assoc; apply ends_lf_app1; exact EL|].
        split; reflexivity.
      * (* an argument byte *)
        rewrite C1. destruct A2 as [A2|(A2 & A3 & A4)].
        { exfalso. revert N'. unfold Lemmas_C09.needs_cmd. rewrite A2. cbn. discriminate. }
        assert (Q : (if tc && is_qm (match first_arg more with Some x => Some x | None => Some c end)
                     then T_TEST else T_WRITE) = T_WRITE /\
                    (is_qm (match first_arg more with Some x => Some x | None => Some c end) = true -> tc = false)).
        { destruct LEN as [[L1 L2]|(L1 & L2 & L3)].
          - rewrite L2. cbn [is_qm]. rewrite E6 in A1.
            destruct (c =? ch_QM)%N; [|rewrite andb_false_r; split; [reflexivity | discriminate]].
            rewrite TC, (A1 L1 eq_refl). split; [reflexivity | reflexivity].
          - destruct (first_arg more) as [x|]; [|contradiction].
            destruct (is_qm (Some x)) eqn:Q; [rewrite (L3 eq_refl); split; reflexivity|].
            rewrite andb_false_r. split; [reflexivity | discriminate]. }
        destruct Q as [Q1 Q2]. split; [rewrite A4, E8, Q1; exact KW|].
        rewrite A2, E9, Hk. split; [intros Y; discriminate Y|]. split; [|intros Y; discriminate Y].
        intros _. split; [exact TW|]. split; [rewrite app_assoc; apply ends_lf_app1; exact EL|].
        right. rewrite A3. split; [lia|]. split; [destruct (first_arg more); discriminate | exact Q2].
  - (* CS_WAIT_TEST_ACK *)
    destruct (CW eq_refl) as (TW & OL & TC & QM). clear CF CA CW.
    rewrite (req_type_write more TW) in Ety.
    assert (HR : reading_state (k_state (k (st w))) = true) by (rewrite Hk; reflexivity).
    destruct (Lemmas_C01s.cmd_service_reading D ioS muS hS io_read io_write mu_lock mu_unlock h_call w HR)
      as [(io' & _ & _ & Es & Et) | (io' & ch & _ & _ & Et & Hn)].
    + unfold s'. rewrite Es, Et, Lemmas_C01s.consumed_cons. cbn [Lemmas_C01s.rd_byte]. rewrite app_nil_r.
      exists more. split; [exact Eb|]. split; [exact El|]. rewrite (req_type_write more TW).
      split; [exact Ety|]. rewrite Hk. split; [intros Y; discriminate Y|].
      split; [intros Y; discriminate Y | intros _; auto].
    + rewrite Et, Lemmas_C01s.consumed_cons. cbn [Lemmas_C01s.rd_byte]. cbv zeta in Hn.
      rewrite Hk in Hn. cbn [cstate_beq] in Hn. rewrite Lemmas_C01s.rd_char_lf in Hn.
      assert (Hn' : Lemmas_C01s.rd_next False (ctl_of (st w)) (ch =? ch_LF)%N (ctl_of s')).
      { revert Hn. unfold Lemmas_C01s.rd_next. cbv zeta. fold s'. rewrite Hf.
        change (ck (ctl_of (st w))) with (k_state (k (st w))). rewrite Hk.
        intros [[E [[Hb _] | Hx]] | Hx]; try discriminate Hb; auto. }
      destruct (wta_rd _ _ _ Hn' Hk N2) as [T' X].
      change (cty (ctl_of s')) with (k_type (k s')) in T'. change (ck (ctl_of s')) with (k_state (k s')) in X.
      change (cty (ctl_of (st w))) with (k_type (k (st w))) in T'.
      assert (FA : is_qm (first_arg (more ++ [ch])) = true).
      { rewrite first_arg_snoc. destruct (first_arg more); [exact QM | discriminate QM]. }
      exists (more ++ [ch]). split; [rewrite Eb, app_assoc; reflexivity|].
      split; [rewrite cur_line_snoc, OL, El, app_assoc; reflexivity|].
      rewrite (req_type_write _ TW), FA, T', Ety, QM. split; [reflexivity|].
      destruct (ch =? ch_LF)%N eqn:EL.
      * split; [|split]; intros Y; rewrite Y in X; discriminate X.
      * rewrite X. split; [intros Y; discriminate Y|]. split; [intros Y; discriminate Y|].
        intros _. split; [exact TW|].
        split; [rewrite cur_line_snoc, OL, El, <- app_assoc, app_assoc; apply ends_lf_app1; exact EL|].
        split; [exact TC | reflexivity].
Qed.

End Rel.

(* ================================================================== *)
(* F. histories in the supported domain                                  *)
(* ================================================================== *)
Lemma needs_kv : forall s s', kv s' = kv s -> Lemmas_C09.needs_cmd s' = Lemmas_C09.needs_cmd s.
Proof.
  intros s s' E. unfold kv in E. injection E; intros E5 E4 E3 E2 E1.
  unfold Lemmas_C09.needs_cmd. rewrite E1, E5. reflexivity.
Qed.

Lemma scan_not_test : forall l t, scan l <> LEnd t T_TEST.
Proof.
  induction l as [|a l IH] using rev_ind; intros t; [discriminate|].
  rewrite scan_snoc. specialize (IH t).
  destruct (scan l) eqn:E; unfold lstep; cbv zeta;
    repeat match goal with
           | |- context [if ?b then _ else _] => destruct b
           | |- context [match ?t with [] => _ | _ :: _ => _ end] => destruct t
           end; try discriminate; try exact IH.
Qed.

Lemma type_of_not_test : forall l, type_of l <> T_TEST.
Proof.
  intros l H. unfold type_of in H. destruct (scan l) eqn:E; try discriminate H.
  subst ty. exact (scan_not_test l t E).
Qed.

Lemma req_type_test : forall tc ty0 more, ty0 <> T_TEST -> req_type tc ty0 more = T_TEST ->
  ty0 = T_WRITE /\ tc = true /\ is_qm (first_arg more) = true.
Proof.
  intros tc ty0 more H E. unfold req_type in E. destruct ty0; try discriminate E; try contradiction.
  destruct tc; [|discriminate E]. destruct (is_qm (first_arg more)); [auto | discriminate E].
Qed.

Lemma req_type_wr : forall tc ty0 more, req_type tc ty0 more = T_WRITE ->
  ty0 = T_WRITE /\ (tc = true -> is_qm (first_arg more) = true -> False).
Proof.
  intros tc ty0 more E. unfold req_type in E. destruct ty0; try discriminate E.
  split; [reflexivity|]. intros -> Q. rewrite Q in E. discriminate E.
Qed.

Section Hist4.
Variable D : desc.
Variables ioS muS hS : Type.
Variable io_read : ioS -> ioS * option N.
Variable io_write : ioS -> N -> ioS * bool.
Variable mu_lock : muS -> muS * bool.
Variable mu_unlock : muS -> muS * bool.
Variable h_call : hS -> hreq -> hS * hres.
Hypothesis no_uhold : forall hs q, unsol_req q = true -> r_code (snd (h_call hs q)) <> RC_HOLD.
Hypothesis handlers_valid : forall hs q, Forall (valid_icall D) (r_calls (snd (h_call hs q))).

Notation world := (Fsm.world ioS muS hS).
Notation mkWorld := (Fsm.mkWorld ioS muS hS).
Notation st := (Fsm.st ioS muS hS).
Notation tr := (Fsm.tr ioS muS hS).
Notation do_op := (Fsm.do_op D ioS muS hS io_read io_write mu_lock mu_unlock h_call).
Notation step := (Fsm.step D ioS muS hS io_read io_write mu_lock mu_unlock h_call).
Notation run := (Fsm.run D ioS muS hS io_read io_write mu_lock mu_unlock h_call).
Notation cmd_service := (Fsm.cmd_service D ioS muS hS io_read io_write mu_lock mu_unlock h_call).
Notation consumed := Lemmas_C01s.consumed.
Notation fbl := (Lemmas_C09.flags_between_lines D ioS muS hS io_read io_write mu_lock mu_unlock h_call).
Notation line w := (cur_line (consumed (tr w))).
Notation reach m x mx h ops := (run (mkWorld (init_state D m) x mx h []) ops).
Local Notation run_snoc := (Lemmas_Ctl.run_snoc D ioS muS hS io_read io_write mu_lock mu_unlock h_call).
Local Notation st_step := (Lemmas_Ctl.st_step D ioS muS hS io_read io_write mu_lock mu_unlock h_call).
Local Notation WQr := (WQ_reachable D ioS muS hS io_read io_write mu_lock mu_unlock h_call no_uhold handlers_valid).
Local Notation JTd := (Lemmas_Calls.JT_in_domain D ioS muS hS io_read io_write mu_lock mu_unlock h_call
                         no_uhold handlers_valid).
Local Notation nofault := (C03_no_fault D ioS muS hS io_read io_write mu_lock mu_unlock h_call handlers_valid).
Local Notation Jd := (J_in_domain D ioS muS hS io_read io_write mu_lock mu_unlock h_call no_uhold handlers_valid).

Theorem FN_reachable : forall m x mx h ops, wf_desc D m -> Forall (valid_op D) ops ->
  fbl (mkWorld (init_state D m) x mx h []) ops ->
  FN (st (reach m x mx h ops)) (consumed (tr (reach m x mx h ops))).
Proof.
  intros m x mx h ops WF.
  induction ops as [|o ops IH] using rev_ind; intros FO FB.
  - intros [X|X]; discriminate X.
  - pose proof FO as FO'. apply Forall_app in FO'. destruct FO' as [FO1 _].
    pose proof FB as FB'.
    apply (fbl_snoc D ioS muS hS io_read io_write mu_lock mu_unlock h_call) in FB'. destruct FB' as [FB1 _].
    pose proof (WQr m x mx h ops WF FO1 FB1) as Q1.
    pose proof (WQr m x mx h (ops ++ [o]) WF FO FB) as Q2.
    pose proof (nofault m x mx h (ops ++ [o]) WF FO) as Hf.
    rewrite run_snoc in *.
    set (w := reach m x mx h ops) in *.
    destruct (Jd m x mx h ops WF FO1) as [F0 HJ]. fold w in F0, HJ.
    pose proof (JTd m x mx h ops WF FO1) as HT. fold w in HT.
    apply (lift_step D ioS muS hS io_read io_write mu_lock mu_unlock h_call no_uhold FN FN_kv w o HJ HT Hf);
      [|apply IH; assumption].
    intros w1 E EC KV C1 J1 T1 F1 ES ECo P1.
    apply (FN_cmd D ioS muS hS io_read io_write mu_lock mu_unlock h_call no_uhold w1 J1).
    + rewrite <- ES. exact Hf.
    + rewrite C1. eapply Q0_eqk; [exact E | exact EC | exact F1 | exact Q1].
    + rewrite <- ES, <- ECo. exact Q2.
    + exact P1.
Qed.

(* 1. CS_COMMAND_FOUND, with the missing conjuncts *)
Theorem C02_found_is_resolve'_proof : forall m x mx h ops,
  wf_desc D m -> Forall (valid_op D) ops ->
  fbl (mkWorld (init_state D m) x mx h []) ops ->
  let w := reach m x mx h ops in
  k_state (k (st w)) = CS_COMMAND_FOUND ->
  (k_cmd (k (st w)) = resolve (typed_of (line w)) (enabled D (st w)) (cmds D) /\
   k_cmd (k (st w)) <> None /\
   k_type (k (st w)) = type_of (line w)) /\
  typed_of (line w) <> [] /\
  typed_of (line w) = typed_decl (line w) /\
  fresh (xscan (line w)) = true.
Proof.
  intros m x mx h ops WF FO FB w Hk.
  split; [exact (C02_found_is_resolve_proof D ioS muS hS io_read io_write mu_lock mu_unlock h_call
                   no_uhold handlers_valid m x mx h ops WF FO FB Hk)|].
  destruct (FN_reachable m x mx h ops WF FO FB (or_intror Hk)) as [A B]. fold w in A, B.
  split; [exact A|]. split; [apply typed_of_is_decl; exact A | exact B].
Qed.

Lemma firstn_S_snoc' : forall (l : list op) j, j < length l ->
  exists o, firstn (S j) l = firstn j l ++ [o].
Proof.
  induction l as [|a l IH]; intros j Hj; [cbn in Hj; lia|].
  destruct j as [|j].
  - exists a. reflexivity.
  - destruct (IH j) as [o E]; [cbn in Hj; lia|]. exists o.
    change (firstn (S (S j)) (a :: l)) with (a :: firstn (S j) l). rewrite E. reflexivity.
Qed.

Lemma Forall_firstn' : forall (P : op -> Prop) l j, Forall P l -> Forall P (firstn j l).
Proof.
  intros P l j H. rewrite <- (firstn_skipn j l) in H. apply Forall_app in H. tauto.
Qed.

(* from a CS_COMMAND_FOUND state on, as long as the selected command stays needed *)
Lemma Rel_stretch : forall m x mx h ops0 opsm,
  wf_desc D m -> Forall (valid_op D) (ops0 ++ opsm) ->
  fbl (mkWorld (init_state D m) x mx h []) ops0 ->
  let wf := reach m x mx h ops0 in
  k_state (k (st wf)) = CS_COMMAND_FOUND ->
  (forall j, j <= length opsm ->
     Lemmas_C09.needs_cmd (st (reach m x mx h (ops0 ++ firstn j opsm))) = true) ->
  forall j, j <= length opsm ->
  let w := reach m x mx h (ops0 ++ firstn j opsm) in
  Rel D (consumed (tr wf)) (type_of (line wf)) (k_cmd (k (st wf))) (st w) (consumed (tr w)).
Proof.
  intros m x mx h ops0 opsm WF FO FB wf Hk Hnd j.
  assert (FO0 : Forall (valid_op D) ops0) by (apply Forall_app in FO; tauto).
  destruct (C02_found_is_resolve'_proof m x mx h ops0 WF FO0 FB Hk) as ((_ & _ & Ty) & _ & _ & Fr).
  fold wf in Ty, Fr.
  induction j as [|j IH]; intros Hj w.
  - subst w. cbn [firstn]. rewrite app_nil_r. fold wf.
    split; [reflexivity|]. exists []. rewrite !app_nil_r.
    split; [reflexivity|]. split; [reflexivity|].
    split.
    { rewrite Ty. unfold req_type. destruct (type_of (line wf)); try reflexivity.
      cbn. rewrite andb_false_r. reflexivity. }
    rewrite Hk. split; [|split; intros Y; discriminate Y].
    intros _. split; [reflexivity|]. intros T. exact (fresh_write_open _ Fr T).
  - destruct (firstn_S_snoc' opsm j) as [o E]; [lia|].
    specialize (IH ltac:(lia)). cbv zeta in IH.
    subst w. rewrite E, app_assoc, run_snoc.
    assert (FOj : Forall (valid_op D) (ops0 ++ firstn j opsm)).
    { apply Forall_app in FO. destruct FO as [A B]. apply Forall_app. split; [exact A|].
      apply Forall_firstn'. exact B. }
    assert (FOs : Forall (valid_op D) ((ops0 ++ firstn j opsm) ++ [o])).
    { rewrite <- app_assoc, <- E. apply Forall_app in FO. destruct FO as [A B]. apply Forall_app.
      split; [exact A|]. apply Forall_firstn'. exact B. }
    pose proof (Hnd j ltac:(lia)) as N1.
    pose proof (Hnd (S j) Hj) as N2. rewrite E, app_assoc, run_snoc in N2.
    set (w := reach m x mx h (ops0 ++ firstn j opsm)) in *.
    assert (Hf : fault (st (step w o)) = false).
    { unfold w. rewrite <- run_snoc. exact (nofault m x mx h _ WF FOs). }
    destruct (Jd m x mx h _ WF FOj) as [F0 HJ]. fold w in F0, HJ.
    pose proof (JTd m x mx h _ WF FOj) as HT. fold w in HT.
    apply (lift_step D ioS muS hS io_read io_write mu_lock mu_unlock h_call no_uhold _
             (Rel_kv D (consumed (tr wf)) (type_of (line wf)) (k_cmd (k (st wf)))) w o HJ HT Hf);
      [|exact IH].
    intros w1 _ _ KV C1 J1 T1 F1 ES ECo P1.
    apply (Rel_cmd D _ _ _ ioS muS hS io_read io_write mu_lock mu_unlock h_call no_uhold w1 T1).
    + rewrite <- ES. exact Hf.
    + rewrite (needs_kv _ _ KV). exact N1.
    + rewrite <- ES. exact N2.
    + exact P1.
Qed.


(* the selected command, as a command of the table *)
Lemma resolved_cmd : forall t en i, resolve t en (cmds D) = Some i ->
  exists c, nth_error (cmds D) i = Some c /\
            tc_of D (Some i) = serves_test c.
Proof.
  intros t en i H. destruct (Lemmas_C02.C09_resolve_enabled _ _ _ _ H) as [_ Hi].
  destruct (nth_error (cmds D) i) as [c|] eqn:E; [|apply nth_error_None in E; lia].
  exists c. split; [reflexivity|]. unfold tc_of, pool. rewrite nth_error_app1 by exact Hi. rewrite E. reflexivity.
Qed.

(* what holds of the world w = run ops whenever the selected command is needed: the history splits at
   the CS_COMMAND_FOUND state of the same line *)
Definition on_line (ops : list op) (w0 : world) (ci : nat) (c : cmd) : Prop :=
  exists ops0 opsm, ops = ops0 ++ opsm /\
    let wf := run w0 ops0 in let w := run w0 ops in
    k_state (k (st wf)) = CS_COMMAND_FOUND /\
    resolve (typed_of (line wf)) (enabled D (st wf)) (cmds D) = Some ci /\
    nth_error (cmds D) ci = Some c /\
    typed_of (line wf) <> [] /\ typed_of (line wf) = typed_decl (line wf) /\
    fresh (xscan (line wf)) = true /\
    (forall j, j <= length opsm -> Lemmas_C09.needs_cmd (st (run w0 (ops0 ++ firstn j opsm))) = true) /\
    (forall j, j <= length opsm -> k_cmd (k (st (run w0 (ops0 ++ firstn j opsm)))) = Some ci) /\
    exists more,
      consumed (tr w) = consumed (tr wf) ++ more /\ line w = line wf ++ more /\
      k_type (k (st w)) = req_type (serves_test c) (type_of (line wf)) more /\
      (by_suffix (xscan (line wf)) = true -> k_type (k (st w)) = type_of' c (line w)).

Lemma on_line_of_stretch : forall m x mx h ops0 opsm,
  wf_desc D m -> Forall (valid_op D) (ops0 ++ opsm) ->
  let w0 := mkWorld (init_state D m) x mx h [] in
  fbl w0 ops0 ->
  k_state (k (st (run w0 ops0))) = CS_COMMAND_FOUND ->
  (forall j, j <= length opsm -> Lemmas_C09.needs_cmd (st (run w0 (ops0 ++ firstn j opsm))) = true) ->
  exists ci c, k_cmd (k (st (run w0 (ops0 ++ opsm)))) = Some ci /\ on_line (ops0 ++ opsm) w0 ci c.
Proof.
  intros m x mx h ops0 opsm WF FO w0 FB Hk Hnd.
  assert (FO0 : Forall (valid_op D) ops0) by (apply Forall_app in FO; tauto).
  destruct (C02_found_is_resolve'_proof m x mx h ops0 WF FO0 FB Hk) as ((R1 & R2 & Ty) & TN & TD & Fr).
  fold w0 in R1, R2, Ty, TN, TD, Fr.
  destruct (k_cmd (k (st (run w0 ops0)))) as [ci|] eqn:KC; [|contradiction R2; reflexivity].
  destruct (resolved_cmd _ _ _ (eq_sym R1)) as (c & Ec & Etc).
  pose proof (Rel_stretch m x mx h ops0 opsm WF FO FB Hk Hnd) as RS. cbv zeta in RS. fold w0 in RS.
  rewrite KC in RS.
  exists ci, c.
  destruct (RS (length opsm) (le_n _)) as (KL & more & B1 & B2 & B3 & _). rewrite firstn_all in KL, B1, B2, B3.
  split; [exact KL|].
  exists ops0, opsm. split; [reflexivity|]. cbv zeta.
  split; [exact Hk|]. split; [symmetry; exact R1|]. split; [exact Ec|].
  split; [exact TN|]. split; [exact TD|]. split; [exact Fr|]. split; [exact Hnd|].
  split; [intros j Hj; exact (proj1 (RS j Hj))|].
  exists more. split; [exact B1|]. split; [exact B2|]. rewrite Etc in B3. split; [exact B3|].
  intros BS. rewrite B2, (type_of'_split c _ more BS). exact B3.
Qed.

(* 3. the request type whenever the selected command is needed *)
Theorem C02_type_when_needed_proof : forall m x mx h ops,
  wf_desc D m -> Forall (valid_op D) ops ->
  let w0 := mkWorld (init_state D m) x mx h [] in
  fbl w0 ops ->
  Lemmas_C09.needs_cmd (st (run w0 ops)) = true ->
  exists ci c, k_cmd (k (st (run w0 ops))) = Some ci /\ on_line ops w0 ci c.
Proof.
  intros m x mx h ops WF FO w0 FB N.
  destruct (Lemmas_Calls.selection_origin D ioS muS hS io_read io_write mu_lock mu_unlock h_call
              no_uhold handlers_valid m x mx h ops WF FO N) as (ops0 & opsm & E & X & _ & A).
  fold w0 in X, A. subst ops.
  assert (FB0 : fbl w0 ops0) by (eapply (fbl_app D ioS muS hS io_read io_write mu_lock mu_unlock h_call); exact FB).
  destruct (on_line_of_stretch m x mx h ops0 opsm WF FO FB0 X A) as (ci & c & K & OL).
  exists ci, c. split; [exact K | exact OL].
Qed.

(* 2. + 3. per occurrence: the operation that logs a command-side callback *)
Theorem C02_call_step_proof : forall m x mx h ops o new q code,
  wf_desc D m -> Forall (valid_op D) (ops ++ [o]) ->
  let w0 := mkWorld (init_state D m) x mx h [] in
  fbl w0 ops ->
  tr (step (run w0 ops) o) = new ++ tr (run w0 ops) ->
  In (ECall q code) new -> Lemmas_Calls.ev_side q = false ->
  o = OService /\
  (let s := st (run w0 ops) in
   k_cmd (k s) = Some (req_cmd q) /\ k_state (k s) = Lemmas_Calls.call_state q /\
   k_type (k s) = Lemmas_Calls.kind_type q) /\
  exists c, on_line ops w0 (req_cmd q) c.
Proof.
  intros m x mx h ops o new q code WF FO w0 FB T Hin Hev.
  assert (FO1 : Forall (valid_op D) ops) by (apply Forall_app in FO; tauto).
  set (w := run w0 ops) in *.
  destruct (Lemmas_Calls.do_op_calls D ioS muS hS io_read io_write mu_lock mu_unlock h_call w o) as [evs [T2 HP]].
  rewrite (Lemmas_Calls.step_tr D ioS muS hS io_read io_write mu_lock mu_unlock h_call), T2 in T.
  change (ERet o (snd (do_op w o)) :: evs ++ tr w) with ((ERet o (snd (do_op w o)) :: evs) ++ tr w) in T.
  apply app_inv_tail in T. subst new. destruct Hin as [Hin|Hin]; [discriminate Hin|].
  destruct (HP q code Hin) as [-> [w' [Ew M]]]. split; [reflexivity|].
  destruct (Lemmas_Calls.moment_cmd_side D ioS muS hS io_read io_write mu_lock mu_unlock h_call w' q code M Hev)
    as (_ & _ & K1 & K2). rewrite Ew in K1, K2.
  pose proof (JTd m x mx h ops WF FO1) as HT. fold w0 in HT. fold w in HT.
  split.
  { cbv zeta. split; [exact K2|]. split; [exact K1|]. apply Lemmas_Calls.JT_kind; assumption. }
  assert (N : Lemmas_C09.needs_cmd (st w) = true).
  { unfold Lemmas_C09.needs_cmd. rewrite K1. destruct q; reflexivity. }
  destruct (C02_type_when_needed_proof m x mx h ops WF FO1 FB N) as (ci & c & K & OL).
  fold w0 in K. fold w in K. rewrite K2 in K. injection K; intros <-.
  exists c. exact OL.
Qed.

(* per line: two callback operations between which the selected command stays needed concern the same
   command, the one selected for the line in progress at the first of them, and belong to that line *)
Theorem C02_calls_one_line_proof : forall m x mx h ops1 o1 mid o2 new1 new2 q1 q2 code1 code2,
  let ops2 := ops1 ++ o1 :: mid in
  wf_desc D m -> Forall (valid_op D) (ops2 ++ [o2]) ->
  let w0 := mkWorld (init_state D m) x mx h [] in
  fbl w0 ops2 ->
  tr (step (run w0 ops1) o1) = new1 ++ tr (run w0 ops1) ->
  In (ECall q1 code1) new1 -> Lemmas_Calls.ev_side q1 = false ->
  tr (step (run w0 ops2) o2) = new2 ++ tr (run w0 ops2) ->
  In (ECall q2 code2) new2 -> Lemmas_Calls.ev_side q2 = false ->
  (forall j, j <= length (o1 :: mid) ->
     Lemmas_C09.needs_cmd (st (run w0 (ops1 ++ firstn j (o1 :: mid)))) = true) ->
  req_cmd q2 = req_cmd q1 /\
  exists c ops0 opsm, ops1 = ops0 ++ opsm /\
    let wf := run w0 ops0 in
    k_state (k (st wf)) = CS_COMMAND_FOUND /\
    resolve (typed_of (line wf)) (enabled D (st wf)) (cmds D) = Some (req_cmd q1) /\
    nth_error (cmds D) (req_cmd q1) = Some c /\
    (exists more1, consumed (tr (run w0 ops1)) = consumed (tr wf) ++ more1 /\
                   line (run w0 ops1) = line wf ++ more1 /\
                   Lemmas_Calls.kind_type q1 = req_type (serves_test c) (type_of (line wf)) more1) /\
    (exists more2, consumed (tr (run w0 ops2)) = consumed (tr wf) ++ more2 /\
                   line (run w0 ops2) = line wf ++ more2 /\
                   Lemmas_Calls.kind_type q2 = req_type (serves_test c) (type_of (line wf)) more2).
Proof.
  intros m x mx h ops1 o1 mid o2 new1 new2 q1 q2 code1 code2 ops2 WF FO w0 FB T1 I1 S1 T2 I2 S2 Hmid.
  assert (FO2 : Forall (valid_op D) ops2) by (apply Forall_app in FO; tauto).
  assert (FO1 : Forall (valid_op D) (ops1 ++ [o1])).
  { unfold ops2 in FO2. apply Forall_app in FO2. destruct FO2 as [A B]. apply Forall_app. split; [exact A|].
    inversion B; subst. constructor; [assumption | constructor]. }
  assert (FB1 : fbl w0 ops1)
    by (eapply (fbl_app D ioS muS hS io_read io_write mu_lock mu_unlock h_call); exact FB).
  destruct (C02_call_step_proof m x mx h ops1 o1 new1 q1 code1 WF FO1 FB1 T1 I1 S1)
    as (_ & (K1 & _ & Ty1) & c & ops0 & opsm & E & Hk & Rs & Ec & _ & _ & _ & Hnd & _ & more1 & B1 & B2 & B3 & _).
  destruct (C02_call_step_proof m x mx h ops2 o2 new2 q2 code2 WF FO FB T2 I2 S2)
    as (_ & (K2 & _ & Ty2) & _).
  cbv zeta in *. fold w0 in K1, K2, Ty1, Ty2, Hk, Rs, Hnd, B1, B2, B3.
  (* the stretch from the CS_COMMAND_FOUND state of the first callback to the second *)
  assert (E2 : ops2 = ops0 ++ (opsm ++ o1 :: mid)) by (unfold ops2; rewrite E, <- app_assoc; reflexivity).
  assert (FO' : Forall (valid_op D) (ops0 ++ (opsm ++ o1 :: mid))) by (rewrite <- E2; exact FO2).
  assert (FB0 : fbl w0 ops0).
  { rewrite E in FB1. eapply (fbl_app D ioS muS hS io_read io_write mu_lock mu_unlock h_call); exact FB1. }
  assert (Hnd' : forall j, j <= length (opsm ++ o1 :: mid) ->
            Lemmas_C09.needs_cmd (st (run w0 (ops0 ++ firstn j (opsm ++ o1 :: mid)))) = true).
  { intros j Hj. destruct (Nat.le_gt_cases j (length opsm)) as [Le|Gt].
    - rewrite firstn_app. replace (j - length opsm) with 0 by lia. cbn [firstn]. rewrite app_nil_r.
      apply Hnd. exact Le.
    - rewrite firstn_app, firstn_all2 by lia. rewrite app_assoc, <- E. apply Hmid.
      rewrite app_length in Hj. lia. }
  pose proof (Rel_stretch m x mx h ops0 (opsm ++ o1 :: mid) WF FO' FB0 Hk Hnd') as RS.
  cbv zeta in RS. fold w0 in RS.
  destruct (C02_found_is_resolve'_proof m x mx h ops0 WF
              ltac:(apply Forall_app in FO'; tauto) FB0 Hk) as ((R1 & _) & _).
  fold w0 in R1. rewrite Rs in R1. rewrite R1 in RS.
  destruct (RS _ (le_n _)) as (KL & more2 & C1 & C2 & C3 & _). rewrite firstn_all, <- E2 in KL, C1, C2, C3.
  rewrite K2 in KL. injection KL; intros EQ.
  split; [exact EQ|].
  exists c, ops0, opsm. split; [exact E|]. split; [exact Hk|]. split; [exact Rs|]. split; [exact Ec|].
  split.
  - exists more1. split; [exact B1|]. split; [exact B2|]. rewrite <- Ty1. exact B3.
  - exists more2. split; [exact C1|]. split; [exact C2|]. rewrite <- Ty2, C3.
    destruct (resolved_cmd _ _ _ Rs) as (c2 & Ec2 & Etc). rewrite Ec in Ec2. injection Ec2; intros <-.
    rewrite Etc. reflexivity.
Qed.


(* the states of a TEST request, of a WRITE request *)
Definition test_state (s : state) : Prop :=
  k_state (k s) = CS_WAIT_TEST_ACK \/ k_state (k s) = CS_FORMAT_TEST_ARGS \/ k_state (k s) = CS_TEST_LOOP \/
  k_state (k s) = CS_AFTER_FMT_TEST \/
  ((k_state (k s) = CS_FLUSH_WAIT \/ k_state (k s) = CS_FLUSH) /\ k_wafter (k s) = CS_AFTER_FMT_TEST).
Definition write_state (s : state) : Prop :=
  k_state (k s) = CS_PARSE_COMMAND_ARGS \/ k_state (k s) = CS_PARSE_WRITE_ARGS \/ k_state (k s) = CS_WRITE_LOOP.

Lemma test_state_type : forall s, Lemmas_Calls.JT (ctl_of s) -> test_state s -> k_type (k s) = T_TEST.
Proof.
  intros s H T. apply Lemmas_Calls.JT_loop_type in H. unfold Lemmas_Calls.loop_type in H.
  destruct T as [E|[E|[E|[E|[[E|E] W]]]]]; rewrite E in H; try exact H; destruct H as (_ & _ & H); exact (H W).
Qed.
Lemma write_state_type : forall s, Lemmas_Calls.JT (ctl_of s) -> write_state s -> k_type (k s) = T_WRITE.
Proof.
  intros s H T. apply Lemmas_Calls.JT_loop_type in H. unfold Lemmas_Calls.loop_type in H.
  destruct T as [E|[E|E]]; rewrite E in H; exact H.
Qed.
Lemma test_state_needs : forall s, test_state s -> Lemmas_C09.needs_cmd s = true.
Proof.
  intros s T. unfold Lemmas_C09.needs_cmd.
  destruct T as [E|[E|[E|[E|[[E|E] W]]]]]; rewrite E; try rewrite W; reflexivity.
Qed.
Lemma write_state_needs : forall s, write_state s -> Lemmas_C09.needs_cmd s = true.
Proof. intros s T. unfold Lemmas_C09.needs_cmd. destruct T as [E|[E|E]]; rewrite E; reflexivity. Qed.

Theorem C02_types_by_state_proof : forall m x mx h ops,
  wf_desc D m -> Forall (valid_op D) ops ->
  let w0 := mkWorld (init_state D m) x mx h [] in
  fbl w0 ops ->
  let w := run w0 ops in
  test_state (st w) \/ write_state (st w) ->
  exists ci c ops0 opsm more, ops = ops0 ++ opsm /\
    let wf := run w0 ops0 in
    k_state (k (st wf)) = CS_COMMAND_FOUND /\
    resolve (typed_of (line wf)) (enabled D (st wf)) (cmds D) = Some ci /\
    nth_error (cmds D) ci = Some c /\ k_cmd (k (st w)) = Some ci /\
    consumed (tr w) = consumed (tr wf) ++ more /\ line w = line wf ++ more /\
    type_of (line wf) = T_WRITE /\
    (test_state (st w) ->
       k_type (k (st w)) = T_TEST /\ serves_test c = true /\ is_qm (first_arg more) = true /\
       (by_suffix (xscan (line wf)) = true -> test_shape (xscan (line w)) = true)) /\
    (write_state (st w) ->
       k_type (k (st w)) = T_WRITE /\ (serves_test c = true -> is_qm (first_arg more) = false) /\
       (by_suffix (xscan (line wf)) = true -> serves_test c = true -> test_shape (xscan (line w)) = false)).
Proof.
  intros m x mx h ops WF FO w0 FB w HS.
  assert (N : Lemmas_C09.needs_cmd (st w) = true)
    by (destruct HS; [apply test_state_needs | apply write_state_needs]; assumption).
  pose proof (JTd m x mx h ops WF FO) as HT. fold w0 in HT. fold w in HT.
  destruct (C02_type_when_needed_proof m x mx h ops WF FO FB N)
    as (ci & c & K & ops0 & opsm & E & Hk & Rs & Ec & _ & _ & _ & _ & _ & more & B1 & B2 & B3 & B4).
  cbv zeta in *. fold w0 in K, Hk, Rs, B1, B2, B3, B4. fold w in K, B1, B2, B3, B4.
  exists ci, c, ops0, opsm, more. split; [exact E|]. split; [exact Hk|]. split; [exact Rs|].
  split; [exact Ec|]. split; [exact K|]. split; [exact B1|]. split; [exact B2|].
  assert (SH : by_suffix (xscan (line (run w0 ops0))) = true -> type_of (line (run w0 ops0)) = T_WRITE ->
               test_shape (xscan (line w)) = is_qm (first_arg more)).
  { intros BS TW. rewrite B2, xscan_app. destruct (xscan (line (run w0 ops0))) eqn:X; try discriminate BS.
    - exfalso. unfold type_of in TW. rewrite <- xold_scan, X in TW. cbn in TW. subst ty.
      exact (xend_not_write _ _ X).
    - apply fold_eq_shape. }
  assert (TW : type_of (line (run w0 ops0)) = T_WRITE).
  { destruct HS as [T|T].
    - pose proof (test_state_type _ HT T) as X. rewrite B3 in X.
      exact (proj1 (req_type_test _ _ _ (type_of_not_test _) X)).
    - pose proof (write_state_type _ HT T) as X. rewrite B3 in X. exact (proj1 (req_type_wr _ _ _ X)). }
  split; [exact TW|]. split.
  - intros T. pose proof (test_state_type _ HT T) as X. split; [exact X|]. rewrite B3 in X.
    destruct (req_type_test _ _ _ (type_of_not_test _) X) as (_ & X2 & X3).
    split; [exact X2|]. split; [exact X3|]. intros BS. rewrite (SH BS TW). exact X3.
  - intros T. pose proof (write_state_type _ HT T) as X. split; [exact X|]. rewrite B3 in X.
    destruct (req_type_wr _ _ _ X) as (_ & X2).
    assert (Q : serves_test c = true -> is_qm (first_arg more) = false).
    { intros S. destruct (is_qm (first_arg more)); [destruct (X2 S eq_refl) | reflexivity]. }
    split; [exact Q|]. intros BS S. rewrite (SH BS TW). exact (Q S).
Qed.


(* 3. the callback's kind EQUALS the request type of its line *)
Theorem C02_handler_kind'_proof : forall m x mx h ops o new q code,
  wf_desc D m -> Forall (valid_op D) (ops ++ [o]) ->
  let w0 := mkWorld (init_state D m) x mx h [] in
  fbl w0 ops ->
  tr (step (run w0 ops) o) = new ++ tr (run w0 ops) ->
  In (ECall q code) new -> Lemmas_Calls.ev_side q = false ->
  exists c ops0 opsm more, ops = ops0 ++ opsm /\
    let wf := run w0 ops0 in let w := run w0 ops in
    k_state (k (st wf)) = CS_COMMAND_FOUND /\
    resolve (typed_of (line wf)) (enabled D (st wf)) (cmds D) = Some (req_cmd q) /\
    nth_error (cmds D) (req_cmd q) = Some c /\
    consumed (tr w) = consumed (tr wf) ++ more /\ line w = line wf ++ more /\
    Lemmas_Calls.kind_type q = req_type (serves_test c) (type_of (line wf)) more /\
    (by_suffix (xscan (line wf)) = true -> Lemmas_Calls.kind_type q = type_of' c (line w)).
Proof.
  intros m x mx h ops o new q code WF FO w0 FB T Hin Hev.
  destruct (C02_call_step_proof m x mx h ops o new q code WF FO FB T Hin Hev)
    as (_ & (_ & _ & Ty) & c & ops0 & opsm & E & Hk & Rs & Ec & _ & _ & _ & _ & _ & more & B1 & B2 & B3 & B4).
  cbv zeta in *. fold w0 in Ty, Hk, Rs, B1, B2, B3, B4.
  exists c, ops0, opsm, more. split; [exact E|]. split; [exact Hk|]. split; [exact Rs|]. split; [exact Ec|].
  split; [exact B1|]. split; [exact B2|]. rewrite <- Ty. split; [exact B3 | exact B4].
Qed.

End Hist4.

(* ================================================================== *)
(* G. transfer to oracle-state invariants and to the scripted worlds     *)
(* ================================================================== *)
(* same technique as Lemmas_Inv3.v: the run driven by h_call equals the run driven by the sanitised
   oracle on the invariant; the theorems above are applied to the sanitised oracle *)
From CatV Require Script SchedDefs Lemmas_Inv Lemmas_Inv2 Lemmas_Inv3.

Section InvI.
Variable D : desc.
Variables ioS muS hS : Type.
Variable io_read : ioS -> ioS * option N.
Variable io_write : ioS -> N -> ioS * bool.
Variable mu_lock : muS -> muS * bool.
Variable mu_unlock : muS -> muS * bool.
Variable h_call : hS -> hreq -> hS * hres.
Variable HI : hS -> Prop.
Hypothesis HI_step : forall h q, HI h -> HI (fst (h_call h q)) /\ Lemmas_Inv.Good D q (snd (h_call h q)).

Local Notation world := (Fsm.world ioS muS hS).
Local Notation st := (Fsm.st ioS muS hS).
Local Notation hs := (Fsm.hs ioS muS hS).
Local Notation tr := (Fsm.tr ioS muS hS).
Local Notation run := (Fsm.run D ioS muS hS io_read io_write mu_lock mu_unlock h_call).
Local Notation step := (Fsm.step D ioS muS hS io_read io_write mu_lock mu_unlock h_call).
Local Notation init m x mx h := (mkWorld ioS muS hS (init_state D m) x mx h []).
Local Notation hsan := (Lemmas_Inv.h_san D hS h_call).
Local Notation NU := (Lemmas_Inv.h_san_no_uhold D hS h_call).
Local Notation HVa := (Lemmas_Inv.h_san_valid D hS h_call).
Local Notation run' := (Fsm.run D ioS muS hS io_read io_write mu_lock mu_unlock hsan).
Local Notation RS := (Lemmas_Inv.run_san D ioS muS hS io_read io_write mu_lock mu_unlock h_call HI HI_step).
Local Notation SS := (Lemmas_Inv.step_san D ioS muS hS io_read io_write mu_lock mu_unlock h_call HI HI_step).
Local Notation ARGS T := (T D ioS muS hS io_read io_write mu_lock mu_unlock hsan).
Local Notation fbl := (Lemmas_C09.flags_between_lines D ioS muS hS io_read io_write mu_lock mu_unlock h_call).
Local Notation fbl_san :=
  (Lemmas_Inv3.fbl_san D ioS muS hS io_read io_write mu_lock mu_unlock h_call HI HI_step).
Local Notation line w := (cur_line (Lemmas_C01s.consumed (tr w))).
Local Notation on_line' := (on_line D ioS muS hS io_read io_write mu_lock mu_unlock hsan).
Local Notation on_line0 := (on_line D ioS muS hS io_read io_write mu_lock mu_unlock h_call).

Lemma run_san_all' : forall m x mx h, HI h -> forall ops, run' (init m x mx h) ops = run (init m x mx h) ops.
Proof. intros m x mx h Hh ops. exact (proj1 (RS (init m x mx h) ops Hh)). Qed.

Lemma on_line_san : forall m x mx h ops ci c, HI h ->
  on_line' ops (init m x mx h) ci c -> on_line0 ops (init m x mx h) ci c.
Proof.
  intros m x mx h ops ci c Hh (ops0 & opsm & E & H). pose proof (run_san_all' m x mx h Hh) as R.
  exists ops0, opsm. split; [exact E|]. cbv zeta in *.
  rewrite (R ops0), (R ops) in H.
  destruct H as (H1 & H2 & H3 & H4 & H5 & H6 & H7 & H8 & H9).
  split; [exact H1|]. split; [exact H2|]. split; [exact H3|]. split; [exact H4|]. split; [exact H5|].
  split; [exact H6|]. split; [intros j Hj; rewrite <- R; exact (H7 j Hj)|].
  split; [intros j Hj; rewrite <- R; exact (H8 j Hj) | exact H9].
Qed.

Theorem C02_found_is_resolve'_inv : forall m x mx h ops, HI h ->
  wf_desc D m -> Forall (valid_op D) ops ->
  fbl (init m x mx h) ops ->
  let w := run (init m x mx h) ops in
  k_state (k (st w)) = CS_COMMAND_FOUND ->
  (k_cmd (k (st w)) = resolve (typed_of (line w)) (enabled D (st w)) (cmds D) /\
   k_cmd (k (st w)) <> None /\
   k_type (k (st w)) = type_of (line w)) /\
  typed_of (line w) <> [] /\
  typed_of (line w) = typed_decl (line w) /\
  fresh (xscan (line w)) = true.
Proof.
  intros m x mx h ops Hh WF F FB. cbv zeta. rewrite <- (run_san_all' m x mx h Hh ops).
  apply (fbl_san ops (init m x mx h) Hh) in FB.
  exact (ARGS C02_found_is_resolve'_proof NU HVa m x mx h ops WF F FB).
Qed.

Theorem C02_call_step_inv : forall m x mx h ops o new q code, HI h ->
  wf_desc D m -> Forall (valid_op D) (ops ++ [o]) ->
  let w0 := init m x mx h in
  fbl w0 ops ->
  tr (step (run w0 ops) o) = new ++ tr (run w0 ops) ->
  In (ECall q code) new -> Lemmas_Calls.ev_side q = false ->
  o = OService /\
  (let s := st (run w0 ops) in
   k_cmd (k s) = Some (req_cmd q) /\ k_state (k s) = Lemmas_Calls.call_state q /\
   k_type (k s) = Lemmas_Calls.kind_type q) /\
  exists c, on_line0 ops w0 (req_cmd q) c.
Proof.
  intros m x mx h ops o new q code Hh WF F. cbv zeta. intros FB T Hin Hev.
  pose proof (run_san_all' m x mx h Hh) as R.
  rewrite <- (proj1 (SS _ o (proj2 (RS (init m x mx h) ops Hh)))) in T. rewrite <- (R ops) in T.
  apply (fbl_san ops (init m x mx h) Hh) in FB.
  destruct (ARGS C02_call_step_proof NU HVa m x mx h ops o new q code WF F FB T Hin Hev)
    as (A & B & c & OL).
  cbv zeta in B. rewrite (R ops) in B.
  split; [exact A|]. split; [exact B|]. exists c. apply on_line_san; assumption.
Qed.

Theorem C02_type_when_needed_inv : forall m x mx h ops, HI h ->
  wf_desc D m -> Forall (valid_op D) ops ->
  let w0 := init m x mx h in
  fbl w0 ops ->
  Lemmas_C09.needs_cmd (st (run w0 ops)) = true ->
  exists ci c, k_cmd (k (st (run w0 ops))) = Some ci /\ on_line0 ops w0 ci c.
Proof.
  intros m x mx h ops Hh WF F. cbv zeta. intros FB N.
  pose proof (run_san_all' m x mx h Hh) as R. rewrite <- (R ops) in N.
  apply (fbl_san ops (init m x mx h) Hh) in FB.
  destruct (ARGS C02_type_when_needed_proof NU HVa m x mx h ops WF F FB N) as (ci & c & K & OL).
  rewrite (R ops) in K. exists ci, c. split; [exact K | apply on_line_san; assumption].
Qed.
End InvI.

Section ScriptedI.
Import Script SchedDefs.
Variable D : desc.

Local Notation st := (Fsm.st sio smu shs).
Local Notation tr := (Fsm.tr sio smu shs).
Local Notation SC T := (T D sio smu shs s_read s_write s_lock s_unlock s_call).
Local Notation sreach m x mx h ops := (srun D (sinit D m x mx h) (map SOp ops)).
Local Notation line w := (cur_line (Lemmas_C01s.consumed (tr w))).
Local Notation sw0 m x mx h := (mkWorld sio smu shs (init_state D m) x mx h []).
Local Notation SIx := (Lemmas_Inv.SI D).
Local Notation SIs := (Lemmas_Inv.SI_step D).

Theorem C02_found_is_resolve'_scripted : forall m x mx h ops,
  wf_desc D m -> Forall (valid_op D) ops ->
  Lemmas_Inv.no_rt_hold h = true -> script_ok (Lemmas_Inv.res_calls_valid D) h = true ->
  Lemmas_Inv2.sc_flags_between_lines D (sinit D m x mx h) ops ->
  let w := sreach m x mx h ops in
  k_state (k (st w)) = CS_COMMAND_FOUND ->
  (k_cmd (k (st w)) = resolve (typed_of (line w)) (enabled D (st w)) (cmds D) /\
   k_cmd (k (st w)) <> None /\
   k_type (k (st w)) = type_of (line w)) /\
  typed_of (line w) <> [] /\
  typed_of (line w) = typed_decl (line w) /\
  fresh (xscan (line w)) = true.
Proof.
  intros m x mx h ops WF F A B FB. cbv zeta. rewrite Lemmas_Inv3.sreach_run.
  exact (SC C02_found_is_resolve'_inv SIx SIs m x mx h ops (conj A B) WF F
            (Lemmas_Inv3.sc_fbl D m x mx h ops FB)).
Qed.

(* the callbacks per occurrence, scripted: the scripted step SOp o that logs the callback *)
Theorem C02_call_step_scripted : forall m x mx h ops o new q code,
  wf_desc D m -> Forall (valid_op D) (ops ++ [o]) ->
  Lemmas_Inv.no_rt_hold h = true -> script_ok (Lemmas_Inv.res_calls_valid D) h = true ->
  Lemmas_Inv2.sc_flags_between_lines D (sinit D m x mx h) ops ->
  tr (sstep D (sreach m x mx h ops) (SOp o)) = new ++ tr (sreach m x mx h ops) ->
  In (ECall q code) new -> Lemmas_Calls.ev_side q = false ->
  o = OService /\
  (let s := st (sreach m x mx h ops) in
   k_cmd (k s) = Some (req_cmd q) /\ k_state (k s) = Lemmas_Calls.call_state q /\
   k_type (k s) = Lemmas_Calls.kind_type q) /\
  exists c, SC on_line ops (sw0 m x mx h) (req_cmd q) c.
Proof.
  intros m x mx h ops o new q code WF F A B FB T Hin Hev. cbn [sstep] in T.
  rewrite Lemmas_Inv3.sreach_run in *.
  exact (SC C02_call_step_inv SIx SIs m x mx h ops o new q code (conj A B) WF F
            (Lemmas_Inv3.sc_fbl D m x mx h ops FB) T Hin Hev).
Qed.

Theorem C02_type_when_needed_scripted : forall m x mx h ops,
  wf_desc D m -> Forall (valid_op D) ops ->
  Lemmas_Inv.no_rt_hold h = true -> script_ok (Lemmas_Inv.res_calls_valid D) h = true ->
  Lemmas_Inv2.sc_flags_between_lines D (sinit D m x mx h) ops ->
  Lemmas_C09.needs_cmd (st (sreach m x mx h ops)) = true ->
  exists ci c, k_cmd (k (st (sreach m x mx h ops))) = Some ci /\ SC on_line ops (sw0 m x mx h) ci c.
Proof.
  intros m x mx h ops WF F A B FB N. rewrite Lemmas_Inv3.sreach_run in *.
  exact (SC C02_type_when_needed_inv SIx SIs m x mx h ops (conj A B) WF F
            (Lemmas_Inv3.sc_fbl D m x mx h ops FB) N).
Qed.
End ScriptedI.
