(* Lemmas_Inv4.v — fourth batch of history theorems transferred from hypotheses quantified over ALL
   oracle states (no_uhold, handlers_valid, `callbacks make no inner call`) to oracles that behave on
   an invariant of their own state (`_inv`), to the scripted worlds of Script.v (`_scripted`), and to
   scenarios made of API calls, SFeed and SPoke in any order (`_scenario`).  Continuation of
   Lemmas_Inv.v / Lemmas_Inv2.v / Lemmas_Inv3.v, same technique: the run driven by h_call equals the
   run driven by a sanitised oracle on the invariant; the existing theorem is applied to the
   sanitised oracle; nothing is proved again.  Scenario forms go through the one-step lemmas of the
   base developments (SFeed changes the io state only, SPoke the variable storage only).

   1. C02i  C02_calls_one_line / C02_types_by_state / C02_handler_kind'     _inv, _scripted
   2. C13p  C13_observers_exact_opt            _inv, _scripted, _scenario (composition of the lifted
            C13_in_progress and C13_observers_exact of Lemmas_Inv2.v: opt_of_parts)
   3. C01r  the four theorems                  _inv (generic starts_san), _scenario (invariant RcI)
   4. C01s  C01_no_read_ahead                  _scenario
      C11s  C11_stream_per_producer            _scenario
      C02c  C02_calls_history / C02_selection_origin / C02_calls_selected     _scenario (split over sops)
      C09c  C09_calls_enabled_history          _scenario (split over sops)
   5. C06r  C06_read_handler_text_cb           _inv, _scripted (sanitised oracle h_dropP) *)
From Coq Require Import List NArith ZArith Bool Arith Lia.
From CatV Require Import Bytes Defs Codec Spec Fsm Script Skel SkelInv SkelSim EvSkelSim TraceDefs ResolveDefs SchedDefs TermDefs.
From CatV Require Import Lemmas_Ctl Lemmas_C03 Lemmas_Domain Lemmas_C11 Lemmas_C11s Lemmas_C01s Lemmas_Inv Lemmas_Inv2.
From CatV Require Lemmas_C09 Lemmas_Calls Lemmas_C02h Lemmas_C02i Lemmas_Inv3 Lemmas_C13o Lemmas_C13p Lemmas_C01r
                  Lemmas_C03b Properties_C13o.
Import ListNotations.
Local Open Scope nat_scope.

(* ================================================================== *)
(* 1. C02i: one line, types by state, kind of the callback              *)
(* ================================================================== *)
Section InvC02i.
Import Lemmas_C02h Lemmas_C02i.
Variable D : desc.
Variables ioS muS hS : Type.
Variable io_read : ioS -> ioS * option N.
Variable io_write : ioS -> N -> ioS * bool.
Variable mu_lock : muS -> muS * bool.
Variable mu_unlock : muS -> muS * bool.
Variable h_call : hS -> hreq -> hS * hres.
Variable HI : hS -> Prop.
Hypothesis HI_step : forall h q, HI h -> HI (fst (h_call h q)) /\ Good D q (snd (h_call h q)).

Local Notation world := (Fsm.world ioS muS hS).
Local Notation st := (Fsm.st ioS muS hS).
Local Notation hs := (Fsm.hs ioS muS hS).
Local Notation tr := (Fsm.tr ioS muS hS).
Local Notation run := (Fsm.run D ioS muS hS io_read io_write mu_lock mu_unlock h_call).
Local Notation step := (Fsm.step D ioS muS hS io_read io_write mu_lock mu_unlock h_call).
Local Notation init m x mx h := (mkWorld ioS muS hS (init_state D m) x mx h []).
Local Notation hsan := (h_san D hS h_call).
Local Notation NU := (h_san_no_uhold D hS h_call).
Local Notation HVa := (h_san_valid D hS h_call).
Local Notation run' := (Fsm.run D ioS muS hS io_read io_write mu_lock mu_unlock hsan).
Local Notation RS := (run_san D ioS muS hS io_read io_write mu_lock mu_unlock h_call HI HI_step).
Local Notation SS := (step_san D ioS muS hS io_read io_write mu_lock mu_unlock h_call HI HI_step).
Local Notation ARGS T := (T D ioS muS hS io_read io_write mu_lock mu_unlock hsan).
Local Notation fbl := (Lemmas_C09.flags_between_lines D ioS muS hS io_read io_write mu_lock mu_unlock h_call).
Local Notation fbl_san :=
  (Lemmas_Inv3.fbl_san D ioS muS hS io_read io_write mu_lock mu_unlock h_call HI HI_step).
Local Notation consumed := Lemmas_C01s.consumed.
Local Notation line w := (cur_line (consumed (tr w))).

Lemma run_san_all4 : forall m x mx h, HI h -> forall ops, run' (init m x mx h) ops = run (init m x mx h) ops.
Proof. intros m x mx h Hh ops. exact (proj1 (RS (init m x mx h) ops Hh)). Qed.

(* the new events of one more operation, seen by the sanitised oracle *)
Lemma step_tr_san : forall m x mx h ops o new, HI h ->
  tr (step (run (init m x mx h) ops) o) = new ++ tr (run (init m x mx h) ops) ->
  tr (Fsm.step D ioS muS hS io_read io_write mu_lock mu_unlock hsan (run' (init m x mx h) ops) o) =
    new ++ tr (run' (init m x mx h) ops).
Proof.
  intros m x mx h ops o new Hh T. rewrite (run_san_all4 m x mx h Hh ops).
  rewrite (proj1 (SS _ o (proj2 (RS (init m x mx h) ops Hh)))). exact T.
Qed.

Theorem C02_calls_one_line_inv : forall m x mx h ops1 o1 mid o2 new1 new2 q1 q2 code1 code2, HI h ->
  let ops2 := ops1 ++ o1 :: mid in
  wf_desc D m -> Forall (valid_op D) (ops2 ++ [o2]) ->
  let w0 := init m x mx h in
  fbl w0 ops2 ->
  tr (step (run w0 ops1) o1) = new1 ++ tr (run w0 ops1) ->
  In (ECall q1 code1) new1 -> Lemmas_Calls.ev_side q1 = false ->
  tr (step (run w0 ops2) o2) = new2 ++ tr (run w0 ops2) ->
  In (ECall q2 code2) new2 -> Lemmas_Calls.ev_side q2 = false ->
  (forall j, j <= length (o1 :: mid) ->
     Lemmas_C09.needs_cmd (st (run w0 (ops1 ++ firstn j (o1 :: mid)))) = true) ->
  req_cmd q2 = req_cmd q1 /\
  exists c ops0 opsm, ops1 = ops0 ++ opsm /\
    let wf := run w0 ops0 in
    k_state (k (st wf)) = CS_COMMAND_FOUND /\
    resolve (typed_of (line wf)) (enabled D (st wf)) (cmds D) = Some (req_cmd q1) /\
    nth_error (cmds D) (req_cmd q1) = Some c /\
    (exists more1, consumed (tr (run w0 ops1)) = consumed (tr wf) ++ more1 /\
                   line (run w0 ops1) = line wf ++ more1 /\
                   Lemmas_Calls.kind_type q1 = req_type (serves_test c) (type_of (line wf)) more1) /\
    (exists more2, consumed (tr (run w0 ops2)) = consumed (tr wf) ++ more2 /\
                   line (run w0 ops2) = line wf ++ more2 /\
                   Lemmas_Calls.kind_type q2 = req_type (serves_test c) (type_of (line wf)) more2).
Proof.
  intros m x mx h ops1 o1 mid o2 new1 new2 q1 q2 code1 code2 Hh ops2 WF F w0 FB T1 I1 S1 T2 I2 S2 Hmid.
  pose proof (run_san_all4 m x mx h Hh) as R.
  apply (step_tr_san m x mx h ops1 o1 new1 Hh) in T1.
  apply (step_tr_san m x mx h ops2 o2 new2 Hh) in T2.
  apply (fbl_san ops2 w0 Hh) in FB.
  assert (Hmid' : forall j, j <= length (o1 :: mid) ->
            Lemmas_C09.needs_cmd (st (run' w0 (ops1 ++ firstn j (o1 :: mid)))) = true).
  { intros j Hj. unfold w0. rewrite R. exact (Hmid j Hj). }
  destruct (ARGS C02_calls_one_line_proof NU HVa m x mx h ops1 o1 mid o2 new1 new2 q1 q2 code1 code2
              WF F FB T1 I1 S1 T2 I2 S2 Hmid') as (E & c & ops0 & opsm & H1 & H2).
  split; [exact E|]. exists c, ops0, opsm. split; [exact H1|].
  cbv zeta in H2. fold ops2 in H2. rewrite (R ops0), (R ops1), (R ops2) in H2. exact H2.
Qed.

Theorem C02_types_by_state_inv : forall m x mx h ops, HI h ->
  wf_desc D m -> Forall (valid_op D) ops ->
  let w0 := init m x mx h in
  fbl w0 ops ->
  let w := run w0 ops in
  test_state (st w) \/ write_state (st w) ->
  exists ci c ops0 opsm more, ops = ops0 ++ opsm /\
    let wf := run w0 ops0 in
    k_state (k (st wf)) = CS_COMMAND_FOUND /\
    resolve (typed_of (line wf)) (enabled D (st wf)) (cmds D) = Some ci /\
    nth_error (cmds D) ci = Some c /\ k_cmd (k (st w)) = Some ci /\
    consumed (tr w) = consumed (tr wf) ++ more /\ line w = line wf ++ more /\
    type_of (line wf) = T_WRITE /\
    (test_state (st w) ->
       k_type (k (st w)) = T_TEST /\ serves_test c = true /\ is_qm (first_arg more) = true /\
       (by_suffix (xscan (line wf)) = true -> test_shape (xscan (line w)) = true)) /\
    (write_state (st w) ->
       k_type (k (st w)) = T_WRITE /\ (serves_test c = true -> is_qm (first_arg more) = false) /\
       (by_suffix (xscan (line wf)) = true -> serves_test c = true -> test_shape (xscan (line w)) = false)).
Proof.
  intros m x mx h ops Hh WF F w0 FB w HS.
  pose proof (run_san_all4 m x mx h Hh) as R.
  apply (fbl_san ops w0 Hh) in FB. unfold w, w0 in HS. rewrite <- (R ops) in HS.
  destruct (ARGS C02_types_by_state_proof NU HVa m x mx h ops WF F FB HS)
    as (ci & c & ops0 & opsm & more & H1 & H2).
  exists ci, c, ops0, opsm, more. split; [exact H1|].
  cbv zeta in H2. rewrite (R ops0), (R ops) in H2. exact H2.
Qed.

Theorem C02_handler_kind'_inv : forall m x mx h ops o new q code, HI h ->
  wf_desc D m -> Forall (valid_op D) (ops ++ [o]) ->
  let w0 := init m x mx h in
  fbl w0 ops ->
  tr (step (run w0 ops) o) = new ++ tr (run w0 ops) ->
  In (ECall q code) new -> Lemmas_Calls.ev_side q = false ->
  exists c ops0 opsm more, ops = ops0 ++ opsm /\
    let wf := run w0 ops0 in let w := run w0 ops in
    k_state (k (st wf)) = CS_COMMAND_FOUND /\
    resolve (typed_of (line wf)) (enabled D (st wf)) (cmds D) = Some (req_cmd q) /\
    nth_error (cmds D) (req_cmd q) = Some c /\
    consumed (tr w) = consumed (tr wf) ++ more /\ line w = line wf ++ more /\
    Lemmas_Calls.kind_type q = req_type (serves_test c) (type_of (line wf)) more /\
    (by_suffix (xscan (line wf)) = true -> Lemmas_Calls.kind_type q = type_of' c (line w)).
Proof.
  intros m x mx h ops o new q code Hh WF F w0 FB T Hin Hev.
  pose proof (run_san_all4 m x mx h Hh) as R.
  apply (step_tr_san m x mx h ops o new Hh) in T.
  apply (fbl_san ops w0 Hh) in FB.
  destruct (ARGS C02_handler_kind'_proof NU HVa m x mx h ops o new q code WF F FB T Hin Hev)
    as (c & ops0 & opsm & more & H1 & H2).
  exists c, ops0, opsm, more. split; [exact H1|].
  cbv zeta in H2. rewrite (R ops0), (R ops) in H2. exact H2.
Qed.
End InvC02i.

Section ScriptedC02i.
Import Lemmas_C02h Lemmas_C02i.
Variable D : desc.

Local Notation st := (Fsm.st sio smu shs).
Local Notation tr := (Fsm.tr sio smu shs).
Local Notation SC T := (T D sio smu shs s_read s_write s_lock s_unlock s_call).
Local Notation sreach m x mx h ops := (srun D (sinit D m x mx h) (map SOp ops)).
Local Notation consumed := Lemmas_C01s.consumed.
Local Notation line w := (cur_line (consumed (tr w))).
Local Notation SR := (Lemmas_Inv3.sreach_run D).
Local Notation SFB := (Lemmas_Inv3.sc_fbl D).

Theorem C02_calls_one_line_scripted : forall m x mx h ops1 o1 mid o2 new1 new2 q1 q2 code1 code2,
  let ops2 := ops1 ++ o1 :: mid in
  wf_desc D m -> Forall (valid_op D) (ops2 ++ [o2]) ->
  no_rt_hold h = true -> script_ok (res_calls_valid D) h = true ->
  sc_flags_between_lines D (sinit D m x mx h) ops2 ->
  tr (sstep D (sreach m x mx h ops1) (SOp o1)) = new1 ++ tr (sreach m x mx h ops1) ->
  In (ECall q1 code1) new1 -> Lemmas_Calls.ev_side q1 = false ->
  tr (sstep D (sreach m x mx h ops2) (SOp o2)) = new2 ++ tr (sreach m x mx h ops2) ->
  In (ECall q2 code2) new2 -> Lemmas_Calls.ev_side q2 = false ->
  (forall j, j <= length (o1 :: mid) ->
     Lemmas_C09.needs_cmd (st (sreach m x mx h (ops1 ++ firstn j (o1 :: mid)))) = true) ->
  req_cmd q2 = req_cmd q1 /\
  exists c ops0 opsm, ops1 = ops0 ++ opsm /\
    let wf := sreach m x mx h ops0 in
    k_state (k (st wf)) = CS_COMMAND_FOUND /\
    resolve (typed_of (line wf)) (enabled D (st wf)) (cmds D) = Some (req_cmd q1) /\
    nth_error (cmds D) (req_cmd q1) = Some c /\
    (exists more1, consumed (tr (sreach m x mx h ops1)) = consumed (tr wf) ++ more1 /\
                   line (sreach m x mx h ops1) = line wf ++ more1 /\
                   Lemmas_Calls.kind_type q1 = req_type (serves_test c) (type_of (line wf)) more1) /\
    (exists more2, consumed (tr (sreach m x mx h ops2)) = consumed (tr wf) ++ more2 /\
                   line (sreach m x mx h ops2) = line wf ++ more2 /\
                   Lemmas_Calls.kind_type q2 = req_type (serves_test c) (type_of (line wf)) more2).
Proof.
  intros m x mx h ops1 o1 mid o2 new1 new2 q1 q2 code1 code2 ops2 WF F A B FB T1 I1 S1 T2 I2 S2 Hmid.
  cbn [sstep] in T1, T2. rewrite SR in T1, T2.
  assert (Hmid' : forall j, j <= length (o1 :: mid) ->
            Lemmas_C09.needs_cmd (st (Fsm.run D sio smu shs s_read s_write s_lock s_unlock s_call
              (mkWorld sio smu shs (init_state D m) x mx h []) (ops1 ++ firstn j (o1 :: mid)))) = true).
  { intros j Hj. rewrite <- SR. exact (Hmid j Hj). }
  destruct (SC C02_calls_one_line_inv (SI D) (SI_step D) m x mx h ops1 o1 mid o2 new1 new2 q1 q2 code1 code2
              (conj A B) WF F (SFB m x mx h ops2 FB) T1 I1 S1 T2 I2 S2 Hmid')
    as (E & c & ops0 & opsm & H1 & H2).
  split; [exact E|]. exists c, ops0, opsm. split; [exact H1|]. cbv zeta. rewrite !SR. exact H2.
Qed.

Theorem C02_types_by_state_scripted : forall m x mx h ops,
  wf_desc D m -> Forall (valid_op D) ops ->
  no_rt_hold h = true -> script_ok (res_calls_valid D) h = true ->
  sc_flags_between_lines D (sinit D m x mx h) ops ->
  let w := sreach m x mx h ops in
  test_state (st w) \/ write_state (st w) ->
  exists ci c ops0 opsm more, ops = ops0 ++ opsm /\
    let wf := sreach m x mx h ops0 in
    k_state (k (st wf)) = CS_COMMAND_FOUND /\
    resolve (typed_of (line wf)) (enabled D (st wf)) (cmds D) = Some ci /\
    nth_error (cmds D) ci = Some c /\ k_cmd (k (st w)) = Some ci /\
    consumed (tr w) = consumed (tr wf) ++ more /\ line w = line wf ++ more /\
    type_of (line wf) = T_WRITE /\
    (test_state (st w) ->
       k_type (k (st w)) = T_TEST /\ serves_test c = true /\ is_qm (first_arg more) = true /\
       (by_suffix (xscan (line wf)) = true -> test_shape (xscan (line w)) = true)) /\
    (write_state (st w) ->
       k_type (k (st w)) = T_WRITE /\ (serves_test c = true -> is_qm (first_arg more) = false) /\
       (by_suffix (xscan (line wf)) = true -> serves_test c = true -> test_shape (xscan (line w)) = false)).
Proof.
  intros m x mx h ops WF F A B FB. cbv zeta. intros HS. rewrite SR in HS.
  destruct (SC C02_types_by_state_inv (SI D) (SI_step D) m x mx h ops (conj A B) WF F (SFB m x mx h ops FB) HS)
    as (ci & c & ops0 & opsm & more & H1 & H2).
  exists ci, c, ops0, opsm, more. split; [exact H1|]. rewrite !SR. exact H2.
Qed.

Theorem C02_handler_kind'_scripted : forall m x mx h ops o new q code,
  wf_desc D m -> Forall (valid_op D) (ops ++ [o]) ->
  no_rt_hold h = true -> script_ok (res_calls_valid D) h = true ->
  sc_flags_between_lines D (sinit D m x mx h) ops ->
  tr (sstep D (sreach m x mx h ops) (SOp o)) = new ++ tr (sreach m x mx h ops) ->
  In (ECall q code) new -> Lemmas_Calls.ev_side q = false ->
  exists c ops0 opsm more, ops = ops0 ++ opsm /\
    let wf := sreach m x mx h ops0 in let w := sreach m x mx h ops in
    k_state (k (st wf)) = CS_COMMAND_FOUND /\
    resolve (typed_of (line wf)) (enabled D (st wf)) (cmds D) = Some (req_cmd q) /\
    nth_error (cmds D) (req_cmd q) = Some c /\
    consumed (tr w) = consumed (tr wf) ++ more /\ line w = line wf ++ more /\
    Lemmas_Calls.kind_type q = req_type (serves_test c) (type_of (line wf)) more /\
    (by_suffix (xscan (line wf)) = true -> Lemmas_Calls.kind_type q = type_of' c (line w)).
Proof.
  intros m x mx h ops o new q code WF F A B FB T Hin Hev. cbn [sstep] in T. rewrite SR in T.
  destruct (SC C02_handler_kind'_inv (SI D) (SI_step D) m x mx h ops o new q code (conj A B) WF F
              (SFB m x mx h ops FB) T Hin Hev) as (c & ops0 & opsm & more & H1 & H2).
  exists c, ops0, opsm, more. split; [exact H1|]. cbv zeta. rewrite !SR. exact H2.
Qed.
End ScriptedC02i.

(* ================================================================== *)
(* 2. C13p: the observers without a default element                     *)
(* ================================================================== *)
(* the statement of Properties_C13p.C13_observers_exact_opt follows, in ANY world, from the
   conclusions of C13_in_progress and C13_observers_exact: their lifted forms compose *)
Section OptParts.
Variable D : desc.
Variables ioS muS hS : Type.
Local Notation world := (Fsm.world ioS muS hS).
Local Notation st := (Fsm.st ioS muS hS).
Local Notation hist := (TraceDefs.hist ioS muS hS).
Local Notation in_progress := (Properties_C13o.in_progress ioS muS hS).
Local Notation in_progress_opt := (Lemmas_C13p.in_progress_opt ioS muS hS).

Definition opt_concl (w : world) : Prop :=
  (u_state (u (st w)) <> US_IDLE ->
     exists p it, popped (hist w) = p ++ [it] /\ in_progress_opt w = Some it /\
       u_cmd (u (st w)) = Some (fst it) /\ u_type (u (st w)) = snd it /\
       (forall ci t, is_event_buffered D (st w) ci t = ST_BUSY <->
          ev_match ci t it = true \/
          exists it', In it' (ring_items D (st w)) /\ ev_match ci t it' = true) /\
       get_processed (st w) UNSOL = Z.of_nat (fst it)) /\
  (u_state (u (st w)) = US_IDLE ->
     in_progress_opt w = None /\ u_cmd (u (st w)) = None /\
     (forall ci t, is_event_buffered D (st w) ci t = ST_BUSY <->
        exists it', In it' (ring_items D (st w)) /\ ev_match ci t it' = true) /\
     get_processed (st w) UNSOL = (-1)%Z).

Lemma opt_of_parts : forall w : world,
  ((u_state (u (st w)) = US_IDLE -> u_cmd (u (st w)) = None) /\
   (u_state (u (st w)) <> US_IDLE ->
      exists p ci t, popped (hist w) = p ++ [(ci, t)] /\ u_cmd (u (st w)) = Some ci /\ u_type (u (st w)) = t)) ->
  ((forall ci t, is_event_buffered D (st w) ci t = ST_BUSY <->
      exists it, In it (in_progress w ++ ring_items D (st w)) /\ ev_match ci t it = true) /\
   get_processed (st w) UNSOL = match in_progress w with [] => (-1)%Z | it :: _ => Z.of_nat (fst it) end) ->
  opt_concl w.
Proof.
  intros w [HI HB] [HO HG]. split.
  - intros Hn. destruct (HB Hn) as (p & ci & t & Hp & Hcmd & Hty).
    assert (Eb : ustate_beq (u_state (u (st w))) US_IDLE = false).
    { destruct (ustate_beq (u_state (u (st w))) US_IDLE) eqn:E; [|reflexivity].
      apply Lemmas_C13p.ustate_beq_idle in E. contradiction. }
    assert (Ein : in_progress w = [(ci, t)]).
    { unfold Properties_C13o.in_progress. rewrite Eb, Hp, last_last. reflexivity. }
    exists p, (ci, t). split; [exact Hp|]. split.
    { unfold Lemmas_C13p.in_progress_opt. rewrite Eb, Hp. apply Lemmas_C13p.last_opt_snoc. }
    split; [exact Hcmd|]. split; [exact Hty|]. split.
    + intros ci' t'. rewrite (HO ci' t'), Ein. cbn [app]. split.
      * intros (it & [<-|Hin] & Hm); [left; exact Hm | right; exists it; split; assumption].
      * intros [Hm|(it & Hin & Hm)]; [exists (ci, t); split; [left; reflexivity | exact Hm]
                                     | exists it; split; [right; exact Hin | exact Hm]].
    + rewrite HG, Ein. reflexivity.
  - intros Hi.
    assert (Eb : ustate_beq (u_state (u (st w))) US_IDLE = true) by (apply Lemmas_C13p.ustate_beq_idle; exact Hi).
    assert (Ein : in_progress w = []) by (unfold Properties_C13o.in_progress; rewrite Eb; reflexivity).
    split; [unfold Lemmas_C13p.in_progress_opt; rewrite Eb; reflexivity|]. split; [exact (HI Hi)|]. split.
    + intros ci' t'. rewrite (HO ci' t'), Ein. reflexivity.
    + rewrite HG, Ein. reflexivity.
Qed.
End OptParts.

Section InvC13p.
Variable D : desc.
Variables ioS muS hS : Type.
Variable io_read : ioS -> ioS * option N.
Variable io_write : ioS -> N -> ioS * bool.
Variable mu_lock : muS -> muS * bool.
Variable mu_unlock : muS -> muS * bool.
Variable h_call : hS -> hreq -> hS * hres.
Variable HV : hS -> Prop.
Hypothesis HV_step : forall h q, HV h ->
  HV (fst (h_call h q)) /\ Forall (valid_icall D) (r_calls (snd (h_call h q))).
Local Notation run := (Fsm.run D ioS muS hS io_read io_write mu_lock mu_unlock h_call).
Local Notation L T := (T D ioS muS hS io_read io_write mu_lock mu_unlock h_call HV HV_step).

Theorem C13_observers_exact_opt_inv : forall m x mx h ops, HV h ->
  0 < d_cap D -> Forall (valid_op D) ops ->
  opt_concl D ioS muS hS (run (mkWorld ioS muS hS (init_state D m) x mx h []) ops).
Proof.
  intros m x mx h ops Hh Hc F. apply opt_of_parts.
  - exact (L C13_in_progress_inv m x mx h ops Hh Hc F).
  - exact (L C13_observers_exact_inv m x mx h ops Hh Hc F).
Qed.
End InvC13p.

Section ScriptedC13p.
Variable D : desc.

Theorem C13_observers_exact_opt_scripted : forall m x mx h ops,
  0 < d_cap D -> Forall (valid_op D) ops -> script_ok (res_calls_valid D) h = true ->
  opt_concl D sio smu shs (srun D (sinit D m x mx h) (map SOp ops)).
Proof.
  intros m x mx h ops Hc F B. apply opt_of_parts.
  - exact (C13_in_progress_scripted D m x mx h ops Hc F B).
  - exact (C13_observers_exact_scripted D m x mx h ops Hc F B).
Qed.

Theorem C13_observers_exact_opt_scenario : forall m x mx h sops,
  0 < d_cap D -> Forall (valid_sop D) sops -> script_ok (res_calls_valid D) h = true ->
  opt_concl D sio smu shs (srun D (sinit D m x mx h) sops).
Proof.
  intros m x mx h sops Hc F B. apply opt_of_parts.
  - exact (C13_in_progress_scenario D m x mx h sops Hc F B).
  - exact (C13_observers_exact_scenario D m x mx h sops Hc F B).
Qed.
End ScriptedC13p.

(* ================================================================== *)
(* 3. C01r: result codes, sessions, lines                               *)
(* ================================================================== *)
(* ---- 3a. generic oracle, no event-side HOLD on the invariant: the counters ---- *)
Section InvC01rH.
Import Lemmas_C01r.
Variable D : desc.
Variables ioS muS hS : Type.
Variable io_read : ioS -> ioS * option N.
Variable io_write : ioS -> N -> ioS * bool.
Variable mu_lock : muS -> muS * bool.
Variable mu_unlock : muS -> muS * bool.
Variable h_call : hS -> hreq -> hS * hres.
Variable HI : hS -> Prop.
Hypothesis HI_stepH : forall h q, HI h ->
  HI (fst (h_call h q)) /\ (unsol_req q = true -> r_code (snd (h_call h q)) <> RC_HOLD).

Local Notation st := (Fsm.st ioS muS hS).
Local Notation run := (Fsm.run D ioS muS hS io_read io_write mu_lock mu_unlock h_call).
Local Notation init m x mx h := (mkWorld ioS muS hS (init_state D m) x mx h []).
Local Notation starts := (Lemmas_C11s.starts D ioS muS hS io_read io_write mu_lock mu_unlock h_call).
Local Notation hsanH := (h_sanH hS h_call).

Theorem C01_result_code_counters_inv : forall m x mx h ops, HI h ->
  let s := st (run (init m x mx h) ops) in
  let n := length (rc_sessions (starts (init m x mx h) ops)) in
  (rc_pending s -> gS s = S n /\ gR s = n) /\
  (rc_in_flight s -> gS s = n /\ S (gR s) = n) /\
  (~ rc_pending s -> ~ rc_in_flight s -> gS s = n /\ gR s = n).
Proof.
  intros m x mx h ops Hh. cbv zeta.
  rewrite <- (proj1 (run_sanH D ioS muS hS io_read io_write mu_lock mu_unlock h_call HI HI_stepH
                       (init m x mx h) ops Hh)).
  rewrite <- (Lemmas_Inv2.starts_sanH D ioS muS hS io_read io_write mu_lock mu_unlock h_call HI HI_stepH
                ops (init m x mx h) Hh).
  exact (rc_counters_proof D ioS muS hS io_read io_write mu_lock mu_unlock hsanH
           (h_sanH_no_uhold hS h_call) m x mx h ops).
Qed.
End InvC01rH.

(* ---- 3b. generic oracle, every answer on the invariant Good: the domain theorems ---- *)
Section InvC01r.
Import Lemmas_C01r.
Variable D : desc.
Variables ioS muS hS : Type.
Variable io_read : ioS -> ioS * option N.
Variable io_write : ioS -> N -> ioS * bool.
Variable mu_lock : muS -> muS * bool.
Variable mu_unlock : muS -> muS * bool.
Variable h_call : hS -> hreq -> hS * hres.
Variable HI : hS -> Prop.
Hypothesis HI_step : forall h q, HI h -> HI (fst (h_call h q)) /\ Good D q (snd (h_call h q)).

Local Notation world := (Fsm.world ioS muS hS).
Local Notation st := (Fsm.st ioS muS hS).
Local Notation hs := (Fsm.hs ioS muS hS).
Local Notation tr := (Fsm.tr ioS muS hS).
Local Notation hist := (TraceDefs.hist ioS muS hS).
Local Notation run := (Fsm.run D ioS muS hS io_read io_write mu_lock mu_unlock h_call).
Local Notation init m x mx h := (mkWorld ioS muS hS (init_state D m) x mx h []).
Local Notation starts := (Lemmas_C11s.starts D ioS muS hS io_read io_write mu_lock mu_unlock h_call).
Local Notation hsan := (h_san D hS h_call).
Local Notation starts' := (Lemmas_C11s.starts D ioS muS hS io_read io_write mu_lock mu_unlock hsan).
Local Notation NU := (h_san_no_uhold D hS h_call).
Local Notation HVa := (h_san_valid D hS h_call).
Local Notation RS := (run_san D ioS muS hS io_read io_write mu_lock mu_unlock h_call HI HI_step).
Local Notation SS := (step_san D ioS muS hS io_read io_write mu_lock mu_unlock h_call HI HI_step).
Local Notation ARGS T := (T D ioS muS hS io_read io_write mu_lock mu_unlock hsan).

(* the oracle sanitised for Good opens the same flush sessions *)
Lemma starts_san : forall ops (w : world), HI (hs w) -> starts' w ops = starts w ops.
Proof.
  induction ops as [|o ops IH]; intros w H; [reflexivity|]. cbn [Lemmas_C11s.starts].
  destruct (SS w o H) as [E W]. rewrite E, (IH _ W). reflexivity.
Qed.

Ltac to_san m x mx h ops Hh :=
  cbv zeta; rewrite <- (starts_san ops (init m x mx h) Hh), <- (proj1 (RS (init m x mx h) ops Hh)).

Theorem C01_result_codes_are_units_inv : forall m x mx h ops, HI h ->
  wf_desc D m -> Forall (valid_op D) ops ->
  let s := st (run (init m x mx h) ops) in
  let rc := rc_sessions (starts (init m x mx h) ops) in
  Forall rc_unit rc /\
  (rc_pending s -> gS s = S (length rc) /\ gR s = length rc) /\
  (rc_in_flight s -> gS s = length rc /\ S (gR s) = length rc) /\
  (~ rc_pending s -> ~ rc_in_flight s -> gS s = length rc /\ gR s = length rc).
Proof.
  intros m x mx h ops Hh WF F. to_san m x mx h ops Hh.
  exact (ARGS C01_result_codes_are_units_proof NU HVa m x mx h ops WF F).
Qed.

Theorem C01_rc_tracks_lines_inv : forall m x mx h ops, HI h ->
  wf_desc D m -> Forall (valid_op D) ops ->
  let w := run (init m x mx h) ops in
  let n := length (rc_sessions (starts (init m x mx h) ops)) in
  let lines := nonblank_lines false (consumed (tr w)) in
  n <= lines <= S n /\
  (rc_in_flight (st w) -> lines = n) /\ (rc_pending (st w) -> lines = S n) /\
  (reading_state (k_state (k (st w))) = true -> lines = n /\ gR (st w) = n /\ gS (st w) = n).
Proof.
  intros m x mx h ops Hh WF F. to_san m x mx h ops Hh.
  exact (ARGS C01_rc_tracks_lines_proof NU HVa m x mx h ops WF F).
Qed.

Theorem C01_lines_answered_in_stream_inv : forall m x mx h ops, HI h ->
  wf_desc D m -> Forall (valid_op D) ops ->
  let w := run (init m x mx h) ops in
  let ss := starts (init m x mx h) ops in
  reading_state (k_state (k (st w))) = true ->
  proj ATCMD (accepted_wr (hist w)) = concat (map (fun x => snd (unit_of x)) (cmd_sessions ss)) /\
  rc_sessions ss = filter (fun x => cstate_beq (k_wafter (k (snd x))) CS_AFTER_RESET) (cmd_sessions ss) /\
  Forall rc_unit (rc_sessions ss) /\
  length (rc_sessions ss) = nonblank_lines false (consumed (tr w)) /\
  gR (st w) = length (rc_sessions ss) /\ gS (st w) = gR (st w).
Proof.
  intros m x mx h ops Hh WF F. to_san m x mx h ops Hh.
  exact (ARGS C01_lines_answered_in_stream_proof NU HVa m x mx h ops WF F).
Qed.
End InvC01r.

(* ---- 3c. scenarios: API calls, SFeed, SPoke in any order ---- *)
Section ScenarioC01r.
Import Lemmas_C01r.
Variable D : desc.

Local Notation st := (Fsm.st sio smu shs).
Local Notation hs := (Fsm.hs sio smu shs).
Local Notation tr := (Fsm.tr sio smu shs).
Local Notation hist := (TraceDefs.hist sio smu shs).
Local Notation SC T := (T D sio smu shs s_read s_write s_lock s_unlock s_call).
Local Notation HIH := (fun h : shs => no_rt_hold h = true).
Local Notation sanH := (h_sanH shs s_call).
Local Notation san := (h_san D shs s_call).

(* SFeed and SPoke open no session *)
Lemma new_starts_feed : forall (w : sworld) bytes,
  new_starts (st w) (st (sstep D w (SFeed bytes))) = [].
Proof. intros w bytes. apply new_starts_same; reflexivity. Qed.

Lemma new_starts_poke : forall (w : sworld) slot bytes,
  new_starts (st w) (st (sstep D w (SPoke slot bytes))) = [].
Proof.
  intros w slot bytes. cbn [sstep]. unfold Fsm.upd_st, Fsm.set_st. cbv beta. cbn [Fsm.st].
  destruct (Lemmas_C03b.apply_poke_eff (st w) (slot, bytes)) as (mm & E & _). rewrite E.
  apply new_starts_same; reflexivity.
Qed.

(* the counters: any descriptor, no read or test script contains HOLD *)
Definition KI (n : nat) (w : sworld) : Prop := Kc (ctl_of (st w)) n /\ no_rt_hold (hs w) = true.

Lemma sstep_KI : forall n w o, no_reinit o -> KI n w ->
  KI (n + length (rc_sessions (new_starts (st w) (st (sstep D w o))))) (sstep D w o).
Proof.
  intros n w o Ho [HK HH]. destruct o as [o|bytes|slot bytes|].
  - cbn [sstep]. destruct (SC step_sanH HIH no_rt_hold_step w o HH) as [E HH']. split; [|exact HH'].
    rewrite <- E.
    exact (Kc_step D sio smu shs s_read s_write s_lock s_unlock sanH (h_sanH_no_uhold shs s_call) w o n HK).
  - rewrite new_starts_feed. cbn [rc_sessions filter length]. rewrite Nat.add_0_r. split; [exact HK | exact HH].
  - rewrite new_starts_poke. cbn [rc_sessions filter length]. rewrite Nat.add_0_r. split; [|exact HH].
    cbn [sstep]. unfold Fsm.upd_st, Fsm.set_st. cbv beta. cbn [Fsm.st]. rewrite C_apply_poke. exact HK.
  - destruct Ho.
Qed.

Lemma srun_KI : forall sops n w, Forall no_reinit sops -> KI n w ->
  KI (n + length (rc_sessions (sc_sstarts D w sops))) (srun D w sops).
Proof.
  unfold srun. induction sops as [|o sops IH]; intros n w F H.
  - cbn [sc_sstarts rc_sessions filter length fold_left]. rewrite Nat.add_0_r. exact H.
  - inversion F; subst. cbn [sc_sstarts fold_left]. rewrite rc_sessions_app, app_length, Nat.add_assoc.
    apply IH; [assumption|]. apply sstep_KI; assumption.
Qed.

Theorem C01_result_code_counters_scenario : forall m x mx h sops,
  no_rt_hold h = true -> Forall no_reinit sops ->
  let s := st (srun D (sinit D m x mx h) sops) in
  let n := length (rc_sessions (sc_sstarts D (sinit D m x mx h) sops)) in
  (rc_pending s -> gS s = S n /\ gR s = n) /\
  (rc_in_flight s -> gS s = n /\ S (gR s) = n) /\
  (~ rc_pending s -> ~ rc_in_flight s -> gS s = n /\ gR s = n).
Proof.
  intros m x mx h sops Hh F. cbv zeta. apply Kc_cases.
  exact (proj1 (srun_KI sops 0 (sinit D m x mx h) F (conj (Kc_init D m) Hh))).
Qed.

(* the domain: the invariants of Lemmas_Inv2.GI2, the counters for the sessions ss opened so far,
   the prepared unit of a pending result code, the units of the result-code sessions opened *)
Definition RI (m : list (list N)) (ss : list (fsm * state)) (w : sworld) : Prop :=
  GI2 D m w /\ Kc (ctl_of (st w)) (length (rc_sessions ss)) /\ Rinv (st w) /\ Forall rc_unit (rc_sessions ss).

Lemma GI2_asz : forall m w, wf_desc D m -> GI2 D m w -> 6 <= asz (st w).
Proof.
  intros m w WF ((HS & _) & _). destruct HS as [(_ & L & _) _]. unfold asz. rewrite L. apply WF.
Qed.

Lemma sstep_RI : forall m ss w o, wf_desc D m -> valid_sop D o -> RI m ss w ->
  RI m (ss ++ new_starts (st w) (st (sstep D w o))) (sstep D w o).
Proof.
  intros m ss w o WF Ho (HG & HK & HR & HU).
  pose proof (sstep_GI2 D m w o WF Ho HG) as HG'. pose proof (GI2_asz m _ WF HG') as H6.
  split; [exact HG'|]. destruct HG as ((_ & _ & HH) & _). clear HG'.
  destruct o as [o|bytes|slot bytes|].
  - cbn [sstep] in *. rewrite rc_sessions_app, app_length.
    pose proof (proj1 (SC step_san (SI D) (SI_step D) w o HH)) as E. rewrite <- E in *.
    split; [exact (Kc_step D sio smu shs s_read s_write s_lock s_unlock san (h_san_no_uhold D shs s_call) w o _ HK)|].
    split; [exact (Rinv_step D sio smu shs s_read s_write s_lock s_unlock san (h_san_no_uhold D shs s_call)
                     w o _ HK HR H6)|].
    apply Forall_app. split; [exact HU|].
    exact (rc_new_starts D sio smu shs s_read s_write s_lock s_unlock san w o HR).
  - rewrite new_starts_feed, app_nil_r. split; [exact HK|]. split; [exact HR | exact HU].
  - rewrite new_starts_poke, app_nil_r. cbn [sstep]. unfold Fsm.upd_st, Fsm.set_st. cbv beta. cbn [Fsm.st].
    split; [rewrite C_apply_poke; exact HK|]. split; [|exact HU].
    destruct (Lemmas_C03b.apply_poke_eff (st w) (slot, bytes)) as (mm & E & _). rewrite E. exact HR.
  - destruct Ho.
Qed.

Lemma srun_RI : forall m sops ss w, wf_desc D m -> Forall (valid_sop D) sops -> RI m ss w ->
  RI m (ss ++ sc_sstarts D w sops) (srun D w sops).
Proof.
  intros m. unfold srun. induction sops as [|o sops IH]; intros ss w WF F H.
  - cbn [sc_sstarts fold_left]. rewrite app_nil_r. exact H.
  - inversion F; subst. cbn [sc_sstarts fold_left]. rewrite app_assoc.
    apply IH; [exact WF | assumption |]. apply sstep_RI; assumption.
Qed.

Lemma RI_scenario : forall m x mx h sops,
  wf_desc D m -> Forall (valid_sop D) sops ->
  no_rt_hold h = true -> script_ok (res_calls_valid D) h = true ->
  RI m (sc_sstarts D (sinit D m x mx h) sops) (srun D (sinit D m x mx h) sops).
Proof.
  intros m x mx h sops WF F A B.
  apply (srun_RI m sops [] (sinit D m x mx h) WF F).
  split; [exact (GI2_scenario D m x mx h [] WF (Forall_nil _) A B)|].
  split; [exact (Kc_init D m)|]. split; [intros [P _]; discriminate P | constructor].
Qed.

Theorem C01_result_codes_are_units_scenario : forall m x mx h sops,
  wf_desc D m -> Forall (valid_sop D) sops ->
  no_rt_hold h = true -> script_ok (res_calls_valid D) h = true ->
  let s := st (srun D (sinit D m x mx h) sops) in
  let rc := rc_sessions (sc_sstarts D (sinit D m x mx h) sops) in
  Forall rc_unit rc /\
  (rc_pending s -> gS s = S (length rc) /\ gR s = length rc) /\
  (rc_in_flight s -> gS s = length rc /\ S (gR s) = length rc) /\
  (~ rc_pending s -> ~ rc_in_flight s -> gS s = length rc /\ gR s = length rc).
Proof.
  intros m x mx h sops WF F A B. cbv zeta.
  destruct (RI_scenario m x mx h sops WF F A B) as (_ & HK & _ & HU).
  split; [exact HU | exact (Kc_cases _ _ HK)].
Qed.

Theorem C01_rc_tracks_lines_scenario : forall m x mx h sops,
  wf_desc D m -> Forall (valid_sop D) sops ->
  no_rt_hold h = true -> script_ok (res_calls_valid D) h = true ->
  let w := srun D (sinit D m x mx h) sops in
  let n := length (rc_sessions (sc_sstarts D (sinit D m x mx h) sops)) in
  let lines := nonblank_lines false (consumed (tr w)) in
  n <= lines <= S n /\
  (rc_in_flight (st w) -> lines = n) /\ (rc_pending (st w) -> lines = S n) /\
  (reading_state (k_state (k (st w))) = true -> lines = n /\ gR (st w) = n /\ gS (st w) = n).
Proof.
  intros m x mx h sops WF F A B. cbv zeta.
  destruct (RI_scenario m x mx h sops WF F A B) as (((_ & HJ & _) & _ & HW) & HK & _).
  destruct (J_Kc_lines _ _ HJ HK) as (P1 & P2 & P3 & P4). cbn [ctl_of gl gr gs ck] in P1, P2, P3, P4.
  rewrite <- (proj2 HW).
  split; [exact P1|]. split; [intros P; apply P2; apply infl_iff; exact P|].
  split; [intros P; apply P3; apply pend_iff; exact P | exact P4].
Qed.

Theorem C01_lines_answered_in_stream_scenario : forall m x mx h sops,
  wf_desc D m -> Forall (valid_sop D) sops ->
  no_rt_hold h = true -> script_ok (res_calls_valid D) h = true ->
  let w := srun D (sinit D m x mx h) sops in
  let ss := sc_sstarts D (sinit D m x mx h) sops in
  reading_state (k_state (k (st w))) = true ->
  proj ATCMD (accepted_wr (hist w)) = concat (map (fun x => snd (unit_of x)) (cmd_sessions ss)) /\
  rc_sessions ss = filter (fun x => cstate_beq (k_wafter (k (snd x))) CS_AFTER_RESET) (cmd_sessions ss) /\
  Forall rc_unit (rc_sessions ss) /\
  length (rc_sessions ss) = nonblank_lines false (consumed (tr w)) /\
  gR (st w) = length (rc_sessions ss) /\ gS (st w) = gR (st w).
Proof.
  intros m x mx h sops WF F A B. cbv zeta. intros HR.
  destruct (C01_rc_tracks_lines_scenario m x mx h sops WF F A B) as (_ & _ & _ & E).
  destruct (E HR) as (E1 & E2 & E3).
  destruct (C01_result_codes_are_units_scenario m x mx h sops WF F A B) as (HU & _).
  split.
  - pose proof (C11_stream_any_scenario D m x mx h sops A (valid_no_reinit D sops F)) as HSI. cbv zeta in HSI.
    rewrite (proj_cmd_stream_inv _ _ _ HSI (reading_not_flush _ HR)).
    unfold sc_sstarted. rewrite units_of_unit_of. reflexivity.
  - split; [apply rc_of_cmd_sessions|]. split; [exact HU|].
    split; [symmetry; exact E1|]. split; [exact E2 | congruence].
Qed.
End ScenarioC01r.

(* ================================================================== *)
(* 4. scenario forms that were missing in Lemmas_Inv2.v                 *)
(* ================================================================== *)
Section Scenario4.
Variable D : desc.

Local Notation st := (Fsm.st sio smu shs).
Local Notation hs := (Fsm.hs sio smu shs).
Local Notation tr := (Fsm.tr sio smu shs).
Local Notation hist := (TraceDefs.hist sio smu shs).
Local Notation SC T := (T D sio smu shs s_read s_write s_lock s_unlock s_call).
Local Notation HIH := (fun h : shs => no_rt_hold h = true).

(* ---- C01s: at the moment an input byte is requested, at any point of a scenario ---- *)
Theorem C01_no_read_ahead_scenario : forall m x mx h sops o evs r,
  wf_desc D m -> Forall (valid_sop D) sops ->
  no_rt_hold h = true -> script_ok (res_calls_valid D) h = true ->
  let w := srun D (sinit D m x mx h) sops in
  tr (sstep D w (SOp o)) = evs ++ tr w -> In (ERd r) evs ->
  o = OService /\ reading_state (k_state (k (st w))) = true /\
  gR (st w) = nonblank_lines false (consumed (tr w)) /\ gS (st w) = gR (st w) /\ gL (st w) = gR (st w).
Proof.
  intros m x mx h sops o evs r WF F A B. cbv zeta. cbn [sstep]. intros T Hin.
  destruct (GI2_scenario D m x mx h sops WF F A B) as ((_ & HJ & HH) & _ & HW).
  destruct (SC C01_read_implies_reading_state_inv HIH no_rt_hold_step _ o evs r (proj1 HH) T Hin) as [Eo HR].
  destruct (J_reading_settled _ HJ HR) as [E1 E2].
  split; [exact Eo|]. split; [exact HR|]. split; [rewrite <- E1; exact (proj2 HW)|]. split; [exact E2 | exact E1].
Qed.

(* ---- C11s: each producer's bytes are its own units ---- *)
Theorem C11_stream_per_producer_scenario : forall m x mx h sops,
  no_rt_hold h = true -> Forall no_reinit sops ->
  let w := srun D (sinit D m x mx h) sops in
  k_state (k (st w)) <> CS_FLUSH -> u_state (u (st w)) <> US_FLUSH ->
  proj ATCMD (accepted_wr (hist w)) =
    concat (map snd (units_of ATCMD (sc_sstarted D (sinit D m x mx h) sops))) /\
  exists ucrs, length ucrs = length (units_of UNSOL (sc_sstarted D (sinit D m x mx h) sops)) /\
    proj UNSOL (accepted_wr (hist w)) =
      concat (map (fun p => snd (fst p) ++ nl_text (snd p))
                  (combine (units_of UNSOL (sc_sstarted D (sinit D m x mx h) sops)) ucrs)).
Proof.
  intros m x mx h sops Hh F. cbv zeta. intros NK NU.
  destruct (C11_stream_scenario D m x mx h sops Hh F NK NU) as (crs & L & E). rewrite E.
  split; [apply proj_stream_cmd; exact L | apply proj_stream_uns; exact L].
Qed.
End Scenario4.

(* ---- 4c. the theorems that split the history at an earlier operation: the split is made over the
        scenario operations.  SFeed / SPoke / SReinit log nothing, so a callback of a scenario was
        logged by one of its `SOp OService` steps ---- *)
Lemma srun_snoc : forall D sops (w : sworld) o, srun D w (sops ++ [o]) = sstep D (srun D w sops) o.
Proof. intros D sops w o. unfold srun. rewrite fold_left_app. reflexivity. Qed.

Lemma Forall_app_l4 : forall (A : Type) (P : A -> Prop) l1 l2, Forall P (l1 ++ l2) -> Forall P l1.
Proof. intros A P l1 l2 H. apply Forall_app in H. apply H. Qed.

(* the enable flags are changed only between lines, along a scenario *)
Fixpoint sc_sflags_between_lines (D : desc) (w : sworld) (sops : list sop) : Prop :=
  match sops with
  | [] => True
  | o :: r =>
    (match o with
     | SOp op => Lemmas_C09.flag_op op = true -> k_state (k (Fsm.st sio smu shs w)) = CS_IDLE
     | _ => True
     end) /\ sc_sflags_between_lines D (sstep D w o) r
  end.

Lemma sflags_SOp : forall D ops (w : sworld),
  sc_sflags_between_lines D w (map SOp ops) <-> sc_flags_between_lines D w ops.
Proof.
  intros D. unfold sc_flags_between_lines. induction ops as [|o ops IH]; intros w.
  - split; intros _; exact I.
  - cbn [map sc_sflags_between_lines Properties_C09c.flags_between_lines sstep].
    split; intros [H1 H2]; (split; [exact H1 | apply IH; exact H2]).
Qed.

Lemma sflags_prefix : forall D sops1 sops2 (w : sworld),
  sc_sflags_between_lines D w (sops1 ++ sops2) -> sc_sflags_between_lines D w sops1.
Proof.
  intros D. induction sops1 as [|o sops1 IH]; intros sops2 w F; [exact I|].
  cbn [app sc_sflags_between_lines] in *. destruct F as [F1 F2]. split; [exact F1 | eapply IH; exact F2].
Qed.

(* no operation of the scenario changes a flag: the condition holds trivially *)
Definition sflag_op (o : sop) : bool := match o with SOp op => Lemmas_C09.flag_op op | _ => false end.

Lemma no_flag_sops_between : forall D sops (w : sworld),
  forallb (fun o => negb (sflag_op o)) sops = true -> sc_sflags_between_lines D w sops.
Proof.
  intros D. induction sops as [|o sops IH]; intros w H; [exact I|].
  cbn [forallb] in H. apply andb_true_iff in H. destruct H as [Ho Hr]. cbn [sc_sflags_between_lines].
  split; [|apply IH; exact Hr]. destruct o as [op| | |]; try exact I.
  cbn [sflag_op] in Ho. intros E. rewrite E in Ho. discriminate Ho.
Qed.

Section ScenarioCalls.
Variable D : desc.

Local Notation st := (Fsm.st sio smu shs).
Local Notation hs := (Fsm.hs sio smu shs).
Local Notation tr := (Fsm.tr sio smu shs).
Local Notation SC T := (T D sio smu shs s_read s_write s_lock s_unlock s_call).
Local Notation s_do_op := (Fsm.do_op D sio smu shs s_read s_write s_lock s_unlock s_call).
Local Notation san := (h_san D shs s_call).
Local Notation needs_cmd := Lemmas_C09.needs_cmd.
Local Notation ev_side := Lemmas_Calls.ev_side.
Local Notation call_state := Lemmas_Calls.call_state.
Local Notation kind_type := Lemmas_Calls.kind_type.

(* every callback recorded in a scenario was made inside one of its cat_service operations *)
Lemma srun_calls : forall sops (w0 : sworld) q code, In (ECall q code) (tr (srun D w0 sops)) ->
  In (ECall q code) (tr w0) \/
  exists sops1 sops2 w' evs, sops = sops1 ++ SOp OService :: sops2 /\
    tr (srun D w0 (sops1 ++ [SOp OService])) = evs ++ tr (srun D w0 sops1) /\ In (ECall q code) evs /\
    st w' = st (srun D w0 sops1) /\ SC Lemmas_Calls.call_moment w' q code.
Proof.
  induction sops as [|o sops IH] using rev_ind; intros w0 q code H.
  - left. exact H.
  - rewrite srun_snoc in H.
    assert (Old : In (ECall q code) (tr (srun D w0 sops)) ->
              In (ECall q code) (tr w0) \/
              exists sops1 sops2 w' evs, sops ++ [o] = sops1 ++ SOp OService :: sops2 /\
                tr (srun D w0 (sops1 ++ [SOp OService])) = evs ++ tr (srun D w0 sops1) /\ In (ECall q code) evs /\
                st w' = st (srun D w0 sops1) /\ SC Lemmas_Calls.call_moment w' q code).
    { intros H0. destruct (IH w0 q code H0) as [L | (sops1 & sops2 & w' & e & E & R)]; [left; exact L|].
      right. exists sops1, (sops2 ++ [o]), w', e. split; [|exact R]. rewrite E, <- app_assoc. reflexivity. }
    destruct o as [o|bytes|slot bytes|]; [|exact (Old H)..].
    cbn [sstep] in H. rewrite (SC Lemmas_Calls.step_tr) in H. destruct H as [H|H]; [discriminate H|].
    destruct (SC Lemmas_Calls.do_op_calls (srun D w0 sops) o) as [evs [T HP]]. rewrite T in H.
    apply in_app_or in H. destruct H as [H|H]; [|exact (Old H)].
    destruct (HP q code H) as [-> [w' [E M]]]. right.
    exists sops, [], w', (ERet OService (snd (s_do_op (srun D w0 sops) OService)) :: evs).
    split; [reflexivity|]. split; [rewrite srun_snoc; cbn [sstep]; rewrite (SC Lemmas_Calls.step_tr), T; reflexivity|].
    split; [right; exact H|]. split; assumption.
Qed.

Theorem C02_calls_history_scenario : forall m x mx h sops q code,
  wf_desc D m -> Forall (valid_sop D) sops ->
  no_rt_hold h = true -> script_ok (res_calls_valid D) h = true ->
  let w0 := sinit D m x mx h in
  In (ECall q code) (tr (srun D w0 sops)) -> ev_side q = false ->
  exists sops1 sops2 evs, sops = sops1 ++ SOp OService :: sops2 /\
    tr (srun D w0 (sops1 ++ [SOp OService])) = evs ++ tr (srun D w0 sops1) /\ In (ECall q code) evs /\
    let s := st (srun D w0 sops1) in
    k_cmd (k s) = Some (req_cmd q) /\ k_state (k s) = call_state q /\ k_type (k s) = kind_type q.
Proof.
  intros m x mx h sops q code WF F A B w0 H S.
  destruct (srun_calls sops w0 q code H) as [[] | (sops1 & sops2 & w' & evs & E & T & I & Ew & M)].
  exists sops1, sops2, evs. split; [exact E|]. split; [exact T|]. split; [exact I|].
  destruct (SC Lemmas_Calls.moment_cmd_side w' q code M S) as (_ & _ & K1 & K2). rewrite Ew in K1, K2.
  cbv zeta. split; [exact K2|]. split; [exact K1|].
  apply Lemmas_Calls.JT_kind; [|exact K1].
  rewrite E in F. apply Forall_app_l4 in F.
  exact (proj1 (proj2 (GI2_scenario D m x mx h sops1 WF F A B))).
Qed.

(* one step back from a state that needs the selected command *)
Lemma needs_back_sstep : forall m (w : sworld) o, wf_desc D m -> valid_sop D o -> GI2 D m w ->
  needs_cmd (st (sstep D w o)) = true ->
  k_state (k (st (sstep D w o))) = CS_COMMAND_FOUND \/
  (needs_cmd (st w) = true /\ k_cmd (k (st (sstep D w o))) = k_cmd (k (st w))).
Proof.
  intros m w o WF Ho HG N. pose proof (sstep_GI2 D m w o WF Ho HG) as ((HS' & _) & _).
  destruct HG as ((_ & _ & HH) & HT & _).
  destruct o as [o|bytes|slot bytes|].
  - cbn [sstep] in *. pose proof (safe_fault D m _ HS') as Hf.
    pose proof (proj1 (SC step_san (SI D) (SI_step D) w o HH)) as E. rewrite <- E in *.
    exact (Lemmas_Calls.needs_back_step D sio smu shs s_read s_write s_lock s_unlock san
             (h_san_no_uhold D shs s_call) w o HT Hf N).
  - right. split; [exact N | reflexivity].
  - right. cbn [sstep] in *. unfold Fsm.upd_st, Fsm.set_st in *. cbv beta in *. cbn [Fsm.st] in *.
    destruct (Lemmas_C03b.apply_poke_eff (st w) (slot, bytes)) as (mm & E & _). rewrite E in *.
    split; [exact N | reflexivity].
  - destruct Ho.
Qed.

Theorem C02_selection_origin_scenario : forall m x mx h sops,
  wf_desc D m -> Forall (valid_sop D) sops ->
  no_rt_hold h = true -> script_ok (res_calls_valid D) h = true ->
  let w0 := sinit D m x mx h in
  needs_cmd (st (srun D w0 sops)) = true ->
  exists sops1 sops2, sops = sops1 ++ sops2 /\
    k_state (k (st (srun D w0 sops1))) = CS_COMMAND_FOUND /\
    k_cmd (k (st (srun D w0 sops1))) = k_cmd (k (st (srun D w0 sops))) /\
    forall n, n <= length sops2 -> needs_cmd (st (srun D w0 (sops1 ++ firstn n sops2))) = true.
Proof.
  intros m x mx h sops WF. induction sops as [|o sops IH] using rev_ind; intros F A B w0 N.
  - discriminate N.
  - assert (F0 : Forall (valid_sop D) sops) by (eapply Forall_app_l4; exact F).
    assert (Fo : valid_sop D o).
    { apply Forall_app in F. destruct F as [_ F]. inversion F; assumption. }
    destruct (cstate_eq_dec (k_state (k (st (srun D w0 (sops ++ [o]))))) CS_COMMAND_FOUND) as [Ef|Ef].
    + exists (sops ++ [o]), []. split; [rewrite app_nil_r; reflexivity|]. split; [exact Ef|].
      split; [reflexivity|]. intros n _. destruct n; cbn [firstn]; rewrite app_nil_r; exact N.
    + rewrite srun_snoc in N, Ef.
      destruct (needs_back_sstep m (srun D w0 sops) o WF Fo (GI2_scenario D m x mx h sops WF F0 A B) N)
        as [L|[N0 K]]; [contradiction|].
      destruct (IH F0 A B N0) as (sops1 & sops2 & E & X & C & P).
      exists sops1, (sops2 ++ [o]). split; [rewrite E, app_assoc; reflexivity|]. split; [exact X|].
      split; [rewrite srun_snoc, K; exact C|].
      intros n Hn. rewrite app_length in Hn. cbn [length] in Hn.
      destruct (Nat.le_gt_cases n (length sops2)) as [Le|Gt].
      * rewrite firstn_app. replace (n - length sops2) with 0 by lia. cbn [firstn]. rewrite app_nil_r.
        apply P. exact Le.
      * rewrite firstn_all2 by (rewrite app_length; cbn [length]; lia).
        rewrite app_assoc, <- E, srun_snoc. exact N.
Qed.

Theorem C02_calls_selected_scenario : forall m x mx h sops q code,
  wf_desc D m -> Forall (valid_sop D) sops ->
  no_rt_hold h = true -> script_ok (res_calls_valid D) h = true ->
  let w0 := sinit D m x mx h in
  In (ECall q code) (tr (srun D w0 sops)) -> ev_side q = false ->
  exists sops0 sopsm sops2, sops = sops0 ++ sopsm ++ SOp OService :: sops2 /\
    k_state (k (st (srun D w0 sops0))) = CS_COMMAND_FOUND /\
    k_cmd (k (st (srun D w0 sops0))) = Some (req_cmd q) /\
    (forall n, n <= length sopsm -> needs_cmd (st (srun D w0 (sops0 ++ firstn n sopsm))) = true) /\
    let s := st (srun D w0 (sops0 ++ sopsm)) in
    k_cmd (k s) = Some (req_cmd q) /\ k_state (k s) = call_state q /\ k_type (k s) = kind_type q.
Proof.
  intros m x mx h sops q code WF F A B w0 H S.
  destruct (C02_calls_history_scenario m x mx h sops q code WF F A B H S)
    as (sops1 & sops2 & evs & E & _ & _ & K2 & K1 & K3).
  fold w0 in K1, K2, K3.
  assert (F1 : Forall (valid_sop D) sops1) by (rewrite E in F; eapply Forall_app_l4; exact F).
  assert (N : needs_cmd (st (srun D w0 sops1)) = true).
  { unfold Lemmas_C09.needs_cmd. rewrite K1. destruct q; reflexivity. }
  destruct (C02_selection_origin_scenario m x mx h sops1 WF F1 A B N) as (sops0 & sopsm & E1 & X & C & P).
  fold w0 in X, C, P.
  exists sops0, sopsm, sops2. split; [rewrite E, E1, <- app_assoc; reflexivity|].
  split; [exact X|]. split; [rewrite C; exact K2|]. split; [exact P|].
  cbv zeta. rewrite <- E1. auto.
Qed.

(* ---- C09c: callbacks concern registered, enabled commands; no hypothesis on the scripts ---- *)
Lemma srun_C09Inv : 0 < ncmds D -> forall sops (w : sworld), Forall no_reinit sops ->
  Lemmas_C09.Inv D (st w) -> sc_sflags_between_lines D w sops -> Lemmas_C09.Inv D (st (srun D w sops)).
Proof.
  intros Hn. unfold srun. induction sops as [|o sops IH]; intros w NR I F; [exact I|].
  cbn [sc_sflags_between_lines] in F. destruct F as [F1 F2]. inversion NR; subst.
  cbn [fold_left]. apply IH; [assumption | | exact F2].
  destruct o as [o|bytes|slot bytes|].
  - cbn [sstep]. rewrite (SC Lemmas_C09.step_st). exact (SC Lemmas_C09.do_op_Inv Hn w o I F1).
  - exact I.
  - cbn [sstep]. unfold Fsm.upd_st, Fsm.set_st. cbv beta. cbn [Fsm.st].
    destruct (Lemmas_C03b.apply_poke_eff (st w) (slot, bytes)) as (mm & E & _). rewrite E. exact I.
  - match goal with H : no_reinit SReinit |- _ => destruct H end.
Qed.

Theorem C09_calls_enabled_history_scenario : forall m x mx h sops q code,
  0 < ncmds D -> Forall no_reinit sops ->
  let w0 := sinit D m x mx h in
  sc_sflags_between_lines D w0 sops ->
  In (ECall q code) (tr (srun D w0 sops)) -> ev_side q = false ->
  exists sops1 sops2 evs, sops = sops1 ++ SOp OService :: sops2 /\
    tr (srun D w0 (sops1 ++ [SOp OService])) = evs ++ tr (srun D w0 sops1) /\ In (ECall q code) evs /\
    let s := st (srun D w0 sops1) in
    k_cmd (k s) = Some (req_cmd q) /\ k_state (k s) = call_state q /\
    req_cmd q < ncmds D /\ is_command_disable D s (req_cmd q) = false.
Proof.
  intros m x mx h sops q code Hn NR w0 F H S.
  destruct (srun_calls sops w0 q code H) as [[] | (sops1 & sops2 & w' & evs & E & T & I & Ew & M)].
  exists sops1, sops2, evs. split; [exact E|]. split; [exact T|]. split; [exact I|].
  destruct (SC Lemmas_Calls.moment_cmd_side w' q code M S) as (_ & _ & K1 & K2). rewrite Ew in K1, K2.
  cbv zeta. split; [exact K2|]. split; [exact K1|].
  rewrite E in F, NR. apply sflags_prefix in F. apply Forall_app_l4 in NR.
  pose proof (srun_C09Inv Hn sops1 w0 NR (Lemmas_C09.init_Inv D m) F) as I0.
  assert (U : Lemmas_C09.uses_cmd (k_state (k (st (srun D w0 sops1)))) = true)
    by (rewrite K1; apply Lemmas_Calls.uses_call_state).
  destruct (Lemmas_C09.Inv_sel D _ I0 U) as (i & Ei & Li & Di).
  rewrite K2 in Ei. injection Ei as <-. auto.
Qed.
End ScenarioCalls.

(* ================================================================== *)
(* 5. C06r: the READ response of a command whose variables have read    *)
(*    callbacks; `the callbacks make no inner call` on an invariant     *)
(* ================================================================== *)
From CatV Require Lemmas_C06r Lemmas_C10.

(* a sanitised oracle: the inner calls of the answers to the requests selected by P are dropped *)
Definition h_dropP (hS : Type) (h_call : hS -> hreq -> hS * hres) (P : hreq -> bool) (h : hS) (q : hreq)
  : hS * hres :=
  let (h', r) := h_call h q in (h', if P q then drop_calls r else r).

(* the read callback of variable vi of command number ci (the variables are those of c), asked by
   machine f *)
Definition is_vread_cb (f : fsm) (ci : nat) (c : cmd) (q : hreq) : bool :=
  match q with
  | VRead f' ci' vi =>
    fsm_beq f' f && (ci' =? ci) &&
    match nth_error (c_vars c) vi with Some v => v_hread v | None => false end
  | _ => false
  end.

Lemma is_vread_cb_self : forall f ci c vi v, nth_error (c_vars c) vi = Some v -> v_hread v = true ->
  is_vread_cb f ci c (VRead f ci vi) = true.
Proof.
  intros f ci c vi v E H. cbn [is_vread_cb]. rewrite E, H, Nat.eqb_refl. destruct f; reflexivity.
Qed.

Lemma is_vread_cb_inv : forall f ci c q, is_vread_cb f ci c q = true ->
  exists vi v, q = VRead f ci vi /\ nth_error (c_vars c) vi = Some v /\ v_hread v = true.
Proof.
  intros f ci c q H. destruct q as [| | | | f' ci' vi |]; try discriminate H. cbn [is_vread_cb] in H.
  apply andb_true_iff in H. destruct H as [H H3]. apply andb_true_iff in H. destruct H as [H1 H2].
  apply Nat.eqb_eq in H2. subst ci'.
  assert (f' = f) by (destruct f', f; try discriminate H1; reflexivity). subst f'.
  destruct (nth_error (c_vars c) vi) as [v|] eqn:E; [|discriminate H3]. exists vi, v. auto.
Qed.

Section InvC06r.
Import Lemmas_C06r.
Variable D : desc.
Variables ioS muS hS : Type.
Variable mu_lock : muS -> muS * bool.
Variable mu_unlock : muS -> muS * bool.
Variable h_call : hS -> hreq -> hS * hres.
Variable P : hreq -> bool.
Variable HN : hS -> Prop.
Hypothesis HN_step : forall h q, HN h ->
  HN (fst (h_call h q)) /\ (P q = true -> r_calls (snd (h_call h q)) = []).

Local Notation world := (Fsm.world ioS muS hS).
Local Notation st := (Fsm.st ioS muS hS).
Local Notation hs := (Fsm.hs ioS muS hS).
Local Notation hd := (h_dropP hS h_call P).
Local Notation WIn := (WI ioS muS hS HN (fun _ : muS => True)).
Local Notation call_h1 := (Fsm.call_h D ioS muS hS mu_lock mu_unlock h_call).
Local Notation call_h2 := (Fsm.call_h D ioS muS hS mu_lock mu_unlock hd).
Local Notation fra1 := (Fsm.format_read_args D ioS muS hS mu_lock mu_unlock h_call).
Local Notation fra2 := (Fsm.format_read_args D ioS muS hS mu_lock mu_unlock hd).
Local Notation rtl1 := (Fsm.process_rt_loop D ioS muS hS mu_lock mu_unlock h_call).
Local Notation rtl2 := (Fsm.process_rt_loop D ioS muS hS mu_lock mu_unlock hd).

Lemma h_dropP_eq : forall h q, HN h -> hd h q = h_call h q.
Proof.
  intros h q H. destruct (HN_step h q H) as [_ G]. unfold h_dropP.
  destruct (h_call h q) as [h' r]. cbn [snd] in G.
  destruct (P q); [|reflexivity]. rewrite (drop_calls_id r (G eq_refl)). reflexivity.
Qed.

Lemma h_dropP_ok : forall h q, P q = true -> r_calls (snd (hd h q)) = [].
Proof. intros h q E. unfold h_dropP. destruct (h_call h q) as [h' r]. rewrite E. reflexivity. Qed.

Lemma call_h_drop : forall (w : world) q, WIn w -> call_h2 w q = call_h1 w q /\ WIn (fst (call_h1 w q)).
Proof.
  intros w q H.
  exact (call_h_agree D ioS muS hS mu_lock mu_unlock mu_unlock h_call hd HN (fun _ => True)
           h_dropP_eq (fun h q0 Hh => proj1 (HN_step h q0 Hh)) (fun m _ => eq_refl) (fun m _ => I) (fun m _ => I)
           w q H).
Qed.

Ltac dm4 :=
  match goal with
  | |- context [match ?x with _ => _ end] =>
    lazymatch x with
    | context [match _ with _ => _ end] => fail
    | _ => destruct x
    end
  end.
Ltac wcbn4 := cbn [Fsm.st Fsm.io Fsm.mu Fsm.hs Fsm.tr Fsm.set_st Fsm.set_io Fsm.set_mu Fsm.set_hs
                   Fsm.logw Fsm.upd_st Fsm.busy fst snd].
Ltac wi4 := unfold WI in *; wcbn4; first [assumption | tauto].
Ltac ag_go4 :=
  repeat first
    [ match goal with
      | |- context [call_h2 ?w ?q] =>
        let E := fresh "E" in let W := fresh "W" in
        destruct (call_h_drop w q) as [E W]; [wi4|]; rewrite E; clear E;
        destruct (call_h1 w q) as [? ?]; cbn [fst] in W
      end
    | dm4 ].
Ltac ag_fin4 := split; [reflexivity | wi4].

Lemma fra_drop : forall f (w : world), WIn w -> fra2 f w = fra1 f w /\ WIn (fst (fra1 f w)).
Proof. intros f w H. unfold Fsm.format_read_args. cbv zeta. ag_go4; ag_fin4. Qed.

Lemma rtl_drop : forall rd f (w : world), WIn w -> rtl2 rd f w = rtl1 rd f w.
Proof. intros rd f w H. unfold Fsm.process_rt_loop. cbv zeta. ag_go4; reflexivity. Qed.

Lemma gfra_run_drop : forall f fuel (w : world), WIn w ->
  gfra_run D ioS muS hS mu_lock mu_unlock hd f fuel w = gfra_run D ioS muS hS mu_lock mu_unlock h_call f fuel w /\
  WIn (gfra_run D ioS muS hS mu_lock mu_unlock h_call f fuel w).
Proof.
  intros f. induction fuel as [|n IH]; intros w H; [split; [reflexivity | exact H]|].
  cbn [gfra_run]. destruct (in_fra f (st w)); [|split; [reflexivity | exact H]].
  unfold gfra_step. destruct (fra_drop f w H) as [E W]. rewrite E. apply IH. exact W.
Qed.

Lemma gread_response_drop : forall f c (w : world), HN (hs w) ->
  gread_response D ioS muS hS mu_lock mu_unlock hd f c w =
  gread_response D ioS muS hS mu_lock mu_unlock h_call f c w /\
  HN (hs (gread_response D ioS muS hS mu_lock mu_unlock h_call f c w)).
Proof.
  intros f c w H. unfold gread_response.
  destruct (gfra_run_drop f (length (c_vars c))
              (Fsm.upd_st ioS muS hS (start_processing_format_read_args D f) w)) as [E W].
  - split; [exact H | exact I].
  - split; [exact E | exact (proj1 W)].
Qed.

(* rd_spec only reads the code and the stores of an answer: dropping inner calls changes nothing *)
Lemma rd_spec_drop : forall f ci vs vi h m,
  rd_spec hS hd f ci vs vi h m = rd_spec hS h_call f ci vs vi h m.
Proof.
  intros f ci. induction vs as [|v vs IH]; intros vi h m; [reflexivity|].
  rewrite !rd_spec_cons. destruct (v_hread v).
  - unfold h_dropP. destruct (h_call h (VRead f ci vi)) as [h1 res].
    assert (Ep : r_pokes (if P (VRead f ci vi) then drop_calls res else res) = r_pokes res)
      by (destruct (P (VRead f ci vi)); reflexivity).
    assert (Ec : r_code (if P (VRead f ci vi) then drop_calls res else res) = r_code res)
      by (destruct (P (VRead f ci vi)); reflexivity).
    rewrite Ep, Ec. destruct (r_code res =? 0)%Z; [|reflexivity].
    destruct (Lemmas_C07e.slot_text _ v); [|reflexivity]. rewrite IH. reflexivity.
  - cbv beta iota zeta. destruct (Lemmas_C07e.slot_text m v); [|reflexivity]. rewrite IH. reflexivity.
Qed.
End InvC06r.

Section InvC06rThm.
Import Lemmas_C06r.
Variable D : desc.
Variables ioS muS hS : Type.
Variable mu_lock : muS -> muS * bool.
Variable mu_unlock : muS -> muS * bool.
Variable h_call : hS -> hreq -> hS * hres.
Variable HN : hS -> Prop.

Local Notation world := (Fsm.world ioS muS hS).
Local Notation st := (Fsm.st ioS muS hS).
Local Notation hs := (Fsm.hs ioS muS hS).
Local Notation tr := (Fsm.tr ioS muS hS).
Local Notation io := (Fsm.io ioS muS hS).
Local Notation mu := (Fsm.mu ioS muS hS).
Local Notation gread_response := (gread_response D ioS muS hS mu_lock mu_unlock h_call).
Local Notation process_rt_loop := (Fsm.process_rt_loop D ioS muS hS mu_lock mu_unlock h_call).
Local Notation rd_spec := (rd_spec hS h_call).

(* HN is an invariant of the handler state, and on HN the read callbacks of the variables of c
   (asked by machine f for command number ci) make no inner call *)
Theorem C06_read_handler_text_cb_inv : forall f (w : world) ci c h' m' cl txts,
  (forall h q, HN h -> HN (fst (h_call h q))) ->
  (forall h vi v, HN h -> nth_error (c_vars c) vi = Some v -> v_hread v = true ->
     r_calls (snd (h_call h (VRead f ci vi))) = []) ->
  HN (hs w) ->
  g_cmd f (st w) = Some ci -> cmd_at D ci = Some c -> fault (st w) = false ->
  c_hread c = true -> vars_access_possible c RO = true ->
  Forall (rd_var_ok (mem (st w))) (c_vars c) ->
  rd_spec f ci (c_vars c) 0 (hs w) (mem (st w)) = (h', m', cl, Some txts) ->
  let txt := c_name c ++ [ch_EQ] ++ join_comma txts in
  let bsz := length (g_buf f (st w)) in
  length txt < bsz ->
  let w' := gread_response f c w in
  hs w' = h' /\ mem (st w') = m' /\ tr w' = rev (map ecall cl) ++ tr w /\ io w' = io w /\ mu w' = mu w /\
  fault (st w') = false /\
  map fst cl = vread_reqs f ci (c_vars c) 0 /\ Forall (fun p => snd p = 0%Z) cl /\
  length txts = length (c_vars c) /\
  Lemmas_C10.in_rt_loop true f (st w') /\ g_cmd f (st w') = Some ci /\
  firstn (S (length txt)) (g_buf f (st w')) = txt ++ [0%N] /\ g_pos f (st w') = length txt /\
  length (g_buf f (st w')) = bsz /\
  exists code rest,
    tr (fst (process_rt_loop true f w')) =
      rest ++ ECall (HRead f ci (txt ++ [0%N]) (length txt) bsz) code :: tr w' /\
    nocall rest = true.
Proof.
  intros f w ci c h' m' cl txts Hpres Hcb Hw G C Ft HR VA RV RS txt bsz Hlen.
  assert (HNs : forall h q, HN h ->
            HN (fst (h_call h q)) /\ (is_vread_cb f ci c q = true -> r_calls (snd (h_call h q)) = [])).
  { intros h q Hh. split; [exact (Hpres h q Hh)|]. intros E.
    destruct (is_vread_cb_inv f ci c q E) as (vi & v & -> & E1 & E2). exact (Hcb h vi v Hh E1 E2). }
  pose (P := is_vread_cb f ci c).
  assert (Hq : forall h vi v, nth_error (c_vars c) vi = Some v -> v_hread v = true ->
                 r_calls (snd (h_dropP hS h_call P h (VRead f ci vi))) = []).
  { intros h vi v E1 E2. apply h_dropP_ok. exact (is_vread_cb_self f ci c vi v E1 E2). }
  rewrite <- (rd_spec_drop hS h_call P f ci (c_vars c) 0 (hs w) (mem (st w))) in RS.
  pose proof (C06_read_handler_text_cb_proof D ioS muS hS mu_lock mu_unlock (h_dropP hS h_call P)
                f w ci c h' m' cl txts G C Ft HR VA Hq RV RS Hlen) as H.
  cbv zeta in H. fold txt bsz in H.
  destruct (gread_response_drop D ioS muS hS mu_lock mu_unlock h_call P HN HNs f c w Hw) as [E W].
  rewrite E in H.
  rewrite (rtl_drop D ioS muS hS mu_lock mu_unlock h_call P HN HNs true f _ (conj W I)) in H.
  exact H.
Qed.
End InvC06rThm.

(* ---- scripted: a condition on the scripts selected by a predicate on their keys ---- *)
(* every answer of every script whose key satisfies K satisfies Pr *)
Definition keyed_ok (K : hkey -> bool) (Pr : hres -> bool) (h : shs) : bool :=
  forallb (fun e => negb (K (fst e)) || forallb Pr (snd e)) h.

Lemma key_eqb_eq : forall a b, key_eqb a b = true -> a = b.
Proof.
  intros [[a1 a2] a3] [[b1 b2] b3] H. unfold key_eqb in H.
  apply andb_true_iff in H. destruct H as [H H3]. apply andb_true_iff in H. destruct H as [H1 H2].
  apply Nat.eqb_eq in H1, H2, H3. subst. reflexivity.
Qed.

Lemma keyed_ok_step : forall K Pr, (forall q, Pr (default_res q) = true) ->
  forall h q, keyed_ok K Pr h = true ->
  keyed_ok K Pr (fst (s_call h q)) = true /\ (K (key_of q) = true -> Pr (snd (s_call h q)) = true).
Proof.
  intros K Pr Hd. unfold keyed_ok. induction h as [|[k0 sc] r IH]; intros q H.
  - cbn. split; [reflexivity | intros _; apply Hd].
  - cbn [s_call]. cbn [forallb fst snd] in H. apply andb_true_iff in H. destruct H as [H1 H2].
    destruct (key_eqb k0 (key_of q)) eqn:EK.
    + apply key_eqb_eq in EK. subst k0. destruct sc as [|x sc'].
      * cbn [fst snd forallb]. rewrite H2, orb_true_r. split; [reflexivity | intros _; apply Hd].
      * cbn [fst snd forallb]. rewrite H2. destruct (K (key_of q)); cbn [negb orb] in *.
        -- cbn [forallb] in H1. apply andb_true_iff in H1. destruct H1 as [Hx Hs]. rewrite Hs.
           split; [reflexivity | intros _; exact Hx].
        -- split; [reflexivity | discriminate].
    + destruct (IH q H2) as [A B]. destruct (s_call r q) as [r' x]. cbn [fst snd] in *.
      cbn [forallb fst snd]. rewrite H1, A. split; [reflexivity | exact B].
Qed.

(* the key of the read callback of a variable with a read callback of command number ci *)
Definition vread_key (ci : nat) (c : cmd) (k : hkey) : bool :=
  let '(kind, ci', vi) := k in
  (kind =? 4) && (ci' =? ci) && match nth_error (c_vars c) vi with Some v => v_hread v | None => false end.

(* no read-callback script of the variables of command ci makes an inner call *)
Definition vread_no_calls (ci : nat) (c : cmd) (h : shs) : bool := keyed_ok (vread_key ci c) res_no_calls h.

Section ScriptedC06r.
Import Lemmas_C06r.
Variable D : desc.
Local Notation st := (Fsm.st sio smu shs).
Local Notation hs := (Fsm.hs sio smu shs).
Local Notation tr := (Fsm.tr sio smu shs).
Local Notation io := (Fsm.io sio smu shs).
Local Notation mu := (Fsm.mu sio smu shs).
Local Notation gread_response := (gread_response D sio smu shs s_lock s_unlock s_call).
Local Notation process_rt_loop := (Fsm.process_rt_loop D sio smu shs s_lock s_unlock s_call).
Local Notation rd_spec := (rd_spec shs s_call).

Theorem C06_read_handler_text_cb_scripted : forall f (w : sworld) ci c h' m' cl txts,
  vread_no_calls ci c (hs w) = true ->
  g_cmd f (st w) = Some ci -> cmd_at D ci = Some c -> fault (st w) = false ->
  c_hread c = true -> vars_access_possible c RO = true ->
  Forall (rd_var_ok (mem (st w))) (c_vars c) ->
  rd_spec f ci (c_vars c) 0 (hs w) (mem (st w)) = (h', m', cl, Some txts) ->
  let txt := c_name c ++ [ch_EQ] ++ join_comma txts in
  let bsz := length (g_buf f (st w)) in
  length txt < bsz ->
  let w' := gread_response f c w in
  hs w' = h' /\ mem (st w') = m' /\ tr w' = rev (map ecall cl) ++ tr w /\ io w' = io w /\ mu w' = mu w /\
  fault (st w') = false /\
  map fst cl = vread_reqs f ci (c_vars c) 0 /\ Forall (fun p => snd p = 0%Z) cl /\
  length txts = length (c_vars c) /\
  Lemmas_C10.in_rt_loop true f (st w') /\ g_cmd f (st w') = Some ci /\
  firstn (S (length txt)) (g_buf f (st w')) = txt ++ [0%N] /\ g_pos f (st w') = length txt /\
  length (g_buf f (st w')) = bsz /\
  exists code rest,
    tr (fst (process_rt_loop true f w')) =
      rest ++ ECall (HRead f ci (txt ++ [0%N]) (length txt) bsz) code :: tr w' /\
    nocall rest = true.
Proof.
  intros f w ci c h' m' cl txts Hs.
  assert (Hd : forall q, res_no_calls (default_res q) = true) by (intros q; destruct q; reflexivity).
  refine (C06_read_handler_text_cb_inv D sio smu shs s_lock s_unlock s_call
            (fun h => vread_no_calls ci c h = true) f w ci c h' m' cl txts _ _ Hs).
  - intros h q Hh. exact (proj1 (keyed_ok_step (vread_key ci c) res_no_calls Hd h q Hh)).
  - intros h vi v Hh E1 E2.
    pose proof (proj2 (keyed_ok_step (vread_key ci c) res_no_calls Hd h (VRead f ci vi) Hh)) as B.
    assert (K : vread_key ci c (key_of (VRead f ci vi)) = true).
    { cbn [key_of vread_key]. rewrite E1, E2, !Nat.eqb_refl. reflexivity. }
    specialize (B K). unfold res_no_calls in B.
    destruct (r_calls (snd (s_call h (VRead f ci vi)))); [reflexivity | discriminate B].
Qed.
End ScriptedC06r.
