(* Properties_C10e.v — property C10.P1, end to end: the BYTES of a whole READ line  AT<name>? LF  served by a
   read handler.  On the scripted always-ready environment of Script.v (both io schedules empty, the event
   machine idle with an empty queue, no mutex), for a command with a read handler and no readable variable
   (the freshly formatted response text is `name=`), whose handler's script answers rs ++ [rn] where every
   result of rs continues (RC_DATA_NEXT: emit the buffer as one unit, re-format, call again; RC_NEXT:
   re-format, call again) and rn ends (any integer whose table action is terminal, except RC_HOLD), and no
   result makes inner API calls (they would wake the event machine; out of scope):
   after some number of cat_service calls the parser is idle again, has consumed exactly the line, has
   called the handler once per result — every call on the fresh text `name=` NUL at position |name|+1 with
   the capacity of the buffer — and has written exactly
        LF unit_1 LF  ...  LF unit_k LF   LF OK LF   (or LF ERROR LF)
   where the units are Lemmas_C10.units_of (one per DATA_NEXT / DATA_OK: the text the handler left in the
   buffer, i.e. the text of its edit up to its first NUL, or `name=` if it did not edit), OK / ERROR is
   decided by the table RespDefs.spec_action for rn; the handler's script has lost exactly the delivered
   results; the memory is the initial one after the handlers' stores (r_pokes), in order; the ghost counters
   gL (lines), gS (started result codes), gR (completely emitted result codes) each advanced by one.
   Edits (r_edit) of any content are allowed: edit_text takes the text up to the first NUL, so no "no NUL"
   hypothesis is needed; an edit that does not fit the buffer is ignored (contract violation, Fsm.apply_edit).
   Codes: OK -> OK; DATA_OK -> unit, OK; HOLD_EXIT_OK (nothing is held) -> OK; ERROR, HOLD_EXIT_ERROR,
   PRINT_CMD_LIST_OK (from a READ handler) and every other integer -> ERROR.
   Proofs: Lemmas_E2Ec.v. *)
From Coq Require Import List NArith ZArith Bool Arith.
From CatV Require Import Bytes Defs Codec Spec Fsm Script ResolveDefs SchedDefs GlueDefs TextDefs RespDefs.
From CatV Require Lemmas_C10 Lemmas_E2E.
From CatV Require Lemmas_E2Ec.
Import ListNotations.
Local Open Scope nat_scope.

Local Notation wst := (Fsm.st sio smu shs).
Local Notation wio := (Fsm.io sio smu shs).
Local Notation whs := (Fsm.hs sio smu shs).
Local Notation wtr := (Fsm.tr sio smu shs).
Local Notation script_of := Lemmas_C10.script_of.
Local Notation units_of := Lemmas_C10.units_of.
Local Notation unit_of := Lemmas_C10.unit_of.
Local Notation edit_text := Lemmas_C10.edit_text.
Local Notation drop_script := Lemmas_E2Ec.P3.drop_script.
Local Notation poke_mem := Lemmas_E2Ec.P3.poke_mem.
Local Notation pokes_mem := Lemmas_E2Ec.P3.pokes_mem.

(* ---- the definitions used below, as checked equations ---- *)
(* the results still to be delivered for a key (kind, command, variable); kind 1 = read handler *)
Example def_script_of : forall k0 sc r key,
  script_of [] key = [] /\
  script_of ((k0, sc) :: r) key = if key_eqb k0 key then sc else script_of r key.
Proof. split; reflexivity. Qed.
(* the scripts after n results of `key` have been delivered (first entry for the key, as s_call) *)
Example def_drop_script : forall k0 sc r key n,
  drop_script [] key n = [] /\
  drop_script ((k0, sc) :: r) key n =
    if key_eqb k0 key then (k0, skipn n sc) :: r else (k0, sc) :: drop_script r key n.
Proof. split; reflexivity. Qed.
(* one store of a handler into variable storage (slot, bytes), as Fsm.apply_poke does it, on the memory *)
Example def_poke_mem : forall m p,
  poke_mem m p =
  match nth_error m (fst p) with
  | None => m
  | Some data => match store_prefix data (snd p) with None => m | Some d => upd m (fst p) d end
  end.
Proof. reflexivity. Qed.
Example def_pokes_mem : forall ps m, pokes_mem ps m = fold_left poke_mem ps m.
Proof. reflexivity. Qed.
Example def_apply_poke_is_poke_mem : forall s p, apply_poke s p = set_mem (poke_mem (mem s) p) s.
Proof. exact Lemmas_E2Ec.P3.apply_poke_mem. Qed.
(* what the edit of a read handler leaves as text in a buffer of size bsz that held `old` *)
Example def_edit_text : forall bsz old e,
  edit_text bsz old e =
  match e with Some t => if length t <? bsz then text_of t else old | None => old end.
Proof. reflexivity. Qed.
(* the unit a result emits, if its code emits; the units of a sequence *)
Example def_unit_of : forall bsz old r,
  unit_of bsz old r =
  match spec_action K_READ ATCMD (r_code r) with
  | A_EMIT_OK | A_EMIT_AGAIN => [edit_text bsz old (r_edit r)]
  | _ => []
  end.
Proof. reflexivity. Qed.
Example def_units_of : forall bsz old hdr r rs,
  units_of bsz old hdr [] = [] /\
  units_of bsz old hdr (r :: rs) = unit_of bsz old r ++ units_of bsz hdr hdr rs.
Proof. split; reflexivity. Qed.

(* 1. THE theorem: the whole line, stores into variables allowed *)
Theorem E2E_read_handler_line : forall D s name rest h i c rs rn more,
  d_mutex D = false -> 0 < ncmds D -> ncmds D <= 4 * length (cbuf s) -> 6 <= length (cbuf s) ->
  fault s = false ->
  k_state (k s) = CS_IDLE -> k_cr (k s) = false -> k_implicit (k s) = false -> k_hold (k s) = false ->
  u_state (u s) = US_IDLE -> u_count (u s) = 0 ->
  name_ok name = true -> implicit_hit D s (upper name) = false ->
  resolve (upper name) (enabled D s) (cmds D) = Some i -> nth_error (cmds D) i = Some c ->
  c_hread c = true -> vars_access_possible c RO = false -> c_only_test c = false ->
  ~ In 0%N (c_name c) -> length (c_name c) + 1 < length (cbuf s) ->
  script_of h (1, i, 0) = rs ++ rn :: more ->
  (forall r, In r rs -> terminal (spec_action K_READ ATCMD (r_code r)) = false) ->
  terminal (spec_action K_READ ATCMD (r_code rn)) = true -> r_code rn <> RC_HOLD ->
  (forall r, In r (rs ++ [rn]) -> r_calls r = []) ->
  let hdr := c_name c ++ [ch_EQ] in
  let bsz := length (cbuf s) in
  let units := units_of bsz hdr hdr (rs ++ [rn]) in
  let w0 := mkw s ([ch_A; ch_T] ++ name ++ [ch_QM; ch_LF] ++ rest) h [] in
  exists calls, let w := nsvc D calls w0 in
    k_state (k (wst w)) = CS_IDLE /\ inq (wio w) = rest /\
    whs w = drop_script h (1, i, 0) (S (length rs)) /\
    calls_of (wtr w) =
      combine (repeat (HRead ATCMD i (hdr ++ [0%N]) (length hdr) bsz) (S (length rs)))
              (map r_code (rs ++ [rn])) /\
    mem (wst w) = pokes_mem (flat_map r_pokes (rs ++ [rn])) (mem s) /\ fault (wst w) = false /\
    output_of (wtr w) =
      concat (map (fun u => [ch_LF] ++ u ++ [ch_LF]) units) ++
      [ch_LF] ++ match spec_action K_READ ATCMD (r_code rn) with
                 | A_OK | A_EMIT_OK | A_RELEASE_OK => txt_OK
                 | _ => txt_ERROR
                 end ++ [ch_LF] /\
    gL (wst w) = S (gL s) /\ gS (wst w) = S (gS s) /\ gR (wst w) = S (gR s).
Proof. exact Lemmas_E2Ec.P3.E2E_read_handler_line_proof. Qed.
Print Assumptions E2E_read_handler_line.

(* 2. the handler state of 1., read through script_of: the script of the read handler of command i has
      lost exactly the delivered results, every other script is as before *)
Theorem E2E_read_handler_line_script : forall h i (rs : list hres) rn more,
  script_of h (1, i, 0) = rs ++ rn :: more ->
  script_of (drop_script h (1, i, 0) (S (length rs))) (1, i, 0) = more /\
  forall key', key' <> (1, i, 0) ->
    script_of (drop_script h (1, i, 0) (S (length rs))) key' = script_of h key'.
Proof. exact Lemmas_E2Ec.P3.E2E_read_handler_line_script_proof. Qed.
Print Assumptions E2E_read_handler_line_script.

Theorem drop_script_spec : forall h key key' n,
  script_of (drop_script h key n) key' =
  if key_eqb key key' then skipn n (script_of h key') else script_of h key'.
Proof. exact Lemmas_E2Ec.P3.drop_script_spec. Qed.
Print Assumptions drop_script_spec.

(* 3. the same line when the handler stores nothing: memory unchanged; handler state via script_of *)
Theorem E2E_read_handler_line_nopokes : forall D s name rest h i c rs rn more,
  d_mutex D = false -> 0 < ncmds D -> ncmds D <= 4 * length (cbuf s) -> 6 <= length (cbuf s) ->
  fault s = false ->
  k_state (k s) = CS_IDLE -> k_cr (k s) = false -> k_implicit (k s) = false -> k_hold (k s) = false ->
  u_state (u s) = US_IDLE -> u_count (u s) = 0 ->
  name_ok name = true -> implicit_hit D s (upper name) = false ->
  resolve (upper name) (enabled D s) (cmds D) = Some i -> nth_error (cmds D) i = Some c ->
  c_hread c = true -> vars_access_possible c RO = false -> c_only_test c = false ->
  ~ In 0%N (c_name c) -> length (c_name c) + 1 < length (cbuf s) ->
  script_of h (1, i, 0) = rs ++ rn :: more ->
  (forall r, In r rs -> terminal (spec_action K_READ ATCMD (r_code r)) = false) ->
  terminal (spec_action K_READ ATCMD (r_code rn)) = true -> r_code rn <> RC_HOLD ->
  (forall r, In r (rs ++ [rn]) -> r_calls r = [] /\ r_pokes r = []) ->
  let hdr := c_name c ++ [ch_EQ] in
  let bsz := length (cbuf s) in
  let units := units_of bsz hdr hdr (rs ++ [rn]) in
  let w0 := mkw s ([ch_A; ch_T] ++ name ++ [ch_QM; ch_LF] ++ rest) h [] in
  exists calls, let w := nsvc D calls w0 in
    k_state (k (wst w)) = CS_IDLE /\ inq (wio w) = rest /\
    script_of (whs w) (1, i, 0) = more /\
    (forall key', key' <> (1, i, 0) -> script_of (whs w) key' = script_of h key') /\
    calls_of (wtr w) =
      combine (repeat (HRead ATCMD i (hdr ++ [0%N]) (length hdr) bsz) (S (length rs)))
              (map r_code (rs ++ [rn])) /\
    mem (wst w) = mem s /\ fault (wst w) = false /\
    output_of (wtr w) =
      concat (map (fun u => [ch_LF] ++ u ++ [ch_LF]) units) ++
      [ch_LF] ++ match spec_action K_READ ATCMD (r_code rn) with
                 | A_OK | A_EMIT_OK | A_RELEASE_OK => txt_OK
                 | _ => txt_ERROR
                 end ++ [ch_LF] /\
    gL (wst w) = S (gL s) /\ gS (wst w) = S (gS s) /\ gR (wst w) = S (gR s).
Proof. exact Lemmas_E2Ec.P3.E2E_read_handler_line_nopokes_proof. Qed.
Print Assumptions E2E_read_handler_line_nopokes.

(* ---------- non-vacuity ----------
   table  +X (the four variables of Lemmas_E2E.E2E_examples.c0, no handlers)  and  +R (read handler only, no
   variables); command buffer 40 bytes; memory m0 of Lemmas_E2E.E2E_examples (its fifth slot [9] belongs to
   no variable).  Line: "AT+r?" LF then 1 2 3.
   obs = (state, remaining input, handler scripts, calls oldest first, output, memory, fault, (gL, gS, gR)) *)
Import Lemmas_E2E.E2E_examples.
Definition exeR := mkCmd [43; 82]%N None false true false false [] false false false.
Definition exeD := mkDesc [[c0; exeR]] [] 40 (Some 8) 85%N 2 false.
Definition exes := init_state exeD m0.
Definition exer (code : Z) (e : option (list N)) (p : list (nat * list N)) : hres := mkHres code e p [].
Definition exeline : list N := [65; 84; 43; 114; 63; 10; 1; 2; 3]%N.
Definition exeobs (w : sworld) :=
  (k_state (k (wst w)), inq (wio w), whs w, calls_of (wtr w), output_of (wtr w), mem (wst w), fault (wst w),
   (gL (wst w), gS (wst w), gR (wst w))).
Definition exego (h : shs) (calls : nat) := exeobs (nsvc exeD calls (mkw exes exeline h [])).
Definition exeQ : hreq := HRead ATCMD 1 [43; 82; 61; 0]%N 3 40.

(* the read handler of +R answers DATA_NEXT (text "ab"), NEXT (and stores 5 into the fifth slot),
   DATA_OK (text "c"); one more result (ERROR) stays in its script; a run-handler script of command 0 is
   not touched *)
Definition exers : list hres :=
  [exer RC_DATA_NEXT (Some [97; 98]%N) []; exer RC_NEXT None [(4, [5]%N)]].
Definition exern : hres := exer RC_DATA_OK (Some [99]%N) [].
Definition exemore : list hres := [exer RC_ERROR None []].
Definition exeh : shs := [((2, 0, 0), [exer RC_OK None []]); ((1, 1, 0), exers ++ exern :: exemore)].

(* after exactly 42 service calls: idle, 1 2 3 still queued, the script holds only the ERROR result,
   three calls on "+R=" NUL / 3 / 40 answered 1, 2, 0, the output is
   LF a b LF  LF c LF  LF O K LF,  the fifth slot holds 5, counters (1,1,1) *)
Example E2E_read_handler_ex_run :
  exego exeh 42 =
    (CS_IDLE, [1; 2; 3]%N, [((2, 0, 0), [exer RC_OK None []]); ((1, 1, 0), exemore)],
     [(exeQ, 1%Z); (exeQ, 2%Z); (exeQ, 0%Z)],
     [10; 97; 98; 10;  10; 99; 10;  10; 79; 75; 10]%N,
     [[254; 255]; [65; 44; 34; 0; 7; 7]; [10; 255]; [200]; [5]]%N, false, (1, 1, 1)).
Proof. vm_compute. reflexivity. Qed.

(* one call earlier the line is not finished *)
Example E2E_read_handler_ex_run_41 :
  (let '(a, _, _, _, _, _, _, _) := exego exeh 41 in a) = CS_AFTER_RESET.
Proof. vm_compute. reflexivity. Qed.

(* the hypotheses of E2E_read_handler_line hold for this instance *)
Example E2E_read_handler_ex_hyps :
  hyps_ok exeD exes = true /\ name_ok [43; 114]%N = true /\
  implicit_hit exeD exes (upper [43; 114]%N) = false /\
  resolve (upper [43; 114]%N) (enabled exeD exes) (cmds exeD) = Some 1 /\
  nth_error (cmds exeD) 1 = Some exeR /\
  (length (c_name exeR) + 1 <? length (cbuf exes)) = true /\
  script_of exeh (1, 1, 0) = exers ++ exern :: exemore /\
  forallb (fun r => negb (terminal (spec_action K_READ ATCMD (r_code r)))) exers = true /\
  terminal (spec_action K_READ ATCMD (r_code exern)) = true.
Proof. vm_compute. repeat split; reflexivity. Qed.

(* the general theorem applied to this instance: what it predicts is what E2E_read_handler_ex_run computed *)
Example E2E_read_handler_ex_apply :
  exists calls, let w := nsvc exeD calls (mkw exes exeline exeh []) in
    k_state (k (wst w)) = CS_IDLE /\ inq (wio w) = [1; 2; 3]%N /\
    whs w = [((2, 0, 0), [exer RC_OK None []]); ((1, 1, 0), exemore)] /\
    calls_of (wtr w) = [(exeQ, 1%Z); (exeQ, 2%Z); (exeQ, 0%Z)] /\
    mem (wst w) = [[254; 255]; [65; 44; 34; 0; 7; 7]; [10; 255]; [200]; [5]]%N /\
    output_of (wtr w) = [10; 97; 98; 10;  10; 99; 10;  10; 79; 75; 10]%N /\
    gL (wst w) = 1 /\ gS (wst w) = 1 /\ gR (wst w) = 1.
Proof.
  destruct (E2E_read_handler_line exeD exes [43; 114]%N [1; 2; 3]%N exeh 1 exeR exers exern exemore
              eq_refl ltac:(apply Nat.ltb_lt; reflexivity) ltac:(apply Nat.leb_le; reflexivity)
              ltac:(apply Nat.leb_le; reflexivity)
              eq_refl eq_refl eq_refl eq_refl eq_refl eq_refl eq_refl eq_refl eq_refl eq_refl eq_refl
              eq_refl eq_refl eq_refl)
    as (calls & A & B & C & E & F & _ & G & H1 & H2 & H3).
  - intros [X|[X|[]]]; discriminate X.
  - apply Nat.ltb_lt. reflexivity.
  - reflexivity.
  - intros r [X|[X|[]]]; subst r; reflexivity.
  - reflexivity.
  - discriminate.
  - intros r [X|[X|[X|[]]]]; subst r; reflexivity.
  - exists calls. cbv zeta.
    split; [exact A|]. split; [exact B|]. split; [exact C|]. split; [exact E|]. split; [exact F|].
    split; [exact G|]. split; [exact H1|]. split; [exact H2 | exact H3].
Qed.

(* an instance ending in ERROR: DATA_NEXT (text "ab"), then PRINT_CMD_LIST_OK, which a READ handler may
   not return: LF a b LF  LF E R R O R LF  after exactly 36 service calls *)
Definition exers2 : list hres := [exer RC_DATA_NEXT (Some [97; 98]%N) []].
Definition exern2 : hres := exer RC_PRINT_CMD_LIST_OK None [].
Definition exeh2 : shs := [((1, 1, 0), exers2 ++ exern2 :: [])].

Example E2E_read_handler_ex_error_run :
  exego exeh2 36 =
    (CS_IDLE, [1; 2; 3]%N, [((1, 1, 0), [])],
     [(exeQ, 1%Z); (exeQ, 7%Z)],
     [10; 97; 98; 10;  10; 69; 82; 82; 79; 82; 10]%N, m0, false, (1, 1, 1)).
Proof. vm_compute. reflexivity. Qed.

Example E2E_read_handler_ex_error_apply :
  exists calls, let w := nsvc exeD calls (mkw exes exeline exeh2 []) in
    k_state (k (wst w)) = CS_IDLE /\ inq (wio w) = [1; 2; 3]%N /\
    script_of (whs w) (1, 1, 0) = [] /\
    calls_of (wtr w) = [(exeQ, 1%Z); (exeQ, 7%Z)] /\ mem (wst w) = m0 /\
    output_of (wtr w) = [10; 97; 98; 10;  10; 69; 82; 82; 79; 82; 10]%N.
Proof.
  destruct (E2E_read_handler_line_nopokes exeD exes [43; 114]%N [1; 2; 3]%N exeh2 1 exeR exers2 exern2 []
              eq_refl ltac:(apply Nat.ltb_lt; reflexivity) ltac:(apply Nat.leb_le; reflexivity)
              ltac:(apply Nat.leb_le; reflexivity)
              eq_refl eq_refl eq_refl eq_refl eq_refl eq_refl eq_refl eq_refl eq_refl eq_refl eq_refl
              eq_refl eq_refl eq_refl)
    as (calls & A & B & C & _ & E & F & _ & G & _).
  - intros [X|[X|[]]]; discriminate X.
  - apply Nat.ltb_lt. reflexivity.
  - reflexivity.
  - intros r [X|[]]; subst r; reflexivity.
  - reflexivity.
  - discriminate.
  - intros r [X|[X|[]]]; subst r; split; reflexivity.
  - exists calls. cbv zeta.
    split; [exact A|]. split; [exact B|]. split; [exact C|]. split; [exact E|]. split; [exact F | exact G].
Qed.

(* the other ending codes, on the line "AT+r?" LF with nothing after it (60 service calls; an idle parser
   with an empty queue stays idle): OK alone, HOLD_EXIT_OK with nothing held, ERROR, HOLD_EXIT_ERROR,
   PRINT_CMD_LIST_OK, an integer outside the enumeration *)
Example E2E_read_handler_ex_codes :
  map (fun code =>
         let w := nsvc exeD 60 (mkw exes [65; 84; 43; 114; 63; 10]%N [((1, 1, 0), [exer code None []])] []) in
         (k_state (k (wst w)), output_of (wtr w), map snd (calls_of (wtr w))))
      [RC_OK; RC_HOLD_EXIT_OK; RC_ERROR; RC_HOLD_EXIT_ERROR; RC_PRINT_CMD_LIST_OK; 42%Z] =
  [ (CS_IDLE, [10; 79; 75; 10]%N, [3%Z]); (CS_IDLE, [10; 79; 75; 10]%N, [5%Z]);
    (CS_IDLE, [10; 69; 82; 82; 79; 82; 10]%N, [(-1)%Z]); (CS_IDLE, [10; 69; 82; 82; 79; 82; 10]%N, [6%Z]);
    (CS_IDLE, [10; 69; 82; 82; 79; 82; 10]%N, [7%Z]); (CS_IDLE, [10; 69; 82; 82; 79; 82; 10]%N, [42%Z]) ].
Proof. vm_compute. reflexivity. Qed.
