(* Properties_C04m.v - property C04 at machine level: what Fsm.parse_write_args (cat.c:1365, the
   service step taken in CS_PARSE_WRITE_ARGS) does with one argument and with a whole argument
   list, in every argument position, for arbitrary (also non-canonical) texts.  The acceptance
   conditions are those of Spec.v (num_accepts / hexbuf_accepts / str_body), transported from the
   codec theorems C04_numeric, C05_hexbuf, C05_string.  Arbitrary oracles.
   All proofs are in Lemmas_WriteM.v.

   Definitions imported from Lemmas_WriteM (repeated here for the reader):

   (* the state after parse_write_args has worked on s0: only the cursor into the argument text,
      write_size, the argument counter, the variable index and the variable storage differ *)
   Definition wst (s0 : state) (p ws i vi : nat) (m : list (list N)) : state :=
     set_mem m (set_k (set_k_var vi (set_k_index i (set_k_write_size ws (set_k_position p (k s0))))) s0).

   (* a quoted string field taken alone: QUOTE body QUOTE, nothing behind the closing quote *)
   Definition str_field (f : list N) : option (list N) :=
     match f with
     | q :: r => if q =? ch_QUOTE then match str_body r with Some (bs, []) => Some bs | _ => None end
                 else None
     | [] => None end.

   (* does v accept field f; if so the bytes written at the front of its storage and the reported
      write size *)
   Definition field_bytes (v : var) (f : list N) : option (list N * nat) :=
     match v_type v with
     | VBufHex => match hexbuf_accepts (v_size v) f with Some bs => Some (bs, length bs) | None => None end
     | VBufStr => match str_field f with
                  | Some bs => if length bs <? v_size v then Some (bs ++ [0], length bs) else None
                  | None => None end
     | _ => if num_accepts v f then Some (num_encode v f, v_size v) else None
     end.
   Definition store_front (bytes data : list N) : list N := bytes ++ skipn (length bytes) data.

   (* the specification of an accepted list: field i goes to variable i, in order *)
   Fixpoint store_fields (vs : list var) (fs : list (list N)) (m : list (list N)) :=
     match fs with
     | [] => Some m
     | f :: fs' => match vs with
       | [] => None
       | v :: vs' => match nth_error m (v_slot v), field_bytes v f with
         | Some data, Some (bytes, _) => store_fields vs' fs' (upd m (v_slot v) (store_front bytes data))
         | _, _ => None end end end.

   (* field f, followed by the text `after` (starting with the terminator of f), is not accepted;
      a string decoder does not stop at commas, so there the whole remaining text matters *)
   Definition field_rejected (v : var) (f after : list N) : Prop :=
     match v_type v with
     | VBufStr => match str_decode (f ++ after) with
                  | Some (bs, _, _) => v_size v <= length bs | None => True end
     | _ => field_ok f = true /\ field_bytes v f = None
     end.

   Definition mem_fits (vs : list var) (m : list (list N)) : Prop :=
     Forall (fun v => exists data, nth_error m (v_slot v) = Some data /\ v_size v <= length data) vs.
   Definition plain_wvar (v : var) : Prop := v_access v <> RO /\ v_hwrite v = false.
   Definition fields_shaped (vs : list var) (fs : list (list N)) : Prop :=
     forall i v f, nth_error vs i = Some v -> nth_error fs i = Some f ->
       v_type v <> VBufStr -> field_ok f = true.
   Definition commas pre := concat (map (fun f => f ++ [ch_COMMA]) pre).
   Definition ccomma post := concat (map (fun y => ch_COMMA :: y) post).

   (* CS_PARSE_WRITE_ARGS has just been entered for command ci, the argument text args is in the
      buffer as C06_collect leaves it *)
   Definition args_ready (w : world) ci c (args : list N) : Prop :=
     k_state (k (st w)) = CS_PARSE_WRITE_ARGS /\ k_cmd (k (st w)) = Some ci /\ cmd_at D ci = Some c /\
     k_position (k (st w)) = 0 /\ k_index (k (st w)) = 0 /\ k_var (k (st w)) = 0 /\
     firstn (S (length args)) (cbuf (st w)) = args ++ [0] /\
     Forall plain_wvar (c_vars c) /\ mem_fits (c_vars c) (mem (st w)).

   From Lemmas_C07e:
   Definition pwa_store v d ws n s :=
     setk_write_size ws (set_mem (upd (mem s) (v_slot v) d) (setk_position (k_position (k s) + n) s)).
   Definition pwa_next c comma s := (the index bookkeeping of parse_write_args, see theorem 5)
   Definition pwa_step w := fst (parse_write_args w).
   Fixpoint pwa_run fuel w := match fuel with O => w | S n =>
     if cstate_beq (k_state (k (st w))) CS_PARSE_WRITE_ARGS then pwa_run n (pwa_step w) else w end.

   `set_st s w` is w with the object state replaced by s: trace, handler state, io and mutex
   state are those of w, so a run that equals `set_st s w` has called no handler. *)
From Coq Require Import List NArith ZArith Bool Arith.
From CatV Require Import Bytes Defs Codec Spec Fsm TextDefs Lemmas_C07e Lemmas_WriteM.
Import ListNotations.
Local Open Scope nat_scope.

(* ---------- 0. one argument against the specification (pure) ---------- *)

(* accepted: exactly the specified bytes are stored at the front, the specified size is reported,
   the field and its terminator are consumed; any text: leading zeros, '+7', both hex cases *)
Theorem C04_field_accept : forall v f t tail data bytes ws,
  v_access v <> RO -> v_size v <= length data -> is_term t = true ->
  (v_type v <> VBufStr -> field_ok f = true) ->
  In 0%N (f ++ t :: tail) ->
  field_bytes v f = Some (bytes, ws) ->
  decode_var v (f ++ t :: tail) data
  = (SOk (t =? ch_COMMA)%N, store_front bytes data, ws, S (length f)).
Proof. exact Lemmas_WriteM.decode_accept. Qed.
Print Assumptions C04_field_accept.

(* rejected: ERROR status; a numeric variable is untouched, a buffer variable keeps its length
   and every byte at or beyond data_size *)
Theorem C04_field_reject : forall v f after data,
  v_access v <> RO -> v_size v <= length data -> In 0%N (f ++ after) ->
  (exists t tail, after = t :: tail /\ is_term t = true) ->
  field_rejected v f after ->
  exists d' ws n, decode_var v (f ++ after) data = (SErr, d', ws, n) /\
    (is_numeric (v_type v) = true -> d' = data) /\
    length d' = length data /\ skipn (v_size v) d' = skipn (v_size v) data.
Proof. exact Lemmas_WriteM.decode_reject. Qed.
Print Assumptions C04_field_reject.

Theorem C04_field_bytes_numeric : forall v f, is_numeric (v_type v) = true ->
  field_bytes v f = if num_accepts v f then Some (num_encode v f, v_size v) else None.
Proof. exact Lemmas_WriteM.field_bytes_numeric. Qed.
Print Assumptions C04_field_bytes_numeric.

Section C04m.
Variable D : desc.
Variables ioS muS hS : Type.
Variable mu_lock : muS -> muS * bool.
Variable mu_unlock : muS -> muS * bool.
Variable h_call : hS -> hreq -> hS * hres.

Local Notation world := (Fsm.world ioS muS hS).
Local Notation st := (Fsm.st ioS muS hS).
Local Notation io := (Fsm.io ioS muS hS).
Local Notation mu := (Fsm.mu ioS muS hS).
Local Notation hs := (Fsm.hs ioS muS hS).
Local Notation tr := (Fsm.tr ioS muS hS).
Local Notation set_st := (Fsm.set_st ioS muS hS).
Local Notation parse_write_args := (Fsm.parse_write_args D ioS muS hS mu_lock mu_unlock h_call).
Local Notation pwa_run := (Lemmas_C07e.pwa_run D ioS muS hS mu_lock mu_unlock h_call).
Local Notation args_ready := (Lemmas_WriteM.args_ready D ioS muS hS).

(* ---------- 1. the reject step, any type, any position ---------- *)
(* the decoder says ERROR: the step acknowledges ERROR; trace and handler state unchanged (no
   callback, no write handler); the storage holds what the decoder left (for numerics: see 2) *)
Theorem C04_reject_step : forall (w : world) ci c v data d' ws n,
  k_cmd (k (st w)) = Some ci -> cmd_at D ci = Some c ->
  nth_error (c_vars c) (k_var (k (st w))) = Some v ->
  nth_error (mem (st w)) (v_slot v) = Some data ->
  decode_var v (skipn (k_position (k (st w))) (cbuf (st w))) data = (SErr, d', ws, n) ->
  exists w', parse_write_args w = (w', ST_BUSY) /\
    tr w' = tr w /\ hs w' = hs w /\ io w' = io w /\ mu w' = mu w /\
    st w' = ack_error (st w |> setk_position (k_position (k (st w)) + n)
                            |> set_mem (upd (mem (st w)) (v_slot v) d')).
Proof. exact (Lemmas_WriteM.C04_reject_step D ioS muS hS mu_lock mu_unlock h_call). Qed.

(* ---------- 2. numeric variable, field not accepted: ERROR, no call, nothing stored ---------- *)
Theorem C04_reject_numeric_step : forall (w : world) ci c v data f t tail,
  k_cmd (k (st w)) = Some ci -> cmd_at D ci = Some c ->
  nth_error (c_vars c) (k_var (k (st w))) = Some v ->
  nth_error (mem (st w)) (v_slot v) = Some data ->
  is_numeric (v_type v) = true -> v_access v <> RO -> v_size v <= length data ->
  skipn (k_position (k (st w))) (cbuf (st w)) = f ++ t :: tail ->
  field_ok f = true -> is_term t = true -> num_accepts v f = false ->
  exists w' n, parse_write_args w = (w', ST_BUSY) /\
    tr w' = tr w /\ hs w' = hs w /\ io w' = io w /\ mu w' = mu w /\
    st w' = ack_error (setk_position (k_position (k (st w)) + n) (st w)) /\
    mem (st w') = mem (st w).
Proof. exact (Lemmas_WriteM.C04_reject_numeric_step D ioS muS hS mu_lock mu_unlock h_call). Qed.

(* ---------- 3. the same for every type, through the specification ---------- *)
Theorem C04_reject_step_spec : forall (w : world) ci c v data f after,
  k_cmd (k (st w)) = Some ci -> cmd_at D ci = Some c ->
  nth_error (c_vars c) (k_var (k (st w))) = Some v ->
  nth_error (mem (st w)) (v_slot v) = Some data ->
  v_access v <> RO -> v_size v <= length data ->
  skipn (k_position (k (st w))) (cbuf (st w)) = f ++ after -> In 0%N (f ++ after) ->
  (exists t tail, after = t :: tail /\ is_term t = true) ->
  field_rejected v f after ->
  exists w' d' n, parse_write_args w = (w', ST_BUSY) /\
    tr w' = tr w /\ hs w' = hs w /\ io w' = io w /\ mu w' = mu w /\
    st w' = ack_error (st w |> setk_position (k_position (k (st w)) + n)
                            |> set_mem (upd (mem (st w)) (v_slot v) d')) /\
    (is_numeric (v_type v) = true -> d' = data) /\
    length d' = length data /\ skipn (v_size v) d' = skipn (v_size v) data.
Proof. exact (Lemmas_WriteM.reject_step_spec D ioS muS hS mu_lock mu_unlock h_call). Qed.

(* ---------- 4. the accept step without variable callback: store, then the decision ---------- *)
Theorem C04_accept_step : forall (w : world) ci c v data comma d' ws n,
  k_cmd (k (st w)) = Some ci -> cmd_at D ci = Some c ->
  nth_error (c_vars c) (k_var (k (st w))) = Some v ->
  nth_error (mem (st w)) (v_slot v) = Some data ->
  decode_var v (skipn (k_position (k (st w))) (cbuf (st w))) data = (SOk comma, d', ws, n) ->
  v_hwrite v = false ->
  parse_write_args w = (set_st (pwa_next c comma (pwa_store v d' ws n (st w))) w, ST_BUSY).
Proof. exact (Lemmas_WriteM.accept_step_plain D ioS muS hS mu_lock mu_unlock h_call). Qed.

(* ---------- 5. the end-of-arguments decision ---------- *)
Theorem C04_step_decision : forall c comma s,
  let idx := S (k_index (k s)) in
  pwa_next c comma s =
    if comma then
      if idx <? length (c_vars c) then setk_var idx (setk_index idx s)   (* next variable *)
      else ack_error (setk_index idx s)                                  (* too many arguments *)
    else if c_need_all c && negb (idx =? length (c_vars c)) then ack_error (setk_index idx s)
    else if c_hwrite c then setk_state CS_WRITE_LOOP (setk_index idx s)
    else ack_ok (setk_index idx s).
Proof. exact Lemmas_WriteM.pwa_next_cases. Qed.

(* ---------- 6. the whole argument list: every field accepted ---------- *)
(* args = join_comma fields; field i is accepted by variable i (store_fields succeeds), any number
   1 .. |vars| of fields.  The run stores exactly the specified memory m', counts |fields|
   arguments, consumed the whole text, calls nobody; it ends in ERROR when need_all_vars is set
   and fields are missing (the given ones HAVE been stored), otherwise in CS_WRITE_LOOP (command
   with write handler) or OK *)
Theorem C04_write_args_accept : forall (w : world) ci c fields m' fuel,
  args_ready w ci c (join_comma fields) -> fields <> [] ->
  fields_shaped (c_vars c) fields ->
  store_fields (c_vars c) fields (mem (st w)) = Some m' ->
  length fields <= fuel ->
  exists ws, pwa_run fuel w = set_st
    ((if c_need_all c && negb (length fields =? length (c_vars c)) then ack_error
      else if c_hwrite c then setk_state CS_WRITE_LOOP else ack_ok)
     (wst (st w) (S (length (join_comma fields))) ws (length fields) (length fields - 1) m')) w.
Proof. exact (Lemmas_WriteM.write_args_accept D ioS muS hS mu_lock mu_unlock h_call). Qed.

(* ---------- 7. the first field that is not accepted ---------- *)
(* fields before it accepted and STORED (mj), then ERROR: no handler call; the variable of the
   rejected field: numeric - unchanged, buffer - length and bytes at or beyond data_size
   unchanged; variables after it unchanged (the memory is mj but for that slot) *)
Theorem C04_write_args_reject : forall (w : world) ci c pre f post v data mj fuel,
  args_ready w ci c (join_comma (pre ++ f :: post)) ->
  fields_shaped (c_vars c) pre ->
  store_fields (c_vars c) pre (mem (st w)) = Some mj ->
  nth_error (c_vars c) (length pre) = Some v -> nth_error mj (v_slot v) = Some data ->
  field_rejected v f (ccomma post ++ [0%N]) ->
  length pre < fuel ->
  exists d' p ws,
    pwa_run fuel w = set_st (ack_error (wst (st w) p ws (length pre) (length pre)
                                            (upd mj (v_slot v) d'))) w /\
    (is_numeric (v_type v) = true -> d' = data) /\
    length d' = length data /\ skipn (v_size v) d' = skipn (v_size v) data.
Proof. exact (Lemmas_WriteM.write_args_reject D ioS muS hS mu_lock mu_unlock h_call). Qed.

(* ---------- 8. more fields than variables: ERROR after all variables have been stored ---------- *)
Theorem C04_write_args_too_many : forall (w : world) ci c pre f post m' fuel,
  args_ready w ci c (join_comma (pre ++ f :: post)) ->
  fields_shaped (c_vars c) pre ->
  store_fields (c_vars c) pre (mem (st w)) = Some m' ->
  length pre = length (c_vars c) -> pre <> [] -> length pre <= fuel ->
  exists ws, pwa_run fuel w = set_st (ack_error (wst (st w) (length (commas pre)) ws
                                         (length pre) (length pre - 1) m')) w.
Proof. exact (Lemmas_WriteM.write_args_too_many D ioS muS hS mu_lock mu_unlock h_call). Qed.

End C04m.

Print Assumptions C04_reject_step.
Print Assumptions C04_reject_numeric_step.
Print Assumptions C04_reject_step_spec.
Print Assumptions C04_accept_step.
Print Assumptions C04_step_decision.
Print Assumptions C04_write_args_accept.
Print Assumptions C04_write_args_reject.
Print Assumptions C04_write_args_too_many.

(* ---------- 9. the specification fold read variable by variable ---------- *)
(* distinct storage: variable i < |fields| holds the specified bytes in front of its old
   contents, every slot of no such variable is unchanged *)
Theorem C04_store_fields_values : forall fs vs m m', NoDup (map v_slot vs) ->
  store_fields vs fs m = Some m' ->
  (forall i v f, nth_error vs i = Some v -> nth_error fs i = Some f ->
     exists data bytes ws, nth_error m (v_slot v) = Some data /\
       field_bytes v f = Some (bytes, ws) /\
       nth_error m' (v_slot v) = Some (store_front bytes data)) /\
  (forall sl, ~ In sl (map v_slot (firstn (length fs) vs)) -> nth_error m' sl = nth_error m sl).
Proof. exact Lemmas_WriteM.store_fields_values. Qed.
Print Assumptions C04_store_fields_values.

(* the fold succeeds exactly when there are not more fields than variables and every field is
   accepted by its variable *)
Theorem C04_store_fields_some : forall fs vs m, length fs <= length vs ->
  (forall v, In v vs -> nth_error m (v_slot v) <> None) ->
  (forall i v f, nth_error vs i = Some v -> nth_error fs i = Some f -> field_bytes v f <> None) ->
  exists m', store_fields vs fs m = Some m'.
Proof. exact Lemmas_WriteM.store_fields_some. Qed.
Print Assumptions C04_store_fields_some.

Theorem C04_store_fields_only_if : forall fs vs m i v f, store_fields vs fs m <> None ->
  nth_error vs i = Some v -> nth_error fs i = Some f -> field_bytes v f <> None.
Proof. exact Lemmas_WriteM.store_fields_none. Qed.
Print Assumptions C04_store_fields_only_if.

Theorem C04_store_fields_length : forall fs vs m m', store_fields vs fs m = Some m' ->
  length fs <= length vs.
Proof. exact Lemmas_WriteM.store_fields_length. Qed.
Print Assumptions C04_store_fields_length.

(* ---------- non-vacuity: command +X with int8 (RW), hex16 (WO), string[6] (RW) ---------- *)
Module C04m_examples.
Definition v1 := mkVar None VInt 1 RW false false 0.
Definition v2 := mkVar None VHex 2 WO false false 1.
Definition v3 := mkVar None VBufStr 6 RW false false 2.
Definition c0 := mkCmd [43; 88]%N None true false false false [v1; v2; v3] false false false.
Definition D0 := mkDesc [[c0]] [] 40 (Some 8) 85%N 2 false.
(* a fourth slot that no variable uses *)
Definition m0 : list (list N) := [[1]; [2; 3]; [4; 5; 6; 7; 8; 9]; [77]]%N.
(* an oracle that would be visible if it were consulted *)
Definition hc (h : nat) (q : hreq) : nat * hres := (S h, mkHres (-1) None [(0, [0]%N)] []).
Definition lk (u : unit) : unit * bool := (tt, true).
Definition base (D : desc) (args : list N) : state :=
  setk_length (length args) (setk_state CS_PARSE_WRITE_ARGS (setk_cmd (Some 0)
    (mkState init_cfsm (init_ufsm D) (firstn 24 (args ++ 0%N :: repeat 85%N 24)) (repeat 85%N 8)
             m0 [false] [false] false 0 0 0))).
Definition w0 (D : desc) (args : list N) : Fsm.world unit unit nat :=
  mkWorld unit unit nat (base D args) tt tt 0 [].
Definition run (args : list N) := pwa_run D0 unit unit nat lk lk hc 5 (w0 D0 args).
Definition show (w : Fsm.world unit unit nat) :=
  (k_state (k (st _ _ _ w)), k_wafter (k (st _ _ _ w)), k_index (k (st _ _ _ w)),
   text_of (cbuf (st _ _ _ w)), mem (st _ _ _ w), tr _ _ _ w, hs _ _ _ w).

Definition f1 : list N := [45; 53]%N.                     (* -5 *)
Definition f2 : list N := [48; 120; 49; 102]%N.           (* 0x1f *)
Definition f3 : list N := [34; 97; 44; 98; 34]%N.         (* dquote a , b dquote *)
Definition f2bad : list N := [48; 120; 49; 71]%N.         (* 0x1G *)

Example ex_field_bytes :
  field_bytes v1 f1 = Some ([251]%N, 1) /\ field_bytes v2 f2 = Some ([31; 0]%N, 2) /\
  field_bytes v3 f3 = Some ([97; 44; 98; 0]%N, 3) /\ field_bytes v2 f2bad = None.
Proof. vm_compute. repeat split. Qed.

Lemma ready : forall fields, args_ready D0 unit unit nat (w0 D0 (join_comma fields)) 0 c0 (join_comma fields)
  \/ 23 < length (join_comma fields).
Proof.
  intros fields. destruct (Nat.lt_ge_cases 23 (length (join_comma fields))) as [H|H]; [right; exact H|left].
  unfold args_ready. repeat split; try reflexivity.
  - cbn [Fsm.st w0 base cbuf setk_length setk_state setk_cmd set_k].
    rewrite firstn_firstn. replace (Nat.min _ 24) with (S (length (join_comma fields))).
    2:{ symmetry. apply Nat.min_l. apply le_n_S in H. exact H. }
    change (join_comma fields ++ 0%N :: repeat 85%N 24)
      with (join_comma fields ++ [0%N] ++ repeat 85%N 24).
    rewrite app_assoc, firstn_app.
    replace (S (length (join_comma fields))) with (length (join_comma fields ++ [0%N]))
      by (rewrite app_length; cbn [length]; apply Nat.add_1_r).
    rewrite firstn_all, Nat.sub_diag. cbn [firstn]. apply app_nil_r.
  - repeat constructor; discriminate.
  - repeat constructor; eexists; (split; [reflexivity|]); cbn; auto.
Qed.

(* the accepted line  -5,0x1f,"a,b" : lower-case hex, a comma inside the string *)
Example ex_accept : show (run (join_comma [f1; f2; f3]))
  = (CS_WRITE_LOOP, CS_IDLE, 3, join_comma [f1; f2; f3],
     [[251]; [31; 0]; [97; 44; 98; 0; 8; 9]; [77]]%N, [], 0)
  /\ store_fields (c_vars c0) [f1; f2; f3] m0 = Some [[251]; [31; 0]; [97; 44; 98; 0; 8; 9]; [77]]%N.
Proof. vm_compute. split; reflexivity. Qed.

(* the line  -5,0x1G,"a,b"  fails at field 1: ERROR, no call, variable 0 holds -5, the others
   are unchanged *)
Example ex_reject : show (run (join_comma [f1; f2bad; f3]))
  = (CS_FLUSH_WAIT, CS_AFTER_RESET, 1, txt_ERROR, [[251]; [2; 3]; [4; 5; 6; 7; 8; 9]; [77]]%N, [], 0).
Proof. vm_compute. reflexivity. Qed.

(* fewer fields: accepted (need_all_vars is not set); one field too many: ERROR *)
Example ex_two : show (run (join_comma [f1; f2]))
  = (CS_WRITE_LOOP, CS_IDLE, 2, join_comma [f1; f2], [[251]; [31; 0]; [4; 5; 6; 7; 8; 9]; [77]]%N, [], 0).
Proof. vm_compute. reflexivity. Qed.
Example ex_four : show (run (join_comma [f1; f2; f3; f1]))
  = (CS_FLUSH_WAIT, CS_AFTER_RESET, 3, txt_ERROR, [[251]; [31; 0]; [97; 44; 98; 0; 8; 9]; [77]]%N, [], 0).
Proof. vm_compute. reflexivity. Qed.

(* the empty argument text is ONE empty field (join_comma [] = join_comma [[]] = []), which no
   type accepts: the hypothesis fields <> [] of C04_write_args_accept is necessary *)
Example ex_empty : store_fields (c_vars c0) [] m0 = Some m0 /\ show (run (join_comma []))
  = (CS_FLUSH_WAIT, CS_AFTER_RESET, 0, txt_ERROR, m0, [], 0).
Proof. vm_compute. split; reflexivity. Qed.

(* the general theorems applied to the instance *)
Example ex_apply_accept : exists ws,
  run (join_comma [f1; f2; f3]) = set_st unit unit nat
    (setk_state CS_WRITE_LOOP (wst (base D0 (join_comma [f1; f2; f3])) 14 ws 3 2
       [[251]; [31; 0]; [97; 44; 98; 0; 8; 9]; [77]]%N)) (w0 D0 (join_comma [f1; f2; f3])).
Proof.
  destruct (ready [f1; f2; f3]) as [R|R]; [|vm_compute in R; inversion R; repeat
    match goal with H : (_ <= _)%nat |- _ => inversion H; clear H end].
  apply (C04_write_args_accept D0 unit unit nat lk lk hc _ 0 c0 [f1; f2; f3] _ 5 R).
  - discriminate.
  - intros [|[|[|i]]] v f Hv Hf Ht; cbn in Hv, Hf.
    + injection Hv as <-. injection Hf as <-. reflexivity.
    + injection Hv as <-. injection Hf as <-. reflexivity.
    + injection Hv as <-. exfalso. apply Ht. reflexivity.
    + destruct i; discriminate.
  - reflexivity.
  - repeat constructor.
Qed.

Example ex_apply_reject : exists d' p ws,
  run (join_comma [f1; f2bad; f3]) = set_st unit unit nat
    (ack_error (wst (base D0 (join_comma [f1; f2bad; f3])) p ws 1 1
       (upd [[251]; [2; 3]; [4; 5; 6; 7; 8; 9]; [77]]%N 1 d'))) (w0 D0 (join_comma [f1; f2bad; f3]))
  /\ d' = [2; 3]%N.
Proof.
  destruct (ready [f1; f2bad; f3]) as [R|R]; [|vm_compute in R; inversion R; repeat
    match goal with H : (_ <= _)%nat |- _ => inversion H; clear H end].
  destruct (C04_write_args_reject D0 unit unit nat lk lk hc _ 0 c0 [f1] f2bad [f3] v2 [2; 3]%N
              [[251]; [2; 3]; [4; 5; 6; 7; 8; 9]; [77]]%N 5 R) as (d' & p & ws & E & B & _).
  - intros [|i] v f Hv Hf Ht; cbn in Hv, Hf; [|destruct i; discriminate].
    injection Hv as <-. injection Hf as <-. reflexivity.
  - reflexivity.
  - reflexivity.
  - reflexivity.
  - split; reflexivity.
  - repeat constructor.
  - exists d', p, ws. split; [exact E|]. apply B. reflexivity.
Qed.

(* a read-only variable does NOT reject its field: the text is parsed, nothing is stored and
   write size 0 is reported (cat.c validate_int_range); this is why the whole-list theorems ask
   for plain_wvar *)
Example ex_readonly :
  decode_var (mkVar None VInt 1 RO false false 0) [53; 0]%N [1]%N = (SOk false, [1]%N, 0, 2).
Proof. vm_compute. reflexivity. Qed.

(* for a string variable "the field up to the next comma" is not what decides: the fields
   dquote a b   and   c dquote   are one accepted string argument  ab,c  - so rejection in a
   string position has to look at the remaining text (field_rejected) *)
Definition cs := mkCmd [43; 88]%N None true false false false [v3; v1] false false false.
Definition Ds := mkDesc [[cs]] [] 40 (Some 8) 85%N 2 false.
Definition g1 : list N := [34; 97; 98]%N.
Definition g2 : list N := [99; 34]%N.
Example ex_string_comma :
  str_field g1 = None /\
  show (pwa_run Ds unit unit nat lk lk hc 5 (w0 Ds (join_comma [g1; g2])))
  = (CS_WRITE_LOOP, CS_IDLE, 1, join_comma [g1; g2],
     [[1]; [2; 3]; [97; 98; 44; 99; 0; 9]; [77]]%N, [], 0).
Proof. vm_compute. split; reflexivity. Qed.
End C04m_examples.
