(* Properties_C10b.v — property C10, sequence part completed: for EVERY finite sequence of return
   codes of a READ or TEST handler, on the command machine (f = ATCMD) and on the event machine
   (f = UNSOL), the handler is invoked exactly once per code, the emitted units are exactly one per
   DATA_NEXT / DATA_OK in order (each the text the handler left in the buffer), and the final state
   is the action of the table RespDefs.spec_action for the last code; between the calls the machine
   is back in its loop state on a freshly formatted `name=` text.  On the event machine nothing of
   the command machine is touched (no result code: gS unchanged), PRINT_CMD_LIST_OK from a test
   handler finishes silently (D2), HOLD is excluded by hypothesis (D3).
   ONE theorem C10_rt_sequence over (rd : bool) (f : fsm); the four named statements are its
   instances, and the command-machine READ statement of Properties_C10.v (C10_read_sequence) is
   re-derived from it (C10_read_sequence_from_rt).  Proofs are in Lemmas_C10b.v.  Arbitrary
   oracles, ANY world (no reachability assumption) unless a theorem says scripted.

   Scope of the commands: a handler of the stated kind, and the freshly formatted text is exactly
   `name=`: READ: no readable variable; TEST: no variables and no description.  The name has no zero
   byte and `name=` fits the machine's buffer.

   A macro-step = one service step of machine f in its loop state (= one handler call); if that step
   started the emission of a unit (FLUSH_WAIT with a continuation other than the reset after a result
   code) the flush is taken as completed — the text of the buffer is collected as the emitted unit,
   the machine is put into the continuation state — and one more service step runs the continuation
   (the flush engine itself is C11). *)
From Coq Require Import List NArith ZArith Bool Arith.
From CatV Require Import Bytes Defs Codec Spec Fsm Script ResolveDefs TextDefs RespDefs Lemmas_C10 Lemmas_C10b.
Import ListNotations.

(* ---- definitions of Lemmas_C10.v / Lemmas_C10b.v used below, as checked equations ---- *)

(* the handler calls (request, returned integer) of a trace, newest first *)
Example def_calls_of : forall t,
  calls_of t = flat_map (fun e => match e with ECall q c => [(q, c)] | _ => [] end) t.
Proof. reflexivity. Qed.
(* machine f is in its READ_LOOP (rd = true) / TEST_LOOP (rd = false) *)
Example def_in_rt_loop : forall rd f s,
  in_rt_loop rd f s =
  match f with
  | ATCMD => k_state (k s) = (if rd then CS_READ_LOOP else CS_TEST_LOOP)
  | UNSOL => u_state (u s) = (if rd then US_READ_LOOP else US_TEST_LOOP)
  end.
Proof. reflexivity. Qed.
(* the request the read/test loop of machine f makes in state s: kind, machine, command, the buffer
   up to and including the byte at the current position, the position, the capacity *)
Example def_rtq : forall rd f ci s,
  rtq rd f ci s =
  (if rd then HRead else HTest) f ci (firstn (S (g_pos f s)) (g_buf f s)) (g_pos f s) (g_bsz f s).
Proof. reflexivity. Qed.
Example def_is_rt : forall rd f ci q,
  is_rt rd f ci q =
  match q with
  | HRead f' ci' _ _ _ => rd = true /\ f' = f /\ ci' = ci
  | HTest f' ci' _ _ _ => rd = false /\ f' = f /\ ci' = ci
  | _ => False
  end.
Proof. reflexivity. Qed.
(* what the edit of a read/test handler leaves as text in a buffer of size bsz that held `old` *)
Example def_edit_text : forall bsz old e,
  edit_text bsz old e =
  match e with
  | Some t => if length t <? bsz then text_of t else old
  | None => old
  end.
Proof. reflexivity. Qed.
(* the unit a result emits (if its code emits), given the text the buffer held before the call;
   written with the READ row of the command machine, see C10_unit_of_any_row *)
Example def_unit_of : forall bsz old r,
  unit_of bsz old r =
  match spec_action K_READ ATCMD (r_code r) with
  | A_EMIT_OK | A_EMIT_AGAIN => [edit_text bsz old (r_edit r)]
  | _ => []
  end.
Proof. reflexivity. Qed.
(* the units of a sequence: the first call sees `old`, every later one the fresh text `hdr` *)
Example def_units_of : forall bsz old hdr r rs,
  units_of bsz old hdr [] = [] /\
  units_of bsz old hdr (r :: rs) = unit_of bsz old r ++ units_of bsz hdr hdr rs.
Proof. split; reflexivity. Qed.
(* machine f started a flush whose continuation is not the reset after a result code *)
Example def_flush_started : forall f s,
  flush_started f s =
  match f with
  | ATCMD => cstate_beq (k_state (k s)) CS_FLUSH_WAIT && negb (cstate_beq (k_wafter (k s)) CS_AFTER_RESET)
  | UNSOL => ustate_beq (u_state (u s)) US_FLUSH_WAIT && negb (ustate_beq (u_wafter (u s)) US_AFTER_RESET)
  end.
Proof. reflexivity. Qed.
(* the flush taken as completed: machine f is in its continuation state *)
Example def_flush_done : forall f s,
  flush_done f s =
  match f with
  | ATCMD => setk_state (k_wafter (k s)) s
  | UNSOL => setu_state (u_wafter (u s)) s
  end.
Proof. reflexivity. Qed.
(* the event machine's registers without the queue fields cat_trigger_unsolicited_* writes *)
Example def_umask : forall x, umask x = set_u_ring [] (set_u_tail 0 (set_u_count 0 x)).
Proof. reflexivity. Qed.
(* kframe of Lemmas_C10.v: the command machine except hold_exit, and both buffers *)
Example def_kframe : forall s s',
  kframe s s' =
  (set_k_hold_exit 0%Z (k s') = set_k_hold_exit 0%Z (k s) /\ cbuf s' = cbuf s /\ ubuf s' = ubuf s).
Proof. reflexivity. Qed.
(* what one handler call (its stores and inner API calls included) leaves alone *)
Example def_hframe : forall s s',
  hframe s s' =
  (kframe s s' /\ umask (u s') = umask (u s) /\ gS s' = gS s /\ gR s' = gR s /\ gL s' = gL s).
Proof. reflexivity. Qed.
(* what a read/test sequence of machine f leaves alone of the OTHER machine *)
Example def_xframe : forall f s s',
  xframe f s s' =
  match f with
  | UNSOL => set_k_hold_exit 0%Z (k s') = set_k_hold_exit 0%Z (k s) /\ cbuf s' = cbuf s /\
             gS s' = gS s /\ gR s' = gR s /\ gL s' = gL s
  | ATCMD => umask (u s') = umask (u s) /\ ubuf s' = ubuf s
  end.
Proof. reflexivity. Qed.

Section C10b.
Variable D : desc.
Variables ioS muS hS : Type.
Variable io_read : ioS -> ioS * option N.
Variable io_write : ioS -> N -> ioS * bool.
Variable mu_lock : muS -> muS * bool.
Variable mu_unlock : muS -> muS * bool.
Variable h_call : hS -> hreq -> hS * hres.

Local Notation world := (Fsm.world ioS muS hS).
Local Notation st := (Fsm.st ioS muS hS).
Local Notation hs := (Fsm.hs ioS muS hS).
Local Notation tr := (Fsm.tr ioS muS hS).
Local Notation upd_st := (Fsm.upd_st ioS muS hS).
Local Notation call_h := (Fsm.call_h D ioS muS hS mu_lock mu_unlock h_call).
Local Notation unsolicited_events_service :=
  (Fsm.unsolicited_events_service D ioS muS hS io_write mu_lock mu_unlock h_call).
Local Notation cmd_service :=
  (Fsm.cmd_service D ioS muS hS io_read io_write mu_lock mu_unlock h_call).
(* h_returns_any P h [r1..rn]: the handler oracle, asked whatever requests satisfying P from
   handler-state h on, answers r1..rn in this order (Lemmas_C10.v) *)
Local Notation h_returns_any := (Lemmas_C10.h_returns_any hS h_call).
Local Notation rd_run := (Lemmas_C10.rd_run D ioS muS hS io_read io_write mu_lock mu_unlock h_call).
Local Notation gstep := (Lemmas_C10b.gstep D ioS muS hS io_read io_write mu_lock mu_unlock h_call).
Local Notation rt_settle := (Lemmas_C10b.rt_settle D ioS muS hS io_read io_write mu_lock mu_unlock h_call).
Local Notation rt_macro := (Lemmas_C10b.rt_macro D ioS muS hS io_read io_write mu_lock mu_unlock h_call).
Local Notation rt_run := (Lemmas_C10b.rt_run D ioS muS hS io_read io_write mu_lock mu_unlock h_call).

(* one service step of machine f *)
Example def_gstep : forall f w,
  gstep f w = match f with
              | ATCMD => fst (cmd_service w)
              | UNSOL => fst (unsolicited_events_service w)
              end.
Proof. reflexivity. Qed.
Example def_rt_settle : forall f w,
  rt_settle f w =
  if flush_started f (st w)
  then (gstep f (upd_st (flush_done f) w), [text_of (g_buf f (st w))])
  else (w, []).
Proof. reflexivity. Qed.
Example def_rt_macro : forall f w, rt_macro f w = rt_settle f (gstep f w).
Proof. reflexivity. Qed.
(* n macro-steps, collecting the emitted units *)
Example def_rt_run : forall f n w,
  rt_run f 0 w = (w, []) /\
  rt_run f (S n) w =
    (let (w1, u1) := rt_macro f w in let (w2, u2) := rt_run f n w1 in (w2, u1 ++ u2)).
Proof. split; reflexivity. Qed.

(* 0a. one handler call, with everything the application does inside it (stores into variables,
   cat_trigger_unsolicited_*, cat_hold_exit), leaves alone: the command machine except hold_exit,
   both buffers, the event machine's registers except its queue, the ghost counters *)
Theorem C10_call_h_hframe : forall w q, hframe (st w) (st (fst (call_h w q))).
Proof. exact (Lemmas_C10b.C10_call_h_hframe D ioS muS hS mu_lock mu_unlock h_call). Qed.

(* 0b. on the command machine the macro-steps are those of Properties_C10.v *)
Theorem C10_rt_run_c : forall n w, rt_run ATCMD n w = rd_run n w.
Proof. exact (Lemmas_C10b.C10_rt_run_c D ioS muS hS io_read io_write mu_lock mu_unlock h_call). Qed.

(* 1. THE sequence theorem.  rs: the codes that continue (DATA_NEXT, NEXT), rn: the code that ends.
   - between the macro-steps machine f is in its loop state, and the other machine is untouched;
   - the (n+1)-th call returns rn; calls: n+1 ECall events, the first with the request as found,
     every later one on the fresh text `name=` NUL, position |name|+1, capacity = buffer size of f;
   - final state: the table's action for rn on `se` = the state after the last call and its edit;
   - units: units_of, one per DATA_NEXT / DATA_OK. *)
Theorem C10_rt_sequence : forall (rd : bool) (f : fsm) rs rn w ci c,
  in_rt_loop rd f (st w) -> g_cmd f (st w) = Some ci -> cmd_at D ci = Some c ->
  (if rd then c_hread c = true /\ vars_access_possible c RO = false
   else c_htest c = true /\ c_vars c = [] /\ c_descr c = None) ->
  length (c_name c) + 1 < g_bsz f (st w) -> (forall x, In x (c_name c) -> x <> 0%N) ->
  let kd := if rd then K_READ else K_TEST in
  h_returns_any (is_rt rd f ci) (hs w) (rs ++ [rn]) ->
  (forall r, In r rs -> terminal (spec_action kd f (r_code r)) = false) ->
  terminal (spec_action kd f (r_code rn)) = true ->
  (f = UNSOL -> r_code rn <> RC_HOLD) ->
  let n := length rs in
  let hdr := c_name c ++ [ch_EQ] in
  let wn := fst (rt_run f n w) in
  let qn := rtq rd f ci (st wn) in
  let se := apply_edit f (r_edit rn) (st (fst (call_h wn qn))) in
  (forall m, m <= n ->
     in_rt_loop rd f (st (fst (rt_run f m w))) /\ xframe f (st w) (st (fst (rt_run f m w)))) /\
  snd (call_h wn qn) = rn /\
  st (fst (rt_run f (S n) w)) =
    match spec_action kd f (r_code rn) with
    | A_OK => end_with_ok f se
    | A_ERROR => end_with_error f se
    | A_EMIT_OK => end_with_ok f (flush_done f (start_flush_after f CS_AFTER_OK US_AFTER_OK se))
    | A_HOLD => enable_hold_state se
    | A_RELEASE_OK => end_with_ok f (fst (hold_exit se ST_OK))
    | A_RELEASE_ERROR => end_with_error f (fst (hold_exit se ST_ERROR))
    | A_LIST => if rd then se else match f with ATCMD => start_print_cmd_list D se | UNSOL => se end
    | _ => se
    end /\
  xframe f (st w) (st (fst (rt_run f (S n) w))) /\
  calls_of (tr (fst (rt_run f (S n) w))) =
    rev (combine (rtq rd f ci (st w) ::
                  repeat ((if rd then HRead else HTest) f ci (hdr ++ [0%N]) (length hdr)
                            (g_bsz f (st w))) n)
                 (map r_code (rs ++ [rn]))) ++ calls_of (tr w) /\
  snd (rt_run f (S n) w) = units_of (g_bsz f (st w)) (text_of (g_buf f (st w))) hdr (rs ++ [rn]).
Proof.
  exact (Lemmas_C10b.C10_rt_sequence D ioS muS hS io_read io_write mu_lock mu_unlock h_call).
Qed.

(* which codes emit does not depend on the handler kind or the machine: unit_of / units_of, written
   with the READ row of the command machine, mean the same with any read/test row *)
Theorem C10_unit_of_any_row : forall (rd : bool) f bsz old r,
  unit_of bsz old r =
  match spec_action (if rd then K_READ else K_TEST) f (r_code r) with
  | A_EMIT_OK | A_EMIT_AGAIN => [edit_text bsz old (r_edit r)]
  | _ => []
  end.
Proof. exact Lemmas_C10b.C10_unit_of_any_row. Qed.

(* 2. nothing was lost: the statement of Properties_C10.C10_read_sequence, word for word, from 1. *)
Theorem C10_read_sequence_from_rt : forall rs rn w ci c,
  k_state (k (st w)) = CS_READ_LOOP -> k_cmd (k (st w)) = Some ci -> cmd_at D ci = Some c ->
  c_hread c = true -> vars_access_possible c RO = false ->
  length (c_name c) + 1 < asz (st w) -> (forall x, In x (c_name c) -> x <> 0%N) ->
  h_returns_any (is_hread ci) (hs w) (rs ++ [rn]) ->
  (forall r, In r rs -> terminal (spec_action K_READ ATCMD (r_code r)) = false) ->
  terminal (spec_action K_READ ATCMD (r_code rn)) = true ->
  let n := length rs in
  let hdr := c_name c ++ [ch_EQ] in
  let wn := fst (rd_run n w) in
  let qn := rq ci (st wn) in
  let se := apply_edit ATCMD (r_edit rn) (st (fst (call_h wn qn))) in
  k_state (k (st wn)) = CS_READ_LOOP /\
  snd (call_h wn qn) = rn /\
  st (fst (rd_run (S n) w)) =
    match spec_action K_READ ATCMD (r_code rn) with
    | A_OK => ack_ok se
    | A_ERROR => ack_error se
    | A_EMIT_OK => ack_ok (setk_state CS_AFTER_OK (start_flush_c CS_AFTER_OK se))
    | A_HOLD => enable_hold_state se
    | A_RELEASE_OK => ack_ok (fst (hold_exit se ST_OK))
    | A_RELEASE_ERROR => ack_error (fst (hold_exit se ST_ERROR))
    | _ => se
    end /\
  calls_of (tr (fst (rd_run (S n) w))) =
    rev (combine (rq ci (st w) ::
                  repeat (HRead ATCMD ci (hdr ++ [0%N]) (length hdr) (asz (st w))) n)
                 (map r_code (rs ++ [rn]))) ++ calls_of (tr w) /\
  snd (rd_run (S n) w) = units_of (asz (st w)) (text_of (cbuf (st w))) hdr (rs ++ [rn]).
Proof.
  exact (Lemmas_C10b.C10_read_sequence_from_rt D ioS muS hS io_read io_write mu_lock mu_unlock h_call).
Qed.

(* 3. TEST handler on the command machine.  DATA_NEXT emits the buffer once and re-invokes on a
   fresh `name=`, NEXT re-invokes without emitting; then DATA_OK emits and OK follows, OK / ERROR
   finish, PRINT_CMD_LIST_OK starts the command list, HOLD suspends, HOLD_EXIT_OK / HOLD_EXIT_ERROR
   release a held command and finish with OK / ERROR, any other integer is ERROR. *)
Theorem C10_test_sequence : forall rs rn w ci c,
  k_state (k (st w)) = CS_TEST_LOOP -> k_cmd (k (st w)) = Some ci -> cmd_at D ci = Some c ->
  c_htest c = true -> c_vars c = [] -> c_descr c = None ->
  length (c_name c) + 1 < asz (st w) -> (forall x, In x (c_name c) -> x <> 0%N) ->
  h_returns_any (is_rt false ATCMD ci) (hs w) (rs ++ [rn]) ->
  (forall r, In r rs -> terminal (spec_action K_TEST ATCMD (r_code r)) = false) ->
  terminal (spec_action K_TEST ATCMD (r_code rn)) = true ->
  let n := length rs in
  let hdr := c_name c ++ [ch_EQ] in
  let wn := fst (rt_run ATCMD n w) in
  let qn := HTest ATCMD ci (firstn (S (k_position (k (st wn)))) (cbuf (st wn)))
                  (k_position (k (st wn))) (asz (st wn)) in
  let se := apply_edit ATCMD (r_edit rn) (st (fst (call_h wn qn))) in
  (forall m, m <= n -> k_state (k (st (fst (rt_run ATCMD m w)))) = CS_TEST_LOOP) /\
  snd (call_h wn qn) = rn /\
  st (fst (rt_run ATCMD (S n) w)) =
    match spec_action K_TEST ATCMD (r_code rn) with
    | A_OK => ack_ok se
    | A_ERROR => ack_error se
    | A_EMIT_OK => ack_ok (setk_state CS_AFTER_OK (start_flush_c CS_AFTER_OK se))
    | A_HOLD => enable_hold_state se
    | A_RELEASE_OK => ack_ok (fst (hold_exit se ST_OK))
    | A_RELEASE_ERROR => ack_error (fst (hold_exit se ST_ERROR))
    | A_LIST => start_print_cmd_list D se
    | _ => se
    end /\
  calls_of (tr (fst (rt_run ATCMD (S n) w))) =
    rev (combine (HTest ATCMD ci (firstn (S (k_position (k (st w)))) (cbuf (st w)))
                        (k_position (k (st w))) (asz (st w)) ::
                  repeat (HTest ATCMD ci (hdr ++ [0%N]) (length hdr) (asz (st w))) n)
                 (map r_code (rs ++ [rn]))) ++ calls_of (tr w) /\
  snd (rt_run ATCMD (S n) w) = units_of (asz (st w)) (text_of (cbuf (st w))) hdr (rs ++ [rn]).
Proof.
  exact (Lemmas_C10b.C10_test_sequence D ioS muS hS io_read io_write mu_lock mu_unlock h_call).
Qed.

(* 4. READ handler of the event machine: the same table on ubuf; finishing is
   unsolicited_reset_state — no result code; for arbitrary state of the command machine, of which
   only hold_exit may change (xframe UNSOL, which includes gS, gR: no result code started or
   completed).  HOLD is out of contract on the event side (D3). *)
Theorem C10_read_sequence_uns : forall rs rn w ci c,
  u_state (u (st w)) = US_READ_LOOP -> u_cmd (u (st w)) = Some ci -> cmd_at D ci = Some c ->
  c_hread c = true -> vars_access_possible c RO = false ->
  length (c_name c) + 1 < usz (st w) -> (forall x, In x (c_name c) -> x <> 0%N) ->
  h_returns_any (is_rt true UNSOL ci) (hs w) (rs ++ [rn]) ->
  (forall r, In r rs -> terminal (spec_action K_READ UNSOL (r_code r)) = false) ->
  terminal (spec_action K_READ UNSOL (r_code rn)) = true ->
  r_code rn <> RC_HOLD ->
  let n := length rs in
  let hdr := c_name c ++ [ch_EQ] in
  let wn := fst (rt_run UNSOL n w) in
  let qn := HRead UNSOL ci (firstn (S (u_position (u (st wn)))) (ubuf (st wn)))
                  (u_position (u (st wn))) (usz (st wn)) in
  let se := apply_edit UNSOL (r_edit rn) (st (fst (call_h wn qn))) in
  (forall m, m <= n -> u_state (u (st (fst (rt_run UNSOL m w)))) = US_READ_LOOP /\
                       xframe UNSOL (st w) (st (fst (rt_run UNSOL m w)))) /\
  snd (call_h wn qn) = rn /\
  st (fst (rt_run UNSOL (S n) w)) =
    match spec_action K_READ UNSOL (r_code rn) with
    | A_OK | A_ERROR => unsolicited_reset_state se
    | A_EMIT_OK => unsolicited_reset_state (setu_state US_AFTER_OK (start_flush_u US_AFTER_OK se))
    | A_RELEASE_OK => unsolicited_reset_state (fst (hold_exit se ST_OK))
    | A_RELEASE_ERROR => unsolicited_reset_state (fst (hold_exit se ST_ERROR))
    | _ => se
    end /\
  xframe UNSOL (st w) (st (fst (rt_run UNSOL (S n) w))) /\
  calls_of (tr (fst (rt_run UNSOL (S n) w))) =
    rev (combine (HRead UNSOL ci (firstn (S (u_position (u (st w)))) (ubuf (st w)))
                        (u_position (u (st w))) (usz (st w)) ::
                  repeat (HRead UNSOL ci (hdr ++ [0%N]) (length hdr) (usz (st w))) n)
                 (map r_code (rs ++ [rn]))) ++ calls_of (tr w) /\
  snd (rt_run UNSOL (S n) w) = units_of (usz (st w)) (text_of (ubuf (st w))) hdr (rs ++ [rn]).
Proof.
  exact (Lemmas_C10b.C10_read_sequence_uns D ioS muS hS io_read io_write mu_lock mu_unlock h_call).
Qed.

(* 5. TEST handler of the event machine: PRINT_CMD_LIST_OK is A_OK in the table (D2): it finishes
   silently like OK (see also C10_uns_list_is_ok) *)
Theorem C10_test_sequence_uns : forall rs rn w ci c,
  u_state (u (st w)) = US_TEST_LOOP -> u_cmd (u (st w)) = Some ci -> cmd_at D ci = Some c ->
  c_htest c = true -> c_vars c = [] -> c_descr c = None ->
  length (c_name c) + 1 < usz (st w) -> (forall x, In x (c_name c) -> x <> 0%N) ->
  h_returns_any (is_rt false UNSOL ci) (hs w) (rs ++ [rn]) ->
  (forall r, In r rs -> terminal (spec_action K_TEST UNSOL (r_code r)) = false) ->
  terminal (spec_action K_TEST UNSOL (r_code rn)) = true ->
  r_code rn <> RC_HOLD ->
  let n := length rs in
  let hdr := c_name c ++ [ch_EQ] in
  let wn := fst (rt_run UNSOL n w) in
  let qn := HTest UNSOL ci (firstn (S (u_position (u (st wn)))) (ubuf (st wn)))
                  (u_position (u (st wn))) (usz (st wn)) in
  let se := apply_edit UNSOL (r_edit rn) (st (fst (call_h wn qn))) in
  (forall m, m <= n -> u_state (u (st (fst (rt_run UNSOL m w)))) = US_TEST_LOOP /\
                       xframe UNSOL (st w) (st (fst (rt_run UNSOL m w)))) /\
  snd (call_h wn qn) = rn /\
  st (fst (rt_run UNSOL (S n) w)) =
    match spec_action K_TEST UNSOL (r_code rn) with
    | A_OK | A_ERROR => unsolicited_reset_state se
    | A_EMIT_OK => unsolicited_reset_state (setu_state US_AFTER_OK (start_flush_u US_AFTER_OK se))
    | A_RELEASE_OK => unsolicited_reset_state (fst (hold_exit se ST_OK))
    | A_RELEASE_ERROR => unsolicited_reset_state (fst (hold_exit se ST_ERROR))
    | _ => se
    end /\
  xframe UNSOL (st w) (st (fst (rt_run UNSOL (S n) w))) /\
  calls_of (tr (fst (rt_run UNSOL (S n) w))) =
    rev (combine (HTest UNSOL ci (firstn (S (u_position (u (st w)))) (ubuf (st w)))
                        (u_position (u (st w))) (usz (st w)) ::
                  repeat (HTest UNSOL ci (hdr ++ [0%N]) (length hdr) (usz (st w))) n)
                 (map r_code (rs ++ [rn]))) ++ calls_of (tr w) /\
  snd (rt_run UNSOL (S n) w) = units_of (usz (st w)) (text_of (ubuf (st w))) hdr (rs ++ [rn]).
Proof.
  exact (Lemmas_C10b.C10_test_sequence_uns D ioS muS hS io_read io_write mu_lock mu_unlock h_call).
Qed.

(* D2 in the table, and the silence of the event machine's finishing function *)
Theorem C10_uns_list_is_ok : spec_action K_TEST UNSOL RC_PRINT_CMD_LIST_OK = A_OK /\
  terminal (spec_action K_TEST UNSOL RC_PRINT_CMD_LIST_OK) = true /\
  forall s, gS (unsolicited_reset_state s) = gS s /\ k (unsolicited_reset_state s) = k s /\
            cbuf (unsolicited_reset_state s) = cbuf s /\ ubuf (unsolicited_reset_state s) = ubuf s /\
            u_state (u (unsolicited_reset_state s)) = US_IDLE /\ u_cmd (u (unsolicited_reset_state s)) = None.
Proof. exact Lemmas_C10b.C10_uns_list_is_ok. Qed.

End C10b.

(* ---- the same on the scripted handler environment of Script.v: "the handler returns c1..cn" is a
   statement about its script.  script_of h key = the results still to be delivered for key
   (kind, command, variable); kinds: 1 read handler, 3 test handler (one script per command,
   whichever machine calls). ---- *)
Section Scripted.
Variable D : desc.
Local Notation st := (Fsm.st sio smu shs).
Local Notation hs := (Fsm.hs sio smu shs).
Local Notation tr := (Fsm.tr sio smu shs).
Local Notation call_h := (Fsm.call_h D sio smu shs s_lock s_unlock s_call).
Local Notation rt_run := (Lemmas_C10b.rt_run D sio smu shs s_read s_write s_lock s_unlock s_call).

Theorem C10_rt_sequence_scripted : forall (rd : bool) (f : fsm) rs rn rest (w : sworld) ci c,
  in_rt_loop rd f (st w) -> g_cmd f (st w) = Some ci -> cmd_at D ci = Some c ->
  (if rd then c_hread c = true /\ vars_access_possible c RO = false
   else c_htest c = true /\ c_vars c = [] /\ c_descr c = None) ->
  length (c_name c) + 1 < g_bsz f (st w) -> (forall x, In x (c_name c) -> x <> 0%N) ->
  let kd := if rd then K_READ else K_TEST in
  script_of (hs w) ((if rd then 1 else 3), ci, 0) = rs ++ rn :: rest ->
  (forall r, In r rs -> terminal (spec_action kd f (r_code r)) = false) ->
  terminal (spec_action kd f (r_code rn)) = true ->
  (f = UNSOL -> r_code rn <> RC_HOLD) ->
  let n := length rs in
  let hdr := c_name c ++ [ch_EQ] in
  let wn := fst (rt_run f n w) in
  let qn := rtq rd f ci (st wn) in
  let se := apply_edit f (r_edit rn) (st (fst (call_h wn qn))) in
  (forall m, m <= n ->
     in_rt_loop rd f (st (fst (rt_run f m w))) /\ xframe f (st w) (st (fst (rt_run f m w)))) /\
  snd (call_h wn qn) = rn /\
  st (fst (rt_run f (S n) w)) =
    match spec_action kd f (r_code rn) with
    | A_OK => end_with_ok f se
    | A_ERROR => end_with_error f se
    | A_EMIT_OK => end_with_ok f (flush_done f (start_flush_after f CS_AFTER_OK US_AFTER_OK se))
    | A_HOLD => enable_hold_state se
    | A_RELEASE_OK => end_with_ok f (fst (hold_exit se ST_OK))
    | A_RELEASE_ERROR => end_with_error f (fst (hold_exit se ST_ERROR))
    | A_LIST => if rd then se else match f with ATCMD => start_print_cmd_list D se | UNSOL => se end
    | _ => se
    end /\
  xframe f (st w) (st (fst (rt_run f (S n) w))) /\
  calls_of (tr (fst (rt_run f (S n) w))) =
    rev (combine (rtq rd f ci (st w) ::
                  repeat ((if rd then HRead else HTest) f ci (hdr ++ [0%N]) (length hdr)
                            (g_bsz f (st w))) n)
                 (map r_code (rs ++ [rn]))) ++ calls_of (tr w) /\
  snd (rt_run f (S n) w) = units_of (g_bsz f (st w)) (text_of (g_buf f (st w))) hdr (rs ++ [rn]).
Proof. exact (Lemmas_C10b.C10_rt_sequence_scripted D). Qed.

Theorem C10_test_sequence_scripted : forall rs rn rest (w : sworld) ci c,
  k_state (k (st w)) = CS_TEST_LOOP -> k_cmd (k (st w)) = Some ci -> cmd_at D ci = Some c ->
  c_htest c = true -> c_vars c = [] -> c_descr c = None ->
  length (c_name c) + 1 < asz (st w) -> (forall x, In x (c_name c) -> x <> 0%N) ->
  script_of (hs w) (3, ci, 0) = rs ++ rn :: rest ->
  (forall r, In r rs -> terminal (spec_action K_TEST ATCMD (r_code r)) = false) ->
  terminal (spec_action K_TEST ATCMD (r_code rn)) = true ->
  let n := length rs in
  let hdr := c_name c ++ [ch_EQ] in
  let wn := fst (rt_run ATCMD n w) in
  let qn := HTest ATCMD ci (firstn (S (k_position (k (st wn)))) (cbuf (st wn)))
                  (k_position (k (st wn))) (asz (st wn)) in
  let se := apply_edit ATCMD (r_edit rn) (st (fst (call_h wn qn))) in
  (forall m, m <= n -> k_state (k (st (fst (rt_run ATCMD m w)))) = CS_TEST_LOOP) /\
  snd (call_h wn qn) = rn /\
  st (fst (rt_run ATCMD (S n) w)) =
    match spec_action K_TEST ATCMD (r_code rn) with
    | A_OK => ack_ok se
    | A_ERROR => ack_error se
    | A_EMIT_OK => ack_ok (setk_state CS_AFTER_OK (start_flush_c CS_AFTER_OK se))
    | A_HOLD => enable_hold_state se
    | A_RELEASE_OK => ack_ok (fst (hold_exit se ST_OK))
    | A_RELEASE_ERROR => ack_error (fst (hold_exit se ST_ERROR))
    | A_LIST => start_print_cmd_list D se
    | _ => se
    end /\
  calls_of (tr (fst (rt_run ATCMD (S n) w))) =
    rev (combine (HTest ATCMD ci (firstn (S (k_position (k (st w)))) (cbuf (st w)))
                        (k_position (k (st w))) (asz (st w)) ::
                  repeat (HTest ATCMD ci (hdr ++ [0%N]) (length hdr) (asz (st w))) n)
                 (map r_code (rs ++ [rn]))) ++ calls_of (tr w) /\
  snd (rt_run ATCMD (S n) w) = units_of (asz (st w)) (text_of (cbuf (st w))) hdr (rs ++ [rn]).
Proof. exact (Lemmas_C10b.C10_test_sequence_scripted D). Qed.

Theorem C10_read_sequence_uns_scripted : forall rs rn rest (w : sworld) ci c,
  u_state (u (st w)) = US_READ_LOOP -> u_cmd (u (st w)) = Some ci -> cmd_at D ci = Some c ->
  c_hread c = true -> vars_access_possible c RO = false ->
  length (c_name c) + 1 < usz (st w) -> (forall x, In x (c_name c) -> x <> 0%N) ->
  script_of (hs w) (1, ci, 0) = rs ++ rn :: rest ->
  (forall r, In r rs -> terminal (spec_action K_READ UNSOL (r_code r)) = false) ->
  terminal (spec_action K_READ UNSOL (r_code rn)) = true ->
  r_code rn <> RC_HOLD ->
  let n := length rs in
  let hdr := c_name c ++ [ch_EQ] in
  let wn := fst (rt_run UNSOL n w) in
  let qn := HRead UNSOL ci (firstn (S (u_position (u (st wn)))) (ubuf (st wn)))
                  (u_position (u (st wn))) (usz (st wn)) in
  let se := apply_edit UNSOL (r_edit rn) (st (fst (call_h wn qn))) in
  (forall m, m <= n -> u_state (u (st (fst (rt_run UNSOL m w)))) = US_READ_LOOP /\
                       xframe UNSOL (st w) (st (fst (rt_run UNSOL m w)))) /\
  snd (call_h wn qn) = rn /\
  st (fst (rt_run UNSOL (S n) w)) =
    match spec_action K_READ UNSOL (r_code rn) with
    | A_OK | A_ERROR => unsolicited_reset_state se
    | A_EMIT_OK => unsolicited_reset_state (setu_state US_AFTER_OK (start_flush_u US_AFTER_OK se))
    | A_RELEASE_OK => unsolicited_reset_state (fst (hold_exit se ST_OK))
    | A_RELEASE_ERROR => unsolicited_reset_state (fst (hold_exit se ST_ERROR))
    | _ => se
    end /\
  xframe UNSOL (st w) (st (fst (rt_run UNSOL (S n) w))) /\
  calls_of (tr (fst (rt_run UNSOL (S n) w))) =
    rev (combine (HRead UNSOL ci (firstn (S (u_position (u (st w)))) (ubuf (st w)))
                        (u_position (u (st w))) (usz (st w)) ::
                  repeat (HRead UNSOL ci (hdr ++ [0%N]) (length hdr) (usz (st w))) n)
                 (map r_code (rs ++ [rn]))) ++ calls_of (tr w) /\
  snd (rt_run UNSOL (S n) w) = units_of (usz (st w)) (text_of (ubuf (st w))) hdr (rs ++ [rn]).
Proof. exact (Lemmas_C10b.C10_read_sequence_uns_scripted D). Qed.

Theorem C10_test_sequence_uns_scripted : forall rs rn rest (w : sworld) ci c,
  u_state (u (st w)) = US_TEST_LOOP -> u_cmd (u (st w)) = Some ci -> cmd_at D ci = Some c ->
  c_htest c = true -> c_vars c = [] -> c_descr c = None ->
  length (c_name c) + 1 < usz (st w) -> (forall x, In x (c_name c) -> x <> 0%N) ->
  script_of (hs w) (3, ci, 0) = rs ++ rn :: rest ->
  (forall r, In r rs -> terminal (spec_action K_TEST UNSOL (r_code r)) = false) ->
  terminal (spec_action K_TEST UNSOL (r_code rn)) = true ->
  r_code rn <> RC_HOLD ->
  let n := length rs in
  let hdr := c_name c ++ [ch_EQ] in
  let wn := fst (rt_run UNSOL n w) in
  let qn := HTest UNSOL ci (firstn (S (u_position (u (st wn)))) (ubuf (st wn)))
                  (u_position (u (st wn))) (usz (st wn)) in
  let se := apply_edit UNSOL (r_edit rn) (st (fst (call_h wn qn))) in
  (forall m, m <= n -> u_state (u (st (fst (rt_run UNSOL m w)))) = US_TEST_LOOP /\
                       xframe UNSOL (st w) (st (fst (rt_run UNSOL m w)))) /\
  snd (call_h wn qn) = rn /\
  st (fst (rt_run UNSOL (S n) w)) =
    match spec_action K_TEST UNSOL (r_code rn) with
    | A_OK | A_ERROR => unsolicited_reset_state se
    | A_EMIT_OK => unsolicited_reset_state (setu_state US_AFTER_OK (start_flush_u US_AFTER_OK se))
    | A_RELEASE_OK => unsolicited_reset_state (fst (hold_exit se ST_OK))
    | A_RELEASE_ERROR => unsolicited_reset_state (fst (hold_exit se ST_ERROR))
    | _ => se
    end /\
  xframe UNSOL (st w) (st (fst (rt_run UNSOL (S n) w))) /\
  calls_of (tr (fst (rt_run UNSOL (S n) w))) =
    rev (combine (HTest UNSOL ci (firstn (S (u_position (u (st w)))) (ubuf (st w)))
                        (u_position (u (st w))) (usz (st w)) ::
                  repeat (HTest UNSOL ci (hdr ++ [0%N]) (length hdr) (usz (st w))) n)
                 (map r_code (rs ++ [rn]))) ++ calls_of (tr w) /\
  snd (rt_run UNSOL (S n) w) = units_of (usz (st w)) (text_of (ubuf (st w))) hdr (rs ++ [rn]).
Proof. exact (Lemmas_C10b.C10_test_sequence_uns_scripted D). Qed.

End Scripted.

(* ---- non-vacuity: concrete scripted runs (vm_compute) ---- *)
(* "+X": read handler only; "+T": test handler only; no variables, no descriptions.  Command
   buffer 16 bytes, event buffer 8 bytes, always-ready io, no mutex. *)
Definition exbX := mkCmd [43;88]%N None false true false false [] false false false.
Definition exbT := mkCmd [43;84]%N None false false false true [] false false false.
Definition exbD := mkDesc [[exbX; exbT]] [] 16 (Some 8) 85%N 2 false.
Definition exbr (code : Z) (e : option (list N)) : hres := mkHres code e [] [].
(* observations: state, continuation of a running flush, text of the machine's buffer *)
Definition exbobs_u (w : sworld) : ustate * ustate * list N :=
  (u_state (u (st _ _ _ w)), u_wafter (u (st _ _ _ w)), text_of (ubuf (st _ _ _ w))).
Definition exbobs_c (w : sworld) : cstate * cstate * list N :=
  (k_state (k (st _ _ _ w)), k_wafter (k (st _ _ _ w)), text_of (cbuf (st _ _ _ w))).
Definition exbcalls (w : sworld) : list (hreq * Z) := rev (calls_of (tr _ _ _ w)).
(* accepted output bytes with their producer *)
Definition exbout (w : sworld) : list (fsm * N) :=
  flat_map (fun e => match e with EWr f ch true => [(f, ch)] | _ => [] end) (rev (tr _ _ _ w)).
Definition exbsvc (w : sworld) (n : nat) : sworld := srun exbD w (repeat (SOp OService) n).
Definition exbinit (input : list N) (h : shs) : sworld :=
  sinit exbD [] (mkSio input [] []) (mkSmu [] []) h.
Definition exbrun := Lemmas_C10b.rt_run exbD _ _ _ s_read s_write s_lock s_unlock s_call.

(* event "+T" TEST triggered; its test handler returns DATA_NEXT (text "ab"), NEXT, DATA_NEXT (text
   left as formatted), PRINT_CMD_LIST_OK *)
Definition exbscr : list hres :=
  [exbr RC_DATA_NEXT (Some [97;98]%N); exbr RC_NEXT None; exbr RC_DATA_NEXT None;
   exbr RC_PRINT_CMD_LIST_OK None].
Definition exbE : sworld := sstep exbD (exbinit [] [((3,1,0), exbscr)]) (SOp (OTrigger 1 T_TEST)).

(* the real run, service call by service call: two units, then silence (no result code, nothing
   from the command machine), event machine idle again *)
Example C10b_ex_uns_test_states :
  map (fun n => exbobs_u (exbsvc exbE n)) [1; 2; 10; 11; 12; 13; 22; 23; 24; 40] =
  [ (US_TEST_LOOP, US_IDLE, [43;84;61]%N);                  (* "+T=" formatted, 1st call next *)
    (US_FLUSH_WAIT, US_AFTER_FMT_TEST, [97;98]%N);          (* DATA_NEXT: unit "ab" being emitted *)
    (US_AFTER_FMT_TEST, US_AFTER_FMT_TEST, [97;98]%N);      (* flush done *)
    (US_TEST_LOOP, US_AFTER_FMT_TEST, [43;84;61]%N);        (* fresh "+T=", 2nd call next *)
    (US_TEST_LOOP, US_AFTER_FMT_TEST, [43;84;61]%N);        (* NEXT: re-formatted, nothing emitted *)
    (US_FLUSH_WAIT, US_AFTER_FMT_TEST, [43;84;61]%N);       (* DATA_NEXT: unit "+T=" being emitted *)
    (US_AFTER_FMT_TEST, US_AFTER_FMT_TEST, [43;84;61]%N);
    (US_TEST_LOOP, US_AFTER_FMT_TEST, [43;84;61]%N);        (* 4th call next *)
    (US_IDLE, US_AFTER_FMT_TEST, [43;84;61]%N);             (* PRINT_CMD_LIST_OK: finished silently *)
    (US_IDLE, US_AFTER_FMT_TEST, [43;84;61]%N) ].
Proof. vm_compute. reflexivity. Qed.
Example C10b_ex_uns_test_calls_and_output :
  exbcalls (exbsvc exbE 40) =
    [ (HTest UNSOL 1 [43;84;61;0]%N 3 8, 1%Z); (HTest UNSOL 1 [43;84;61;0]%N 3 8, 2%Z);
      (HTest UNSOL 1 [43;84;61;0]%N 3 8, 1%Z); (HTest UNSOL 1 [43;84;61;0]%N 3 8, 7%Z) ] /\
  exbout (exbsvc exbE 40) =
    [ (UNSOL,10); (UNSOL,97); (UNSOL,98); (UNSOL,10);
      (UNSOL,10); (UNSOL,43); (UNSOL,84); (UNSOL,61); (UNSOL,10) ]%N /\
  gS (st _ _ _ (exbsvc exbE 40)) = 0 /\ exbobs_c (exbsvc exbE 40) = exbobs_c exbE.
Proof. vm_compute. repeat split; reflexivity. Qed.
(* the same through the macro-steps, from the first TEST_LOOP state: units as units_of predicts *)
Example C10b_ex_uns_test_macro :
  let w1 := exbsvc exbE 1 in
  map (fun n => exbobs_u (fst (exbrun UNSOL n w1))) [0; 1; 2; 3; 4] =
    [ (US_TEST_LOOP, US_IDLE, [43;84;61]%N); (US_TEST_LOOP, US_AFTER_FMT_TEST, [43;84;61]%N);
      (US_TEST_LOOP, US_AFTER_FMT_TEST, [43;84;61]%N); (US_TEST_LOOP, US_AFTER_FMT_TEST, [43;84;61]%N);
      (US_IDLE, US_AFTER_FMT_TEST, [43;84;61]%N) ] /\
  snd (exbrun UNSOL 4 w1) = [[97;98]; [43;84;61]]%N /\
  snd (exbrun UNSOL 4 w1) = units_of 8 [43;84;61]%N [43;84;61]%N exbscr /\
  script_of (hs _ _ _ w1) (3, 1, 0) = exbscr /\
  u_cmd (u (st _ _ _ (fst (exbrun UNSOL 4 w1)))) = None /\
  gS (st _ _ _ (fst (exbrun UNSOL 4 w1))) = 0 /\
  exbobs_c (fst (exbrun UNSOL 4 w1)) = exbobs_c w1.
Proof. vm_compute. repeat split; reflexivity. Qed.
(* the hypotheses of C10_test_sequence_uns_scripted are satisfiable: the theorem applied to this run *)
Definition exbw1 : sworld := exbsvc exbE 1.
Example C10b_ex_uns_test_instance :
  snd (exbrun UNSOL 4 exbw1) = units_of 8 [43;84;61]%N [43;84;61]%N exbscr /\
  exbcalls (fst (exbrun UNSOL 4 exbw1)) =
    [ (HTest UNSOL 1 [43;84;61;0]%N 3 8, 1%Z); (HTest UNSOL 1 [43;84;61;0]%N 3 8, 2%Z);
      (HTest UNSOL 1 [43;84;61;0]%N 3 8, 1%Z); (HTest UNSOL 1 [43;84;61;0]%N 3 8, 7%Z) ].
Proof.
  assert (H := C10_test_sequence_uns_scripted exbD
    [exbr RC_DATA_NEXT (Some [97;98]%N); exbr RC_NEXT None; exbr RC_DATA_NEXT None]
    (exbr RC_PRINT_CMD_LIST_OK None) [] exbw1 1 exbT).
  assert (H1 : u_state (u (st _ _ _ exbw1)) = US_TEST_LOOP) by (vm_compute; reflexivity).
  assert (H2 : u_cmd (u (st _ _ _ exbw1)) = Some 1) by (vm_compute; reflexivity).
  assert (H3 : cmd_at exbD 1 = Some exbT) by reflexivity.
  assert (H4 : length (c_name exbT) + 1 < usz (st _ _ _ exbw1)) by (vm_compute; auto with arith).
  assert (H5 : forall x, In x (c_name exbT) -> x <> 0%N)
    by (intros x [E|[E|[]]]; subst x; discriminate).
  assert (H6 : script_of (hs _ _ _ exbw1) (3, 1, 0) =
               [exbr RC_DATA_NEXT (Some [97;98]%N); exbr RC_NEXT None; exbr RC_DATA_NEXT None] ++
               exbr RC_PRINT_CMD_LIST_OK None :: []) by (vm_compute; reflexivity).
  assert (H7 : forall r, In r [exbr RC_DATA_NEXT (Some [97;98]%N); exbr RC_NEXT None; exbr RC_DATA_NEXT None] ->
               terminal (spec_action K_TEST UNSOL (r_code r)) = false)
    by (intros r [E|[E|[E|[]]]]; subst r; reflexivity).
  assert (H8 : r_code (exbr RC_PRINT_CMD_LIST_OK None) <> RC_HOLD) by discriminate.
  specialize (H H1 H2 H3 eq_refl eq_refl eq_refl H4 H5 H6 H7 eq_refl H8).
  cbv zeta in H. destruct H as (_ & _ & _ & _ & Hcalls & Hunits).
  split.
  - exact Hunits.
  - refine (eq_trans (f_equal (@rev (hreq * Z)) Hcalls) _). vm_compute. reflexivity.
Qed.

(* the same handler script on the command machine ("AT+T=?"): DATA_NEXT ("ab"), NEXT,
   PRINT_CMD_LIST_OK: one unit, then the command list starts *)
Definition exbC : sworld := exbinit [65;84;43;84;61;63;10]%N
  [((3,1,0), [exbr RC_DATA_NEXT (Some [97;98]%N); exbr RC_NEXT None; exbr RC_PRINT_CMD_LIST_OK None])].
Example C10b_ex_cmd_test :
  map (fun n => exbobs_c (exbsvc exbC n)) [14; 15; 23; 24; 25; 26] =
  [ (CS_TEST_LOOP, CS_IDLE, [43;84;61]%N);
    (CS_FLUSH_WAIT, CS_AFTER_FMT_TEST, [97;98]%N);
    (CS_AFTER_FMT_TEST, CS_AFTER_FMT_TEST, [97;98]%N);
    (CS_TEST_LOOP, CS_AFTER_FMT_TEST, [43;84;61]%N);
    (CS_TEST_LOOP, CS_AFTER_FMT_TEST, [43;84;61]%N);
    (CS_PRINT_CMD, CS_AFTER_FMT_TEST, [43;84;61]%N) ] /\
  (let w14 := exbsvc exbC 14 in
   map (fun n => exbobs_c (fst (exbrun ATCMD n w14))) [0; 1; 2; 3] =
     [ (CS_TEST_LOOP, CS_IDLE, [43;84;61]%N); (CS_TEST_LOOP, CS_AFTER_FMT_TEST, [43;84;61]%N);
       (CS_TEST_LOOP, CS_AFTER_FMT_TEST, [43;84;61]%N); (CS_PRINT_CMD, CS_AFTER_FMT_TEST, [43;84;61]%N) ] /\
   snd (exbrun ATCMD 3 w14) = [[97;98]]%N /\
   snd (exbrun ATCMD 3 w14) = units_of 16 [43;84;61]%N [43;84;61]%N
     [exbr RC_DATA_NEXT (Some [97;98]%N); exbr RC_NEXT None; exbr RC_PRINT_CMD_LIST_OK None]).
Proof. vm_compute. repeat split; reflexivity. Qed.

(* event "+X" READ triggered; read handler returns DATA_NEXT ("ab"), DATA_OK ("c"): two units, no
   result code *)
Definition exbR : sworld :=
  sstep exbD (exbinit [] [((1,0,0), [exbr RC_DATA_NEXT (Some [97;98]%N); exbr RC_DATA_OK (Some [99]%N)])])
        (SOp (OTrigger 0 T_READ)).
Example C10b_ex_uns_read :
  exbcalls (exbsvc exbR 40) =
    [ (HRead UNSOL 0 [43;88;61;0]%N 3 8, 1%Z); (HRead UNSOL 0 [43;88;61;0]%N 3 8, 0%Z) ] /\
  exbout (exbsvc exbR 40) =
    [ (UNSOL,10); (UNSOL,97); (UNSOL,98); (UNSOL,10); (UNSOL,10); (UNSOL,99); (UNSOL,10) ]%N /\
  (let w1 := exbsvc exbR 1 in
   snd (exbrun UNSOL 2 w1) = [[97;98]; [99]]%N /\
   snd (exbrun UNSOL 2 w1) = units_of 8 [43;88;61]%N [43;88;61]%N
     [exbr RC_DATA_NEXT (Some [97;98]%N); exbr RC_DATA_OK (Some [99]%N)] /\
   exbobs_u (fst (exbrun UNSOL 2 w1)) = (US_IDLE, US_AFTER_OK, [99]%N) /\
   gS (st _ _ _ (fst (exbrun UNSOL 2 w1))) = 0).
Proof. vm_compute. repeat split; reflexivity. Qed.

Print Assumptions C10_call_h_hframe.
Print Assumptions C10_rt_run_c.
Print Assumptions C10_rt_sequence.
Print Assumptions C10_unit_of_any_row.
Print Assumptions C10_read_sequence_from_rt.
Print Assumptions C10_test_sequence.
Print Assumptions C10_read_sequence_uns.
Print Assumptions C10_test_sequence_uns.
Print Assumptions C10_uns_list_is_ok.
Print Assumptions C10_rt_sequence_scripted.
Print Assumptions C10_test_sequence_scripted.
Print Assumptions C10_read_sequence_uns_scripted.
Print Assumptions C10_test_sequence_uns_scripted.
Print Assumptions C10b_ex_uns_test_instance.
