(* Lemmas_C08.v — property C08: access modes of variables.
   Part 1: the decoders never change a read-only variable, the formatters never look at a
           write-only variable.
   Part 2: READ / WRITE are refused with ERROR when the command offers nothing readable / writable.
   Part 3: over every history the storage of a read-only slot is never modified by the library.
   (Part 4, write-only non-interference over histories, is in Lemmas_C08b.v.) *)
From Coq Require Import List NArith ZArith Bool Arith Lia.
From CatV Require Import Bytes Defs Codec Spec Fsm CollectDefs Lemmas_C04 Lemmas_C05.
Import ListNotations.
Local Open Scope nat_scope.

(* ================================================================== *)
(* Part 1 — pure                                                        *)
(* ================================================================== *)

Theorem C08_decode_readonly : forall v l data, v_access v = RO ->
  let '(pst, d, ws, n) := decode_var v l data in d = data /\ ws = O.
Proof.
  intros v l data Hro.
  destruct (is_numeric (v_type v)) eqn:Hn.
  - pose proof (C04_readonly v l data Hn Hro) as H.
    destruct (decode_var v l data) as [[[pst d] ws] n]. exact H.
  - pose proof (C05_readonly l data (v_size v)) as [H1 [H2 [H3 H4]]].
    unfold decode_var. rewrite Hro. cbn [vaccess_beq].
    destruct (v_type v); try discriminate Hn; split; assumption.
Qed.

Lemma map_const_length : forall (A B : Type) (b : B) (l1 l2 : list A),
  length l1 = length l2 -> map (fun _ => b) l1 = map (fun _ => b) l2.
Proof.
  intros A B b l1. induction l1 as [|x l1 IH]; intros [|y l2] H; try discriminate H.
  - reflexivity.
  - cbn [map]. f_equal. apply IH. injection H as H. exact H.
Qed.

Lemma firstn_length_eq : forall (A : Type) n (l1 l2 : list A),
  length l1 = length l2 -> length (firstn n l1) = length (firstn n l2).
Proof. intros A n l1 l2 H. rewrite !firstn_length, H. reflexivity. Qed.

Lemma bufhex_pieces_wo : forall v d1 d2, v_access v = WO -> length d1 = length d2 ->
  fmt_bufhex_pieces v d1 = fmt_bufhex_pieces v d2.
Proof.
  intros v d1 d2 Hwo Hl. unfold fmt_bufhex_pieces. rewrite Hwo.
  apply map_const_length. apply firstn_length_eq. exact Hl.
Qed.

Theorem C08_format_writeonly : forall v d1 d2 c, v_access v = WO -> length d1 = length d2 ->
  fmt_var v d1 c = fmt_var v d2 c.
Proof.
  intros v d1 d2 c Hwo Hl. unfold fmt_var.
  destruct (v_type v).
  - unfold fmt_int_text, read_fault. rewrite Hwo, Hl. reflexivity.
  - unfold fmt_uint_text, read_fault. rewrite Hwo, Hl. reflexivity.
  - unfold fmt_hex_text, read_fault. rewrite Hwo, Hl. reflexivity.
  - rewrite Hl. rewrite (bufhex_pieces_wo v d1 d2 Hwo Hl). reflexivity.
  - rewrite Hl. unfold fmt_bufstr_pieces. rewrite Hwo. reflexivity.
Qed.

Theorem C08_writeonly_text : forall v data, v_access v = WO ->
  var_text v data = var_text v (repeat 0%N (length data)).
Proof.
  intros v data Hwo. unfold var_text, fmt_num_text.
  destruct (v_type v).
  - unfold fmt_int_text. rewrite Hwo. reflexivity.
  - unfold fmt_uint_text. rewrite Hwo. reflexivity.
  - unfold fmt_hex_text. rewrite Hwo. reflexivity.
  - rewrite (bufhex_pieces_wo v data (repeat 0%N (length data)) Hwo); [reflexivity|].
    symmetry. apply repeat_length.
  - unfold fmt_bufstr_pieces. rewrite Hwo. reflexivity.
Qed.

(* the same, with the text spelled out: 0 ; 0 ; 0x0..0 ; 00 per byte ; two quotes *)
Lemma concat_map_const : forall (A : Type) (p : list N) (l : list A),
  concat (map (fun _ => p) l) = concat (repeat p (length l)).
Proof.
  intros A p l. induction l as [|x l IH]; [reflexivity|].
  cbn [map length repeat concat]. rewrite IH. reflexivity.
Qed.

Theorem C08_writeonly_text_explicit : forall v data, v_access v = WO ->
  var_text v data =
  match v_type v with
  | VInt | VUint => if supported_width (v_size v) then Some [48%N] else None
  | VHex => if supported_width (v_size v)
            then Some (48%N :: 120%N :: repeat 48%N (2 * v_size v)) else None
  | VBufHex => Some (concat (repeat [48%N; 48%N] (Nat.min (v_size v) (length data))))
  | VBufStr => Some [34%N; 34%N]
  end.
Proof.
  intros v data Hwo. unfold var_text, fmt_num_text.
  destruct (v_type v).
  - unfold fmt_int_text. rewrite Hwo. reflexivity.
  - unfold fmt_uint_text. rewrite Hwo. reflexivity.
  - unfold fmt_hex_text. rewrite Hwo.
    destruct (supported_width (v_size v)) eqn:Hs; [|reflexivity].
    unfold supported_width in Hs.
    destruct (v_size v =? 1) eqn:E1; [apply Nat.eqb_eq in E1; rewrite E1; reflexivity|].
    destruct (v_size v =? 2) eqn:E2; [apply Nat.eqb_eq in E2; rewrite E2; reflexivity|].
    destruct (v_size v =? 4) eqn:E4; [apply Nat.eqb_eq in E4; rewrite E4; reflexivity|].
    discriminate Hs.
  - unfold fmt_bufhex_pieces. rewrite Hwo. rewrite concat_map_const, firstn_length. reflexivity.
  - unfold fmt_bufstr_pieces. rewrite Hwo. reflexivity.
Qed.

(* ================================================================== *)
(* frame lemmas: which functions of Fsm.v leave `mem` alone             *)
(* ================================================================== *)

Ltac msetters :=
  cbn [mem set_k set_u set_cbuf set_ubuf set_mem set_dis_cmd set_dis_grp set_fault set_gL set_gS set_gR
       setk_index setk_partial setk_length setk_position setk_write_size setk_cmd setk_var
       setk_type setk_char setk_state setk_cr setk_hold setk_hold_exit setk_wbuf setk_wstate
       setk_wafter setk_implicit
       setu_state setu_index setu_position setu_cmd setu_var setu_type setu_wbuf setu_wstate
       setu_wafter setu_ring setu_tail setu_head setu_count set_fault_flag].

Lemma let_pair : forall (A B C : Type) (x : A * B) (f : A -> B -> C),
  (let (a, b) := x in f a b) = f (fst x) (snd x).
Proof. intros A B C [a b] f. reflexivity. Qed.

Lemma mem_setg_pos : forall f v s, mem (setg_pos f v s) = mem s.
Proof. intros [|] v s; reflexivity. Qed.
Lemma mem_setg_buf : forall f v s, mem (setg_buf f v s) = mem s.
Proof. intros [|] v s; reflexivity. Qed.
Lemma mem_setg_var : forall f v s, mem (setg_var f v s) = mem s.
Proof. intros [|] v s; reflexivity. Qed.
Lemma mem_setg_index : forall f v s, mem (setg_index f v s) = mem s.
Proof. intros [|] v s; reflexivity. Qed.
#[export] Hint Rewrite mem_setg_pos mem_setg_buf mem_setg_var mem_setg_index : memdb.

Ltac mstep :=
  first
    [ reflexivity
    | progress msetters
    | progress (autorewrite with memdb)
    | rewrite let_pair
    | match goal with
      | |- mem (match ?x with _ => _ end) = _ => destruct x
      | |- mem (fst (match ?x with _ => _ end)) = _ => destruct x
      | |- mem (fst (_, _)) = _ => cbn [fst]
      end ].
Ltac mgo := cbv beta zeta; repeat (mstep; cbv beta zeta).

Lemma mem_reset_state : forall s, mem (reset_state s) = mem s.
Proof. intros s. unfold reset_state. mgo. Qed.
Lemma mem_unsolicited_reset_state : forall s, mem (unsolicited_reset_state s) = mem s.
Proof. intros s. unfold unsolicited_reset_state. mgo. Qed.
Lemma mem_start_flush_c : forall a s, mem (start_flush_c a s) = mem s.
Proof. intros a s. unfold start_flush_c. mgo. Qed.
Lemma mem_start_flush_u : forall a s, mem (start_flush_u a s) = mem s.
Proof. intros a s. unfold start_flush_u. mgo. Qed.
Lemma mem_start_flush_raw_c : forall a s, mem (start_flush_raw_c a s) = mem s.
Proof. intros a s. unfold start_flush_raw_c. mgo. Qed.
#[export] Hint Rewrite mem_reset_state mem_unsolicited_reset_state mem_start_flush_c
  mem_start_flush_u mem_start_flush_raw_c : memdb.

Lemma mem_ack_error : forall s, mem (ack_error s) = mem s.
Proof. intros s. unfold ack_error. mgo. Qed.
Lemma mem_ack_ok : forall s, mem (ack_ok s) = mem s.
Proof. intros s. unfold ack_ok. mgo. Qed.
#[export] Hint Rewrite mem_ack_error mem_ack_ok : memdb.

Lemma mem_put_cur : forall f c s, mem (put_cur f c s) = mem s.
Proof. intros f c s. unfold put_cur. mgo. Qed.
#[export] Hint Rewrite mem_put_cur : memdb.

Lemma mem_print_string : forall f s t, mem (fst (print_string f s t)) = mem s.
Proof. intros f s t. unfold print_string. mgo. Qed.
Lemma mem_print_strings : forall f s ts, mem (fst (print_strings f s ts)) = mem s.
Proof. intros f s ts. unfold print_strings. mgo. Qed.
#[export] Hint Rewrite mem_print_string mem_print_strings : memdb.

Lemma mem_end_with_error : forall f s, mem (end_with_error f s) = mem s.
Proof. intros f s. unfold end_with_error. mgo. Qed.
Lemma mem_end_with_ok : forall f s, mem (end_with_ok f s) = mem s.
Proof. intros f s. unfold end_with_ok. mgo. Qed.
Lemma mem_set_loop_state : forall f rd s, mem (set_loop_state f rd s) = mem s.
Proof. intros f rd s. unfold set_loop_state. mgo. Qed.
Lemma mem_start_flush_after_ok : forall f s, mem (start_flush_after_ok f s) = mem s.
Proof. intros f s. unfold start_flush_after_ok. mgo. Qed.
Lemma mem_start_flush_after : forall f a b s, mem (start_flush_after f a b s) = mem s.
Proof. intros f a b s. unfold start_flush_after. mgo. Qed.
#[export] Hint Rewrite mem_end_with_error mem_end_with_ok mem_set_loop_state
  mem_start_flush_after_ok mem_start_flush_after : memdb.

Lemma mem_enable_hold_state : forall s, mem (enable_hold_state s) = mem s.
Proof. intros s. unfold enable_hold_state. mgo. Qed.
Lemma mem_hold_exit : forall s z, mem (fst (hold_exit s z)) = mem s.
Proof. intros s z. unfold hold_exit. mgo. Qed.
Lemma mem_process_hold_state : forall s, mem (process_hold_state s) = mem s.
Proof. intros s. unfold process_hold_state. mgo. Qed.
Lemma mem_process_io_write_wait : forall s, mem (process_io_write_wait s) = mem s.
Proof. intros s. unfold process_io_write_wait. mgo. Qed.
Lemma mem_unsolicited_process_io_write_wait : forall s,
  mem (unsolicited_process_io_write_wait s) = mem s.
Proof. intros s. unfold unsolicited_process_io_write_wait. mgo. Qed.
#[export] Hint Rewrite mem_enable_hold_state mem_hold_exit mem_process_hold_state
  mem_process_io_write_wait mem_unsolicited_process_io_write_wait : memdb.

Lemma mem_prepare_search_command : forall s, mem (prepare_search_command s) = mem s.
Proof. intros s. unfold prepare_search_command. mgo. Qed.
Lemma mem_prepare_parse_command : forall s, mem (prepare_parse_command s) = mem s.
Proof. intros s. unfold prepare_parse_command. mgo. Qed.
#[export] Hint Rewrite mem_prepare_search_command mem_prepare_parse_command : memdb.


Lemma mem_push_unsolicited_cmd : forall D s ci t, mem (fst (push_unsolicited_cmd D s ci t)) = mem s.
Proof. intros D s ci t. unfold push_unsolicited_cmd. mgo. Qed.
Lemma mem_pop_unsolicited_cmd : forall D s, mem (fst (pop_unsolicited_cmd D s)) = mem s.
Proof. intros D s. unfold pop_unsolicited_cmd. mgo. Qed.
#[export] Hint Rewrite mem_push_unsolicited_cmd mem_pop_unsolicited_cmd : memdb.

Lemma mem_print_response_test : forall D f s, mem (fst (print_response_test D f s)) = mem s.
Proof. intros D f s. unfold print_response_test. mgo. Qed.
#[export] Hint Rewrite mem_print_response_test : memdb.

Lemma mem_start_processing_format_test_args : forall D f s,
  mem (start_processing_format_test_args D f s) = mem s.
Proof. intros D f s. unfold start_processing_format_test_args. mgo. Qed.
Lemma mem_start_processing_format_read_args : forall D f s,
  mem (start_processing_format_read_args D f s) = mem s.
Proof. intros D f s. unfold start_processing_format_read_args. mgo. Qed.
#[export] Hint Rewrite mem_start_processing_format_test_args mem_start_processing_format_read_args : memdb.

Lemma mem_next_format_var : forall D f s, mem (fst (next_format_var D f s)) = mem s.
Proof. intros D f s. unfold next_format_var. mgo. Qed.
#[export] Hint Rewrite mem_next_format_var : memdb.

Lemma mem_set_cmd_state : forall s i v, mem (set_cmd_state s i v) = mem s.
Proof. intros s i v. unfold set_cmd_state. mgo. Qed.
#[export] Hint Rewrite mem_set_cmd_state : memdb.

Lemma mem_update_command : forall D s, mem (update_command D s) = mem s.
Proof. intros D s. unfold update_command. mgo. Qed.
Lemma mem_search_command : forall D s, mem (search_command D s) = mem s.
Proof. intros D s. unfold search_command. mgo. Qed.
Lemma mem_command_found : forall D s, mem (command_found D s) = mem s.
Proof. intros D s. unfold command_found. mgo. Qed.
#[export] Hint Rewrite mem_update_command mem_search_command mem_command_found : memdb.

Lemma mem_start_print_cmd_list : forall D s, mem (start_print_cmd_list D s) = mem s.
Proof. intros D s. unfold start_print_cmd_list. mgo. Qed.
Lemma mem_cmd_list_next_cmd : forall D s, mem (fst (cmd_list_next_cmd D s)) = mem s.
Proof. intros D s. unfold cmd_list_next_cmd. mgo. Qed.
#[export] Hint Rewrite mem_start_print_cmd_list mem_cmd_list_next_cmd : memdb.
Lemma mem_print_current_cmd_full_name : forall s c sf,
  mem (fst (print_current_cmd_full_name s c sf)) = mem s.
Proof. intros s c sf. unfold print_current_cmd_full_name. mgo. Qed.
#[export] Hint Rewrite mem_print_current_cmd_full_name : memdb.
Lemma mem_print_cmd_form : forall s c a sf nx, mem (print_cmd_form s c a sf nx) = mem s.
Proof.
  intros s c a sf nx. unfold print_cmd_form. destruct a; [|reflexivity]. cbv zeta.
  pose proof (mem_print_current_cmd_full_name (setk_position 0 s) c sf) as H.
  destruct (print_current_cmd_full_name (setk_position 0 s) c sf) as [s2 ok]. cbn [fst] in H.
  destruct ok; cbn [negb].
  - change (mem (start_flush_raw_c CS_PRINT_CMD s2) = mem s).
    rewrite mem_start_flush_raw_c. exact H.
  - rewrite mem_ack_error. exact H.
Qed.
#[export] Hint Rewrite mem_print_cmd_form : memdb.
Lemma mem_print_cmd_list : forall D s, mem (print_cmd_list D s) = mem s.
Proof. intros D s. unfold print_cmd_list. mgo. Qed.
#[export] Hint Rewrite mem_print_cmd_list : memdb.

Lemma mem_format_test_args : forall D f s, mem (format_test_args D f s) = mem s.
Proof. intros D f s. unfold format_test_args. mgo. Qed.
Lemma mem_check_unsolicited_buffers : forall D s, mem (check_unsolicited_buffers D s) = mem s.
Proof. intros D s. unfold check_unsolicited_buffers. mgo. Qed.
Lemma mem_apply_edit : forall f e s, mem (apply_edit f e s) = mem s.
Proof. intros f e s. unfold apply_edit. mgo. Qed.
Lemma mem_pca_body : forall D ch s, mem (pca_body D ch s) = mem s.
Proof. intros D ch s. unfold pca_body. mgo. Qed.
#[export] Hint Rewrite mem_format_test_args mem_check_unsolicited_buffers mem_apply_edit mem_pca_body : memdb.


(* ================================================================== *)
(* Part 2 — availability                                                *)
(* ================================================================== *)

Lemma upd_length : forall (A : Type) (l : list A) i v, length (upd l i v) = length l.
Proof.
  intros A l. induction l as [|x l IH]; intros [|i] v; cbn [upd length]; try reflexivity.
  rewrite IH. reflexivity.
Qed.

Lemma cur_store_len : forall c i v, length (cu_buf (cur_store c i v)) = length (cu_buf c).
Proof.
  intros c i v. unfold cur_store. destruct (i <? length (cu_buf c)); cbn [cu_buf].
  - apply upd_length.
  - reflexivity.
Qed.

Lemma cur_store_list_len : forall l c i,
  length (cu_buf (cur_store_list c i l)) = length (cu_buf c).
Proof.
  induction l as [|x l IH]; intros c i; cbn [cur_store_list]; [reflexivity|].
  rewrite IH. apply cur_store_len.
Qed.

Lemma print_nstring_len : forall c t,
  length (cu_buf (fst (print_nstring c t))) = length (cu_buf c).
Proof.
  intros c t. unfold print_nstring.
  destruct (length (cu_buf c) <? cu_pos c); [reflexivity|].
  destruct (length (cu_buf c) - cu_pos c <=? length t); [reflexivity|].
  cbn [fst]. rewrite cur_store_len. unfold cur_set_pos. cbn [cu_buf].
  apply cur_store_list_len.
Qed.

Lemma print_string_len : forall s t,
  length (cbuf (fst (print_string ATCMD s t))) = length (cbuf s).
Proof.
  intros s t. unfold print_string.
  pose proof (print_nstring_len (get_cur ATCMD s) t) as H.
  destruct (print_nstring (get_cur ATCMD s) t) as [c ok]. cbn [fst] in *.
  unfold put_cur. destruct (cu_fault c); exact H.
Qed.

Lemma strncpy_error_head : forall n, 6 <= n ->
  firstn 6 (strncpy_buf n txt_ERROR) = txt_ERROR ++ [0%N].
Proof.
  intros n H. destruct n as [|[|[|[|[|[|m]]]]]]; try lia. reflexivity.
Qed.

Lemma ack_error_spec : forall s0 s, length (cbuf s) = length (cbuf s0) -> mem s = mem s0 ->
  6 <= length (cbuf s0) ->
  k_state (k (ack_error s)) = CS_FLUSH_WAIT /\ k_wafter (k (ack_error s)) = CS_AFTER_RESET /\
  mem (ack_error s) = mem s0 /\ firstn 6 (cbuf (ack_error s)) = txt_ERROR ++ [0%N].
Proof.
  intros s0 s Hl Hm H6. split; [reflexivity|]. split; [reflexivity|]. split.
  - rewrite mem_ack_error. exact Hm.
  - change (cbuf (ack_error s)) with (strncpy_buf (length (cbuf s)) txt_ERROR).
    apply strncpy_error_head. rewrite Hl. exact H6.
Qed.

Theorem C08_read_unavailable : forall D s ci c,
  g_cmd ATCMD s = Some ci -> cmd_at D ci = Some c ->
  vars_access_possible c RO = false -> c_hread c = false -> 6 <= length (cbuf s) ->
  let s' := start_processing_format_read_args D ATCMD s in
  k_state (k s') = CS_FLUSH_WAIT /\ k_wafter (k s') = CS_AFTER_RESET /\ mem s' = mem s /\
  firstn 6 (cbuf s') = txt_ERROR ++ [0%N].
Proof.
  intros D s ci c Hg Hc Hv Hr H6. cbv zeta. unfold start_processing_format_read_args. cbv zeta.
  unfold cmd_of. change (g_cmd ATCMD (setg_pos ATCMD 0 s)) with (g_cmd ATCMD s).
  rewrite Hg, Hc.
  set (s0 := setg_pos ATCMD 0 s).
  assert (L0 : length (cbuf s0) = length (cbuf s)) by reflexivity.
  assert (M0 : mem s0 = mem s) by reflexivity.
  pose proof (print_string_len s0 (c_name c)) as L1.
  pose proof (mem_print_string ATCMD s0 (c_name c)) as M1.
  destruct (print_string ATCMD s0 (c_name c)) as [s1 ok1]. cbn [fst] in L1, M1.
  destruct ok1; cbn [negb].
  - pose proof (print_string_len s1 [ch_EQ]) as L2.
    pose proof (mem_print_string ATCMD s1 [ch_EQ]) as M2.
    destruct (print_string ATCMD s1 [ch_EQ]) as [s2 ok2]. cbn [fst] in L2, M2.
    destruct ok2; cbn [negb].
    + rewrite Hv, Hr. cbn [negb]. unfold end_with_error.
      apply ack_error_spec; [congruence | congruence | exact H6].
    + unfold end_with_error. apply ack_error_spec; [congruence | congruence | exact H6].
  - unfold end_with_error. apply ack_error_spec; [congruence | congruence | exact H6].
Qed.

Theorem C08_write_unavailable : forall D s c, cmd_of D ATCMD s = Some c -> c_only_test c = false ->
  vars_access_possible c WO = false -> c_hwrite c = false ->
  pca_body D ch_LF s = ack_error s.
Proof.
  intros D s c Hc Ht Hv Hw. unfold pca_body. rewrite Hc, Ht, Hv, Hw. reflexivity.
Qed.

(* ================================================================== *)
(* Part 3 — every history                                               *)
(* ================================================================== *)

(* slot sl holds only read-only variables *)
Definition ro_slot (D : desc) (sl : nat) : Prop :=
  forall c v, In c (pool D) -> In v (c_vars c) -> v_slot v = sl -> v_access v = RO.

Lemma nth_error_upd_neq : forall (A : Type) (l : list A) i j v, i <> j ->
  nth_error (upd l i v) j = nth_error l j.
Proof.
  intros A l. induction l as [|x l IH]; intros [|i] [|j] v H; cbn [upd nth_error]; try reflexivity.
  - exfalso. apply H. reflexivity.
  - apply IH. intros E. apply H. rewrite E. reflexivity.
Qed.

Lemma upd_same : forall (A : Type) (l : list A) i v, nth_error l i = Some v -> upd l i v = l.
Proof.
  intros A l. induction l as [|x l IH]; intros [|i] v H; cbn [upd nth_error] in *;
    try reflexivity.
  - injection H as H. rewrite H. reflexivity.
  - rewrite (IH i v H). reflexivity.
Qed.

Section History.
Variable D : desc.
Variables ioS muS hS : Type.
Variable io_read : ioS -> ioS * option N.
Variable io_write : ioS -> N -> ioS * bool.
Variable mu_lock : muS -> muS * bool.
Variable mu_unlock : muS -> muS * bool.
Variable h_call : hS -> hreq -> hS * hres.

Local Notation world := (Fsm.world ioS muS hS).
Local Notation st := (Fsm.st ioS muS hS).
Local Notation io := (Fsm.io ioS muS hS).
Local Notation mu := (Fsm.mu ioS muS hS).
Local Notation hs := (Fsm.hs ioS muS hS).
Local Notation tr := (Fsm.tr ioS muS hS).
Local Notation mkWorld := (Fsm.mkWorld ioS muS hS).
Local Notation set_st := (Fsm.set_st ioS muS hS).
Local Notation set_io := (Fsm.set_io ioS muS hS).
Local Notation set_mu := (Fsm.set_mu ioS muS hS).
Local Notation set_hs := (Fsm.set_hs ioS muS hS).
Local Notation logw := (Fsm.logw ioS muS hS).
Local Notation upd_st := (Fsm.upd_st ioS muS hS).
Local Notation busy := (Fsm.busy ioS muS hS).
Local Notation bracket := (Fsm.bracket D ioS muS hS mu_lock mu_unlock).
Local Notation api_trigger := (Fsm.api_trigger D ioS muS hS mu_lock mu_unlock).
Local Notation api_hold_exit := (Fsm.api_hold_exit D ioS muS hS mu_lock mu_unlock).
Local Notation apply_icall := (Fsm.apply_icall D ioS muS hS mu_lock mu_unlock).
Local Notation call_h := (Fsm.call_h D ioS muS hS mu_lock mu_unlock h_call).
Local Notation read_cmd_char := (Fsm.read_cmd_char ioS muS hS io_read).
Local Notation reading := (Fsm.reading ioS muS hS io_read).
Local Notation parse_write_args := (Fsm.parse_write_args D ioS muS hS mu_lock mu_unlock h_call).
Local Notation format_read_args := (Fsm.format_read_args D ioS muS hS mu_lock mu_unlock h_call).
Local Notation process_write_loop := (Fsm.process_write_loop D ioS muS hS mu_lock mu_unlock h_call).
Local Notation process_run_loop := (Fsm.process_run_loop D ioS muS hS mu_lock mu_unlock h_call).
Local Notation process_rt_loop := (Fsm.process_rt_loop D ioS muS hS mu_lock mu_unlock h_call).
Local Notation process_io_write := (Fsm.process_io_write ioS muS hS io_write).
Local Notation unsolicited_process_io_write := (Fsm.unsolicited_process_io_write ioS muS hS io_write).
Local Notation unsolicited_events_service :=
  (Fsm.unsolicited_events_service D ioS muS hS io_write mu_lock mu_unlock h_call).
Local Notation cmd_service :=
  (Fsm.cmd_service D ioS muS hS io_read io_write mu_lock mu_unlock h_call).
Local Notation service_body :=
  (Fsm.service_body D ioS muS hS io_read io_write mu_lock mu_unlock h_call).
Local Notation do_op := (Fsm.do_op D ioS muS hS io_read io_write mu_lock mu_unlock h_call).
Local Notation step := (Fsm.step D ioS muS hS io_read io_write mu_lock mu_unlock h_call).
Local Notation run := (Fsm.run D ioS muS hS io_read io_write mu_lock mu_unlock h_call).

Section Inv.
Variable sl : nat.
Hypothesis Hro : ro_slot D sl.
(* the application itself does not write that slot *)
Hypothesis Hpoke : forall hs q, Forall (fun p => fst p <> sl) (r_pokes (snd (h_call hs q))).
Variable r0 : option (list N).

(* the invariant: slot sl holds what it held at the beginning *)
Definition Keep (w : world) : Prop := nth_error (mem (st w)) sl = r0.

Lemma I_set_io : forall w v, Keep w -> Keep (set_io v w).  Proof. intros w v H. exact H. Qed.
Lemma I_set_mu : forall w v, Keep w -> Keep (set_mu v w).  Proof. intros w v H. exact H. Qed.
Lemma I_set_hs : forall w v, Keep w -> Keep (set_hs v w).  Proof. intros w v H. exact H. Qed.
Lemma I_logw : forall w e, Keep w -> Keep (logw e w).      Proof. intros w e H. exact H. Qed.
Lemma I_set_st : forall w s, mem s = mem (st w) -> Keep w -> Keep (set_st s w).
Proof. intros w s E H. unfold Keep in *. cbn [Fsm.st Fsm.set_st]. rewrite E. exact H. Qed.
Lemma I_upd_st : forall w g, mem (g (st w)) = mem (st w) -> Keep w -> Keep (upd_st g w).
Proof. intros w g E H. unfold Fsm.upd_st. apply I_set_st; assumption. Qed.

Lemma I_bracket : forall w body, (forall w', Keep w' -> Keep (fst (body w'))) -> Keep w ->
  Keep (fst (bracket w body)).
Proof.
  intros w body Hb H. unfold Fsm.bracket.
  destruct (d_mutex D); [|apply Hb; exact H].
  destruct (mu_lock (mu w)) as [m1 ok]. cbv zeta.
  destruct ok; cbn [negb]; [|exact H].
  assert (H1 : Keep (logw (ELock true) (set_mu m1 w))) by exact H.
  apply Hb in H1. destruct (body (logw (ELock true) (set_mu m1 w))) as [w2 s]. cbn [fst] in H1.
  destruct (mu_unlock (mu w2)) as [m2 ok2]. destruct ok2; exact H1.
Qed.

Lemma I_api_trigger : forall w ci t, Keep w -> Keep (fst (api_trigger w ci t)).
Proof.
  intros w ci t H. unfold Fsm.api_trigger. apply I_bracket; [|exact H].
  intros w' H'. pose proof (mem_push_unsolicited_cmd D (st w') ci t) as E.
  destruct (push_unsolicited_cmd D (st w') ci t) as [s' r]. cbn [fst] in *.
  apply I_set_st; assumption.
Qed.

Lemma I_api_hold_exit : forall w z, Keep w -> Keep (fst (api_hold_exit w z)).
Proof.
  intros w z H. unfold Fsm.api_hold_exit. apply I_bracket; [|exact H].
  intros w' H'. pose proof (mem_hold_exit (st w') z) as E.
  destruct (hold_exit (st w') z) as [s' r]. cbn [fst] in *.
  apply I_set_st; assumption.
Qed.

Lemma I_apply_icall : forall w c, Keep w -> Keep (apply_icall w c).
Proof.
  intros w c H. unfold Fsm.apply_icall. destruct c as [ci t | z].
  - pose proof (I_api_trigger w ci t H) as H1.
    destruct (api_trigger w ci t) as [w' r]. exact H1.
  - pose proof (I_api_hold_exit w z H) as H1.
    destruct (api_hold_exit w z) as [w' r]. exact H1.
Qed.

Lemma I_fold_icall : forall l w, Keep w -> Keep (fold_left apply_icall l w).
Proof.
  induction l as [|c l IH]; intros w H; cbn [fold_left]; [exact H|].
  apply IH. apply I_apply_icall. exact H.
Qed.

Lemma apply_poke_other : forall s p, fst p <> sl ->
  nth_error (mem (apply_poke s p)) sl = nth_error (mem s) sl.
Proof.
  intros s p Hp. unfold apply_poke.
  destruct (nth_error (mem s) (fst p)); [|reflexivity].
  destruct (store_prefix l (snd p)); [|reflexivity].
  cbn [mem set_mem]. apply nth_error_upd_neq. exact Hp.
Qed.

Lemma fold_poke_other : forall l s, Forall (fun p => fst p <> sl) l ->
  nth_error (mem (fold_left apply_poke l s)) sl = nth_error (mem s) sl.
Proof.
  induction l as [|p l IH]; intros s H; cbn [fold_left]; [reflexivity|].
  inversion H as [|p' l' Hp Hl]; subst. rewrite (IH _ Hl). apply apply_poke_other. exact Hp.
Qed.

Lemma I_call_h : forall w q, Keep w -> Keep (fst (call_h w q)).
Proof.
  intros w q H. unfold Fsm.call_h.
  pose proof (Hpoke (hs w) q) as P.
  destruct (h_call (hs w) q) as [hs' r]. cbn [snd] in P. cbv zeta. cbn [fst].
  apply I_fold_icall. unfold Fsm.upd_st, Keep. cbn [Fsm.st Fsm.set_st Fsm.logw Fsm.set_hs].
  rewrite (fold_poke_other _ _ P). exact H.
Qed.

(* ---- the state functions ---- *)

Ltac Icall :=
  match goal with
  | |- context [call_h ?w ?q] =>
    let H := fresh "Hc" in
    assert (H : Keep (fst (call_h w q)))
      by (apply I_call_h; repeat first [assumption | apply I_upd_st; [mgo|] | apply I_set_st; [mgo|]]);
    destruct (call_h w q) eqn:?; cbn [fst] in H
  end.

Ltac Imatch :=
  match goal with
  | |- Keep (fst (match (match ?x with _ => _ end) with _ => _ end)) => destruct x eqn:?
  | |- Keep (fst (match ?x with _ => _ end)) => destruct x eqn:?
  | |- Keep (match ?x with _ => _ end) => destruct x eqn:?
  | |- Keep (fst (_, _)) => cbn [fst]
  | |- Keep (fst (busy _)) => unfold Fsm.busy; cbn [fst]
  end.

Ltac Ibase :=
  first [ assumption
        | apply I_logw | apply I_set_io | apply I_set_mu | apply I_set_hs
        | apply I_upd_st; [solve [mgo] |] ].

Ltac Igo := repeat (cbv beta zeta; first [Icall | Imatch | Ibase]).

Lemma I_read_cmd_char : forall w, Keep w -> Keep (fst (read_cmd_char w)).
Proof.
  intros w H. unfold Fsm.read_cmd_char. Igo.
  apply I_set_st; [|Igo]. cbn [Fsm.st Fsm.logw Fsm.set_io]. mgo.
Qed.

Lemma I_reading : forall w body, (forall ch s, mem (body ch s) = mem s) -> Keep w ->
  Keep (fst (reading w body)).
Proof.
  intros w body Hb H. unfold Fsm.reading.
  pose proof (I_read_cmd_char w H) as R.
  destruct (read_cmd_char w) as [w1 got]. cbn [fst] in R.
  destruct got; cbn [negb]; [|exact R]. unfold Fsm.busy. cbn [fst].
  apply I_upd_st; [apply Hb | exact R].
Qed.

Lemma store_ro : forall (s : state) c v data rest,
  In c (pool D) -> In v (c_vars c) -> nth_error (mem s) (v_slot v) = Some data ->
  nth_error (upd (mem s) (v_slot v) (snd (fst (fst (decode_var v rest data))))) sl =
  nth_error (mem s) sl.
Proof.
  intros s c v data rest Hc Hv Hd.
  destruct (Nat.eq_dec (v_slot v) sl) as [E|E].
  - pose proof (C08_decode_readonly v rest data (Hro c v Hc Hv E)) as R.
    destruct (decode_var v rest data) as [[[pst d] ws] n]. cbn [fst snd].
    destruct R as [R _]. rewrite R. rewrite (upd_same _ _ _ _ Hd). reflexivity.
  - apply nth_error_upd_neq. exact E.
Qed.

Lemma cmd_of_in_pool : forall f s c, cmd_of D f s = Some c -> In c (pool D).
Proof.
  intros f s c H. unfold cmd_of in H. destruct (g_cmd f s) as [ci|]; [|discriminate H].
  unfold cmd_at in H. eapply nth_error_In. exact H.
Qed.

Lemma I_parse_write_args : forall w, Keep w -> Keep (fst (parse_write_args w)).
Proof.
  intros w H. unfold Fsm.parse_write_args. cbv zeta.
  destruct (g_cmd ATCMD (st w)) as [ci|] eqn:Eg; [|Igo].
  destruct (cmd_of D ATCMD (st w)) as [c|] eqn:Ec; [|Igo].
  destruct (nth_error (c_vars c) (k_var (k (st w)))) as [v|] eqn:Ev; [|Igo].
  destruct (nth_error (mem (st w)) (v_slot v)) as [data|] eqn:Ed; [|Igo].
  pose proof (store_ro (st w) c v data (skipn (k_position (k (st w))) (cbuf (st w)))
                (cmd_of_in_pool _ _ _ Ec) (nth_error_In _ _ Ev) Ed) as S.
  destruct (decode_var v (skipn (k_position (k (st w))) (cbuf (st w))) data)
    as [[[pst data'] wsz] n] eqn:Edv.
  cbn [fst snd] in S.
  assert (HI : forall s', mem s' = upd (mem (st w)) (v_slot v) data' -> Keep (set_st s' w)).
  { intros s' E. unfold Keep. cbn [Fsm.st Fsm.set_st]. rewrite E, S. exact H. }
  destruct pst as [| |comma].
  - unfold Fsm.busy. cbn [fst]. apply HI. mgo.
  - unfold Fsm.busy. cbn [fst]. apply HI. mgo.
  - destruct (v_hwrite v).
    + match goal with |- context [call_h ?w ?q] =>
        assert (Hc : Keep (fst (call_h w q))) by (apply I_call_h; apply HI; mgo);
        destruct (call_h w q) as [w' r]; cbn [fst] in Hc end.
      Igo.
    + assert (Hc : Keep (set_st (setk_write_size wsz
               (set_mem (upd (mem (st w)) (v_slot v) data')
                  (setk_position (k_position (k (st w)) + n) (st w)))) w)) by (apply HI; mgo).
      Igo.
Qed.

Lemma I_format_read_args : forall f w, Keep w -> Keep (fst (format_read_args f w)).
Proof. intros f w H. unfold Fsm.format_read_args. Igo. Qed.

Lemma I_process_write_loop : forall w, Keep w -> Keep (fst (process_write_loop w)).
Proof. intros w H. unfold Fsm.process_write_loop. Igo. Qed.

Lemma I_process_run_loop : forall w, Keep w -> Keep (fst (process_run_loop w)).
Proof. intros w H. unfold Fsm.process_run_loop. Igo. Qed.

Lemma I_process_rt_loop : forall rd f w, Keep w -> Keep (fst (process_rt_loop rd f w)).
Proof. intros rd f w H. unfold Fsm.process_rt_loop. Igo. Qed.

Lemma I_process_io_write : forall w, Keep w -> Keep (fst (process_io_write w)).
Proof. intros w H. unfold Fsm.process_io_write. Igo. Qed.

Lemma I_unsolicited_process_io_write : forall w, Keep w -> Keep (fst (unsolicited_process_io_write w)).
Proof. intros w H. unfold Fsm.unsolicited_process_io_write. Igo. Qed.

Lemma I_unsolicited_events_service : forall w, Keep w -> Keep (fst (unsolicited_events_service w)).
Proof.
  intros w H. unfold Fsm.unsolicited_events_service.
  destruct (u_state (u (st w)));
    first [ apply I_format_read_args; exact H
          | apply I_process_rt_loop; exact H
          | apply I_unsolicited_process_io_write; exact H
          | Igo ].
Qed.

Lemma I_cmd_service : forall w, Keep w -> Keep (fst (cmd_service w)).
Proof.
  intros w H. unfold Fsm.cmd_service.
  destruct (k_state (k (st w)));
    first [ apply I_parse_write_args; exact H
          | apply I_format_read_args; exact H
          | apply I_process_write_loop; exact H
          | apply I_process_run_loop; exact H
          | apply I_process_rt_loop; exact H
          | apply I_process_io_write; exact H
          | unfold Fsm.error_state, Fsm.process_idle_state, Fsm.parse_prefix, Fsm.parse_command,
              Fsm.wait_read_acknowledge, Fsm.wait_test_acknowledge, Fsm.parse_command_args;
            apply I_reading; [intros ch s; mgo | exact H]
          | Igo ].
Qed.

Lemma I_service_body : forall w, Keep w -> Keep (fst (service_body w)).
Proof.
  intros w H. unfold Fsm.service_body.
  pose proof (I_unsolicited_events_service w H) as U.
  destruct (unsolicited_events_service w) as [w1 us]. cbn [fst] in U.
  pose proof (I_cmd_service w1 U) as C.
  destruct (cmd_service w1) as [w2 s]. cbn [fst] in C.
  destruct (negb (us =? ST_OK)%Z || negb (ustate_beq (u_state (u (st w2))) US_IDLE)); exact C.
Qed.

Lemma I_do_op : forall w o, Keep w -> Keep (fst (do_op w o)).
Proof.
  intros w o H. destruct o; cbn [Fsm.do_op].
  - unfold Fsm.api_service. apply I_bracket; [apply I_service_body | exact H].
  - apply I_api_trigger. exact H.
  - apply I_api_hold_exit. exact H.
  - unfold Fsm.api_is_busy. apply I_bracket; [intros w' H'; exact H' | exact H].
  - unfold Fsm.api_is_hold. apply I_bracket; [intros w' H'; exact H' | exact H].
  - unfold Fsm.api_is_full. apply I_bracket; [intros w' H'; exact H' | exact H].
  - exact H.
  - exact H.
  - cbn [fst]. apply I_upd_st; [reflexivity | exact H].
  - cbn [fst]. apply I_upd_st; [reflexivity | exact H].
Qed.

Lemma I_step : forall w o, Keep w -> Keep (step w o).
Proof.
  intros w o H. unfold Fsm.step. pose proof (I_do_op w o H) as H1.
  destruct (do_op w o) as [w' r]. exact H1.
Qed.

Lemma I_run : forall ops w, Keep w -> Keep (run w ops).
Proof.
  induction ops as [|o ops IH]; intros w H; [exact H|].
  unfold Fsm.run. cbn [fold_left]. apply IH. apply I_step. exact H.
Qed.

End Inv.

(* the storage of a slot that holds only read-only variables, and that the application's handlers
   do not write themselves, is the same after ANY sequence of API calls, with ANY input and ANY
   behaviour of the handlers *)
Theorem C08_readonly_history : forall sl m x mx h ops,
  ro_slot D sl ->
  (forall hs q, Forall (fun p => fst p <> sl) (r_pokes (snd (h_call hs q)))) ->
  nth_error (mem (st (run (mkWorld (init_state D m) x mx h []) ops))) sl = nth_error m sl.
Proof.
  intros sl m x mx h ops Hro Hpoke.
  apply (I_run sl Hro Hpoke (nth_error m sl) ops). reflexivity.
Qed.

(* the same for every intermediate state: the invariant is inductive, from any state *)
Theorem C08_readonly_step : forall sl w o,
  ro_slot D sl ->
  (forall hs q, Forall (fun p => fst p <> sl) (r_pokes (snd (h_call hs q)))) ->
  nth_error (mem (st (step w o))) sl = nth_error (mem (st w)) sl.
Proof.
  intros sl w o Hro Hpoke.
  apply (I_step sl Hro Hpoke (nth_error (mem (st w)) sl) w o). reflexivity.
Qed.
End History.
