(* Lemmas_C08.v — property C08: access modes of variables.
   Part 1: the decoders never change a read-only variable, the formatters never look at a
           write-only variable.
   Part 2: READ / WRITE are refused with ERROR when the command offers nothing readable / writable.
   Part 3: over every history the storage of a read-only slot is never modified by the library.
   All the work for Properties_C08.v is here. *)
From Coq Require Import List NArith ZArith Bool Arith Lia.
From CatV Require Import Bytes Defs Codec Spec Fsm CollectDefs Lemmas_C04 Lemmas_C05.
Import ListNotations.
Local Open Scope nat_scope.

(* ================================================================== *)
(* Part 1 — pure                                                        *)
(* ================================================================== *)

Theorem C08_decode_readonly : forall v l data, v_access v = RO ->
  let '(pst, d, ws, n) := decode_var v l data in d = data /\ ws = O.
Proof.
  intros v l data Hro.
  destruct (is_numeric (v_type v)) eqn:Hn.
  - pose proof (C04_readonly v l data Hn Hro) as H.
    destruct (decode_var v l data) as [[[pst d] ws] n]. exact H.
  - pose proof (C05_readonly l data (v_size v)) as [H1 [H2 [H3 H4]]].
    unfold decode_var. rewrite Hro. cbn [vaccess_beq].
    destruct (v_type v); try discriminate Hn; split; assumption.
Qed.

Lemma map_const_length : forall (A B : Type) (b : B) (l1 l2 : list A),
  length l1 = length l2 -> map (fun _ => b) l1 = map (fun _ => b) l2.
Proof.
  intros A B b l1. induction l1 as [|x l1 IH]; intros [|y l2] H; try discriminate H.
  - reflexivity.
  - cbn [map]. f_equal. apply IH. injection H as H. exact H.
Qed.

Lemma firstn_length_eq : forall (A : Type) n (l1 l2 : list A),
  length l1 = length l2 -> length (firstn n l1) = length (firstn n l2).
Proof. intros A n l1 l2 H. rewrite !firstn_length, H. reflexivity. Qed.

Lemma bufhex_pieces_wo : forall v d1 d2, v_access v = WO -> length d1 = length d2 ->
  fmt_bufhex_pieces v d1 = fmt_bufhex_pieces v d2.
Proof.
  intros v d1 d2 Hwo Hl. unfold fmt_bufhex_pieces. rewrite Hwo.
  apply map_const_length. apply firstn_length_eq. exact Hl.
Qed.

Theorem C08_format_writeonly : forall v d1 d2 c, v_access v = WO -> length d1 = length d2 ->
  fmt_var v d1 c = fmt_var v d2 c.
Proof.
  intros v d1 d2 c Hwo Hl. unfold fmt_var.
  destruct (v_type v).
  - unfold fmt_int_text, read_fault. rewrite Hwo, Hl. reflexivity.
  - unfold fmt_uint_text, read_fault. rewrite Hwo, Hl. reflexivity.
  - unfold fmt_hex_text, read_fault. rewrite Hwo, Hl. reflexivity.
  - rewrite Hl. rewrite (bufhex_pieces_wo v d1 d2 Hwo Hl). reflexivity.
  - rewrite Hl. unfold fmt_bufstr_pieces. rewrite Hwo. reflexivity.
Qed.

Theorem C08_writeonly_text : forall v data, v_access v = WO ->
  var_text v data = var_text v (repeat 0%N (length data)).
Proof.
  intros v data Hwo. unfold var_text, fmt_num_text.
  destruct (v_type v).
  - unfold fmt_int_text. rewrite Hwo. reflexivity.
  - unfold fmt_uint_text. rewrite Hwo. reflexivity.
  - unfold fmt_hex_text. rewrite Hwo. reflexivity.
  - rewrite (bufhex_pieces_wo v data (repeat 0%N (length data)) Hwo); [reflexivity|].
    symmetry. apply repeat_length.
  - unfold fmt_bufstr_pieces. rewrite Hwo. reflexivity.
Qed.

(* the same, with the text spelled out: 0 ; 0 ; 0x0..0 ; 00 per byte ; two quotes *)
Lemma concat_map_const : forall (A : Type) (p : list N) (l : list A),
  concat (map (fun _ => p) l) = concat (repeat p (length l)).
Proof.
  intros A p l. induction l as [|x l IH]; [reflexivity|].
  cbn [map length repeat concat]. rewrite IH. reflexivity.
Qed.

Theorem C08_writeonly_text_explicit : forall v data, v_access v = WO ->
  var_text v data =
  match v_type v with
  | VInt | VUint => if supported_width (v_size v) then Some [48%N] else None
  | VHex => if supported_width (v_size v)
            then Some (48%N :: 120%N :: repeat 48%N (2 * v_size v)) else None
  | VBufHex => Some (concat (repeat [48%N; 48%N] (Nat.min (v_size v) (length data))))
  | VBufStr => Some [34%N; 34%N]
  end.
Proof.
  intros v data Hwo. unfold var_text, fmt_num_text.
  destruct (v_type v).
  - unfold fmt_int_text. rewrite Hwo. reflexivity.
  - unfold fmt_uint_text. rewrite Hwo. reflexivity.
  - unfold fmt_hex_text. rewrite Hwo.
    destruct (supported_width (v_size v)) eqn:Hs; [|reflexivity].
    unfold supported_width in Hs.
    destruct (v_size v =? 1) eqn:E1; [apply Nat.eqb_eq in E1; rewrite E1; reflexivity|].
    destruct (v_size v =? 2) eqn:E2; [apply Nat.eqb_eq in E2; rewrite E2; reflexivity|].
    destruct (v_size v =? 4) eqn:E4; [apply Nat.eqb_eq in E4; rewrite E4; reflexivity|].
    discriminate Hs.
  - unfold fmt_bufhex_pieces. rewrite Hwo. rewrite concat_map_const, firstn_length. reflexivity.
  - unfold fmt_bufstr_pieces. rewrite Hwo. reflexivity.
Qed.

(* ================================================================== *)
(* frame lemmas: which functions of Fsm.v leave `mem` alone             *)
(* ================================================================== *)

Ltac msetters :=
  cbn [mem set_k set_u set_cbuf set_ubuf set_dis_cmd set_dis_grp set_fault set_gL set_gS set_gR
       setk_index setk_partial setk_length setk_position setk_write_size setk_cmd setk_var
       setk_type setk_char setk_state setk_cr setk_hold setk_hold_exit setk_wbuf setk_wstate
       setk_wafter setk_implicit
       setu_state setu_index setu_position setu_cmd setu_var setu_type setu_wbuf setu_wstate
       setu_wafter setu_ring setu_tail setu_head setu_count set_fault_flag].

Lemma let_pair : forall (A B C : Type) (x : A * B) (f : A -> B -> C),
  (let (a, b) := x in f a b) = f (fst x) (snd x).
Proof. intros A B C [a b] f. reflexivity. Qed.

Lemma mem_setg_pos : forall f v s, mem (setg_pos f v s) = mem s.
Proof. intros [|] v s; reflexivity. Qed.
Lemma mem_setg_buf : forall f v s, mem (setg_buf f v s) = mem s.
Proof. intros [|] v s; reflexivity. Qed.
Lemma mem_setg_var : forall f v s, mem (setg_var f v s) = mem s.
Proof. intros [|] v s; reflexivity. Qed.
Lemma mem_setg_index : forall f v s, mem (setg_index f v s) = mem s.
Proof. intros [|] v s; reflexivity. Qed.
#[export] Hint Rewrite mem_setg_pos mem_setg_buf mem_setg_var mem_setg_index : memdb.

Ltac mstep :=
  first
    [ reflexivity
    | progress msetters
    | progress (autorewrite with memdb)
    | rewrite let_pair
    | match goal with
      | |- mem (match ?x with _ => _ end) = _ => destruct x
      | |- mem (fst (match ?x with _ => _ end)) = _ => destruct x
      | |- mem (fst (_, _)) = _ => cbn [fst]
      end ].
Ltac mgo := cbv beta zeta; repeat (mstep; cbv beta zeta).

Lemma mem_reset_state : forall s, mem (reset_state s) = mem s.
Proof. intros s. unfold reset_state. mgo. Qed.
Lemma mem_unsolicited_reset_state : forall s, mem (unsolicited_reset_state s) = mem s.
Proof. intros s. unfold unsolicited_reset_state. mgo. Qed.
Lemma mem_start_flush_c : forall a s, mem (start_flush_c a s) = mem s.
Proof. intros a s. unfold start_flush_c. mgo. Qed.
Lemma mem_start_flush_u : forall a s, mem (start_flush_u a s) = mem s.
Proof. intros a s. unfold start_flush_u. mgo. Qed.
Lemma mem_start_flush_raw_c : forall a s, mem (start_flush_raw_c a s) = mem s.
Proof. intros a s. unfold start_flush_raw_c. mgo. Qed.
#[export] Hint Rewrite mem_reset_state mem_unsolicited_reset_state mem_start_flush_c
  mem_start_flush_u mem_start_flush_raw_c : memdb.

Lemma mem_ack_error : forall s, mem (ack_error s) = mem s.
Proof. intros s. unfold ack_error. mgo. Qed.
Lemma mem_ack_ok : forall s, mem (ack_ok s) = mem s.
Proof. intros s. unfold ack_ok. mgo. Qed.
#[export] Hint Rewrite mem_ack_error mem_ack_ok : memdb.

Lemma mem_put_cur : forall f c s, mem (put_cur f c s) = mem s.
Proof. intros f c s. unfold put_cur. mgo. Qed.
#[export] Hint Rewrite mem_put_cur : memdb.

Lemma mem_print_string : forall f s t, mem (fst (print_string f s t)) = mem s.
Proof. intros f s t. unfold print_string. mgo. Qed.
Lemma mem_print_strings : forall f s ts, mem (fst (print_strings f s ts)) = mem s.
Proof. intros f s ts. unfold print_strings. mgo. Qed.
#[export] Hint Rewrite mem_print_string mem_print_strings : memdb.

Lemma mem_end_with_error : forall f s, mem (end_with_error f s) = mem s.
Proof. intros f s. unfold end_with_error. mgo. Qed.
Lemma mem_end_with_ok : forall f s, mem (end_with_ok f s) = mem s.
Proof. intros f s. unfold end_with_ok. mgo. Qed.
Lemma mem_set_loop_state : forall f rd s, mem (set_loop_state f rd s) = mem s.
Proof. intros f rd s. unfold set_loop_state. mgo. Qed.
Lemma mem_start_flush_after_ok : forall f s, mem (start_flush_after_ok f s) = mem s.
Proof. intros f s. unfold start_flush_after_ok. mgo. Qed.
Lemma mem_start_flush_after : forall f a b s, mem (start_flush_after f a b s) = mem s.
Proof. intros f a b s. unfold start_flush_after. mgo. Qed.
#[export] Hint Rewrite mem_end_with_error mem_end_with_ok mem_set_loop_state
  mem_start_flush_after_ok mem_start_flush_after : memdb.

Lemma mem_enable_hold_state : forall s, mem (enable_hold_state s) = mem s.
Proof. intros s. unfold enable_hold_state. mgo. Qed.
Lemma mem_hold_exit : forall s z, mem (fst (hold_exit s z)) = mem s.
Proof. intros s z. unfold hold_exit. mgo. Qed.
Lemma mem_process_hold_state : forall s, mem (process_hold_state s) = mem s.
Proof. intros s. unfold process_hold_state. mgo. Qed.
Lemma mem_process_io_write_wait : forall s, mem (process_io_write_wait s) = mem s.
Proof. intros s. unfold process_io_write_wait. mgo. Qed.
Lemma mem_unsolicited_process_io_write_wait : forall s,
  mem (unsolicited_process_io_write_wait s) = mem s.
Proof. intros s. unfold unsolicited_process_io_write_wait. mgo. Qed.
#[export] Hint Rewrite mem_enable_hold_state mem_hold_exit mem_process_hold_state
  mem_process_io_write_wait mem_unsolicited_process_io_write_wait : memdb.

Lemma mem_prepare_search_command : forall s, mem (prepare_search_command s) = mem s.
Proof. intros s. unfold prepare_search_command. mgo. Qed.
Lemma mem_prepare_parse_command : forall s, mem (prepare_parse_command s) = mem s.
Proof. intros s. unfold prepare_parse_command. mgo. Qed.
#[export] Hint Rewrite mem_prepare_search_command mem_prepare_parse_command : memdb.


Lemma mem_push_unsolicited_cmd : forall D s ci t, mem (fst (push_unsolicited_cmd D s ci t)) = mem s.
Proof. intros D s ci t. unfold push_unsolicited_cmd. mgo. Qed.
Lemma mem_pop_unsolicited_cmd : forall D s, mem (fst (pop_unsolicited_cmd D s)) = mem s.
Proof. intros D s. unfold pop_unsolicited_cmd. mgo. Qed.
#[export] Hint Rewrite mem_push_unsolicited_cmd mem_pop_unsolicited_cmd : memdb.

Lemma mem_print_response_test : forall D f s, mem (fst (print_response_test D f s)) = mem s.
Proof. intros D f s. unfold print_response_test. mgo. Qed.
#[export] Hint Rewrite mem_print_response_test : memdb.

Lemma mem_start_processing_format_test_args : forall D f s,
  mem (start_processing_format_test_args D f s) = mem s.
Proof. intros D f s. unfold start_processing_format_test_args. mgo. Qed.
Lemma mem_start_processing_format_read_args : forall D f s,
  mem (start_processing_format_read_args D f s) = mem s.
Proof. intros D f s. unfold start_processing_format_read_args. mgo. Qed.
#[export] Hint Rewrite mem_start_processing_format_test_args mem_start_processing_format_read_args : memdb.

Lemma mem_next_format_var : forall D f s, mem (fst (next_format_var D f s)) = mem s.
Proof. intros D f s. unfold next_format_var. mgo. Qed.
#[export] Hint Rewrite mem_next_format_var : memdb.

Lemma mem_set_cmd_state : forall s i v, mem (set_cmd_state s i v) = mem s.
Proof. intros s i v. unfold set_cmd_state. mgo. Qed.
#[export] Hint Rewrite mem_set_cmd_state : memdb.

Lemma mem_update_command : forall D s, mem (update_command D s) = mem s.
Proof. intros D s. unfold update_command. mgo. Qed.
Lemma mem_search_command : forall D s, mem (search_command D s) = mem s.
Proof. intros D s. unfold search_command. mgo. Qed.
Lemma mem_command_found : forall D s, mem (command_found D s) = mem s.
Proof. intros D s. unfold command_found. mgo. Qed.
#[export] Hint Rewrite mem_update_command mem_search_command mem_command_found : memdb.

Lemma mem_start_print_cmd_list : forall D s, mem (start_print_cmd_list D s) = mem s.
Proof. intros D s. unfold start_print_cmd_list. mgo. Qed.
Lemma mem_cmd_list_next_cmd : forall D s, mem (fst (cmd_list_next_cmd D s)) = mem s.
Proof. intros D s. unfold cmd_list_next_cmd. mgo. Qed.
#[export] Hint Rewrite mem_start_print_cmd_list mem_cmd_list_next_cmd : memdb.
Lemma mem_print_current_cmd_full_name : forall s c sf,
  mem (fst (print_current_cmd_full_name s c sf)) = mem s.
Proof. intros s c sf. unfold print_current_cmd_full_name. mgo. Qed.
#[export] Hint Rewrite mem_print_current_cmd_full_name : memdb.
Lemma mem_print_cmd_form : forall s c a sf nx, mem (print_cmd_form s c a sf nx) = mem s.
Proof.
  intros s c a sf nx. unfold print_cmd_form. destruct a; [|reflexivity]. cbv zeta.
  pose proof (mem_print_current_cmd_full_name (setk_position 0 s) c sf) as H.
  destruct (print_current_cmd_full_name (setk_position 0 s) c sf) as [s2 ok]. cbn [fst] in H.
  destruct ok; cbn [negb].
  - change (mem (start_flush_raw_c CS_PRINT_CMD s2) = mem s).
    rewrite mem_start_flush_raw_c. exact H.
  - rewrite mem_ack_error. exact H.
Qed.
#[export] Hint Rewrite mem_print_cmd_form : memdb.
Lemma mem_print_cmd_list : forall D s, mem (print_cmd_list D s) = mem s.
Proof. intros D s. unfold print_cmd_list. mgo. Qed.
#[export] Hint Rewrite mem_print_cmd_list : memdb.

Lemma mem_format_test_args : forall D f s, mem (format_test_args D f s) = mem s.
Proof. intros D f s. unfold format_test_args. mgo. Qed.
Lemma mem_check_unsolicited_buffers : forall D s, mem (check_unsolicited_buffers D s) = mem s.
Proof. intros D s. unfold check_unsolicited_buffers. mgo. Qed.
Lemma mem_apply_edit : forall f e s, mem (apply_edit f e s) = mem s.
Proof. intros f e s. unfold apply_edit. mgo. Qed.
Lemma mem_pca_body : forall D ch s, mem (pca_body D ch s) = mem s.
Proof. intros D ch s. unfold pca_body. mgo. Qed.

