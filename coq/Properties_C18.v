(* Properties_C18.v — property C18: cat_is_busy / cat_is_hold never report idle while work is in
   flight.  (Repaired code: is_busy looks at both machines.)  Every history from cat_init, arbitrary
   oracles; D3; `fault = false` is discharged by C03 in the supported domain. *)
From Coq Require Import List NArith ZArith Bool Arith.
From CatV Require Import Bytes Defs Codec Fsm Skel SkelInv SkelSim Lemmas_Ctl Lemmas_C03 Lemmas_Domain Lemmas_C15.
Import ListNotations.

Section C18.
Variable D : desc.
Variables ioS muS hS : Type.
Variable io_read : ioS -> ioS * option N.
Variable io_write : ioS -> N -> ioS * bool.
Variable mu_lock : muS -> muS * bool.
Variable mu_unlock : muS -> muS * bool.
Variable h_call : hS -> hreq -> hS * hres.
Hypothesis no_uhold : forall hs q, unsol_req q = true -> r_code (snd (h_call hs q)) <> RC_HOLD.

Notation st := (Fsm.st ioS muS hS).
Notation run := (Fsm.run D ioS muS hS io_read io_write mu_lock mu_unlock h_call).
Notation service_body := (Fsm.service_body D ioS muS hS io_read io_write mu_lock mu_unlock h_call).
Notation reach m x mx h ops := (run (mkWorld ioS muS hS (init_state D m) x mx h []) ops).

(* what the query computes (any state): OK iff BOTH machines are idle *)
Theorem C18_busy_iff : forall s,
  is_busy s = ST_OK <-> (k_state (k s) = CS_IDLE /\ u_state (u s) = US_IDLE).
Proof.
  intros s. unfold is_busy.
  destruct (cstate_beq (k_state (k s)) CS_IDLE) eqn:E1; destruct (ustate_beq (u_state (u s)) US_IDLE) eqn:E2; cbn.
  - apply internal_cstate_dec_bl in E1. apply internal_ustate_dec_bl in E2. split; auto.
  - split; [discriminate|]. intros [_ H]. rewrite H in E2. discriminate.
  - split; [discriminate|]. intros [H _]. rewrite H in E1. discriminate.
  - split; [discriminate|]. intros [H _]. rewrite H in E1. discriminate.
Qed.

(* soundness along every history: when the query says OK, no command line is partially received or
   being processed (every terminated line has its complete result, no result is in flight, the
   line-scoped flags are clear), no command is suspended, and neither machine owns or waits for the
   output channel — so no output unit of either producer is partially emitted *)
Theorem C18_busy_sound : forall m x mx h ops,
  let s := st (reach m x mx h ops) in
  fault s = false -> is_busy s = ST_OK ->
  gL s = gR s /\ gS s = gR s /\
  k_hold (k s) = false /\ k_cr (k s) = false /\ k_implicit (k s) = false /\
  k_state (k s) <> CS_FLUSH /\ k_state (k s) <> CS_FLUSH_WAIT /\
  u_state (u s) <> US_FLUSH /\ u_state (u s) <> US_FLUSH_WAIT.
Proof.
  intros m x mx h ops s Hf Hb. apply C18_busy_iff in Hb. destruct Hb as [Hk Hu].
  pose proof (J_reachable D ioS muS hS io_read io_write mu_lock mu_unlock h_call no_uhold m x mx h ops Hf) as HJ.
  fold s in HJ.
  destruct (J_reading_settled s HJ) as [A B]; [rewrite Hk; reflexivity|].
  repeat split; auto.
  - destruct (k_hold (k s)) eqn:E; [|reflexivity]. apply (J_hold_iff s HJ) in E. congruence.
  - apply (J_idle_cr s HJ Hk).
  - destruct (k_implicit (k s)) eqn:E; [|reflexivity]. apply (J_implicit s HJ) in E. congruence.
  - congruence.
  - congruence.
  - congruence.
  - congruence.
Qed.

(* completeness: once cat_service has reported OK with the command machine between lines, the query says OK *)
Theorem C18_busy_complete : forall w w',
  service_body w = (w', ST_OK) -> k_state (k (st w')) = CS_IDLE -> is_busy (st w') = ST_OK.
Proof.
  intros w w' H Hk.
  destruct (C15_ok_is_quiescent D ioS muS hS io_read io_write mu_lock mu_unlock h_call w w' H)
    as (_ & Hu & _ & _ & io' & _ & Hst & _).
  apply C18_busy_iff. rewrite Hst in *. auto.
Qed.

(* cat_is_hold: HOLD exactly while a command is suspended *)
Theorem C18_hold_exact : forall m x mx h ops,
  let s := st (reach m x mx h ops) in
  fault s = false -> (is_hold s = ST_HOLD <-> k_state (k s) = CS_HOLD).
Proof.
  intros m x mx h ops s Hf.
  pose proof (J_reachable D ioS muS hS io_read io_write mu_lock mu_unlock h_call no_uhold m x mx h ops Hf) as HJ.
  fold s in HJ. unfold is_hold. destruct (k_hold (k s)) eqn:E.
  - split; [intros _; apply (J_hold_iff s HJ); exact E | reflexivity].
  - split; [discriminate|]. intro H. apply (J_hold_iff s HJ) in H. congruence.
Qed.
End C18.

Print Assumptions C18_busy_iff.
Print Assumptions C18_busy_sound.
Print Assumptions C18_busy_complete.
Print Assumptions C18_hold_exact.

(* ---------------------------------------------------------------------------------------------
   The same, unconditionally, in the supported domain: C03 (Lemmas_C03.C03_no_fault) shows that the
   fault flag is never raised for descriptors satisfying wf_desc, events naming pool commands
   (valid_op / valid_icall) — so the hypothesis `fault = false` above is discharged. *)
Section InDomain.
Variable D : desc.
Variables ioS muS hS : Type.
Variable io_read : ioS -> ioS * option N.
Variable io_write : ioS -> N -> ioS * bool.
Variable mu_lock : muS -> muS * bool.
Variable mu_unlock : muS -> muS * bool.
Variable h_call : hS -> hreq -> hS * hres.
Hypothesis no_uhold : forall hs q, unsol_req q = true -> r_code (snd (h_call hs q)) <> RC_HOLD.
Hypothesis handlers_valid : forall hs q, Forall (valid_icall D) (r_calls (snd (h_call hs q))).
Notation st := (Fsm.st ioS muS hS).
Notation run := (Fsm.run D ioS muS hS io_read io_write mu_lock mu_unlock h_call).
Notation reach m x mx h ops := (run (mkWorld ioS muS hS (init_state D m) x mx h []) ops).
Notation JD := (J_in_domain D ioS muS hS io_read io_write mu_lock mu_unlock h_call no_uhold handlers_valid).

Theorem C18_in_domain : forall m x mx h ops,
  wf_desc D m -> Forall (valid_op D) ops ->
  let s := st (reach m x mx h ops) in
  (is_busy s = ST_OK ->
     gL s = gR s /\ gS s = gR s /\ k_hold (k s) = false /\ k_cr (k s) = false /\ k_implicit (k s) = false /\
     k_state (k s) = CS_IDLE /\ u_state (u s) = US_IDLE) /\
  (is_hold s = ST_HOLD <-> k_state (k s) = CS_HOLD).
Proof.
  intros m x mx h ops Hwf Hops s. destruct (JD m x mx h ops Hwf Hops) as [_ HJ]. fold s in HJ.
  split.
  - intro Hb. apply C18_busy_iff in Hb. destruct Hb as [Hk Hu].
    destruct (J_reading_settled s HJ) as [A B]; [rewrite Hk; reflexivity|].
    repeat split; auto.
    + destruct (k_hold (k s)) eqn:E; [|reflexivity]. apply (J_hold_iff s HJ) in E. congruence.
    + apply (J_idle_cr s HJ Hk).
    + destruct (k_implicit (k s)) eqn:E; [|reflexivity]. apply (J_implicit s HJ) in E. congruence.
  - unfold is_hold. destruct (k_hold (k s)) eqn:E.
    + split; [intros _; apply (J_hold_iff s HJ); exact E | reflexivity].
    + split; [discriminate|]. intro H. apply (J_hold_iff s HJ) in H. congruence.
Qed.
End InDomain.
Print Assumptions C18_in_domain.
