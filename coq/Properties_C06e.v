(* Properties_C06e.v — property C06.P3, end to end: an over-long WRITE line is rejected as a whole.
   On the scripted always-ready world (event machine idle, no mutex, as in Properties_C01e.v) the line
       A T name = bs LF rest        (bs without LF, any byte values, CRs allowed anywhere)
   whose argument text (bs without its CRs) has at least as many bytes as the working buffer is answered
       nl ERROR nl                  (nl = CR LF if bs contains a CR — before or after the point of overflow — else LF)
   after some number of cat_service calls: the parser is idle again, exactly the line has been consumed
   (the queue holds `rest`: the remainder of the over-long line is drained up to its LF and nothing after
   it), no handler and no variable callback was called, no variable was touched, no fault, each ghost
   counter (lines gL, started result codes gS, emitted result codes gR) advanced by exactly one, and the
   newline flag k_cr is clear for the next line.
   The command c is ARBITRARY (handlers, variables, only_test, implicit flag, '=?' form or not): the
   rejection is decided in CS_PARSE_COMMAND_ARGS before anything of the command is looked at.  In
   particular NO hypothesis excludes '?' as the first argument byte: for a command with the =? form that
   byte leads to CS_WAIT_TEST_ACK and the next text byte to CS_ERROR, i.e. to the same drain and answer.
   Boundary: the model stores text byte number len (from 0) only if len + 1 < capacity; the largest
   accepted text has  length (cbuf s) - 1  bytes (E2E_write_line: length args < length (cbuf s));
   here  length (cbuf s) <= length (no_cr bs).  The two theorems together cover every length.
   E2E_unknown_write_line: with a name that selects no command the same line (any bs) gets the same
   answer through the same drain (the '=' with no match goes to CS_ERROR).
   Proofs: Lemmas_E2Ec.v (Module P2); nl_of is defined at the top of Lemmas_E2Ec.v. *)
From Coq Require Import List NArith ZArith Bool Arith.
From CatV Require Import Bytes Defs Codec Spec Fsm Script ResolveDefs SchedDefs GlueDefs TextDefs CollectDefs.
From CatV Require Import Lemmas_C07 Lemmas_C07e Lemmas_E2E.
From CatV Require Lemmas_E2Ec.
Local Notation nl_of := Lemmas_E2Ec.nl_of.
Import ListNotations.
Local Open Scope nat_scope.

Local Notation wst := (Fsm.st sio smu shs).
Local Notation wio := (Fsm.io sio smu shs).
Local Notation whs := (Fsm.hs sio smu shs).
Local Notation wtr := (Fsm.tr sio smu shs).

(* nl_of cr = if cr then [ch_CR; ch_LF] else [ch_LF]        (Lemmas_E2Ec)
   no_cr bs = filter (fun c => negb (c =? ch_CR)) bs        (CollectDefs) *)

Theorem E2E_overlong_line : forall D s name bs rest h i c,
  d_mutex D = false -> 0 < ncmds D -> ncmds D <= 4 * length (cbuf s) -> 6 <= length (cbuf s) ->
  fault s = false ->
  k_state (k s) = CS_IDLE -> k_cr (k s) = false -> k_implicit (k s) = false -> k_hold (k s) = false ->
  u_state (u s) = US_IDLE -> u_count (u s) = 0 ->
  name_ok name = true -> implicit_hit D s (upper name) = false ->
  resolve (upper name) (enabled D s) (cmds D) = Some i -> nth_error (cmds D) i = Some c ->
  ~ In ch_LF bs -> length (cbuf s) <= length (no_cr bs) ->
  let nl := nl_of (existsb (fun b => (b =? ch_CR)%N) bs) in
  let w0 := mkw s ([ch_A; ch_T] ++ name ++ [ch_EQ] ++ bs ++ [ch_LF] ++ rest) h [] in
  exists calls, let w := nsvc D calls w0 in
    k_state (k (wst w)) = CS_IDLE /\ inq (wio w) = rest /\ whs w = h /\ calls_of (wtr w) = [] /\
    mem (wst w) = mem s /\ fault (wst w) = false /\
    output_of (wtr w) = nl ++ txt_ERROR ++ nl /\
    gL (wst w) = S (gL s) /\ gS (wst w) = S (gS s) /\ gR (wst w) = S (gR s) /\
    k_cr (k (wst w)) = false.
Proof. exact Lemmas_E2Ec.P2.E2E_overlong_line_proof. Qed.
Print Assumptions E2E_overlong_line.

Theorem E2E_unknown_write_line : forall D s name bs rest h,
  d_mutex D = false -> 0 < ncmds D -> ncmds D <= 4 * length (cbuf s) -> 6 <= length (cbuf s) ->
  fault s = false ->
  k_state (k s) = CS_IDLE -> k_cr (k s) = false -> k_implicit (k s) = false -> k_hold (k s) = false ->
  u_state (u s) = US_IDLE -> u_count (u s) = 0 ->
  name_ok name = true -> implicit_hit D s (upper name) = false ->
  resolve (upper name) (enabled D s) (cmds D) = None ->
  ~ In ch_LF bs ->
  let nl := nl_of (existsb (fun b => (b =? ch_CR)%N) bs) in
  let w0 := mkw s ([ch_A; ch_T] ++ name ++ [ch_EQ] ++ bs ++ [ch_LF] ++ rest) h [] in
  exists calls, let w := nsvc D calls w0 in
    k_state (k (wst w)) = CS_IDLE /\ inq (wio w) = rest /\ whs w = h /\ calls_of (wtr w) = [] /\
    mem (wst w) = mem s /\ fault (wst w) = false /\
    output_of (wtr w) = nl ++ txt_ERROR ++ nl /\
    gL (wst w) = S (gL s) /\ gS (wst w) = S (gS s) /\ gR (wst w) = S (gR s) /\
    k_cr (k (wst w)) = false.
Proof. exact Lemmas_E2Ec.P2.E2E_unknown_write_line_proof. Qed.
Print Assumptions E2E_unknown_write_line.

(* ---------- non-vacuity: the instance E2E_examples of Lemmas_E2E.v ----------
   table  +X (int16, string[6], hexbuf[2], uint8; no handlers; it has the =? form)  and  +XY;
   buffer of 40 bytes; s0 / s1 = initial states over the memories m0 / m1;
   go s line calls = (state, remaining input, handler scripts, calls, output, memory, fault, (gL, gS, gR)) *)
Import Lemmas_E2E.E2E_examples.

Definition a40 : list N := repeat 97%N 40.                 (* forty times 'a' *)
(* a WELL-FORMED argument text for +X whose last field has k leading zeros: 18 + k bytes *)
Definition padded (k : nat) : list N :=
  [45; 50; 44; 34; 65; 44; 92; 34; 34; 44; 48; 65; 70; 70; 44]%N ++ repeat 48%N k ++ [50; 48; 48]%N.
Definition ERR_LF : list N := [10; 69; 82; 82; 79; 82; 10]%N.
Definition ERR_CRLF : list N := [13; 10; 69; 82; 82; 79; 82; 13; 10]%N.

(* AT+x= and 40 bytes, LF, then 1 2 3: after exactly 64 calls LF ERROR LF, memory unchanged, 1 2 3 still
   queued, no call, counters (1,1,1); one call earlier the reset is still pending, one call later the
   next line is being read *)
Example E2E_ex_overlong_run :
  go s0 ([65; 84; 43; 120; 61]%N ++ a40 ++ [10; 1; 2; 3]%N) 64 =
    (CS_IDLE, [1; 2; 3]%N, [], [], ERR_LF, m0, false, (1, 1, 1)) /\
  (let '(a, q, _, _, _, _, _, _) := go s0 ([65; 84; 43; 120; 61]%N ++ a40 ++ [10; 1; 2; 3]%N) 63 in (a, q)) =
    (CS_AFTER_RESET, [1; 2; 3]%N) /\
  (let '(a, q, _, _, _, _, _, _) := go s0 ([65; 84; 43; 120; 61]%N ++ a40 ++ [10; 1; 2; 3]%N) 65 in (a, q)) =
    (CS_ERROR, [2; 3]%N).
Proof. vm_compute. repeat split. Qed.

(* the exact boundary, with a text that is well-formed for +X (only its length decides):
   39 = capacity - 1 bytes are accepted (LF OK LF, the variables are written);
   40 = capacity bytes are rejected (LF ERROR LF, memory m1 untouched) — both after 64 calls *)
Example E2E_ex_boundary :
  length (padded 21) = 39 /\ length (padded 22) = 40 /\ length (cbuf s1) = 40 /\
  go s1 ([65; 84; 43; 120; 61]%N ++ padded 21 ++ [10; 1; 2; 3]%N) 64 =
    (CS_IDLE, [1; 2; 3]%N, [], [], [10; 79; 75; 10]%N,
     [[254; 255]; [65; 44; 34; 0; 1; 1]; [10; 255]; [200]; [5]]%N, false, (1, 1, 1)) /\
  go s1 ([65; 84; 43; 120; 61]%N ++ padded 22 ++ [10; 1; 2; 3]%N) 64 =
    (CS_IDLE, [1; 2; 3]%N, [], [], ERR_LF, m1, false, (1, 1, 1)).
Proof. vm_compute. repeat split. Qed.

(* inside the machine: after the 39th / 40th argument byte (10 + 1 + 39 (+1) calls) *)
Definition peek (s : state) (line : list N) (calls : nat) :=
  let w := nsvc D0 calls (mkw s line [] []) in (k_state (k (wst w)), k_length (k (wst w)), inq (wio w)).
Example E2E_ex_boundary_inside :
  peek s0 ([65; 84; 43; 120; 61]%N ++ a40 ++ [10; 1; 2; 3]%N) 50 = (CS_PARSE_COMMAND_ARGS, 39, [97; 10; 1; 2; 3]%N) /\
  peek s0 ([65; 84; 43; 120; 61]%N ++ a40 ++ [10; 1; 2; 3]%N) 51 = (CS_ERROR, 40, [10; 1; 2; 3]%N) /\
  peek s0 ([65; 84; 43; 120; 61]%N ++ repeat 97%N 39 ++ [10; 1; 2; 3]%N) 51 = (CS_PARSE_WRITE_ARGS, 39, [1; 2; 3]%N).
Proof. vm_compute. repeat split. Qed.

(* a CR inside bs switches the answer to CR LF ERROR CR LF: AFTER the point of overflow (40 bytes, b CR c)
   and BEFORE it (CR, 40 bytes) *)
Example E2E_ex_overlong_cr :
  go s0 ([65; 84; 43; 120; 61]%N ++ a40 ++ [98; 13; 99]%N ++ [10; 1; 2; 3]%N) 69 =
    (CS_IDLE, [1; 2; 3]%N, [], [], ERR_CRLF, m0, false, (1, 1, 1)) /\
  go s0 ([65; 84; 43; 120; 61; 13]%N ++ a40 ++ [10; 1; 2; 3]%N) 67 =
    (CS_IDLE, [1; 2; 3]%N, [], [], ERR_CRLF, m0, false, (1, 1, 1)).
Proof. vm_compute. repeat split. Qed.

(* '?' as the first argument byte of a command with the =? form, then 39 more bytes: the same answer
   (through CS_WAIT_TEST_ACK); no hypothesis of E2E_overlong_line excludes this line *)
Example E2E_ex_overlong_qm :
  test_shortcut c0 = true /\
  go s0 ([65; 84; 43; 120; 61; 63]%N ++ repeat 97%N 39 ++ [10; 1; 2; 3]%N) 64 =
    (CS_IDLE, [1; 2; 3]%N, [], [], ERR_LF, m0, false, (1, 1, 1)).
Proof. vm_compute. repeat split. Qed.

(* the hypotheses of E2E_overlong_line hold for  at+x=  a40 b CR c  on (D0, s0) *)
Example E2E_ex_overlong_hyps :
  hyps_ok D0 s0 = true /\ name_ok [43; 120]%N = true /\
  implicit_hit D0 s0 (upper [43; 120]%N) = false /\
  resolve (upper [43; 120]%N) (enabled D0 s0) (cmds D0) = Some 0 /\ nth_error (cmds D0) 0 = Some c0 /\
  existsb (fun b => (b =? ch_LF)%N) (a40 ++ [98; 13; 99]%N) = false /\
  (length (cbuf s0) <=? length (no_cr (a40 ++ [98; 13; 99]%N))) = true /\
  nl_of (existsb (fun b => (b =? ch_CR)%N) (a40 ++ [98; 13; 99]%N)) = [13; 10]%N.
Proof. vm_compute. repeat split. Qed.

(* the general theorem applied to this instance *)
Example E2E_ex_overlong_apply :
  exists calls, let w := nsvc D0 calls (mkw s0 ([65; 84; 43; 120; 61]%N ++ (a40 ++ [98; 13; 99]%N) ++ [10; 1; 2; 3]%N) [] []) in
    k_state (k (wst w)) = CS_IDLE /\ inq (wio w) = [1; 2; 3]%N /\ calls_of (wtr w) = [] /\
    mem (wst w) = m0 /\ output_of (wtr w) = ERR_CRLF.
Proof.
  destruct E2E_ex_overlong_hyps as (_ & H2 & H3 & H4 & H5 & H6 & H7 & _).
  apply Nat.leb_le in H7.
  destruct (E2E_overlong_line D0 s0 [43; 120]%N (a40 ++ [98; 13; 99]%N) [1; 2; 3]%N [] 0 c0
              eq_refl ltac:(apply Nat.ltb_lt; reflexivity) ltac:(apply Nat.leb_le; reflexivity)
              ltac:(apply Nat.leb_le; reflexivity)
              eq_refl eq_refl eq_refl eq_refl eq_refl eq_refl eq_refl H2 H3 H4 H5
              (Lemmas_E2Ec.P2.notin_b ch_LF _ H6) H7)
    as (calls & A & B & _ & C & M & _ & O & _).
  exists calls. cbv zeta. split; [exact A|]. split; [exact B|]. split; [exact C|]. split; [exact M | exact O].
Qed.

(* AT+= b CR c LF 1 2 3 : '+' is a proper prefix of both names, hence selects no command; the WRITE form
   is drained and answered CR LF ERROR CR LF after exactly 26 calls *)
Example E2E_ex_unknown_write_run :
  resolve (upper [43]%N) (enabled D0 s0) (cmds D0) = None /\
  go s0 ([65; 84; 43; 61; 98; 13; 99; 10; 1; 2; 3]%N) 26 =
    (CS_IDLE, [1; 2; 3]%N, [], [], ERR_CRLF, m0, false, (1, 1, 1)).
Proof. vm_compute. split; reflexivity. Qed.

Example E2E_ex_unknown_write_apply :
  exists calls, let w := nsvc D0 calls (mkw s0 ([65; 84; 43; 61]%N ++ [98; 13; 99]%N ++ [10; 1; 2; 3]%N) [] []) in
    k_state (k (wst w)) = CS_IDLE /\ inq (wio w) = [1; 2; 3]%N /\ output_of (wtr w) = ERR_CRLF.
Proof.
  destruct (E2E_unknown_write_line D0 s0 [43]%N [98; 13; 99]%N [1; 2; 3]%N []
              eq_refl ltac:(apply Nat.ltb_lt; reflexivity) ltac:(apply Nat.leb_le; reflexivity)
              ltac:(apply Nat.leb_le; reflexivity)
              eq_refl eq_refl eq_refl eq_refl eq_refl eq_refl eq_refl eq_refl eq_refl eq_refl
              (Lemmas_E2Ec.P2.notin_b ch_LF [98; 13; 99]%N eq_refl))
    as (calls & A & B & _ & _ & _ & _ & O & _).
  exists calls. cbv zeta. split; [exact A|]. split; [exact B | exact O].
Qed.
