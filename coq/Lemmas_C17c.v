(* Lemmas_C17c.v -- property C17 (thread safety), the operations that take NO lock.

   Lemmas_C17b.v models threads + a real blocking lock as a micro-step system in which EVERY
   public operation is one critical section (ACQUIRE; BODY; RELEASE).  Four model operations
   take no lock in C:
     OIsBuffered ci t    cat_is_unsolicited_event_buffered   cat.c:257-283  (no mutex call)
     OGetProcessed f     cat_get_processed_command           cat.c:249-255  (no mutex call)
     OSetCmdDisable i b  the application stores  cmd->disable = b        (cat.h:254, one bool)
     OSetGroupDisable g b                        group->disable = b      (cat.h:264, one bool)
   For them the atomicity built into Lemmas_C17b's system is an assumption.  This file removes
   that assumption AT THE GRANULARITY OF THE MODEL for the two read-only queries, and proves
   frame and commutation facts for the two flag stores.

   Part 1  No operation reads the trace: every function of the environment part of Fsm.v commutes
           with  ext b  (= the same world with more history b behind it).  Consequences:
           step_ignores_log / step_tr_indep / run_tr_indep, observer_step (an observer step only
           logs  ERet q (obs_ans q (st w)) ), observers_commute_seq (an observer can be inserted
           anywhere in a sequential run; nothing changes but the one log entry, whose value is a
           function of the state at its position).
   Part 2  Generic micro-step system with unlocked observers: the lstep of Lemmas_C17b plus a
           step OBSERVE enabled in EVERY configuration (also between another thread's ACQUIRE
           and BODY, or BODY and RELEASE).  observers_erase / observers_embed (all theorems of
           C17b still apply), observers_commute (every observation equals the sequential answer
           after the critical sections whose BODY has run), observers_linearizable (a sequential
           list of critical sections and observations reproduces all answers and the final state).
   Part 3  Instance Sh := world, body o w := step w o, ans q w := obs_ans q (st w).
   Part 4  The flag setters: frame; commutation with every operation that does not read the
           flag tables (Module SF: overwriting the tables commutes with every function of Fsm.v
           except update_command / search_command / print_cmd_list, the readers); the setters
           among themselves.

   WHAT THIS DOES AND DOES NOT SAY.  The statements are at the model's granularity: each
   lock-protected body updates the shared state in ONE atomic model step (BODY), so an unlocked
   observer sees the state either before or after a whole body.  In the C code the bodies are
   not atomic: push_unsolicited_cmd (cat.c:191-213) stores item->cmd (204), item->type (205),
   the tail index (207-208) and the items count (210) one after the other; pop_unsolicited_cmd
   (cat.c:167-189) reads the slot (180-181), then stores the head index (183-184) and the count
   (186); check_unsolicited_buffers (cat.c:1969-1978) stores unsolicited_fsm.cmd through the
   pop (1975) and cmd_type afterwards (1978).  cat_is_unsolicited_event_buffered reads the
   count (263), the head (264), unsolicited_fsm.cmd / cmd_type (268) and the slots (272-273)
   WITHOUT taking the mutex, and
   cat_get_processed_command reads self->cmd / unsolicited_fsm.cmd without it.  A C reader
   running concurrently with a critical section can therefore see a half-updated ring (slot
   written, count not yet incremented; head advanced, count not yet decremented; cmd of the new
   event with cmd_type of the old one).  That is a data race in the C11 sense; it is what
   ThreadSanitizer would report if the harness (verif/harness/tsan_harness.c, which on purpose
   calls only the mutex-protected functions from its producer threads) called the two queries
   from a second thread; and it is NOT expressible in this model.  So the theorems prove:
   unlocked observers are harmless PROVIDED every critical-section body is atomic with respect
   to them.  They do not prove that the two C functions are race-free.
   Likewise for the setters: C writes one bool per command / group (a single-byte store); the
   model theorem says such a store commutes with every operation that does not read the flag
   tables, and the Examples in Properties_C17c.v show that it does NOT commute with a service
   call that is in the middle of the name lookup. *)
From Coq Require Import List NArith ZArith Arith Bool Lia.
From CatV Require Import Bytes Defs Codec Fsm TraceDefs Lemmas_C13 Lemmas_C17b Lemmas_C11.
Import ListNotations.
Local Open Scope nat_scope.


(* ================================================================== *)
(* PART 1.  No operation reads the trace                               *)
(* ================================================================== *)
Section TraceIndep.
Variable D : desc.
Variables ioS muS hS : Type.
Variable io_read : ioS -> ioS * option N.
Variable io_write : ioS -> N -> ioS * bool.
Variable mu_lock : muS -> muS * bool.
Variable mu_unlock : muS -> muS * bool.
Variable h_call : hS -> hreq -> hS * hres.

Local Notation world := (Fsm.world ioS muS hS).
Local Notation st := (Fsm.st ioS muS hS).
Local Notation io := (Fsm.io ioS muS hS).
Local Notation mu := (Fsm.mu ioS muS hS).
Local Notation hs := (Fsm.hs ioS muS hS).
Local Notation tr := (Fsm.tr ioS muS hS).
Local Notation mkWorld := (Fsm.mkWorld ioS muS hS).
Local Notation set_st := (Fsm.set_st ioS muS hS).
Local Notation set_io := (Fsm.set_io ioS muS hS).
Local Notation set_mu := (Fsm.set_mu ioS muS hS).
Local Notation set_hs := (Fsm.set_hs ioS muS hS).
Local Notation logw := (Fsm.logw ioS muS hS).
Local Notation upd_st := (Fsm.upd_st ioS muS hS).
Local Notation busy := (Fsm.busy ioS muS hS).
Local Notation bracket := (Fsm.bracket D ioS muS hS mu_lock mu_unlock).
Local Notation api_trigger := (Fsm.api_trigger D ioS muS hS mu_lock mu_unlock).
Local Notation api_hold_exit := (Fsm.api_hold_exit D ioS muS hS mu_lock mu_unlock).
Local Notation apply_icall := (Fsm.apply_icall D ioS muS hS mu_lock mu_unlock).
Local Notation call_h := (Fsm.call_h D ioS muS hS mu_lock mu_unlock h_call).
Local Notation read_cmd_char := (Fsm.read_cmd_char ioS muS hS io_read).
Local Notation reading := (Fsm.reading ioS muS hS io_read).
Local Notation parse_write_args := (Fsm.parse_write_args D ioS muS hS mu_lock mu_unlock h_call).
Local Notation format_read_args := (Fsm.format_read_args D ioS muS hS mu_lock mu_unlock h_call).
Local Notation process_write_loop := (Fsm.process_write_loop D ioS muS hS mu_lock mu_unlock h_call).
Local Notation process_run_loop := (Fsm.process_run_loop D ioS muS hS mu_lock mu_unlock h_call).
Local Notation process_rt_loop := (Fsm.process_rt_loop D ioS muS hS mu_lock mu_unlock h_call).
Local Notation process_io_write := (Fsm.process_io_write ioS muS hS io_write).
Local Notation unsolicited_process_io_write := (Fsm.unsolicited_process_io_write ioS muS hS io_write).
Local Notation unsolicited_events_service :=
  (Fsm.unsolicited_events_service D ioS muS hS io_write mu_lock mu_unlock h_call).
Local Notation cmd_service :=
  (Fsm.cmd_service D ioS muS hS io_read io_write mu_lock mu_unlock h_call).
Local Notation service_body :=
  (Fsm.service_body D ioS muS hS io_read io_write mu_lock mu_unlock h_call).
Local Notation do_op := (Fsm.do_op D ioS muS hS io_read io_write mu_lock mu_unlock h_call).
Local Notation step := (Fsm.step D ioS muS hS io_read io_write mu_lock mu_unlock h_call).
Local Notation run := (Fsm.run D ioS muS hS io_read io_write mu_lock mu_unlock h_call).

(* the world w with the event list b appended at the OLD end of its trace (the trace grows at
   the head, so this is: the same world, started with more history behind it) *)
Definition ext (b : list event) (w : world) : world :=
  mkWorld (st w) (io w) (mu w) (hs w) (tr w ++ b).
(* the world w with its trace replaced *)
Definition with_tr (l : list event) (w : world) : world := mkWorld (st w) (io w) (mu w) (hs w) l.

(* a function of the environment part does not look at the trace *)
Definition TI {A : Type} (F : world -> world * A) : Prop :=
  forall b w, F (ext b w) = (ext b (fst (F w)), snd (F w)).

Lemma st_ext : forall b w, st (ext b w) = st w.  Proof. reflexivity. Qed.
Lemma io_ext : forall b w, io (ext b w) = io w.  Proof. reflexivity. Qed.
Lemma mu_ext : forall b w, mu (ext b w) = mu w.  Proof. reflexivity. Qed.
Lemma hs_ext : forall b w, hs (ext b w) = hs w.  Proof. reflexivity. Qed.
Lemma tr_ext : forall b w, tr (ext b w) = tr w ++ b.  Proof. reflexivity. Qed.
Lemma set_st_ext : forall v b w, set_st v (ext b w) = ext b (set_st v w).  Proof. reflexivity. Qed.
Lemma set_io_ext : forall v b w, set_io v (ext b w) = ext b (set_io v w).  Proof. reflexivity. Qed.
Lemma set_mu_ext : forall v b w, set_mu v (ext b w) = ext b (set_mu v w).  Proof. reflexivity. Qed.
Lemma set_hs_ext : forall v b w, set_hs v (ext b w) = ext b (set_hs v w).  Proof. reflexivity. Qed.
Lemma logw_ext : forall e b w, logw e (ext b w) = ext b (logw e w).  Proof. reflexivity. Qed.
Lemma upd_st_ext : forall g b w, upd_st g (ext b w) = ext b (upd_st g w).  Proof. reflexivity. Qed.
Lemma busy_ext : forall b w, busy (ext b w) = (ext b (fst (busy w)), snd (busy w)).
Proof. reflexivity. Qed.

Hint Rewrite st_ext io_ext mu_ext hs_ext set_st_ext set_io_ext set_mu_ext set_hs_ext logw_ext
  upd_st_ext : extdb.

Ltac xs := cbv beta iota zeta; cbn [fst snd Fsm.busy]; autorewrite with extdb.
Ltac brk1 :=
  match goal with
  | |- context [match (match (match ?x with _ => _ end) with _ => _ end) with _ => _ end] =>
    destruct x
  | |- context [match (match ?x with _ => _ end) with _ => _ end] => destruct x
  | |- context [match ?x with _ => _ end] => destruct x
  end.
Ltac xcall :=
  match goal with
  | |- context [Fsm.call_h ?a1 ?a2 ?a3 ?a4 ?a5 ?a6 ?a7 ?w ?q] =>
    lazymatch w with context [ext] => fail | _ => destruct (Fsm.call_h a1 a2 a3 a4 a5 a6 a7 w q) end
  end.
Ltac xgo := repeat (xs; first [xcall | brk1]); xs; try reflexivity.

(* ---------- lock; body; unlock ---------- *)
Lemma bracket_ext : forall body, TI body -> TI (fun w => bracket w body).
Proof.
  intros body Hb b w. unfold Fsm.bracket. destruct (d_mutex D); [|apply Hb].
  xs. destruct (mu_lock (mu w)) as [m1 ok]. xs. destruct ok; cbn [negb]; xs; [|reflexivity].
  rewrite Hb. destruct (body (logw (ELock true) (set_mu m1 w))) as [w2 s]. xs.
  destruct (mu_unlock (mu w2)) as [m2 ok2]. xs. destruct ok2; reflexivity.
Qed.

Lemma api_trigger_ext : forall ci t b w,
  api_trigger (ext b w) ci t = (ext b (fst (api_trigger w ci t)), snd (api_trigger w ci t)).
Proof.
  intros ci t b w. unfold Fsm.api_trigger.
  apply (bracket_ext (fun w => let (s', r) := push_unsolicited_cmd D (st w) ci t in (set_st s' w, r))).
  intros b' w'. xs. destruct (push_unsolicited_cmd D (st w') ci t). reflexivity.
Qed.

Lemma api_hold_exit_ext : forall z b w,
  api_hold_exit (ext b w) z = (ext b (fst (api_hold_exit w z)), snd (api_hold_exit w z)).
Proof.
  intros z b w. unfold Fsm.api_hold_exit.
  apply (bracket_ext (fun w => let (s', r) := hold_exit (st w) z in (set_st s' w, r))).
  intros b' w'. xs. destruct (hold_exit (st w') z). reflexivity.
Qed.

Lemma apply_icall_ext : forall c b w, apply_icall (ext b w) c = ext b (apply_icall w c).
Proof.
  intros c b w. unfold Fsm.apply_icall. destruct c as [ci t|z].
  - rewrite api_trigger_ext. destruct (api_trigger w ci t). reflexivity.
  - rewrite api_hold_exit_ext. destruct (api_hold_exit w z). reflexivity.
Qed.

Lemma apply_icalls_ext : forall cs b w,
  fold_left apply_icall cs (ext b w) = ext b (fold_left apply_icall cs w).
Proof.
  induction cs as [|c cs IH]; intros b w; [reflexivity|].
  cbn [fold_left]. rewrite apply_icall_ext. apply IH.
Qed.

Lemma call_h_ext : forall q b w, call_h (ext b w) q = (ext b (fst (call_h w q)), snd (call_h w q)).
Proof.
  intros q b w. unfold Fsm.call_h. xs. destruct (h_call (hs w) q) as [hs' r]. xs.
  rewrite apply_icalls_ext. reflexivity.
Qed.

Lemma read_cmd_char_ext : forall b w,
  read_cmd_char (ext b w) = (ext b (fst (read_cmd_char w)), snd (read_cmd_char w)).
Proof.
  intros b w. unfold Fsm.read_cmd_char. xs. destruct (io_read (io w)) as [io' r]. xs.
  destruct r as [ch|]; reflexivity.
Qed.

Lemma reading_ext : forall body b w,
  reading (ext b w) body = (ext b (fst (reading w body)), snd (reading w body)).
Proof.
  intros body b w. unfold Fsm.reading. rewrite read_cmd_char_ext.
  destruct (read_cmd_char w) as [w1 got]. xs. destruct got; reflexivity.
Qed.

Hint Rewrite call_h_ext reading_ext : extdb.

Lemma parse_write_args_ext : TI parse_write_args.
Proof. intros b w. unfold Fsm.parse_write_args. xgo. Qed.

Lemma format_read_args_ext : forall f, TI (format_read_args f).
Proof. intros f b w. unfold Fsm.format_read_args. xgo. Qed.

Lemma process_write_loop_ext : TI process_write_loop.
Proof. intros b w. unfold Fsm.process_write_loop. xgo. Qed.

Lemma process_run_loop_ext : TI process_run_loop.
Proof. intros b w. unfold Fsm.process_run_loop. xgo. Qed.

Lemma process_rt_loop_ext : forall rd f, TI (process_rt_loop rd f).
Proof. intros rd f b w. unfold Fsm.process_rt_loop. xgo. Qed.

Lemma process_io_write_ext : TI process_io_write.
Proof. intros b w. unfold Fsm.process_io_write. xgo. Qed.

Lemma unsolicited_process_io_write_ext : TI unsolicited_process_io_write.
Proof. intros b w. unfold Fsm.unsolicited_process_io_write. xgo. Qed.

Hint Rewrite parse_write_args_ext format_read_args_ext process_write_loop_ext process_run_loop_ext
  process_rt_loop_ext process_io_write_ext unsolicited_process_io_write_ext : extdb.

Lemma unsolicited_events_service_ext : TI unsolicited_events_service.
Proof.
  intros b w. unfold Fsm.unsolicited_events_service. xs.
  destruct (u_state (u (st w))); xs; try reflexivity.
  match goal with |- context [if ?c then _ else _] => destruct c end; [|reflexivity].
  destruct (ring_items D (st w)); reflexivity.
Qed.

Lemma cmd_service_ext : TI cmd_service.
Proof.
  intros b w. unfold Fsm.cmd_service, Fsm.error_state, Fsm.process_idle_state, Fsm.parse_prefix,
    Fsm.parse_command, Fsm.wait_read_acknowledge, Fsm.wait_test_acknowledge, Fsm.parse_command_args.
  xs. destruct (k_state (k (st w))); xs; reflexivity.
Qed.

Lemma service_body_ext : TI service_body.
Proof.
  intros b w. unfold Fsm.service_body. rewrite unsolicited_events_service_ext.
  destruct (unsolicited_events_service w) as [w1 us]. xs. rewrite cmd_service_ext.
  destruct (cmd_service w1) as [w2 s]. xs.
  match goal with |- context [if ?c then _ else _] => destruct c end; reflexivity.
Qed.

Lemma do_op_ext : forall o, TI (fun w => do_op w o).
Proof.
  intros o b w. destruct o; cbn [Fsm.do_op]; try reflexivity.
  - unfold Fsm.api_service. apply (bracket_ext service_body service_body_ext).
  - apply api_trigger_ext.
  - apply api_hold_exit_ext.
  - unfold Fsm.api_is_busy. apply (bracket_ext (fun w => (w, is_busy (st w)))). intros b' w'. reflexivity.
  - unfold Fsm.api_is_hold. apply (bracket_ext (fun w => (w, is_hold (st w)))). intros b' w'. reflexivity.
  - unfold Fsm.api_is_full.
    apply (bracket_ext (fun w => (w, if ring_full D (st w) then ST_BUFFER_FULL else ST_OK))).
    intros b' w'. reflexivity.
Qed.

Lemma step_ext : forall o b w, step (ext b w) o = ext b (step w o).
Proof.
  intros o b w. unfold Fsm.step. rewrite (do_op_ext o b w). destruct (do_op w o). reflexivity.
Qed.

Lemma run_ext : forall ops b w, run (ext b w) ops = ext b (run w ops).
Proof.
  induction ops as [|o ops IH]; intros b w; [reflexivity|].
  unfold Fsm.run in *. cbn [fold_left]. rewrite step_ext. apply IH.
Qed.

(* a world is its trace-less core extended by its trace *)
Lemma ext_with_tr : forall w, ext (tr w) (with_tr [] w) = w.
Proof. intros [s i m h t]. reflexivity. Qed.
Lemma ext_with_tr_logw : forall e w, ext (e :: tr w) (with_tr [] w) = logw e w.
Proof. intros e [s i m h t]. reflexivity. Qed.

Definition obs_ans (o : op) (s : state) : Z :=
  match o with
  | OIsBuffered ci t => is_event_buffered D s ci t
  | OGetProcessed f => get_processed s f
  | _ => 0%Z
  end.
Definition is_observer (o : op) : bool :=
  match o with OIsBuffered _ _ | OGetProcessed _ => true | _ => false end.

(* 1a *)
Lemma observer_step : forall o w, is_observer o = true ->
  step w o = logw (ERet o (obs_ans o (st w))) w.
Proof. intros o w H. destruct o; try discriminate H; reflexivity. Qed.

(* 1b, general form: two worlds that differ in their traces only *)
Lemma step_tr_indep : forall o (w1 w2 : world),
  st w1 = st w2 -> io w1 = io w2 -> mu w1 = mu w2 -> hs w1 = hs w2 ->
  st (step w1 o) = st (step w2 o) /\ io (step w1 o) = io (step w2 o) /\
  mu (step w1 o) = mu (step w2 o) /\ hs (step w1 o) = hs (step w2 o) /\
  snd (do_op w1 o) = snd (do_op w2 o) /\
  exists new, tr (step w1 o) = new ++ tr w1 /\ tr (step w2 o) = new ++ tr w2.
Proof.
  intros o [s1 i1 m1 h1 t1] [s2 i2 m2 h2 t2]. cbn [Fsm.st Fsm.io Fsm.mu Fsm.hs]. intros <- <- <- <-.
  set (x := mkWorld s1 i1 m1 h1 []).
  change (mkWorld s1 i1 m1 h1 t1) with (ext t1 x). change (mkWorld s1 i1 m1 h1 t2) with (ext t2 x).
  rewrite !step_ext, !(do_op_ext o). cbn [snd].
  repeat (split; [reflexivity|]). exists (tr (step x o)). split; reflexivity.
Qed.

Lemma run_tr_indep : forall ops (w1 w2 : world),
  st w1 = st w2 -> io w1 = io w2 -> mu w1 = mu w2 -> hs w1 = hs w2 ->
  st (run w1 ops) = st (run w2 ops) /\ io (run w1 ops) = io (run w2 ops) /\
  mu (run w1 ops) = mu (run w2 ops) /\ hs (run w1 ops) = hs (run w2 ops) /\
  exists new, tr (run w1 ops) = new ++ tr w1 /\ tr (run w2 ops) = new ++ tr w2.
Proof.
  intros ops [s1 i1 m1 h1 t1] [s2 i2 m2 h2 t2]. cbn [Fsm.st Fsm.io Fsm.mu Fsm.hs]. intros <- <- <- <-.
  set (x := mkWorld s1 i1 m1 h1 []).
  change (mkWorld s1 i1 m1 h1 t1) with (ext t1 x). change (mkWorld s1 i1 m1 h1 t2) with (ext t2 x).
  rewrite !run_ext. repeat (split; [reflexivity|]). exists (tr (run x ops)). split; reflexivity.
Qed.

(* 1b as asked: one more entry in the log changes nothing but the log *)
Lemma step_ignores_log : forall o e (w : world),
  st (step (logw e w) o) = st (step w o) /\ io (step (logw e w) o) = io (step w o) /\
  mu (step (logw e w) o) = mu (step w o) /\ hs (step (logw e w) o) = hs (step w o) /\
  snd (do_op (logw e w) o) = snd (do_op w o) /\
  exists new, tr (step w o) = new ++ tr w /\ tr (step (logw e w) o) = new ++ e :: tr w.
Proof.
  intros o e w.
  destruct (step_tr_indep o (logw e w) w eq_refl eq_refl eq_refl eq_refl)
    as (A & B & C & E & F & new & T1 & T2).
  repeat (split; [assumption|]). exists new. split; assumption.
Qed.

Lemma run_app : forall (w : world) a b, run w (a ++ b) = run (run w a) b.
Proof. intros. unfold Fsm.run. apply fold_left_app. Qed.

(* 1c *)
Lemma observers_commute_seq : forall q (w0 : world) ops1 ops2, is_observer q = true ->
  let w1 := run w0 ops1 in
  let wa := run w0 (ops1 ++ q :: ops2) in
  let wb := run w0 (ops1 ++ ops2) in
  st wa = st wb /\ io wa = io wb /\ mu wa = mu wb /\ hs wa = hs wb /\
  exists new, tr wb = new ++ tr w1 /\ tr wa = new ++ ERet q (obs_ans q (st w1)) :: tr w1.
Proof.
  intros q w0 ops1 ops2 Hq. cbv zeta. rewrite !run_app.
  change (run (run w0 ops1) (q :: ops2)) with (run (step (run w0 ops1) q) ops2).
  rewrite (observer_step q _ Hq). set (w1 := run w0 ops1).
  destruct (run_tr_indep ops2 (logw (ERet q (obs_ans q (st w1))) w1) w1 eq_refl eq_refl eq_refl eq_refl)
    as (A & B & C & E & new & T1 & T2).
  repeat (split; [assumption|]). exists new. split; assumption.
Qed.

End TraceIndep.

(* ================================================================== *)
(* PART 2.  The micro-step system with unlocked observers              *)
(* ================================================================== *)

Lemma snoc_split : forall A (a : list A) x l1 y l2, a ++ [x] = l1 ++ y :: l2 ->
  (l2 = [] /\ a = l1 /\ x = y) \/ (exists l2', l2 = l2' ++ [x] /\ a = l1 ++ y :: l2').
Proof.
  intros A a x l1 y l2 H. destruct l2 as [|z l2] using rev_ind.
  - left. apply app_inj_tail in H. tauto.
  - right. clear IHl2. change (l1 ++ y :: l2 ++ [z]) with (l1 ++ (y :: l2) ++ [z]) in H.
    rewrite app_assoc in H. apply app_inj_tail in H. destruct H as [-> ->]. eauto.
Qed.

Section Observers.
Variables (Sh Op : Type).
Variable body : Op -> Sh -> Sh.
Variables (Q R : Type).              (* observer requests and answers *)
Variable ans : Q -> Sh -> R.          (* what an observer computes from the shared state it sees *)

Notation conf := (conf Sh Op).

Inductive lab := LAcq (i : nat) (o : Op) | LObs (q : Q) (r : R).
Definition lacq (io : nat * Op) : lab := LAcq (fst io) (snd io).

(* one step: a micro-step of the lock protocol (Lemmas_C17b.lstep), or an observation, which is
   enabled in EVERY configuration and changes nothing *)
Inductive ostep : conf -> list lab -> conf -> Prop :=
  | ostep_lock : forall c l c', lstep body c l c' -> ostep c (map lacq l) c'
  | ostep_obs : forall c q, ostep c [LObs q (ans q (shared c))] c.

Inductive osteps (c0 : conf) : list lab -> conf -> Prop :=
  | osteps_refl : osteps c0 [] c0
  | osteps_snoc : forall labs c l c', osteps c0 labs c -> ostep c l c' -> osteps c0 (labs ++ l) c'.

Fixpoint acqs (labs : list lab) : list (nat * Op) :=
  match labs with
  | [] => []
  | LAcq i o :: r => (i, o) :: acqs r
  | LObs _ _ :: r => acqs r
  end.
Fixpoint obs (labs : list lab) : list (Q * R) :=
  match labs with
  | [] => []
  | LAcq _ _ :: r => obs r
  | LObs q a :: r => (q, a) :: obs r
  end.

(* the operation whose lock is held but whose body has not run yet (at most one) *)
Definition holding_of (c : conf) : list (nat * Op) :=
  match holder c with
  | Some i => match nth_error (threads c) i with
              | Some (_, Holding o) => [(i, o)]
              | _ => []
              end
  | None => []
  end.

(* sequential executions with observers: inl = a whole critical section, inr = an observation *)
Definition xop : Type := (nat * Op) + Q.
Fixpoint xacqs (xs : list xop) : list (nat * Op) :=
  match xs with [] => [] | inl io :: r => io :: xacqs r | inr _ :: r => xacqs r end.
Fixpoint xqs (xs : list xop) : list Q :=
  match xs with [] => [] | inl _ :: r => xqs r | inr q :: r => q :: xqs r end.
Definition xstep (p : Sh * list R) (x : xop) : Sh * list R :=
  match x with
  | inl io => (body (snd io) (fst p), snd p)
  | inr q => (fst p, snd p ++ [ans q (fst p)])
  end.
Definition xexec (xs : list xop) (s : Sh) : Sh * list R := fold_left xstep xs (s, []).

(* executable scheduler with observe actions, for the examples *)
Inductive act := Tick (i : nat) | Look (q : Q).
Fixpoint osched (c : conf) (acts : list act) : conf * list lab :=
  match acts with
  | [] => (c, [])
  | Tick i :: r => match tstep body c i with
                   | Some (c', l) => let (c'', l') := osched c' r in (c'', map lacq l ++ l')
                   | None => osched c r
                   end
  | Look q :: r => let (c'', l') := osched c r in (c'', LObs q (ans q (shared c)) :: l')
  end.

(* ---------- lists ---------- *)
Lemma acqs_app : forall a b, acqs (a ++ b) = acqs a ++ acqs b.
Proof. induction a as [|[i o|q r] a IH]; intro b; cbn; rewrite ?IH; reflexivity. Qed.
Lemma obs_app : forall a b, obs (a ++ b) = obs a ++ obs b.
Proof. induction a as [|[i o|q r] a IH]; intro b; cbn; rewrite ?IH; reflexivity. Qed.
Lemma acqs_lacq : forall l, acqs (map lacq l) = l.
Proof. induction l as [|[i o] l IH]; cbn; rewrite ?IH; reflexivity. Qed.
Lemma obs_lacq : forall l, obs (map lacq l) = [].
Proof. induction l as [|[i o] l IH]; cbn; rewrite ?IH; reflexivity. Qed.
Lemma xacqs_app : forall a b, xacqs (a ++ b) = xacqs a ++ xacqs b.
Proof. induction a as [|[io|q] a IH]; intro b; cbn; rewrite ?IH; reflexivity. Qed.
Lemma xqs_app : forall a b, xqs (a ++ b) = xqs a ++ xqs b.
Proof. induction a as [|[io|q] a IH]; intro b; cbn; rewrite ?IH; reflexivity. Qed.
Lemma xexec_snoc : forall xs x s, xexec (xs ++ [x]) s = xstep (xexec xs s) x.
Proof. intros. unfold xexec. rewrite fold_left_app. reflexivity. Qed.
Lemma fst_fold_xstep : forall xs p, fst (fold_left xstep xs p) = exec body (xacqs xs) (fst p).
Proof.
  induction xs as [|[io|q] xs IH]; intro p; cbn [fold_left xacqs]; [reflexivity| |]; rewrite IH; reflexivity.
Qed.
Lemma fst_xexec : forall xs s, fst (xexec xs s) = exec body (xacqs xs) s.
Proof. intros. unfold xexec. rewrite fst_fold_xstep. reflexivity. Qed.

(* ---------- basic facts about executions ---------- *)
Lemma osteps_one : forall c l c', ostep c l c' -> osteps c l c'.
Proof. intros c l c' H. exact (osteps_snoc c [] c l c' (osteps_refl c) H). Qed.

Lemma osteps_trans : forall a l1 b l2 c, osteps a l1 b -> osteps b l2 c -> osteps a (l1 ++ l2) c.
Proof.
  intros a l1 b l2 c H1 H2. induction H2 as [|labs c1 l c2 _ IH Hs].
  - now rewrite app_nil_r.
  - rewrite app_assoc. eapply osteps_snoc; eauto.
Qed.

Lemma lstep_label : forall c l c', lstep body c l c' -> l = [] \/ exists io, l = [io].
Proof. intros c l c' H. destruct H; eauto. Qed.

(* 2a: observers change nothing ... *)
Lemma observers_erase : forall c0 labs c, osteps c0 labs c -> msteps body c0 (acqs labs) c.
Proof.
  intros c0 labs c H. induction H as [|labs c l c' _ IH Hs].
  - constructor.
  - rewrite acqs_app. destruct Hs as [c l c' Hl | c q].
    + rewrite acqs_lacq. eapply msteps_snoc; eauto.
    + cbn [acqs]. rewrite app_nil_r. exact IH.
Qed.
(* ... and every execution of the lock protocol is an execution of the extended system *)
Lemma observers_embed : forall c0 lin c, msteps body c0 lin c -> osteps c0 (map lacq lin) c.
Proof.
  intros c0 lin c H. induction H as [|lin c l c' _ IH Hs].
  - constructor.
  - rewrite map_app. eapply osteps_snoc; [exact IH|]. constructor. exact Hs.
Qed.

(* an execution is cut at any of its observation labels; the observation is the answer computed
   from the shared state of the configuration at the cut *)
Lemma osteps_split_obs : forall c0 l1 q r l2 c, osteps c0 (l1 ++ LObs q r :: l2) c ->
  exists c1, osteps c0 l1 c1 /\ r = ans q (shared c1) /\ osteps c1 l2 c.
Proof.
  intros c0 l1 q r l2 c H. remember (l1 ++ LObs q r :: l2) as labs eqn:E.
  revert l2 E. induction H as [|labs c l c' H IH Hs]; intros l2 E.
  - destruct l1; discriminate E.
  - assert (K : forall l2', labs = l1 ++ LObs q r :: l2' ->
                exists c1, osteps c0 l1 c1 /\ r = ans q (shared c1) /\ osteps c1 (l2' ++ l) c').
    { intros l2' E'. destruct (IH l2' E') as (c1 & A & B & C). exists c1. split; [exact A|].
      split; [exact B|]. eapply osteps_snoc; eauto. }
    destruct Hs as [c l c' Hl | c q'].
    + destruct (lstep_label _ _ _ Hl) as [-> | [io ->]].
      * cbn [map] in *. rewrite app_nil_r in E. destruct (K l2 E) as (c1 & A & B & C).
        rewrite app_nil_r in C. eauto.
      * cbn [map] in *. apply snoc_split in E. destruct E as [(_ & _ & E) | (l2' & -> & E)].
        -- discriminate E.
        -- apply K. exact E.
    + apply snoc_split in E. destruct E as [(-> & -> & E) | (l2' & -> & E)].
      * injection E as -> <-. exists c. split; [exact H|]. split; [reflexivity|]. constructor.
      * apply K. exact E.
Qed.

(* ---------- the invariant: the sequential witness ---------- *)
(* where each observation of labs sits in the witness xs *)
Definition Pos (s0 : Sh) (xs : list xop) (labs : list lab) : Prop :=
  forall l1 q r l2, labs = l1 ++ LObs q r :: l2 ->
  exists x1 x2, xs = x1 ++ inr q :: x2 /\ xqs x1 = map fst (obs l1) /\
    (xacqs x1 = acqs l1 \/ exists io, acqs l1 = xacqs x1 ++ [io]) /\
    r = ans q (fst (xexec x1 s0)).

Definition J (s0 : Sh) (labs : list lab) (c : conf) : Prop :=
  exists xs, acqs labs = xacqs xs ++ holding_of c /\
             xqs xs = map fst (obs labs) /\
             snd (xexec xs s0) = map snd (obs labs) /\
             fst (xexec xs s0) = shared c /\
             Pos s0 xs labs.

Lemma Pos_mono : forall s0 xs labs ys l0 c c', lstep body c l0 c' ->
  Pos s0 xs labs -> Pos s0 (xs ++ ys) (labs ++ map lacq l0).
Proof.
  intros s0 xs labs ys l0 c c' Hl P l1 q r l2 E.
  assert (K : exists l2', labs = l1 ++ LObs q r :: l2').
  { destruct (lstep_label _ _ _ Hl) as [-> | [io ->]]; cbn [map] in E.
    - rewrite app_nil_r in E. eauto.
    - apply snoc_split in E. destruct E as [(_ & _ & E) | (l2' & _ & E)]; [discriminate E | eauto]. }
  destruct K as (l2' & E'). destruct (P _ _ _ _ E') as (x1 & x2 & A & B & C & F).
  exists x1, (x2 ++ ys). split; [|auto]. rewrite A, <- app_assoc. reflexivity.
Qed.

Lemma holding_of_le1 : forall c, holding_of c = [] \/ exists io, holding_of c = [io].
Proof.
  intro c. unfold holding_of. destruct (holder c); [|auto].
  destruct (nth_error (threads c) n) as [[r [|o|o]]|]; eauto.
Qed.

Lemma J_step : forall s0 labs c l c', J s0 labs c -> ostep c l c' -> J s0 (labs ++ l) c'.
Proof.
  intros s0 labs c l c' (xs & A & B & C & E & P) Hs.
  destruct Hs as [c l c' Hl | c q].
  - pose proof Hl as Hl'. destruct Hl as [c i o rest Hh Hn | c i o rest Hh Hn | c i o rest Hh Hn].
    + (* ACQUIRE *)
      pose proof (Pos_mono s0 xs labs [] _ _ _ Hl' P) as PP. cbn [map] in PP. rewrite ?app_nil_r in PP.
      exists xs. rewrite acqs_app, obs_app, acqs_lacq, obs_lacq, app_nil_r.
      assert (H0 : holding_of c = []) by (unfold holding_of; rewrite Hh; reflexivity).
      assert (H1 : holding_of (mkConf (shared c) (Some i) (set_nth i (rest, Holding o) (threads c))) = [(i, o)]).
      { unfold holding_of. cbn [holder threads]. erewrite nth_error_set_nth_eq by eauto. reflexivity. }
      rewrite H1, A, H0, app_nil_r. repeat (split; [assumption || reflexivity|]).
      exact PP.
    + (* BODY *)
      pose proof (Pos_mono s0 xs labs [inl (i, o)] _ _ _ Hl' P) as PP. cbn [map] in PP. rewrite ?app_nil_r in PP.
      exists (xs ++ [inl (i, o)]). rewrite acqs_app, obs_app, acqs_lacq, obs_lacq, !app_nil_r.
      assert (H0 : holding_of c = [(i, o)]) by (unfold holding_of; rewrite Hh, Hn; reflexivity).
      assert (H1 : holding_of (mkConf (body o (shared c)) (Some i) (set_nth i (rest, Done' o) (threads c))) = []).
      { unfold holding_of. cbn [holder threads]. erewrite nth_error_set_nth_eq by eauto. reflexivity. }
      rewrite H1, A, H0, xacqs_app, xqs_app, xexec_snoc, app_nil_r. cbn [xacqs xqs xstep fst snd shared].
      rewrite app_nil_r, E. repeat (split; [assumption || reflexivity|]).
      exact PP.
    + (* RELEASE *)
      pose proof (Pos_mono s0 xs labs [] _ _ _ Hl' P) as PP. cbn [map] in PP. rewrite ?app_nil_r in PP.
      exists xs. rewrite acqs_app, obs_app, acqs_lacq, obs_lacq, !app_nil_r.
      assert (H0 : holding_of c = []) by (unfold holding_of; rewrite Hh, Hn; reflexivity).
      assert (H1 : holding_of (mkConf (shared c) None (set_nth i (rest, Idle) (threads c))) = []) by reflexivity.
      rewrite ?H1, A, H0, ?app_nil_r. repeat (split; [assumption || reflexivity|]).
      exact PP.
  - (* OBSERVE *)
    exists (xs ++ [inr q]). rewrite acqs_app, obs_app, xacqs_app, xqs_app, xexec_snoc, !map_app.
    cbn [acqs obs xacqs xqs xstep fst snd map]. rewrite !app_nil_r, B, C, E.
    repeat (split; [assumption || reflexivity|]).
    intros l1 q' r l2 E'. apply snoc_split in E'. destruct E' as [(-> & -> & E') | (l2' & -> & E')].
    + injection E' as Eq Er. subst q' r. exists xs, []. split; [reflexivity|]. split; [exact B|]. split.
      * rewrite A. destruct (holding_of_le1 c) as [-> | [io ->]]; [left; now rewrite app_nil_r | right; eauto].
      * rewrite E. reflexivity.
    + destruct (P _ _ _ _ E') as (x1 & x2 & A' & B' & C' & F').
      exists x1, (x2 ++ [inr q]). split; [|auto]. rewrite A', <- app_assoc. reflexivity.
Qed.

Lemma J_osteps : forall c0 labs c, holder c0 = None -> osteps c0 labs c -> J (shared c0) labs c.
Proof.
  intros c0 labs c Hh H. induction H as [|labs c l c' _ IH Hs].
  - exists []. unfold holding_of. rewrite Hh. cbn. repeat (split; [reflexivity|]).
    intros l1 q r l2 E. destruct l1; discriminate E.
  - eapply J_step; eauto.
Qed.

(* holding_of and the phases, under mutual exclusion *)
Lemma holding_of_phase : forall c0 labs c, quiescent c0 -> osteps c0 labs c ->
  (forall i rest o, nth_error (threads c) i = Some (rest, Holding o) -> holding_of c = [(i, o)]) /\
  ((forall i rest o, nth_error (threads c) i <> Some (rest, Holding o)) -> holding_of c = []).
Proof.
  intros c0 labs c Hq H. apply observers_erase in H.
  destruct (C17_mutual_exclusion _ _ body c0 _ c Hq H) as [A _]. split.
  - intros i rest o Hn. unfold holding_of. rewrite (A i rest (Holding o) Hn) by discriminate.
    rewrite Hn. reflexivity.
  - intros Hno. unfold holding_of. destruct (holder c) as [i|]; [|reflexivity].
    destruct (nth_error (threads c) i) as [[rest [|o|o]]|] eqn:Hn; try reflexivity.
    exfalso. exact (Hno i rest o Hn).
Qed.

(* 2b *)
Theorem observers_commute : forall c0 l1 q r l2 c, quiescent c0 ->
  osteps c0 (l1 ++ LObs q r :: l2) c ->
  exists lin' c1,
    osteps c0 l1 c1 /\ osteps c1 l2 c /\
    r = ans q (exec body lin' (shared c0)) /\
    (lin' = acqs l1 \/ exists i o, acqs l1 = lin' ++ [(i, o)]) /\
    (forall i rest o, nth_error (threads c1) i = Some (rest, Holding o) -> acqs l1 = lin' ++ [(i, o)]) /\
    ((forall i rest o, nth_error (threads c1) i <> Some (rest, Holding o)) -> lin' = acqs l1).
Proof.
  intros c0 l1 q r l2 c Hq H. destruct (osteps_split_obs _ _ _ _ _ _ H) as (c1 & H1 & -> & H2).
  destruct (J_osteps c0 l1 c1 (proj1 Hq) H1) as (xs & A & _ & _ & E & _).
  destruct (holding_of_phase c0 l1 c1 Hq H1) as [P1 P2].
  exists (xacqs xs), c1. split; [exact H1|]. split; [exact H2|]. split.
  - rewrite <- fst_xexec, E. reflexivity.
  - split; [|split].
    + rewrite A. destruct (holding_of_le1 c1) as [-> | [[i o] ->]]; [left; now rewrite app_nil_r | right; eauto].
    + intros i rest o Hn. rewrite A, (P1 i rest o Hn). reflexivity.
    + intros Hno. rewrite A, (P2 Hno), app_nil_r. reflexivity.
Qed.

(* 2c *)
Theorem observers_linearizable : forall c0 labs c, quiescent c0 -> osteps c0 labs c -> all_idle c ->
  exists xs, xacqs xs = acqs labs /\ xqs xs = map fst (obs labs) /\
             snd (xexec xs (shared c0)) = map snd (obs labs) /\
             fst (xexec xs (shared c0)) = shared c /\
             Pos (shared c0) xs labs.
Proof.
  intros c0 labs c Hq H Hid. destruct (J_osteps c0 labs c (proj1 Hq) H) as (xs & A & B & C & E & P).
  exists xs. split; [|auto].
  assert (H0 : holding_of c = []).
  { unfold holding_of. destruct (holder c) as [i|]; [|reflexivity].
    destruct (nth_error (threads c) i) as [[rest ph]|] eqn:Hn; [|reflexivity].
    pose proof (proj1 (all_idle_nth _ _ c) Hid i _ Hn) as Hph. cbn in Hph. subst ph. reflexivity. }
  rewrite A, H0, app_nil_r. reflexivity.
Qed.

(* the scheduler is sound *)
Lemma osched_sound : forall acts c, osteps c (snd (osched c acts)) (fst (osched c acts)).
Proof.
  induction acts as [|[i|q] acts IH]; intro c; cbn [osched].
  - constructor.
  - destruct (tstep body c i) as [[c' l]|] eqn:Ht; [|apply IH].
    specialize (IH c'). destruct (osched c' acts) as [c'' l']. cbn [fst snd] in *.
    eapply osteps_trans; [apply osteps_one; constructor; eapply tstep_sound; eauto|exact IH].
  - specialize (IH c). destruct (osched c acts) as [c'' l']. cbn [fst snd] in *.
    exact (osteps_trans _ _ _ _ _ (osteps_one _ _ _ (ostep_obs c q)) IH).
Qed.

End Observers.

Arguments LAcq {Op Q R} i o.
Arguments LObs {Op Q R} q r.
Arguments lacq {Op Q R} io.
Arguments ostep {Sh Op} body {Q R} ans _ _ _.
Arguments osteps {Sh Op} body {Q R} ans c0 _ _.
Arguments acqs {Op Q R} labs.
Arguments obs {Op Q R} labs.
Arguments holding_of {Sh Op} c.
Arguments xacqs {Op Q} xs.
Arguments xqs {Op Q} xs.
Arguments xstep {Sh Op} body {Q R} ans p x.
Arguments xexec {Sh Op} body {Q R} ans xs s.
Arguments Tick {Q} i.
Arguments Look {Q} q.
Arguments osched {Sh Op} body {Q R} ans c acts.
Arguments Pos {Sh Op} body {Q R} ans s0 xs labs.

(* ================================================================== *)
(* PART 3.  Instance: the cAT model with unlocked observers            *)
(* ================================================================== *)
Section ObsInstance.
Variable D : desc.
Variables ioS muS hS : Type.
Variable io_read : ioS -> ioS * option N.
Variable io_write : ioS -> N -> ioS * bool.
Variable mu_lock : muS -> muS * bool.
Variable mu_unlock : muS -> muS * bool.
Variable h_call : hS -> hreq -> hS * hres.

Local Notation World := (world ioS muS hS).
Local Notation Step := (step D ioS muS hS io_read io_write mu_lock mu_unlock h_call).
Local Notation Run := (run D ioS muS hS io_read io_write mu_lock mu_unlock h_call).
Local Notation Body := (cat_body D ioS muS hS io_read io_write mu_lock mu_unlock h_call).
Local Notation st := (Fsm.st ioS muS hS).
Local Notation tr := (Fsm.tr ioS muS hS).
Local Notation logw := (Fsm.logw ioS muS hS).

(* what the two unlocked queries compute from the world they see *)
Definition cat_ans (q : op) (w : World) : Z := obs_ans D q (st w).

Lemma exec_run : forall (lin : list (nat * op)) (w0 : World), exec Body lin w0 = Run w0 (map snd lin).
Proof. intros. unfold exec, run, cat_body. apply fold_left_map_snd. Qed.

Theorem threads_observers : forall (w0 : World) tl l1 q r l2 c,
  is_observer q = true ->
  osteps Body cat_ans (start w0 tl) (l1 ++ LObs q r :: l2) c ->
  exists lin' c1,
    osteps Body cat_ans (start w0 tl) l1 c1 /\
    (lin' = acqs l1 \/ exists i o, acqs l1 = lin' ++ [(i, o)]) /\
    (forall i rest o, nth_error (threads c1) i = Some (rest, Holding o) -> acqs l1 = lin' ++ [(i, o)]) /\
    ((forall i rest o, nth_error (threads c1) i <> Some (rest, Holding o)) -> lin' = acqs l1) /\
    let ws := Run w0 (map snd lin') in
    r = obs_ans D q (st ws) /\
    Run w0 (map snd lin' ++ [q]) = logw (ERet q r) ws.
Proof.
  intros w0 tl l1 q r l2 c Hq H.
  destruct (observers_commute World op Body op Z cat_ans (start w0 tl) l1 q r l2 c
              (start_quiescent _ _ w0 tl) H) as (lin' & c1 & H1 & _ & Er & A & B & C).
  exists lin', c1. split; [exact H1|]. split; [exact A|]. split; [exact B|]. split; [exact C|].
  cbv zeta. cbn [shared start] in Er. rewrite exec_run in Er. unfold cat_ans in Er.
  split; [exact Er|].
  rewrite (run_app D ioS muS hS io_read io_write mu_lock mu_unlock h_call).
  change (Run (Run w0 (map snd lin')) [q]) with (Step (Run w0 (map snd lin')) q).
  rewrite (observer_step D ioS muS hS io_read io_write mu_lock mu_unlock h_call q _ Hq), Er.
  reflexivity.
Qed.

(* the exactly-once guarantee of C17_threads_exactly_once is untouched by the observers *)
Theorem threads_observers_exactly_once :
  forall (P : nat * ctype -> bool) m x mx h (tl : list (list op)) labs (c : conf World op),
  0 < d_cap D -> (forall m, snd (mu_unlock m) = true) ->
  let w0 := mkWorld ioS muS hS (init_state D m) x mx h [] in
  osteps Body cat_ans (start w0 tl) labs c -> all_idle c ->
  let w := shared c in
  w = Run w0 (map snd (acqs labs)) /\
  filter P (accepted (hist ioS muS hS w)) =
  filter P (popped (hist ioS muS hS w)) ++ filter P (ring_items D (st w)).
Proof.
  intros P m x mx h tl labs c Hcap Hun w0 H Hid.
  apply (C17_threads_exactly_once D ioS muS hS io_read io_write mu_lock mu_unlock h_call
           P m x mx h tl (acqs labs) c Hcap Hun); [|exact Hid].
  exact (observers_erase World op Body op Z cat_ans _ _ _ H).
Qed.

End ObsInstance.

(* ================================================================== *)
(* PART 4a.  The two flag setters: frame, and the setters among themselves *)
(* ================================================================== *)

Lemma upd_upd_neq : forall A (l : list A) i j x y, i <> j -> upd (upd l i x) j y = upd (upd l j y) i x.
Proof.
  induction l as [|a l IH]; intros [|i] [|j] x y H; cbn; try reflexivity; try congruence.
  rewrite IH by congruence. reflexivity.
Qed.
Lemma upd_upd_same : forall A (l : list A) i j x, upd (upd l i x) j x = upd (upd l j x) i x.
Proof.
  induction l as [|a l IH]; intros [|i] [|j] x; cbn; try reflexivity. rewrite IH. reflexivity.
Qed.

Section Setters.
Variable D : desc.
Variables ioS muS hS : Type.
Variable io_read : ioS -> ioS * option N.
Variable io_write : ioS -> N -> ioS * bool.
Variable mu_lock : muS -> muS * bool.
Variable mu_unlock : muS -> muS * bool.
Variable h_call : hS -> hreq -> hS * hres.

Local Notation World := (world ioS muS hS).
Local Notation Step := (step D ioS muS hS io_read io_write mu_lock mu_unlock h_call).
Local Notation st := (Fsm.st ioS muS hS).
Local Notation io := (Fsm.io ioS muS hS).
Local Notation mu := (Fsm.mu ioS muS hS).
Local Notation hs := (Fsm.hs ioS muS hS).
Local Notation tr := (Fsm.tr ioS muS hS).
Local Notation logw := (Fsm.logw ioS muS hS).
Local Notation upd_st := (Fsm.upd_st ioS muS hS).

(* 3a *)
Lemma setter_frame : forall (w : World),
  (forall i b, Step w (OSetCmdDisable i b) =
     logw (ERet (OSetCmdDisable i b) 0%Z)
          (upd_st (fun s => set_dis_cmd (set_flag (dis_cmd s) i b) s) w)) /\
  (forall g b, Step w (OSetGroupDisable g b) =
     logw (ERet (OSetGroupDisable g b) 0%Z)
          (upd_st (fun s => set_dis_grp (set_flag (dis_grp s) g b) s) w)).
Proof. intros w. split; reflexivity. Qed.

(* everything but the one table *)
Definition rest_cmd (s : state) := (k s, u s, cbuf s, ubuf s, mem s, dis_grp s, fault s, gL s, gS s, gR s).
Definition rest_grp (s : state) := (k s, u s, cbuf s, ubuf s, mem s, dis_cmd s, fault s, gL s, gS s, gR s).

Lemma setter_frame_fields : forall (w : World),
  (forall i b, let w' := Step w (OSetCmdDisable i b) in
     dis_cmd (st w') = set_flag (dis_cmd (st w)) i b /\ rest_cmd (st w') = rest_cmd (st w) /\
     io w' = io w /\ mu w' = mu w /\ hs w' = hs w /\ tr w' = ERet (OSetCmdDisable i b) 0%Z :: tr w) /\
  (forall g b, let w' := Step w (OSetGroupDisable g b) in
     dis_grp (st w') = set_flag (dis_grp (st w)) g b /\ rest_grp (st w') = rest_grp (st w) /\
     io w' = io w /\ mu w' = mu w /\ hs w' = hs w /\ tr w' = ERet (OSetGroupDisable g b) 0%Z :: tr w).
Proof. intros w. split; intros; repeat split; reflexivity. Qed.

(* a command-flag setter and a group-flag setter always commute (up to the order of the two log
   entries) *)
Lemma setters_cmd_grp_commute : forall (w : World) i b g b',
  let o1 := OSetCmdDisable i b in let o2 := OSetGroupDisable g b' in
  let wa := Step (Step w o1) o2 in let wb := Step (Step w o2) o1 in
  st wa = st wb /\ io wa = io wb /\ mu wa = mu wb /\ hs wa = hs wb /\
  tr wa = ERet o2 0%Z :: ERet o1 0%Z :: tr w /\ tr wb = ERet o1 0%Z :: ERet o2 0%Z :: tr w.
Proof. intros w i b g b'. repeat split; reflexivity. Qed.

Lemma setters_grp_grp_commute : forall (w : World) i b j b', i <> j \/ b = b' ->
  let o1 := OSetGroupDisable i b in let o2 := OSetGroupDisable j b' in
  let wa := Step (Step w o1) o2 in let wb := Step (Step w o2) o1 in
  st wa = st wb /\ io wa = io wb /\ mu wa = mu wb /\ hs wa = hs wb /\
  tr wa = ERet o2 0%Z :: ERet o1 0%Z :: tr w /\ tr wb = ERet o1 0%Z :: ERet o2 0%Z :: tr w.
Proof.
  intros w i b j b' H. cbv zeta. split; [|repeat split; reflexivity].
  assert (E : upd (upd (dis_grp (st w)) i b) j b' = upd (upd (dis_grp (st w)) j b') i b)
    by (destruct H as [H | <-]; [apply upd_upd_neq; exact H | apply upd_upd_same]).
  change (set_dis_grp (upd (upd (dis_grp (st w)) i b) j b') (st w) =
          set_dis_grp (upd (upd (dis_grp (st w)) j b') i b) (st w)).
  rewrite E. reflexivity.
Qed.

Lemma setters_cmd_cmd_commute : forall (w : World) i b j b', i <> j \/ b = b' ->
  let o1 := OSetCmdDisable i b in let o2 := OSetCmdDisable j b' in
  let wa := Step (Step w o1) o2 in let wb := Step (Step w o2) o1 in
  st wa = st wb /\ io wa = io wb /\ mu wa = mu wb /\ hs wa = hs wb /\
  tr wa = ERet o2 0%Z :: ERet o1 0%Z :: tr w /\ tr wb = ERet o1 0%Z :: ERet o2 0%Z :: tr w.
Proof.
  intros w i b j b' H. cbv zeta. split; [|repeat split; reflexivity].
  assert (E : upd (upd (dis_cmd (st w)) i b) j b' = upd (upd (dis_cmd (st w)) j b') i b)
    by (destruct H as [H | <-]; [apply upd_upd_neq; exact H | apply upd_upd_same]).
  change (set_dis_cmd (upd (upd (dis_cmd (st w)) i b) j b') (st w) =
          set_dis_cmd (upd (upd (dis_cmd (st w)) j b') i b) (st w)).
  rewrite E. reflexivity.
Qed.

End Setters.

(* ================================================================== *)
(* PART 4b.  Module SF: overwriting the two flag tables commutes with every function of Fsm.v *)
(* that does not read them (all but update_command, search_command, print_cmd_list)           *)
(* ================================================================== *)
Module SF.
Import ListNotations.
Local Open Scope nat_scope.
Definition SF (a g : list bool) (s : state) : state := set_dis_cmd a (set_dis_grp g s).

Definition blind (x : cstate) : bool :=
  match x with CS_UPDATE_COMMAND_STATE | CS_SEARCH_COMMAND | CS_PRINT_CMD => false | _ => true end.

Ltac pairapp x :=
  lazymatch x with
  | match _ with _ => _ end => fail
  | (_, _) => fail
  | _ => idtac
  end.
Ltac brk1 :=
  match goal with
  | |- context [fst ?x] => pairapp x; destruct x
  | |- context [snd ?x] => pairapp x; destruct x
  | |- context [match (match (match ?x with _ => _ end) with _ => _ end) with _ => _ end] =>
    destruct x
  | |- context [match (match ?x with _ => _ end) with _ => _ end] => destruct x
  | |- context [match ?x with _ => _ end] => destruct x
  end.

Section Main.
Variable D : desc.
Variables ioS muS hS : Type.
Variable io_read : ioS -> ioS * option N.
Variable io_write : ioS -> N -> ioS * bool.
Variable mu_lock : muS -> muS * bool.
Variable mu_unlock : muS -> muS * bool.
Variable h_call : hS -> hreq -> hS * hres.

Section AG.
Variables a g : list bool.
Local Notation F := (SF a g).

(* projections *)
Lemma sf_k : forall s, k (F s) = k s. Proof. reflexivity. Qed.
Lemma sf_u : forall s, u (F s) = u s. Proof. reflexivity. Qed.
Lemma sf_cbuf : forall s, cbuf (F s) = cbuf s. Proof. reflexivity. Qed.
Lemma sf_ubuf : forall s, ubuf (F s) = ubuf s. Proof. reflexivity. Qed.
Lemma sf_mem : forall s, mem (F s) = mem s. Proof. reflexivity. Qed.
Lemma sf_fault : forall s, fault (F s) = fault s. Proof. reflexivity. Qed.
Lemma sf_gL : forall s, gL (F s) = gL s. Proof. reflexivity. Qed.
Lemma sf_gS : forall s, gS (F s) = gS s. Proof. reflexivity. Qed.
Lemma sf_gR : forall s, gR (F s) = gR s. Proof. reflexivity. Qed.
Lemma sf_asz : forall s, asz (F s) = asz s. Proof. reflexivity. Qed.
Lemma sf_usz : forall s, usz (F s) = usz s. Proof. reflexivity. Qed.
Lemma sf_g_pos : forall f s, g_pos f (F s) = g_pos f s. Proof. reflexivity. Qed.
Lemma sf_g_buf : forall f s, g_buf f (F s) = g_buf f s. Proof. destruct f; reflexivity. Qed.
Lemma sf_g_cmd : forall f s, g_cmd f (F s) = g_cmd f s. Proof. reflexivity. Qed.
Lemma sf_g_var : forall f s, g_var f (F s) = g_var f s. Proof. reflexivity. Qed.
Lemma sf_g_index : forall f s, g_index f (F s) = g_index f s. Proof. reflexivity. Qed.
Lemma sf_g_bsz : forall f s, g_bsz f (F s) = g_bsz f s. Proof. destruct f; reflexivity. Qed.
Lemma sf_nl_chars : forall s, nl_chars (F s) = nl_chars s. Proof. reflexivity. Qed.
Lemma sf_is_busy : forall s, is_busy (F s) = is_busy s. Proof. reflexivity. Qed.
Lemma sf_is_hold : forall s, is_hold (F s) = is_hold s. Proof. reflexivity. Qed.

(* setters *)
Lemma sf_set_k : forall v s, set_k v (F s) = F (set_k v s). Proof. reflexivity. Qed.
Lemma sf_set_u : forall v s, set_u v (F s) = F (set_u v s). Proof. reflexivity. Qed.
Lemma sf_set_cbuf : forall v s, set_cbuf v (F s) = F (set_cbuf v s). Proof. reflexivity. Qed.
Lemma sf_set_ubuf : forall v s, set_ubuf v (F s) = F (set_ubuf v s). Proof. reflexivity. Qed.
Lemma sf_set_mem : forall v s, set_mem v (F s) = F (set_mem v s). Proof. reflexivity. Qed.
Lemma sf_set_fault : forall v s, set_fault v (F s) = F (set_fault v s). Proof. reflexivity. Qed.
Lemma sf_set_gL : forall v s, set_gL v (F s) = F (set_gL v s). Proof. reflexivity. Qed.
Lemma sf_set_gS : forall v s, set_gS v (F s) = F (set_gS v s). Proof. reflexivity. Qed.
Lemma sf_set_gR : forall v s, set_gR v (F s) = F (set_gR v s). Proof. reflexivity. Qed.
Lemma sf_setk_index : forall v s, setk_index v (F s) = F (setk_index v s). Proof. reflexivity. Qed.
Lemma sf_setk_partial : forall v s, setk_partial v (F s) = F (setk_partial v s). Proof. reflexivity. Qed.
Lemma sf_setk_length : forall v s, setk_length v (F s) = F (setk_length v s). Proof. reflexivity. Qed.
Lemma sf_setk_position : forall v s, setk_position v (F s) = F (setk_position v s). Proof. reflexivity. Qed.
Lemma sf_setk_write_size : forall v s, setk_write_size v (F s) = F (setk_write_size v s). Proof. reflexivity. Qed.
Lemma sf_setk_cmd : forall v s, setk_cmd v (F s) = F (setk_cmd v s). Proof. reflexivity. Qed.
Lemma sf_setk_var : forall v s, setk_var v (F s) = F (setk_var v s). Proof. reflexivity. Qed.
Lemma sf_setk_type : forall v s, setk_type v (F s) = F (setk_type v s). Proof. reflexivity. Qed.
Lemma sf_setk_char : forall v s, setk_char v (F s) = F (setk_char v s). Proof. reflexivity. Qed.
Lemma sf_setk_state : forall v s, setk_state v (F s) = F (setk_state v s). Proof. reflexivity. Qed.
Lemma sf_setk_cr : forall v s, setk_cr v (F s) = F (setk_cr v s). Proof. reflexivity. Qed.
Lemma sf_setk_hold : forall v s, setk_hold v (F s) = F (setk_hold v s). Proof. reflexivity. Qed.
Lemma sf_setk_hold_exit : forall v s, setk_hold_exit v (F s) = F (setk_hold_exit v s). Proof. reflexivity. Qed.
Lemma sf_setk_wbuf : forall v s, setk_wbuf v (F s) = F (setk_wbuf v s). Proof. reflexivity. Qed.
Lemma sf_setk_wstate : forall v s, setk_wstate v (F s) = F (setk_wstate v s). Proof. reflexivity. Qed.
Lemma sf_setk_wafter : forall v s, setk_wafter v (F s) = F (setk_wafter v s). Proof. reflexivity. Qed.
Lemma sf_setk_implicit : forall v s, setk_implicit v (F s) = F (setk_implicit v s). Proof. reflexivity. Qed.
Lemma sf_setu_state : forall v s, setu_state v (F s) = F (setu_state v s). Proof. reflexivity. Qed.
Lemma sf_setu_index : forall v s, setu_index v (F s) = F (setu_index v s). Proof. reflexivity. Qed.
Lemma sf_setu_position : forall v s, setu_position v (F s) = F (setu_position v s). Proof. reflexivity. Qed.
Lemma sf_setu_cmd : forall v s, setu_cmd v (F s) = F (setu_cmd v s). Proof. reflexivity. Qed.
Lemma sf_setu_var : forall v s, setu_var v (F s) = F (setu_var v s). Proof. reflexivity. Qed.
Lemma sf_setu_type : forall v s, setu_type v (F s) = F (setu_type v s). Proof. reflexivity. Qed.
Lemma sf_setu_wbuf : forall v s, setu_wbuf v (F s) = F (setu_wbuf v s). Proof. reflexivity. Qed.
Lemma sf_setu_wstate : forall v s, setu_wstate v (F s) = F (setu_wstate v s). Proof. reflexivity. Qed.
Lemma sf_setu_wafter : forall v s, setu_wafter v (F s) = F (setu_wafter v s). Proof. reflexivity. Qed.
Lemma sf_setu_ring : forall v s, setu_ring v (F s) = F (setu_ring v s). Proof. reflexivity. Qed.
Lemma sf_setu_tail : forall v s, setu_tail v (F s) = F (setu_tail v s). Proof. reflexivity. Qed.
Lemma sf_setu_head : forall v s, setu_head v (F s) = F (setu_head v s). Proof. reflexivity. Qed.
Lemma sf_setu_count : forall v s, setu_count v (F s) = F (setu_count v s). Proof. reflexivity. Qed.
Lemma sf_setg_pos : forall f v s, setg_pos f v (F s) = F (setg_pos f v s). Proof. destruct f; reflexivity. Qed.
Lemma sf_setg_buf : forall f v s, setg_buf f v (F s) = F (setg_buf f v s). Proof. destruct f; reflexivity. Qed.
Lemma sf_setg_var : forall f v s, setg_var f v (F s) = F (setg_var f v s). Proof. destruct f; reflexivity. Qed.
Lemma sf_setg_index : forall f v s, setg_index f v (F s) = F (setg_index f v s). Proof. destruct f; reflexivity. Qed.
Lemma sf_set_fault_flag : forall s, set_fault_flag (F s) = F (set_fault_flag s). Proof. reflexivity. Qed.
Lemma sf_reset_state : forall s, reset_state (F s) = F (reset_state s).
Proof. intros s. unfold reset_state. change (k (F s)) with (k s). destruct (k_hold (k s)); reflexivity. Qed.
Lemma sf_unsolicited_reset_state : forall s, unsolicited_reset_state (F s) = F (unsolicited_reset_state s).
Proof. reflexivity. Qed.


Hint Rewrite sf_k sf_u sf_cbuf sf_ubuf sf_mem sf_fault sf_gL sf_gS sf_gR sf_asz sf_usz
  sf_g_pos sf_g_buf sf_g_cmd sf_g_var sf_g_index sf_g_bsz sf_nl_chars sf_is_busy sf_is_hold
  sf_set_k sf_set_u sf_set_cbuf sf_set_ubuf sf_set_mem sf_set_fault sf_set_gL sf_set_gS sf_set_gR
  sf_setk_index sf_setk_partial sf_setk_length sf_setk_position sf_setk_write_size sf_setk_cmd
  sf_setk_var sf_setk_type sf_setk_char sf_setk_state sf_setk_cr sf_setk_hold sf_setk_hold_exit
  sf_setk_wbuf sf_setk_wstate sf_setk_wafter sf_setk_implicit
  sf_setu_state sf_setu_index sf_setu_position sf_setu_cmd sf_setu_var sf_setu_type sf_setu_wbuf
  sf_setu_wstate sf_setu_wafter sf_setu_ring sf_setu_tail sf_setu_head sf_setu_count
  sf_setg_pos sf_setg_buf sf_setg_var sf_setg_index sf_set_fault_flag
  sf_reset_state sf_unsolicited_reset_state : sfdb.

(* normalisation: push [SF a g] (and later [wsf]) outwards through setters, drop it under readers.
   Fast path = rewrite_strat (does not enter match branches); slow complete path = autorewrite,
   used only while some match scrutinee still mentions [SF a g _] / [wsf _]. *)
Ltac sfn := cbv beta iota zeta; cbn [fst snd]; autorewrite with sfdb.
Ltac sfq := cbv beta iota zeta; cbn [fst snd]; repeat rewrite_strat (topdown (hints sfdb)).
Ltac dirtyw x := fail.
Ltac dirty x := first [ lazymatch x with context [SF a g _] => idtac end | dirtyw x ].
Ltac clean x := tryif dirty x then fail else idtac.
Ltac brk1c :=
  match goal with
  | |- context [fst ?x] => pairapp x; clean x; destruct x
  | |- context [snd ?x] => pairapp x; clean x; destruct x
  | |- context [match (match (match ?x with _ => _ end) with _ => _ end) with _ => _ end] =>
    clean x; destruct x
  | |- context [match (match ?x with _ => _ end) with _ => _ end] => clean x; destruct x
  | |- context [match ?x with _ => _ end] => clean x; destruct x
  end.
Ltac has_dirty :=
  match goal with
  | |- context [match ?x with _ => _ end] => dirty x
  end.
Ltac qstep := sfq; tryif has_dirty then first [progress autorewrite with sfdb | brk1c] else brk1.
Ltac sfgo := repeat qstep; sfn; try reflexivity.

Lemma sf_ring_full : forall s, ring_full D (F s) = ring_full D s. Proof. reflexivity. Qed.
Lemma sf_ring_empty : forall s, ring_empty (F s) = ring_empty s. Proof. reflexivity. Qed.
Lemma sf_ring_items : forall s, ring_items D (F s) = ring_items D s. Proof. reflexivity. Qed.
Lemma sf_is_event_buffered : forall s ci t, is_event_buffered D (F s) ci t = is_event_buffered D s ci t.
Proof. reflexivity. Qed.
Lemma sf_get_processed : forall s f, get_processed (F s) f = get_processed s f. Proof. reflexivity. Qed.
Lemma sf_cmd_of : forall f s, cmd_of D f (F s) = cmd_of D f s. Proof. reflexivity. Qed.
Lemma sf_get_cur : forall f s, get_cur f (F s) = get_cur f s.
Proof. intros f s. unfold get_cur. now autorewrite with sfdb. Qed.
Hint Rewrite sf_ring_full sf_ring_empty sf_ring_items sf_is_event_buffered sf_get_processed
  sf_cmd_of sf_get_cur : sfdb.

Lemma sf_push : forall s ci t,
  push_unsolicited_cmd D (F s) ci t = (F (fst (push_unsolicited_cmd D s ci t)), snd (push_unsolicited_cmd D s ci t)).
Proof. intros. unfold push_unsolicited_cmd. sfgo. Qed.
Lemma sf_pop : forall s,
  pop_unsolicited_cmd D (F s) = (F (fst (pop_unsolicited_cmd D s)), snd (pop_unsolicited_cmd D s)).
Proof. intros. unfold pop_unsolicited_cmd. sfgo. Qed.
Lemma sf_start_flush_c : forall x s, start_flush_c x (F s) = F (start_flush_c x s). 
Proof. intros. unfold start_flush_c. sfgo. Qed.
Lemma sf_start_flush_u : forall x s, start_flush_u x (F s) = F (start_flush_u x s). 
Proof. intros. unfold start_flush_u. sfgo. Qed.
Lemma sf_start_flush_raw_c : forall x s, start_flush_raw_c x (F s) = F (start_flush_raw_c x s). 
Proof. intros. unfold start_flush_raw_c. sfgo. Qed.
Lemma sf_ack_error : forall s, ack_error (F s) = F (ack_error s). 
Proof. intros. unfold ack_error. sfgo. Qed.
Lemma sf_ack_ok : forall s, ack_ok (F s) = F (ack_ok s). 
Proof. intros. unfold ack_ok. sfgo. Qed.
Lemma sf_put_cur : forall f c s, put_cur f c (F s) = F (put_cur f c s).
Proof. intros. unfold put_cur. sfgo. Qed.
Hint Rewrite sf_push sf_pop sf_start_flush_c sf_start_flush_u sf_start_flush_raw_c sf_ack_error sf_ack_ok
  sf_put_cur : sfdb.
Lemma sf_print_string : forall f s t,
  print_string f (F s) t = (F (fst (print_string f s t)), snd (print_string f s t)).
Proof. intros. unfold print_string. sfgo. Qed.
Lemma sf_print_strings : forall f s t,
  print_strings f (F s) t = (F (fst (print_strings f s t)), snd (print_strings f s t)).
Proof. intros. unfold print_strings. sfgo. Qed.
Lemma sf_end_with_error : forall f s, end_with_error f (F s) = F (end_with_error f s).
Proof. intros. unfold end_with_error. sfgo. Qed.
Lemma sf_end_with_ok : forall f s, end_with_ok f (F s) = F (end_with_ok f s).
Proof. intros. unfold end_with_ok. sfgo. Qed.
Lemma sf_set_loop_state : forall f rd s, set_loop_state f rd (F s) = F (set_loop_state f rd s).
Proof. destruct f; reflexivity. Qed.
Lemma sf_start_flush_after_ok : forall f s, start_flush_after_ok f (F s) = F (start_flush_after_ok f s).
Proof. intros. unfold start_flush_after_ok. sfgo. Qed.
Lemma sf_start_flush_after : forall f x y s, start_flush_after f x y (F s) = F (start_flush_after f x y s).
Proof. intros. unfold start_flush_after. sfgo. Qed.
Hint Rewrite sf_print_string sf_print_strings sf_end_with_error sf_end_with_ok sf_set_loop_state
  sf_start_flush_after_ok sf_start_flush_after : sfdb.
Lemma sf_print_response_test : forall f s,
  print_response_test D f (F s) = (F (fst (print_response_test D f s)), snd (print_response_test D f s)).
Proof. intros. unfold print_response_test. sfgo. Qed.
Hint Rewrite sf_print_response_test : sfdb.
Lemma sf_spfta : forall f s,
  start_processing_format_test_args D f (F s) = F (start_processing_format_test_args D f s).
Proof. intros. unfold start_processing_format_test_args. sfgo. Qed.
Lemma sf_spfra : forall f s,
  start_processing_format_read_args D f (F s) = F (start_processing_format_read_args D f s).
Proof. intros. unfold start_processing_format_read_args. sfgo. Qed.
Lemma sf_next_format_var : forall f s,
  next_format_var D f (F s) = (F (fst (next_format_var D f s)), snd (next_format_var D f s)).
Proof. intros. unfold next_format_var. sfgo. Qed.
Lemma sf_set_cmd_state : forall s i v, set_cmd_state (F s) i v = F (set_cmd_state s i v).
Proof. intros. unfold set_cmd_state. sfgo. Qed.
Lemma sf_prepare_search_command : forall s, prepare_search_command (F s) = F (prepare_search_command s).
Proof. reflexivity. Qed.
Lemma sf_prepare_parse_command : forall s, prepare_parse_command (F s) = F (prepare_parse_command s).
Proof. reflexivity. Qed.
Hint Rewrite sf_spfta sf_spfra sf_next_format_var sf_set_cmd_state sf_prepare_search_command
  sf_prepare_parse_command : sfdb.
Lemma sf_command_found : forall s, command_found D (F s) = F (command_found D s).
Proof. intros. unfold command_found. sfgo. Qed.
Lemma sf_start_print_cmd_list : forall s, start_print_cmd_list D (F s) = F (start_print_cmd_list D s).
Proof. intros. unfold start_print_cmd_list. sfgo. Qed.
Lemma sf_enable_hold_state : forall s, enable_hold_state (F s) = F (enable_hold_state s).
Proof. reflexivity. Qed.
Lemma sf_hold_exit : forall s x, hold_exit (F s) x = (F (fst (hold_exit s x)), snd (hold_exit s x)).
Proof. intros. unfold hold_exit. sfgo. Qed.
Lemma sf_process_hold_state : forall s, process_hold_state (F s) = F (process_hold_state s).
Proof. intros. unfold process_hold_state. sfgo. Qed.
Lemma sf_piww : forall s, process_io_write_wait (F s) = F (process_io_write_wait s).
Proof. intros. unfold process_io_write_wait. sfgo. Qed.
Lemma sf_upiww : forall s, unsolicited_process_io_write_wait (F s) = F (unsolicited_process_io_write_wait s).
Proof. intros. unfold unsolicited_process_io_write_wait. sfgo. Qed.
Lemma sf_apply_poke : forall s p, apply_poke (F s) p = F (apply_poke s p).
Proof. intros. unfold apply_poke. sfgo. Qed.
Lemma sf_fold_poke : forall l s, fold_left apply_poke l (F s) = F (fold_left apply_poke l s).
Proof. induction l as [|p l IH]; intros s; [reflexivity|]. cbn [fold_left]. rewrite sf_apply_poke. apply IH. Qed.
Lemma sf_apply_edit : forall f e s, apply_edit f e (F s) = F (apply_edit f e s).
Proof. intros. unfold apply_edit. sfgo. Qed.
Hint Rewrite sf_command_found sf_start_print_cmd_list sf_enable_hold_state sf_hold_exit
  sf_process_hold_state sf_piww sf_upiww sf_apply_poke sf_fold_poke sf_apply_edit : sfdb.
Lemma sf_format_test_args : forall f s, format_test_args D f (F s) = F (format_test_args D f s).
Proof. intros. unfold format_test_args. sfgo. Qed.
Lemma sf_check_uns : forall s, check_unsolicited_buffers D (F s) = F (check_unsolicited_buffers D s).
Proof. intros. unfold check_unsolicited_buffers. sfgo. Qed.
Hint Rewrite sf_format_test_args sf_check_uns : sfdb.

(* ================= world level ================= *)
Local Notation world := (Fsm.world ioS muS hS).
Local Notation st := (Fsm.st ioS muS hS).
Local Notation io := (Fsm.io ioS muS hS).
Local Notation mu := (Fsm.mu ioS muS hS).
Local Notation hs := (Fsm.hs ioS muS hS).
Local Notation tr := (Fsm.tr ioS muS hS).
Local Notation set_st := (Fsm.set_st ioS muS hS).
Local Notation set_io := (Fsm.set_io ioS muS hS).
Local Notation set_mu := (Fsm.set_mu ioS muS hS).
Local Notation set_hs := (Fsm.set_hs ioS muS hS).
Local Notation logw := (Fsm.logw ioS muS hS).
Local Notation upd_st := (Fsm.upd_st ioS muS hS).
Local Notation busy := (Fsm.busy ioS muS hS).
Local Notation bracket := (Fsm.bracket D ioS muS hS mu_lock mu_unlock).
Local Notation api_trigger := (Fsm.api_trigger D ioS muS hS mu_lock mu_unlock).
Local Notation api_hold_exit := (Fsm.api_hold_exit D ioS muS hS mu_lock mu_unlock).
Local Notation apply_icall := (Fsm.apply_icall D ioS muS hS mu_lock mu_unlock).
Local Notation call_h := (Fsm.call_h D ioS muS hS mu_lock mu_unlock h_call).
Local Notation read_cmd_char := (Fsm.read_cmd_char ioS muS hS io_read).
Local Notation reading := (Fsm.reading ioS muS hS io_read).
Local Notation error_state := (Fsm.error_state ioS muS hS io_read).
Local Notation process_idle_state := (Fsm.process_idle_state ioS muS hS io_read).
Local Notation parse_prefix := (Fsm.parse_prefix ioS muS hS io_read).
Local Notation parse_command := (Fsm.parse_command ioS muS hS io_read).
Local Notation wait_read_acknowledge := (Fsm.wait_read_acknowledge ioS muS hS io_read).
Local Notation wait_test_acknowledge := (Fsm.wait_test_acknowledge D ioS muS hS io_read).
Local Notation parse_command_args := (Fsm.parse_command_args D ioS muS hS io_read).
Local Notation parse_write_args := (Fsm.parse_write_args D ioS muS hS mu_lock mu_unlock h_call).
Local Notation format_read_args := (Fsm.format_read_args D ioS muS hS mu_lock mu_unlock h_call).
Local Notation process_write_loop := (Fsm.process_write_loop D ioS muS hS mu_lock mu_unlock h_call).
Local Notation process_run_loop := (Fsm.process_run_loop D ioS muS hS mu_lock mu_unlock h_call).
Local Notation process_rt_loop := (Fsm.process_rt_loop D ioS muS hS mu_lock mu_unlock h_call).
Local Notation process_io_write := (Fsm.process_io_write ioS muS hS io_write).
Local Notation unsolicited_process_io_write := (Fsm.unsolicited_process_io_write ioS muS hS io_write).
Local Notation unsolicited_events_service := (Fsm.unsolicited_events_service D ioS muS hS io_write mu_lock mu_unlock h_call).
Local Notation cmd_service := (Fsm.cmd_service D ioS muS hS io_read io_write mu_lock mu_unlock h_call).
Local Notation service_body := (Fsm.service_body D ioS muS hS io_read io_write mu_lock mu_unlock h_call).
Local Notation api_service := (Fsm.api_service D ioS muS hS io_read io_write mu_lock mu_unlock h_call).
Local Notation api_is_busy := (Fsm.api_is_busy D ioS muS hS mu_lock mu_unlock).
Local Notation api_is_hold := (Fsm.api_is_hold D ioS muS hS mu_lock mu_unlock).
Local Notation api_is_full := (Fsm.api_is_full D ioS muS hS mu_lock mu_unlock).
Local Notation do_op := (Fsm.do_op D ioS muS hS io_read io_write mu_lock mu_unlock h_call).

Definition wsf (w : world) : world := upd_st (SF a g) w.
Local Notation W := wsf.

Lemma ws_st : forall w, st (W w) = F (st w). Proof. reflexivity. Qed.
Lemma ws_io : forall w, io (W w) = io w. Proof. reflexivity. Qed.
Lemma ws_mu : forall w, mu (W w) = mu w. Proof. reflexivity. Qed.
Lemma ws_hs : forall w, hs (W w) = hs w. Proof. reflexivity. Qed.
Lemma ws_tr : forall w, tr (W w) = tr w. Proof. reflexivity. Qed.
Lemma ws_set_io : forall v w, set_io v (W w) = W (set_io v w). Proof. reflexivity. Qed.
Lemma ws_set_mu : forall v w, set_mu v (W w) = W (set_mu v w). Proof. reflexivity. Qed.
Lemma ws_set_hs : forall v w, set_hs v (W w) = W (set_hs v w). Proof. reflexivity. Qed.
Lemma ws_logw : forall e w, logw e (W w) = W (logw e w). Proof. reflexivity. Qed.
Lemma ws_set_st : forall s w, set_st (F s) (W w) = W (set_st s w). Proof. reflexivity. Qed.
Hint Rewrite ws_st ws_io ws_mu ws_hs ws_tr ws_set_io ws_set_mu ws_set_hs ws_logw ws_set_st : sfdb.

Ltac dirtyw x ::= lazymatch x with context [wsf _] => idtac end.
Ltac wgo := unfold Fsm.busy, Fsm.upd_st; sfgo.

Lemma bracket_sf : forall body w,
  (forall w', st w' = st w -> body (W w') = (W (fst (body w')), snd (body w'))) ->
  bracket (W w) body = (W (fst (bracket w body)), snd (bracket w body)).
Proof.
  intros body w H. unfold Fsm.bracket. destruct (d_mutex D); [|apply H; reflexivity].
  rewrite ws_mu. destruct (mu_lock (mu w)) as [m1 ok]. rewrite ws_set_mu, ws_logw.
  destruct (negb ok); [reflexivity|]. rewrite H by reflexivity.
  destruct (body _) as [w2 z]. cbn [fst snd]. rewrite ws_mu.
  destruct (mu_unlock (mu w2)) as [m2 ok2]. rewrite ws_set_mu, ws_logw.
  destruct (negb ok2); reflexivity.
Qed.

Lemma api_trigger_sf : forall w ci t,
  api_trigger (W w) ci t = (W (fst (api_trigger w ci t)), snd (api_trigger w ci t)).
Proof. intros. unfold Fsm.api_trigger. apply bracket_sf. intros w' _. wgo. Qed.
Lemma api_hold_exit_sf : forall w x,
  api_hold_exit (W w) x = (W (fst (api_hold_exit w x)), snd (api_hold_exit w x)).
Proof. intros. unfold Fsm.api_hold_exit. apply bracket_sf. intros w' _. wgo. Qed.
Hint Rewrite api_trigger_sf api_hold_exit_sf : sfdb.
Lemma apply_icall_sf : forall w c, apply_icall (W w) c = W (apply_icall w c).
Proof. intros. unfold Fsm.apply_icall. wgo. Qed.
Lemma fold_icall_sf : forall l w, fold_left apply_icall l (W w) = W (fold_left apply_icall l w).
Proof. induction l as [|c l IH]; intros w; [reflexivity|]. cbn [fold_left]. rewrite apply_icall_sf. apply IH. Qed.
Hint Rewrite apply_icall_sf fold_icall_sf : sfdb.
Lemma call_h_sf : forall w q, call_h (W w) q = (W (fst (call_h w q)), snd (call_h w q)).
Proof. intros. unfold Fsm.call_h. wgo. Qed.
Lemma read_cmd_char_sf : forall w, read_cmd_char (W w) = (W (fst (read_cmd_char w)), snd (read_cmd_char w)).
Proof. intros. unfold Fsm.read_cmd_char. wgo. Qed.
Hint Rewrite call_h_sf read_cmd_char_sf : sfdb.
Lemma reading_sf : forall body, (forall ch s, body ch (F s) = F (body ch s)) ->
  forall w, reading (W w) body = (W (fst (reading w body)), snd (reading w body)).
Proof.
  intros body H w. unfold Fsm.reading. rewrite read_cmd_char_sf.
  destruct (read_cmd_char w) as [w1 got]. cbn [fst snd]. destruct (negb got); [reflexivity|].
  unfold Fsm.busy, Fsm.upd_st. cbn [fst snd]. rewrite ws_st, sf_k, H. reflexivity.
Qed.
Lemma error_state_sf : forall w, error_state (W w) = (W (fst (error_state w)), snd (error_state w)).
Proof. intros. unfold Fsm.error_state. apply reading_sf. intros. sfgo. Qed.
Lemma process_idle_state_sf : forall w, process_idle_state (W w) = (W (fst (process_idle_state w)), snd (process_idle_state w)).
Proof. intros. unfold Fsm.process_idle_state. apply reading_sf. intros. sfgo. Qed.
Lemma parse_prefix_sf : forall w, parse_prefix (W w) = (W (fst (parse_prefix w)), snd (parse_prefix w)).
Proof. intros. unfold Fsm.parse_prefix. apply reading_sf. intros. sfgo. Qed.
Lemma parse_command_sf : forall w, parse_command (W w) = (W (fst (parse_command w)), snd (parse_command w)).
Proof. intros. unfold Fsm.parse_command. apply reading_sf. intros. sfgo. Qed.
Lemma wait_read_acknowledge_sf : forall w, wait_read_acknowledge (W w) = (W (fst (wait_read_acknowledge w)), snd (wait_read_acknowledge w)).
Proof. intros. unfold Fsm.wait_read_acknowledge. apply reading_sf. intros. sfgo. Qed.
Lemma wait_test_acknowledge_sf : forall w, wait_test_acknowledge (W w) = (W (fst (wait_test_acknowledge w)), snd (wait_test_acknowledge w)).
Proof. intros. unfold Fsm.wait_test_acknowledge. apply reading_sf. intros. sfgo. Qed.
Lemma parse_command_args_sf : forall w, parse_command_args (W w) = (W (fst (parse_command_args w)), snd (parse_command_args w)).
Proof. intros. unfold Fsm.parse_command_args. apply reading_sf. intros. sfgo. Qed.

Hint Rewrite error_state_sf process_idle_state_sf parse_prefix_sf parse_command_sf wait_read_acknowledge_sf
  wait_test_acknowledge_sf parse_command_args_sf : sfdb.

Lemma process_write_loop_sf : forall w, process_write_loop (W w) = (W (fst (process_write_loop w)), snd (process_write_loop w)).
Proof. intros. unfold Fsm.process_write_loop. wgo. Qed.
Lemma process_run_loop_sf : forall w, process_run_loop (W w) = (W (fst (process_run_loop w)), snd (process_run_loop w)).
Proof. intros. unfold Fsm.process_run_loop. wgo. Qed.
Lemma process_io_write_sf : forall w, process_io_write (W w) = (W (fst (process_io_write w)), snd (process_io_write w)).
Proof. intros. unfold Fsm.process_io_write. wgo. Qed.
Lemma unsolicited_process_io_write_sf : forall w, unsolicited_process_io_write (W w) = (W (fst (unsolicited_process_io_write w)), snd (unsolicited_process_io_write w)).
Proof. intros. unfold Fsm.unsolicited_process_io_write. wgo. Qed.

Lemma format_read_args_sf : forall f w, format_read_args f (W w) = (W (fst (format_read_args f w)), snd (format_read_args f w)).
Proof. intros. unfold Fsm.format_read_args. wgo. Qed.
Lemma process_rt_loop_sf : forall rd f w, process_rt_loop rd f (W w) = (W (fst (process_rt_loop rd f w)), snd (process_rt_loop rd f w)).
Proof. intros. unfold Fsm.process_rt_loop. wgo. Qed.
Lemma parse_write_args_sf : forall w, parse_write_args (W w) = (W (fst (parse_write_args w)), snd (parse_write_args w)).
Proof. intros. unfold Fsm.parse_write_args. wgo. Qed.

Hint Rewrite process_write_loop_sf process_run_loop_sf process_io_write_sf unsolicited_process_io_write_sf
  format_read_args_sf process_rt_loop_sf parse_write_args_sf : sfdb.

Theorem uns_service_sf : forall w,
  unsolicited_events_service (W w) = (W (fst (unsolicited_events_service w)), snd (unsolicited_events_service w)).
Proof.
  intros. unfold Fsm.unsolicited_events_service. rewrite !ws_st, !sf_u, sf_ring_empty, sf_ring_items.
  destruct (u_state (u (st w))); wgo.
Qed.

Theorem cmd_service_sf : forall w, blind (k_state (k (st w))) = true ->
  cmd_service (W w) = (W (fst (cmd_service w)), snd (cmd_service w)).
Proof.
  intros w H. unfold Fsm.cmd_service. rewrite ws_st, sf_k.
  destruct (k_state (k (st w))); try discriminate H; wgo.
Qed.

Theorem service_body_sf : forall w, blind (k_state (k (st w))) = true ->
  service_body (W w) = (W (fst (service_body w)), snd (service_body w)).
Proof.
  intros w H. unfold Fsm.service_body. rewrite uns_service_sf.
  assert (H1 : blind (k_state (k (st (fst (unsolicited_events_service w))))) = true).
  { destruct (Lemmas_C11.C11_frame_uns_proof D ioS muS hS io_write mu_lock mu_unlock h_call w) as [_ K].
    cbv zeta in K. destruct K as [K|K]; rewrite K; [exact H|reflexivity]. }
  destruct (unsolicited_events_service w) as [w1 us]. cbn [fst snd] in *.
  rewrite cmd_service_sf by exact H1.
  destruct (cmd_service w1) as [w2 z]. cbn [fst snd]. rewrite ws_st, sf_u.
  destruct (_ || _); reflexivity.
Qed.

Lemma api_service_sf : forall w, blind (k_state (k (st w))) = true ->
  api_service (W w) = (W (fst (api_service w)), snd (api_service w)).
Proof.
  intros w H. unfold Fsm.api_service. apply bracket_sf. intros w' E. apply service_body_sf. rewrite E. exact H.
Qed.
Lemma api_is_busy_sf : forall w, api_is_busy (W w) = (W (fst (api_is_busy w)), snd (api_is_busy w)).
Proof. intros. unfold Fsm.api_is_busy. apply bracket_sf. intros w' _. reflexivity. Qed.
Lemma api_is_hold_sf : forall w, api_is_hold (W w) = (W (fst (api_is_hold w)), snd (api_is_hold w)).
Proof. intros. unfold Fsm.api_is_hold. apply bracket_sf. intros w' _. reflexivity. Qed.
Lemma api_is_full_sf : forall w, api_is_full (W w) = (W (fst (api_is_full w)), snd (api_is_full w)).
Proof. intros. unfold Fsm.api_is_full. apply bracket_sf. intros w' _. reflexivity. Qed.

Definition op_blind (o : op) (s : state) : bool :=
  match o with
  | OService => blind (k_state (k s))
  | OSetCmdDisable _ _ | OSetGroupDisable _ _ => false
  | _ => true
  end.

Theorem do_op_sf_noservice : forall w o, o <> OService -> op_blind o (st w) = true ->
  do_op (W w) o = (W (fst (do_op w o)), snd (do_op w o)).
Proof.
  intros w o N H. destruct o; cbn [op_blind] in H; try discriminate H; cbn [Fsm.do_op].
  - congruence.
  - apply api_trigger_sf.
  - apply api_hold_exit_sf.
  - apply api_is_busy_sf.
  - apply api_is_hold_sf.
  - apply api_is_full_sf.
  - reflexivity.
  - reflexivity.
Qed.

Theorem do_op_sf : forall w o, op_blind o (st w) = true ->
  do_op (W w) o = (W (fst (do_op w o)), snd (do_op w o)).
Proof.
  intros w o H. destruct o; try (apply do_op_sf_noservice; [discriminate|exact H]).
  apply api_service_sf. exact H.
Qed.

End AG.

End Main.

End SF.

(* ================================================================== *)
(* PART 4c.  A flag setter commutes with every operation that does not read the flags *)
(* ================================================================== *)
Section SetterOps.
Variable D : desc.
Variables ioS muS hS : Type.
Variable io_read : ioS -> ioS * option N.
Variable io_write : ioS -> N -> ioS * bool.
Variable mu_lock : muS -> muS * bool.
Variable mu_unlock : muS -> muS * bool.
Variable h_call : hS -> hreq -> hS * hres.

Local Notation World := (world ioS muS hS).
Local Notation DoOp := (do_op D ioS muS hS io_read io_write mu_lock mu_unlock h_call).
Local Notation Step := (step D ioS muS hS io_read io_write mu_lock mu_unlock h_call).
Local Notation st := (Fsm.st ioS muS hS).
Local Notation io := (Fsm.io ioS muS hS).
Local Notation mu := (Fsm.mu ioS muS hS).
Local Notation hs := (Fsm.hs ioS muS hS).
Local Notation tr := (Fsm.tr ioS muS hS).
Local Notation logw := (Fsm.logw ioS muS hS).
Local Notation upd_st := (Fsm.upd_st ioS muS hS).
Local Notation wsf := (SF.wsf ioS muS hS).

Lemma SF_eta : forall s, SF.SF (dis_cmd s) (dis_grp s) s = s.
Proof. intros []. reflexivity. Qed.
Lemma wsf_eta : forall (w : World), wsf (dis_cmd (st w)) (dis_grp (st w)) w = w.
Proof. intros [[] x m h t]. reflexivity. Qed.

Lemma step_sf : forall a g (w : World) o, SF.op_blind o (st w) = true ->
  Step (wsf a g w) o = wsf a g (Step w o).
Proof.
  intros a g w o H. unfold Fsm.step.
  rewrite (SF.do_op_sf D ioS muS hS io_read io_write mu_lock mu_unlock h_call a g w o H).
  destruct (DoOp w o). reflexivity.
Qed.

(* an operation that does not read the flags does not write them either *)
Lemma blind_keeps_flags : forall (w : World) o, SF.op_blind o (st w) = true ->
  dis_cmd (st (Step w o)) = dis_cmd (st w) /\ dis_grp (st (Step w o)) = dis_grp (st w).
Proof.
  intros w o H. pose proof (step_sf (dis_cmd (st w)) (dis_grp (st w)) w o H) as E.
  rewrite wsf_eta in E. apply (f_equal st) in E.
  change (st (wsf (dis_cmd (st w)) (dis_grp (st w)) (Step w o)))
    with (SF.SF (dis_cmd (st w)) (dis_grp (st w)) (st (Step w o))) in E.
  split.
  - transitivity (dis_cmd (SF.SF (dis_cmd (st w)) (dis_grp (st w)) (st (Step w o))));
      [f_equal; exact E | reflexivity].
  - transitivity (dis_grp (SF.SF (dis_cmd (st w)) (dis_grp (st w)) (st (Step w o))));
      [f_equal; exact E | reflexivity].
Qed.

(* overwriting the flag tables (and logging something) before a flag-blind operation *)
Lemma sf_commutes : forall a g e (w : World) o, SF.op_blind o (st w) = true ->
  let W := logw e (wsf a g w) in
  st (Step W o) = SF.SF a g (st (Step w o)) /\ io (Step W o) = io (Step w o) /\
  mu (Step W o) = mu (Step w o) /\ hs (Step W o) = hs (Step w o) /\
  snd (DoOp W o) = snd (DoOp w o) /\
  exists new, tr (Step w o) = new ++ tr w /\ tr (Step W o) = new ++ e :: tr w.
Proof.
  intros a g e w o H. cbv zeta.
  destruct (step_ignores_log D ioS muS hS io_read io_write mu_lock mu_unlock h_call o e (wsf a g w))
    as (A & B & C & E & F & new & T1 & T2).
  rewrite (step_sf a g w o H) in A, B, C, E, T1.
  rewrite (SF.do_op_sf D ioS muS hS io_read io_write mu_lock mu_unlock h_call a g w o H) in F.
  repeat (split; [assumption|]). exists new. split; assumption.
Qed.

Lemma cmd_setter_is_sf : forall (w : World) i b,
  Step w (OSetCmdDisable i b) =
  logw (ERet (OSetCmdDisable i b) 0%Z) (wsf (set_flag (dis_cmd (st w)) i b) (dis_grp (st w)) w).
Proof. intros [[] x m h t] i b. reflexivity. Qed.
Lemma grp_setter_is_sf : forall (w : World) g b,
  Step w (OSetGroupDisable g b) =
  logw (ERet (OSetGroupDisable g b) 0%Z) (wsf (dis_cmd (st w)) (set_flag (dis_grp (st w)) g b) w).
Proof. intros [[] x m h t] g b. reflexivity. Qed.

(* 3b *)
Theorem setter_commutes_cmd : forall (w : World) i b o, SF.op_blind o (st w) = true ->
  let sc := OSetCmdDisable i b in
  let wa := Step (Step w sc) o in let wb := Step (Step w o) sc in
  st wa = st wb /\ io wa = io wb /\ mu wa = mu wb /\ hs wa = hs wb /\
  snd (DoOp (Step w sc) o) = snd (DoOp w o) /\
  exists new, tr (Step w o) = new ++ tr w /\
              tr wa = new ++ ERet sc 0%Z :: tr w /\ tr wb = ERet sc 0%Z :: new ++ tr w.
Proof.
  intros w i b o H. cbv zeta. rewrite (cmd_setter_is_sf w).
  destruct (sf_commutes (set_flag (dis_cmd (st w)) i b) (dis_grp (st w))
              (ERet (OSetCmdDisable i b) 0%Z) w o H) as (A & B & C & E & F & new & T1 & T2).
  destruct (blind_keeps_flags w o H) as [K1 K2].
  rewrite (cmd_setter_is_sf (Step w o)), K1, K2.
  split; [exact A|]. split; [exact B|]. split; [exact C|]. split; [exact E|]. split; [exact F|].
  exists new. split; [exact T1|]. split; [exact T2|].
  cbn [Fsm.tr Fsm.logw]. change (tr (wsf _ _ (Step w o))) with (tr (Step w o)). rewrite T1. reflexivity.
Qed.

Theorem setter_commutes_grp : forall (w : World) g b o, SF.op_blind o (st w) = true ->
  let sc := OSetGroupDisable g b in
  let wa := Step (Step w sc) o in let wb := Step (Step w o) sc in
  st wa = st wb /\ io wa = io wb /\ mu wa = mu wb /\ hs wa = hs wb /\
  snd (DoOp (Step w sc) o) = snd (DoOp w o) /\
  exists new, tr (Step w o) = new ++ tr w /\
              tr wa = new ++ ERet sc 0%Z :: tr w /\ tr wb = ERet sc 0%Z :: new ++ tr w.
Proof.
  intros w g b o H. cbv zeta. rewrite (grp_setter_is_sf w).
  destruct (sf_commutes (dis_cmd (st w)) (set_flag (dis_grp (st w)) g b)
              (ERet (OSetGroupDisable g b) 0%Z) w o H) as (A & B & C & E & F & new & T1 & T2).
  destruct (blind_keeps_flags w o H) as [K1 K2].
  rewrite (grp_setter_is_sf (Step w o)), K1, K2.
  split; [exact A|]. split; [exact B|]. split; [exact C|]. split; [exact E|]. split; [exact F|].
  exists new. split; [exact T1|]. split; [exact T2|].
  cbn [Fsm.tr Fsm.logw]. change (tr (wsf _ _ (Step w o))) with (tr (Step w o)). rewrite T1. reflexivity.
Qed.

End SetterOps.
