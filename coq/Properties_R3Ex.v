(* Properties_R3Ex.v -- non-vacuity of the round-3 headline theorems BY INSTANTIATION: each Example
   below applies the theorem itself (not a computation of its conclusion) to a concrete world and
   discharges every hypothesis; the concrete facts next to it are computed (vm_compute).

     A. Properties_C11s.C11_stream       on a world whose handler oracle satisfies no_uhold in EVERY
                                         oracle state (oracle state: a call counter), mutex configured,
                                         failing locks / unlocks, refused reads and writes.
        (The scripted oracle s_call of Script.v does NOT satisfy the universally quantified no_uhold:
         A0 below; this is why A uses a different oracle.)
     B. Properties_C14w.C14_hold_window  on a MUTEX world: refused release, trigger, disable flag,
                                         queries with failing lock / unlock, 40 service calls.
     C. Properties_C13o.C13_observers_exact on a run with one event in progress and one queued.
     D. ghost counters of the C11s example run against the number of result-code units started.

   No new theorem here; nothing is assumed. *)
From Coq Require Import List NArith ZArith Bool Arith Lia.
From CatV Require Import Bytes Defs Codec Spec Fsm Script ResolveDefs SchedDefs GlueDefs TextDefs TraceDefs.
From CatV Require Import Skel SkelSim Lemmas_C03b Lemmas_C11 Lemmas_C11s Lemmas_C13 Lemmas_C13o Lemmas_C14w.
From CatV Require Properties_C11s Properties_C14w Properties_C13o.
Import ListNotations.
Local Open Scope nat_scope.

(* ====================================================================================== *)
(* A. C11_stream                                                                           *)
(* ====================================================================================== *)
Module A.
Import Properties_C11s.

(* A0. the scripted handler oracle does not satisfy no_uhold for all oracle states: a script whose
   next answer to the event-side read handler of command 0 is HOLD *)
Example scripted_oracle_not_no_uhold :
  ~ (forall hs q, unsol_req q = true -> r_code (snd (s_call hs q)) <> RC_HOLD).
Proof.
  intro H. apply (H [((1, 0, 0), [mkHres RC_HOLD None [] []])] (HRead UNSOL 0 [] 0 0) eq_refl). reflexivity.
Qed.

(* the oracle: state = number of calls so far, every handler answers DATA_OK (so a READ response or an
   event is continued: the handler is called again), never HOLD *)
Definition hc (n : nat) (q : hreq) : nat * hres := (S n, mkHres RC_DATA_OK None [] []).

(* no_uhold, in every oracle state and for every request *)
Example hc_no_uhold : forall hs q, unsol_req q = true -> r_code (snd (hc hs q)) <> RC_HOLD.
Proof. intros hs q _. cbn. discriminate. Qed.

(* one command "+X" with run and read handlers, MUTEX configured, queue capacity 2 *)
Definition Dm : desc :=
  mkDesc [[mkCmd [43; 88]%N None false true true false [] false false false]] [] 16 None 0%N 2 true.
(* input "AT+X?\r\n" "AT+X\r\n" "AT+X?\n"; the second read attempt is refused; 22 write attempts, 11 of
   them refused *)
Definition x0 : sio :=
  mkSio [65;84;43;88;63;13;10; 65;84;43;88;13;10; 65;84;43;88;63;10]%N [true; false; true]
        [false; true; false; false; true; true; false; true; false; true; false; false; false; true;
         true; true; false; true; true; false; false; true].
(* the 3rd and the 7th lock fail, the 2nd and the 5th unlock fail *)
Definition mx0 : smu := mkSmu [true; true; false; true; true; true; false] [true; false; true; true; false].
Definition ops : list op :=
  [OTrigger 0 T_READ] ++ repeat OService 14 ++ [OTrigger 0 T_READ; OTrigger 0 T_READ] ++
  repeat OService 44 ++ [OTrigger 0 T_READ] ++ repeat OService 130.

Notation w0 := (mkWorld sio smu nat (init_state Dm []) x0 mx0 0 []).
Notation wE := (Fsm.run Dm sio smu nat s_read s_write s_lock s_unlock hc w0 ops).
Notation started := (Lemmas_C11s.started Dm sio smu nat s_read s_write s_lock s_unlock hc).

(* the units started in the run: 4 by the event machine, 5 by the command machine, alternating *)
Definition st_units : list (fsm * list N) := Eval vm_compute in started w0 ops.
Example st_units_def : started w0 ops = st_units.
Proof. vm_compute. reflexivity. Qed.
Example st_units_val : st_units =
  [(UNSOL, [10; 43; 88; 61]); (ATCMD, [13; 10; 43; 88; 61; 13; 10]);
   (UNSOL, [13; 10; 43; 88; 61]); (ATCMD, [13; 10; 79; 75; 13; 10]);
   (UNSOL, [13; 10; 43; 88; 61]); (ATCMD, [13; 10; 79; 75; 13; 10]);
   (UNSOL, [13; 10; 43; 88; 61]); (ATCMD, [10; 43; 88; 61; 10]); (ATCMD, [10; 79; 75; 10])]%N.
Proof. reflexivity. Qed.

(* the run is not trivial: it ends idle with all input consumed, 53 bytes accepted, 2 locks and 2 unlocks
   failed, 11 writes refused, the handlers were called 7 times *)
Example run_facts :
  k_state (k (Fsm.st _ _ _ wE)) = CS_IDLE /\ u_state (u (Fsm.st _ _ _ wE)) = US_IDLE /\
  inq (Fsm.io _ _ _ wE) = [] /\ wr_sched (Fsm.io _ _ _ wE) = [] /\
  length (accepted_wr (hist _ _ _ wE)) = 53 /\
  length (filter (fun e => match e with ELock false => true | _ => false end) (Fsm.tr _ _ _ wE)) = 2 /\
  length (filter (fun e => match e with EUnlock false => true | _ => false end) (Fsm.tr _ _ _ wE)) = 2 /\
  length (filter (fun e => match e with EWr _ _ false => true | _ => false end) (Fsm.tr _ _ _ wE)) = 11 /\
  Fsm.hs _ _ _ wE = 7 /\
  length (units_of UNSOL st_units) = 4 /\ length (units_of ATCMD st_units) = 5.
Proof. vm_compute. repeat split; reflexivity. Qed.

(* C11_stream APPLIED: its two premises by computation, no_uhold by hc_no_uhold *)
Example C11_stream_instance :
  exists crs, length crs = length st_units /\ accepted_wr (hist _ _ _ wE) = stream st_units crs.
Proof.
  assert (HA : k_state (k (Fsm.st _ _ _ wE)) <> CS_FLUSH) by (vm_compute; discriminate).
  assert (HB : u_state (u (Fsm.st _ _ _ wE)) <> US_FLUSH) by (vm_compute; discriminate).
  exact (C11_stream Dm sio smu nat s_read s_write s_lock s_unlock hc hc_no_uhold [] x0 mx0 0 ops HA HB).
Qed.

(* ... and C11_stream_per_producer on the same run *)
Example C11_stream_per_producer_instance :
  proj ATCMD (accepted_wr (hist _ _ _ wE)) = concat (map snd (units_of ATCMD st_units)) /\
  exists ucrs, length ucrs = length (units_of UNSOL st_units) /\
    proj UNSOL (accepted_wr (hist _ _ _ wE)) =
      concat (map (fun p => snd (fst p) ++ nl_text (snd p)) (combine (units_of UNSOL st_units) ucrs)).
Proof.
  assert (HA : k_state (k (Fsm.st _ _ _ wE)) <> CS_FLUSH) by (vm_compute; discriminate).
  assert (HB : u_state (u (Fsm.st _ _ _ wE)) <> US_FLUSH) by (vm_compute; discriminate).
  exact (C11_stream_per_producer Dm sio smu nat s_read s_write s_lock s_unlock hc hc_no_uhold [] x0 mx0 0 ops HA HB).
Qed.

(* the witness, by computation: the closing newlines of the four event units are "\r\n" "\r\n" "\n" "\n" *)
Example C11_stream_witness :
  accepted_wr (hist _ _ _ wE) = stream st_units [true; false; true; false; false; false; false; false; false].
Proof. vm_compute. reflexivity. Qed.
End A.
Print Assumptions A.C11_stream_instance.
Print Assumptions A.C11_stream_per_producer_instance.

(* ====================================================================================== *)
(* B. C14_hold_window on a mutex world                                                     *)
(* ====================================================================================== *)
Module B.
Import Properties_C14w.
Module Ex := Lemmas_C14w.C14w_examples.

(* the held parser of Ex.wM (descriptor Ex.Dm: mutex configured), input "AT\n" queued;
   read schedule [true; false; true], lock schedule: 1st fails, 5th fails; unlock schedule: 2nd fails *)
Definition w0 : sworld :=
  mkWorld sio smu shs (Fsm.st _ _ _ Ex.wM) (mkSio [65; 84; 10]%N [] [true; false; true])
          (mkSmu [false; true; true; true; false; true] [true; false; true]) [] [].
(* cat_hold_exit(0)  -- refused: the lock fails (ST_MUTEX_LOCK), not a release;
   cat_trigger_unsolicited_read(+X) -- accepted; its unit is written during the hold;
   cat_set_command_disable(+X); cat_is_hold -- the unlock fails; cat_is_busy;
   40 cat_service calls -- the first does not get the lock, one write is refused;
   cat_is_hold -- HOLD *)
Definition ops : list op :=
  [OHoldExit 0; OTrigger 0 T_READ; OSetCmdDisable 0 true; OIsHold; OIsBusy] ++ repeat OService 40 ++ [OIsHold].
Notation w1 := (Fsm.run Ex.Dm sio smu shs s_read s_write s_lock s_unlock s_call w0 ops).
Definition evs : list event :=
  Eval vm_compute in firstn (length (Fsm.tr _ _ _ w1) - length (Fsm.tr _ _ _ w0)) (Fsm.tr _ _ _ w1).

(* the premises of the theorem, and the size of the instance *)
Example window_premises :
  d_mutex Ex.Dm = true /\
  k_state (k (Fsm.st _ _ _ w0)) = CS_HOLD /\ k_hold (k (Fsm.st _ _ _ w0)) = true /\
  Defs.k_hold_exit (k (Fsm.st _ _ _ w0)) = 0%Z /\
  Fsm.tr _ _ _ w1 = evs ++ Fsm.tr _ _ _ w0 /\ existsb release_ev evs = false /\ length evs = 159.
Proof. vm_compute. repeat split; reflexivity. Qed.

(* what the mutex and the io oracle did: the answers of the API calls that were not BUSY, the failed
   lock / unlock events, and the bytes written (the event unit, complete) *)
Example window_scenario :
  filter (fun e => match e with
                   | ERet OService 1 => false
                   | ERet _ _ | ELock false | EUnlock false | EWr _ _ false => true
                   | _ => false end) evs =
  [ERet OIsHold ST_HOLD; EWr UNSOL 43 false; ERet OService ST_MUTEX_LOCK; ELock false;
   ERet OIsBusy ST_BUSY; ERet OIsHold ST_MUTEX_UNLOCK; EUnlock false;
   ERet (OSetCmdDisable 0 true) ST_OK; ERet (OTrigger 0 T_READ) ST_OK;
   ERet (OHoldExit 0) ST_MUTEX_LOCK; ELock false] /\
  length (filter (fun e => match e with ERet OService 1 => true | _ => false end) evs) = 39 /\
  output_of (Fsm.tr _ _ _ w1) =
    ([10; 43; 88; 61] ++ Lemmas_E2E.E2E_examples.args0 ++ [10])%N /\
  inq (Fsm.io _ _ _ w1) = [65; 84; 10]%N /\
  dis_cmd (Fsm.st _ _ _ w1) <> dis_cmd (Fsm.st _ _ _ w0).
Proof. vm_compute. repeat split; try reflexivity. discriminate. Qed.

(* C14_hold_window APPLIED to the whole run (all eleven conclusions) *)
Example C14_hold_window_instance :
  let s := Fsm.st _ _ _ w1 in
  k s = k (Fsm.st _ _ _ w0) /\ cbuf s = cbuf (Fsm.st _ _ _ w0) /\
  gL s = gL (Fsm.st _ _ _ w0) /\ gS s = gS (Fsm.st _ _ _ w0) /\ gR s = gR (Fsm.st _ _ _ w0) /\
  (forall r, ~ In (ERd r) evs) /\
  (forall ch ok, ~ In (EWr ATCMD ch ok) evs) /\
  (forall q c, In (ECall q c) evs -> ev_req q = true) /\
  (forall r, In (ERet OService r) evs -> r = ST_BUSY \/ r = ST_MUTEX_LOCK \/ r = ST_MUTEX_UNLOCK) /\
  (forall r, In (ERet OIsBusy r) evs -> r = ST_BUSY \/ r = ST_MUTEX_LOCK \/ r = ST_MUTEX_UNLOCK) /\
  (forall r, In (ERet OIsHold r) evs -> r = ST_HOLD \/ r = ST_MUTEX_LOCK \/ r = ST_MUTEX_UNLOCK).
Proof.
  destruct window_premises as (_ & HA & HB & HC & HT & HR & _).
  exact (C14_hold_window Ex.Dm sio smu shs s_read s_write s_lock s_unlock s_call w0 ops evs HA HB HC HT HR).
Qed.
End B.
Print Assumptions B.C14_hold_window_instance.

(* ====================================================================================== *)
(* C. C13_observers_exact: one event in progress, one queued                               *)
(* ====================================================================================== *)
Module C.
Import Properties_C13o.

(* three triggers (the third refused) and one cat_service call *)
Definition ops1 : list op := otrig ++ [OService].

Example ops1_valid : Forall (valid_op (oD false)) ops1.
Proof.
  unfold ops1, otrig. cbn [app].
  repeat (apply Forall_cons; [first [exact I | split; [cbn; lia | auto]]|]). apply Forall_nil.
Qed.

(* C13_observers_exact APPLIED: event (0, READ) is in progress, (1, TEST) is queued; the query for
   (1, READ) -- which matches neither -- and cat_get_processed_command are decided by the theorem *)
Example C13_observers_exact_instance :
  let w := oRun false (mkSmu [] []) ops1 in
  in_progress sio smu unit w = [(0, T_READ)] /\ ring_items (oD false) (Fsm.st _ _ _ w) = [(1, T_TEST)] /\
  (forall ci t, is_event_buffered (oD false) (Fsm.st _ _ _ w) ci t = ST_BUSY <->
     exists it, In it ([(0, T_READ)] ++ [(1, T_TEST)]) /\ ev_match ci t it = true) /\
  get_processed (Fsm.st _ _ _ w) UNSOL = 0%Z.
Proof.
  intro w.
  assert (E1 : in_progress sio smu unit w = [(0, T_READ)]) by (vm_compute; reflexivity).
  assert (E2 : ring_items (oD false) (Fsm.st _ _ _ w) = [(1, T_TEST)]) by (vm_compute; reflexivity).
  split; [exact E1|]. split; [exact E2|].
  destruct C13o_hyps as (Hc & Hv & _).
  assert (H : (forall ci t, is_event_buffered (oD false) (Fsm.st _ _ _ w) ci t = ST_BUSY <->
                 exists it, In it (in_progress sio smu unit w ++ ring_items (oD false) (Fsm.st _ _ _ w)) /\
                            ev_match ci t it = true) /\
              get_processed (Fsm.st _ _ _ w) UNSOL =
                match in_progress sio smu unit w with [] => (-1)%Z | it :: _ => Z.of_nat (fst it) end)
    by exact (C13_observers_exact (oD false) sio smu unit s_read s_write s_lock s_unlock k_call
                [] (mkSio [] [] []) (mkSmu [] []) tt ops1 Hc Hv ops1_valid).
  destruct H as [HA HB]. rewrite E1, E2 in HA. rewrite E1 in HB. split; [exact HA | exact HB].
Qed.

(* hence, by the theorem and not by running the observer: (1, READ) is not buffered, (1, any),
   (0, READ), (1, TEST) are; (0, TEST) is not *)
Example C13_observers_exact_consequences :
  let s := Fsm.st _ _ _ (oRun false (mkSmu [] []) ops1) in
  is_event_buffered (oD false) s 1 T_READ <> ST_BUSY /\ is_event_buffered (oD false) s 0 T_TEST <> ST_BUSY /\
  is_event_buffered (oD false) s 1 T_NONE = ST_BUSY /\ is_event_buffered (oD false) s 0 T_READ = ST_BUSY /\
  is_event_buffered (oD false) s 1 T_TEST = ST_BUSY.
Proof.
  destruct C13_observers_exact_instance as (_ & _ & H & _). cbv zeta.
  assert (No : forall ci t, (forall it, In it ([(0, T_READ)] ++ [(1, T_TEST)]) -> ev_match ci t it = false) ->
     is_event_buffered (oD false) (Fsm.st _ _ _ (oRun false (mkSmu [] []) ops1)) ci t <> ST_BUSY).
  { intros ci t Hn Hb. apply H in Hb. destruct Hb as (it & Hin & Hm). rewrite (Hn it Hin) in Hm. discriminate. }
  assert (Yes : forall ci t it, In it ([(0, T_READ)] ++ [(1, T_TEST)]) -> ev_match ci t it = true ->
     is_event_buffered (oD false) (Fsm.st _ _ _ (oRun false (mkSmu [] []) ops1)) ci t = ST_BUSY).
  { intros ci t it Hin Hm. apply H. exists it. split; assumption. }
  split; [apply No; intros it [<-|[<-|[]]]; reflexivity|].
  split; [apply No; intros it [<-|[<-|[]]]; reflexivity|].
  split; [apply (Yes 1 T_NONE (1, T_TEST)); [right; left; reflexivity | reflexivity]|].
  split; [apply (Yes 0 T_READ (0, T_READ)); [left; reflexivity | reflexivity]|].
  apply (Yes 1 T_TEST (1, T_TEST)); [right; left; reflexivity | reflexivity].
Qed.
End C.
Print Assumptions C.C13_observers_exact_instance.
Print Assumptions C.C13_observers_exact_consequences.

(* ====================================================================================== *)
(* D. the example run of Properties_C11s.v: ghost counters against result-code units       *)
(* ====================================================================================== *)
Module D.
Import Properties_C11s.

(* the sessions of the command machine that carry a result code: those that continue in CS_AFTER_RESET *)
Definition rc_starts (l : list (fsm * state)) : list (fsm * state) :=
  filter (fun x => fsm_beq (fst x) ATCMD && cstate_beq (k_wafter (k (snd x))) CS_AFTER_RESET) l.

(* after n operations of the run: (gS, gR, result-code units started, k_state).  gS (result code
   prepared) runs ahead of the start of the unit by at most one (at n = 40 the unit is prepared but
   the channel is not yet owned), gR (reset after the result code) equals, at each of these points, the
   number of result-code units started; at the end all three are 3 = the number of lines *)
Example counters_vs_result_units :
  map (fun n => let w := s_run ex_w0 (firstn n ex_ops) in
                (gS (Fsm.st _ _ _ w), gR (Fsm.st _ _ _ w),
                 length (rc_starts (s_starts ex_w0 (firstn n ex_ops))), k_state (k (Fsm.st _ _ _ w))))
      [0; 20; 30; 40; 60; 80; 100; 140; 176] =
  [(0, 0, 0, CS_IDLE); (0, 0, 0, CS_FLUSH_WAIT); (0, 0, 0, CS_FLUSH); (1, 0, 0, CS_FLUSH_WAIT);
   (1, 1, 1, CS_PARSE_COMMAND_CHAR); (2, 2, 2, CS_IDLE); (3, 3, 3, CS_IDLE); (3, 3, 3, CS_IDLE);
   (3, 3, 3, CS_IDLE)].
Proof. vm_compute. reflexivity. Qed.
End D.
