(* EvSkel.v — the event skeleton: which trace events one step of each machine can produce, per
   state.  Used by C01 (reads only between lines), C09/C02 (callbacks belong to the selected
   command), C11 (bytes are written only by the machine that owns the flush), C14 (no read while
   held).  Definitions only; EvSkelSim.v proves that the model obeys it. *)
From Coq Require Import List NArith ZArith Bool Arith.
From CatV Require Import Bytes Defs Codec Fsm Skel SkelInv.
Import ListNotations.
Local Open Scope nat_scope.

(* events produced by API calls made from inside a handler *)
Definition is_inner_ev (e : event) : bool :=
  match e with EInner _ _ | ELock _ | EUnlock _ => true | _ => false end.

(* the events of one callback, newest first: inner API calls on top of the call record *)
Definition call_evs (q : hreq) (evs : list event) : Prop :=
  exists code inner, evs = inner ++ [ECall q code] /\ forallb is_inner_ev inner = true.

Section EvSkel.
Variable D : desc.

(* new events (newest first) of one command-machine step taken in state s *)
Definition cmd_evs (s : state) (evs : list event) : Prop :=
  match k_state (k s) with
  | CS_IDLE | CS_ERROR | CS_PARSE_PREFIX | CS_PARSE_COMMAND_CHAR | CS_WAIT_READ_ACK
  | CS_WAIT_TEST_ACK | CS_PARSE_COMMAND_ARGS => exists r, evs = [ERd r]
  | CS_PARSE_WRITE_ARGS =>
    evs = [] \/ exists ci ws stored, k_cmd (k s) = Some ci /\ call_evs (VWrite ci (k_var (k s)) ws stored) evs
  | CS_FORMAT_READ_ARGS =>
    evs = [] \/ exists ci, k_cmd (k s) = Some ci /\ call_evs (VRead ATCMD ci (k_var (k s))) evs
  | CS_WRITE_LOOP =>
    evs = [] \/ exists ci, k_cmd (k s) = Some ci /\
      call_evs (HWrite ci (firstn (S (k_length (k s))) (cbuf s)) (k_length (k s)) (k_index (k s))) evs
  | CS_RUN_LOOP => evs = [] \/ exists ci, k_cmd (k s) = Some ci /\ call_evs (HRun ci) evs
  | CS_READ_LOOP =>
    evs = [] \/ exists ci, k_cmd (k s) = Some ci /\
      call_evs (HRead ATCMD ci (firstn (S (k_position (k s))) (cbuf s)) (k_position (k s)) (length (cbuf s))) evs
  | CS_TEST_LOOP =>
    evs = [] \/ exists ci, k_cmd (k s) = Some ci /\
      call_evs (HTest ATCMD ci (firstn (S (k_position (k s))) (cbuf s)) (k_position (k s)) (length (cbuf s))) evs
  | CS_FLUSH =>
    evs = [] \/ exists ch ok, evs = [EWr ATCMD ch ok] /\ ch <> 0%N /\
      wbuf_char (k_wbuf (k s)) (cbuf s) (k_position (k s)) = Some ch
  | _ => evs = []
  end.

(* new events of one event-machine step taken in state s *)
Definition uns_evs (s : state) (evs : list event) : Prop :=
  match u_state (u s) with
  | US_IDLE => evs = [] \/ exists it rest, ring_items D s = it :: rest /\ evs = [EPop (fst it) (snd it)]
  | US_FORMAT_READ_ARGS =>
    evs = [] \/ exists ci, u_cmd (u s) = Some ci /\ call_evs (VRead UNSOL ci (u_var (u s))) evs
  | US_READ_LOOP =>
    evs = [] \/ exists ci, u_cmd (u s) = Some ci /\
      call_evs (HRead UNSOL ci (firstn (S (u_position (u s))) (ubuf s)) (u_position (u s)) (length (ubuf s))) evs
  | US_TEST_LOOP =>
    evs = [] \/ exists ci, u_cmd (u s) = Some ci /\
      call_evs (HTest UNSOL ci (firstn (S (u_position (u s))) (ubuf s)) (u_position (u s)) (length (ubuf s))) evs
  | US_FLUSH =>
    evs = [] \/ exists ch ok, evs = [EWr UNSOL ch ok] /\ ch <> 0%N /\
      wbuf_char (u_wbuf (u s)) (ubuf s) (u_position (u s)) = Some ch
  | _ => evs = []
  end.
End EvSkel.
