(* Properties_C17d.v -- property C17 (thread safety), continuation of Properties_C17c.v.

   (a) C17_threads_observers_exactly_once of Properties_C17c.v keeps the hypothesis
         forall m, snd (mu_unlock m) = true,
       which is FALSE of the scripted unlock s_unlock of Script.v (C17d_old_hypothesis_false).
       Here the same conclusion on an invariant MI of the mutex state, exactly as
       Properties_Inv.v Section InvMu (C17_threads_observers_exactly_once_inv), and the corollary
       for the scripted oracles, hypothesis unlock_never_fails mx = true
       (C17_threads_observers_exactly_once_scripted).
   (b) An instance with a mutex configured, a non-trivial unlock schedule, two producer threads
       and unlocked observers (C17d_ex_b_...).
   (c) The two flag stores (cmd->disable = b, group->disable = b: cat.h:254, cat.h:264, no lock)
       at thread level.  The micro-step system of Lemmas_C17b / Lemmas_C17c extended by a step
       SET u that replaces the shared state s by store u s in ONE step and touches neither the
       lock nor the phases of the threads.
         unguarded system (fstep false): SET is enabled in every configuration;
         guarded system   (fstep true) : SET u is enabled only if the operation o that has
             taken the lock and has not run its BODY yet (if there is one) satisfies
             blind u o (shared c) = true   (body o, run from this state, does not read what u
             writes).  Nothing is required while a thread is between BODY and RELEASE.
       C17_setters_linearizable: for GUARDED executions the label order (every critical section
       at its ACQUIRE, every store where it happened) is a linearisation: its sequential
       execution lexec labs gives the shared state (up to an equivalence eqv that bodies and
       stores respect); at configurations with an operation o in phase Holding it gives the
       state after the pending body o.
       C17_setters_exact: for ALL executions, guarded or not, there is a sequential list xs
       (critical sections at their BODY step, stores and observations where they happened) with
       shared c = lexec xs (shared c0) exactly, and every observation answers ans q (state after
       the prefix of xs before it).  SPos says where the stores / observations sit: after the
       critical sections acquired before them, except possibly the last one (its body had not
       run).
       cAT instance (C17_threads_setters...): store u w := step w (setter_op u), blind u o w :=
       SF.op_blind o (st w) of Properties_C17c.v, eqv := equality of the state and of the three
       oracle states.  The LOGS are not equal in general: the setter's own entry ERet (setter) 0
       sits in the real log where the store happened and in the log of the label-order run after
       the entries of the operation in flight (C17d_ex_guarded_logs_differ).  All other log
       entries are the same, in the same order (Properties_C17c.C17_setter_commutes_cmd and _grp).
       C17_threads_setters_exactly_once_inv: the stores, racing or not, do not disturb the
       exactly-once guarantee (they never touch the event queue).
       The guard is necessary: C17d_ex_guard_necessary (an unguarded execution in which the store
       falls between ACQUIRE and BODY of a service call in CS_SEARCH_COMMAND: the real final
       state is CS_COMMAND_NOT_FOUND, the label-order run gives CS_COMMAND_FOUND).

   WHAT (c) DOES NOT SAY.  As everywhere in C17b / C17c the BODY of a critical section is ONE
   atomic model step, so a store is seen by a whole body or not at all.  In C the body of a
   cat_service call in state CS_UPDATE_COMMAND_STATE, CS_SEARCH_COMMAND or CS_PRINT_CMD calls
   is_command_disable (cat.c:748-775; from get_cmd_state cat.c:784, used by update_command
   cat.c:816 and search_command cat.c:937; and from print_cmd_list cat.c:2092) ONCE, for the
   one command self->index, and that call loads two different bytes at two different times:
   group->disable (cat.c:765) and then cmd->disable (cat.c:768).  So (i) a single one-byte
   store racing with such a body is loaded before or after the store, which the model renders
   as the store before or after the whole body -- but the two accesses are plain (non-atomic)
   accesses to the same byte from two threads, a data race in the C11 sense, and nothing here
   says otherwise; (ii) TWO stores racing with ONE body, first the group flag then the command
   flag, can be seen as: group flag old, command flag new -- which corresponds to no position
   of the two stores around an atomic body.  That is not expressible at this granularity.
   The lookup over ALL commands is not inside one critical section: search_command handles one
   index per cat_service call (the model does the same), so a flag stored in the middle of a
   lookup lies between two critical sections and is an ordinary interleaving of this model
   (seen by the rest of the lookup only; Properties_C17c.C17c_ex_setter_blind_necessary).
   The guard (SF.op_blind) is exactly the condition under which the body in flight does not
   call is_command_disable at all: k_state at the start of the call is none of the three
   states above (and the event machine never enters them, Lemmas_C11.C11_frame_uns).  So for
   GUARDED executions the atomic-body abstraction loses nothing with respect to the flags: no
   load of a flag byte is concurrent with a store.  The guard is a condition on the
   application (do not store a flag while a service call that may be in a lookup / list state
   is running, or take the lock around the store); the library does not enforce it. *)
From Coq Require Import List NArith ZArith Bool Arith.
From CatV Require Import Bytes Defs Codec Fsm Script TraceDefs Lemmas_C17b Lemmas_C17c Lemmas_C17d.
From CatV Require Lemmas_Inv Properties_C17c.
Import ListNotations.
Local Open Scope nat_scope.

Local Notation unlock_never_fails := Lemmas_Inv.unlock_never_fails.

(* ================================================================== *)
(* (a) exactly-once with unlocked observers, on an invariant of the mutex state *)
(* ================================================================== *)
Section ObserversInv.
Variable D : desc.
Variables ioS muS hS : Type.
Variable io_read : ioS -> ioS * option N.
Variable io_write : ioS -> N -> ioS * bool.
Variable mu_lock : muS -> muS * bool.
Variable mu_unlock : muS -> muS * bool.
Variable h_call : hS -> hreq -> hS * hres.
Variable MI : muS -> Prop.
Hypothesis MI_lock : forall m, MI m -> MI (fst (mu_lock m)).
Hypothesis MI_unlock : forall m, MI m -> MI (fst (mu_unlock m)) /\ snd (mu_unlock m) = true.

Local Notation world := (Fsm.world ioS muS hS).
Local Notation st := (Fsm.st ioS muS hS).
Local Notation step := (Fsm.step D ioS muS hS io_read io_write mu_lock mu_unlock h_call).
Local Notation run := (Fsm.run D ioS muS hS io_read io_write mu_lock mu_unlock h_call).

Theorem C17_threads_observers_exactly_once_inv :
  forall (P : nat * ctype -> bool) m x mx h (tl : list (list op)) labs (c : conf world op),
  0 < d_cap D -> (d_mutex D = false \/ MI mx) ->
  let w0 := mkWorld ioS muS hS (init_state D m) x mx h [] in
  osteps (fun o w => step w o) (fun q w => obs_ans D q (st w)) (start w0 tl) labs c -> all_idle c ->
  let w := shared c in
  w = run w0 (map snd (acqs labs)) /\
  filter P (accepted (hist ioS muS hS w)) =
  filter P (popped (hist ioS muS hS w)) ++ filter P (ring_items D (st w)).
Proof.
  exact (Lemmas_C17d.threads_observers_exactly_once_inv D ioS muS hS io_read io_write mu_lock mu_unlock
           h_call MI MI_lock MI_unlock).
Qed.

End ObserversInv.
Print Assumptions C17_threads_observers_exactly_once_inv.

(* the definition of the scripted condition, restated *)
Example unlock_never_fails_def : forall mx,
  unlock_never_fails mx = forallb (fun b : bool => b) (unlock_sched mx).
Proof. reflexivity. Qed.

(* the scripted oracles of Script.v (MI := unlock_never_fails, an invariant by
   Properties_Inv.scripted_mutex_invariant) *)
Theorem C17_threads_observers_exactly_once_scripted :
  forall D (P : nat * ctype -> bool) m x mx h (tl : list (list op)) labs (c : conf sworld op),
  0 < d_cap D -> (d_mutex D = false \/ unlock_never_fails mx = true) ->
  let w0 := sinit D m x mx h in
  osteps (fun o w => step D sio smu shs s_read s_write s_lock s_unlock s_call w o)
         (fun q w => obs_ans D q (st sio smu shs w)) (start w0 tl) labs c -> all_idle c ->
  let w := shared c in
  w = run D sio smu shs s_read s_write s_lock s_unlock s_call w0 (map snd (acqs labs)) /\
  filter P (accepted (hist sio smu shs w)) =
  filter P (popped (hist sio smu shs w)) ++ filter P (ring_items D (st sio smu shs w)).
Proof. exact Lemmas_C17d.threads_observers_exactly_once_scripted. Qed.
Print Assumptions C17_threads_observers_exactly_once_scripted.

(* the hypothesis  forall m, snd (mu_unlock m) = true  of
   Properties_C17c.C17_threads_observers_exactly_once is false of the scripted unlock *)
Example C17d_old_hypothesis_false : exists m, snd (s_unlock m) = false.
Proof. exists (mkSmu [] [false]). reflexivity. Qed.

(* ================================================================== *)
(* (c) unlocked stores, generic                                         *)
(* ================================================================== *)
Section Generic.
Variables (Sh Op : Type).
Variable body : Op -> Sh -> Sh.
Variables (Q R : Type).
Variable ans : Q -> Sh -> R.
Variable U : Type.
Variable store : U -> Sh -> Sh.
Variable blind : U -> Op -> Sh -> bool.

(* the step relation, restated: a step of the lock protocol; an observation (no condition,
   changes nothing); a store (changes the shared state only; condition only if guard = true) *)
Example fstep_def : forall guard (c c' : conf Sh Op) l,
  fstep body ans store blind guard c l c' <->
  (exists l0, lstep body c l0 c' /\ l = map (fun io => SAcq (fst io) (snd io)) l0) \/
  (exists q, l = [SObs q (ans q (shared c))] /\ c' = c) \/
  (exists u, l = [SSet u] /\ c' = mkConf (store u (shared c)) (holder c) (threads c) /\
     (guard = true ->
      forall i rest o, holder c = Some i -> nth_error (threads c) i = Some (rest, Holding o) ->
                       blind u o (shared c) = true)).
Proof.
  intros guard c c' l. split.
  - intros H. destruct H as [c l c' H | c q | c u H].
    + left. exists l. split; [exact H | reflexivity].
    + right. left. eauto.
    + right. right. exists u. split; [reflexivity|]. split; [reflexivity | exact H].
  - intros [(l0 & H & ->) | [(q & -> & ->) | (u & -> & -> & H)]].
    + exact (fstep_lock _ _ body _ _ ans _ store blind guard c l0 c' H).
    + constructor.
    + constructor. exact H.
Qed.

(* executions: reflexive-transitive closure, labels concatenated *)
Example fsteps_def : forall guard (c0 c' : conf Sh Op) labs,
  fsteps body ans store blind guard c0 labs c' <->
  (labs = [] /\ c' = c0) \/
  (exists l1 c l, labs = l1 ++ l /\ fsteps body ans store blind guard c0 l1 c /\
                  fstep body ans store blind guard c l c').
Proof.
  intros guard c0 c' labs. split.
  - intros H. destruct H as [|l1 c l c' H1 H2]; [left; auto | right; exists l1, c, l; auto].
  - intros [(-> & ->) | (l1 & c & l & -> & H1 & H2)]; [constructor | econstructor; eauto].
Qed.

(* the sequential execution of a label list, in label order *)
Example lexec_def : forall (labs : list (slab Op Q R U)) s,
  lexec body store labs s =
  fold_left (fun s l => match l with SAcq _ o => body o s | SObs _ _ => s | SSet u => store u s end)
            labs s.
Proof. reflexivity. Qed.

(* sacqs / ssets / snon labs: the SAcq entries (as pairs) / the stores / all entries that are not
   SAcq, in order *)
Example projections_def : forall (labs : list (slab Op Q R U)),
  sacqs labs = flat_map (fun l => match l with SAcq i o => [(i, o)] | _ => [] end) labs /\
  ssets labs = flat_map (fun l => match l with SSet u => [u] | _ => [] end) labs /\
  snon labs = filter (fun l => negb (is_acq l)) labs /\
  (forall l : slab Op Q R U, is_acq l = match l with SAcq _ _ => true | _ => false end).
Proof.
  intro labs. split; [|split; [|split]]; try reflexivity;
    induction labs as [|[i o|q r|u] labs IH]; cbn; rewrite <- ?IH; reflexivity.
Qed.

(* the stores do not disturb the lock: mutual exclusion holds in both systems *)
Theorem C17_setters_mutual_exclusion : forall guard (c0 : conf Sh Op) labs c,
  quiescent c0 -> fsteps body ans store blind guard c0 labs c ->
  (forall i rest ph, nth_error (threads c) i = Some (rest, ph) -> ph <> Idle -> holder c = Some i) /\
  (forall i, holder c = Some i ->
     exists rest ph, nth_error (threads c) i = Some (rest, ph) /\ ph <> Idle) /\
  (forall i j ri pi rj pj, nth_error (threads c) i = Some (ri, pi) -> nth_error (threads c) j = Some (rj, pj) ->
     pi <> Idle -> pj <> Idle -> i = j).
Proof. exact (Lemmas_C17d.setters_mutual_exclusion Sh Op body Q R ans U store blind). Qed.

(* a guarded execution is an unguarded one; an execution of Properties_C17c's system (no stores)
   is an execution of both *)
Theorem C17_setters_guarded_is_unguarded : forall (c0 : conf Sh Op) labs c,
  fsteps body ans store blind true c0 labs c -> fsteps body ans store blind false c0 labs c.
Proof. exact (Lemmas_C17d.fsteps_weaken Sh Op body Q R ans U store blind). Qed.

Theorem C17_setters_embed : forall guard (c0 : conf Sh Op) labs c,
  osteps body ans c0 labs c ->
  fsteps body ans store blind guard c0
         (map (fun l => match l with LAcq i o => SAcq i o | LObs q r => SObs q r end) labs) c.
Proof. exact (Lemmas_C17d.osteps_embed Sh Op body Q R ans U store blind). Qed.

(* ---- guarded executions: the label order is a linearisation ---- *)
Section Guarded.
Variable eqv : Sh -> Sh -> Prop.
Hypothesis eqv_refl : forall s, eqv s s.
Hypothesis eqv_trans : forall a b c, eqv a b -> eqv b c -> eqv a c.
Hypothesis body_eqv : forall o s1 s2, eqv s1 s2 -> eqv (body o s1) (body o s2).
Hypothesis store_eqv : forall u s1 s2, eqv s1 s2 -> eqv (store u s1) (store u s2).
Hypothesis commute : forall u o s, blind u o s = true -> eqv (body o (store u s)) (store u (body o s)).

Theorem C17_setters_linearizable : forall (c0 : conf Sh Op) labs c,
  quiescent c0 -> fsteps body ans store blind true c0 labs c ->
  ((forall i rest o, nth_error (threads c) i <> Some (rest, Holding o)) ->
     eqv (shared c) (lexec body store labs (shared c0))) /\
  (forall i rest o, nth_error (threads c) i = Some (rest, Holding o) ->
     eqv (body o (shared c)) (lexec body store labs (shared c0))).
Proof.
  exact (Lemmas_C17d.setters_linearizable Sh Op body Q R ans U store blind eqv
           eqv_refl eqv_trans body_eqv store_eqv commute).
Qed.

Corollary C17_setters_linearizable_idle : forall (c0 : conf Sh Op) labs c,
  quiescent c0 -> fsteps body ans store blind true c0 labs c -> all_idle c ->
  eqv (shared c) (lexec body store labs (shared c0)).
Proof.
  exact (Lemmas_C17d.setters_linearizable_idle Sh Op body Q R ans U store blind eqv
           eqv_refl eqv_trans body_eqv store_eqv commute).
Qed.
End Guarded.

(* ---- all executions: the exact witness ---- *)
(* where each store / observation e of labs sits in xs: the stores and observations before it are
   the same; the critical sections before it are those acquired before it, or all of them but
   the last one (whose body had not run); an observation answers from the state after x1 *)
Example SPos_def : forall s0 (xs labs : list (slab Op Q R U)),
  SPos body ans store s0 xs labs <->
  (forall l1 e l2, labs = l1 ++ e :: l2 -> is_acq e = false ->
   exists x1 x2, xs = x1 ++ e :: x2 /\ snon x1 = snon l1 /\
     (sacqs x1 = sacqs l1 \/ exists io, sacqs l1 = sacqs x1 ++ [io]) /\
     (forall q r, e = SObs q r -> r = ans q (lexec body store x1 s0))).
Proof. intros. unfold SPos. split; intro H; exact H. Qed.

Theorem C17_setters_exact : forall guard (c0 : conf Sh Op) labs c,
  quiescent c0 -> fsteps body ans store blind guard c0 labs c -> all_idle c ->
  exists xs, sacqs xs = sacqs labs /\ snon xs = snon labs /\ ssets xs = ssets labs /\
             shared c = lexec body store xs (shared c0) /\
             SPos body ans store (shared c0) xs labs.
Proof. exact (Lemmas_C17d.setters_exact_idle Sh Op body Q R ans U store blind). Qed.

(* the same at an arbitrary configuration: the operation in phase Holding (holding_of c, at most
   one) is not in xs yet *)
Theorem C17_setters_exact_any : forall guard (c0 : conf Sh Op) labs c,
  holder c0 = None -> fsteps body ans store blind guard c0 labs c ->
  exists xs, sacqs labs = sacqs xs ++ holding_of c /\ snon xs = snon labs /\
             shared c = lexec body store xs (shared c0) /\
             SPos body ans store (shared c0) xs labs.
Proof. exact (Lemmas_C17d.setters_exact Sh Op body Q R ans U store blind). Qed.

End Generic.

Print Assumptions C17_setters_mutual_exclusion.
Print Assumptions C17_setters_guarded_is_unguarded.
Print Assumptions C17_setters_embed.
Print Assumptions C17_setters_linearizable.
Print Assumptions C17_setters_linearizable_idle.
Print Assumptions C17_setters_exact.
Print Assumptions C17_setters_exact_any.

(* ================================================================== *)
(* (c) unlocked stores, the cAT model                                   *)
(* ================================================================== *)
Example setter_op_def : forall u,
  setter_op u = match u with SetCmd i b => OSetCmdDisable i b | SetGrp g b => OSetGroupDisable g b end.
Proof. reflexivity. Qed.
(* the operations of a label list, in label order; observations dropped *)
Example lops_def : forall labs : list (slab op op Z setter),
  lops labs = flat_map (fun l => match l with
                                 | SAcq _ o => [o] | SObs _ _ => [] | SSet u => [setter_op u]
                                 end) labs.
Proof. induction labs as [|[i o|q r|u] labs IH]; cbn; rewrite <- ?IH; reflexivity. Qed.

Section ThreadsSetters.
Variable D : desc.
Variables ioS muS hS : Type.
Variable io_read : ioS -> ioS * option N.
Variable io_write : ioS -> N -> ioS * bool.
Variable mu_lock : muS -> muS * bool.
Variable mu_unlock : muS -> muS * bool.
Variable h_call : hS -> hreq -> hS * hres.

Local Notation world := (Fsm.world ioS muS hS).
Local Notation st := (Fsm.st ioS muS hS).
Local Notation io := (Fsm.io ioS muS hS).
Local Notation mu := (Fsm.mu ioS muS hS).
Local Notation hs := (Fsm.hs ioS muS hS).
Local Notation step := (Fsm.step D ioS muS hS io_read io_write mu_lock mu_unlock h_call).
Local Notation run := (Fsm.run D ioS muS hS io_read io_write mu_lock mu_unlock h_call).
(* the system: critical section of o := one model step; the two unlocked queries; a store is
   the model step of the setter; the guard is SF.op_blind of Properties_C17c.v *)
Local Notation Body := (fun (o : op) (w : world) => step w o).
Local Notation Ans := (fun (q : op) (w : world) => obs_ans D q (st w)).
Local Notation Store := (fun (u : setter) (w : world) => step w (setter_op u)).
Local Notation Blind := (fun (u : setter) (o : op) (w : world) => SF.op_blind o (st w)).

(* guarded executions, no operation in flight: state and oracle states are those of the
   sequential run of the label order *)
Theorem C17_threads_setters : forall (w0 : world) tl labs (c : conf world op),
  fsteps Body Ans Store Blind true (start w0 tl) labs c -> all_idle c ->
  let w := shared c in let ws := run w0 (lops labs) in
  st w = st ws /\ io w = io ws /\ mu w = mu ws /\ hs w = hs ws.
Proof.
  exact (Lemmas_C17d.threads_setters D ioS muS hS io_read io_write mu_lock mu_unlock h_call).
Qed.

(* guarded executions, any configuration: if thread i has the lock for o and has not run the
   body yet, the label-order run is the shared world AFTER that body *)
Theorem C17_threads_setters_any : forall (w0 : world) tl labs (c : conf world op),
  fsteps Body Ans Store Blind true (start w0 tl) labs c ->
  let ws := run w0 (lops labs) in
  ((forall i rest o, nth_error (threads c) i <> Some (rest, Holding o)) ->
     let w := shared c in st w = st ws /\ io w = io ws /\ mu w = mu ws /\ hs w = hs ws) /\
  (forall i rest o, nth_error (threads c) i = Some (rest, Holding o) ->
     let w := step (shared c) o in st w = st ws /\ io w = io ws /\ mu w = mu ws /\ hs w = hs ws).
Proof.
  exact (Lemmas_C17d.threads_setters_any D ioS muS hS io_read io_write mu_lock mu_unlock h_call).
Qed.

(* all executions, guarded or not: the shared world, log included, IS the sequential run of xs
   (critical sections at their BODY step, stores where they happened) *)
Theorem C17_threads_setters_exact : forall guard (w0 : world) tl labs (c : conf world op),
  fsteps Body Ans Store Blind guard (start w0 tl) labs c -> all_idle c ->
  exists xs, sacqs xs = sacqs labs /\ snon xs = snon labs /\ ssets xs = ssets labs /\
             shared c = run w0 (lops xs) /\
             SPos Body Ans Store w0 xs labs.
Proof.
  exact (Lemmas_C17d.threads_setters_exact D ioS muS hS io_read io_write mu_lock mu_unlock h_call).
Qed.

End ThreadsSetters.
Print Assumptions C17_threads_setters.
Print Assumptions C17_threads_setters_any.
Print Assumptions C17_threads_setters_exact.

(* the stores, guarded or not, do not disturb the exactly-once guarantee *)
Section SettersInv.
Variable D : desc.
Variables ioS muS hS : Type.
Variable io_read : ioS -> ioS * option N.
Variable io_write : ioS -> N -> ioS * bool.
Variable mu_lock : muS -> muS * bool.
Variable mu_unlock : muS -> muS * bool.
Variable h_call : hS -> hreq -> hS * hres.
Variable MI : muS -> Prop.
Hypothesis MI_lock : forall m, MI m -> MI (fst (mu_lock m)).
Hypothesis MI_unlock : forall m, MI m -> MI (fst (mu_unlock m)) /\ snd (mu_unlock m) = true.

Local Notation world := (Fsm.world ioS muS hS).
Local Notation st := (Fsm.st ioS muS hS).
Local Notation step := (Fsm.step D ioS muS hS io_read io_write mu_lock mu_unlock h_call).

Theorem C17_threads_setters_exactly_once_inv :
  forall guard (P : nat * ctype -> bool) m x mx h (tl : list (list op)) labs (c : conf world op),
  0 < d_cap D -> (d_mutex D = false \/ MI mx) ->
  let w0 := mkWorld ioS muS hS (init_state D m) x mx h [] in
  fsteps (fun o w => step w o) (fun q w => obs_ans D q (st w))
         (fun u w => step w (setter_op u)) (fun (u : setter) o w => SF.op_blind o (st w))
         guard (start w0 tl) labs c ->
  all_idle c ->
  let w := shared c in
  filter P (accepted (hist ioS muS hS w)) =
  filter P (popped (hist ioS muS hS w)) ++ filter P (ring_items D (st w)).
Proof.
  exact (Lemmas_C17d.threads_setters_exactly_once_inv D ioS muS hS io_read io_write mu_lock mu_unlock
           h_call MI MI_lock MI_unlock).
Qed.
End SettersInv.
Print Assumptions C17_threads_setters_exactly_once_inv.

(* the scripted oracles *)
Theorem C17_threads_setters_exactly_once_scripted :
  forall D guard (P : nat * ctype -> bool) m x mx h (tl : list (list op)) labs (c : conf sworld op),
  0 < d_cap D -> (d_mutex D = false \/ unlock_never_fails mx = true) ->
  let w0 := sinit D m x mx h in
  fsteps (fun o w => step D sio smu shs s_read s_write s_lock s_unlock s_call w o)
         (fun q w => obs_ans D q (st sio smu shs w))
         (fun u w => step D sio smu shs s_read s_write s_lock s_unlock s_call w (setter_op u))
         (fun (u : setter) o w => SF.op_blind o (st sio smu shs w))
         guard (start w0 tl) labs c ->
  all_idle c ->
  let w := shared c in
  filter P (accepted (hist sio smu shs w)) =
  filter P (popped (hist sio smu shs w)) ++ filter P (ring_items D (st sio smu shs w)).
Proof. exact Lemmas_C17d.threads_setters_exactly_once_scripted. Qed.
Print Assumptions C17_threads_setters_exactly_once_scripted.

(* ================================================================== *)
(* non-vacuity                                                          *)
(* ================================================================== *)
(* one command +X (index 0) with read, run and test handlers; queue capacity 2; a MUTEX IS
   CONFIGURED (d_mutex = true: every locked operation calls the scripted lock and unlock);
   scripted oracles of Script.v: input AT+X and a line feed, the unlock schedule is
   [true; true; true] (then exhausted, which answers true), handlers answer OK.
   Worlds are notations, not definitions (see ex_b_applies below) *)
Definition dD : desc :=
  mkDesc [[mkCmd [43; 88]%N None false true true true [] false false false]] [] 16 None 0%N 2 true.
Local Notation dMx := (mkSmu [] [true; true; true]).
Local Notation dW0 := (sinit dD [] (mkSio [65; 84; 43; 88; 10]%N [] []) dMx []).
Local Notation dStep := (step dD sio smu shs s_read s_write s_lock s_unlock s_call).
Local Notation dRun := (run dD sio smu shs s_read s_write s_lock s_unlock s_call).
Local Notation dBody := (fun (o : op) (w : sworld) => dStep w o).
Local Notation dAns := (fun (q : op) (w : sworld) => obs_ans dD q (st sio smu shs w)).
Local Notation dStore := (fun (u : setter) (w : sworld) => dStep w (setter_op u)).
Local Notation dBlind := (fun (u : setter) (o : op) (w : sworld) => SF.op_blind o (st sio smu shs w)).

(* the hypotheses of the scripted theorems: a mutex is configured, so the condition on the
   unlock schedule is a real one; it holds of dMx and fails of a schedule containing false *)
Example C17d_ex_hyps :
  0 < d_cap dD /\ d_mutex dD = true /\ unlock_never_fails dMx = true /\
  unlock_never_fails (mkSmu [] [true; false; true]) = false.
Proof. vm_compute. repeat split; auto. Qed.

(* ---- (b) two producers and unlocked observers ----
   thread 0 triggers the READ event of +X and calls cat_service; thread 1 triggers the TEST event,
   calls cat_service twice and triggers the TEST event again.  Unlocked queries in between, among
   them between ACQUIRE and BODY and between BODY and RELEASE of the triggers *)
Definition dQr : op := OIsBuffered 0 T_READ.
Definition dQt : op := OIsBuffered 0 T_TEST.
Definition dPu : op := OGetProcessed UNSOL.
Definition ex_b_tl : list (list op) :=
  [[OTrigger 0 T_READ; OService]; [OTrigger 0 T_TEST; OService; OService; OTrigger 0 T_TEST]].
Definition ex_b_acts : list (act op) :=
  [Tick 0; Look dQr; Tick 1; Tick 0; Look dQr; Tick 1; Tick 0;
   Tick 1; Look dQt; Tick 1; Look dQt; Tick 1; Look dQr; Look dQt;
   Tick 0; Tick 0; Look dPu; Tick 0;
   Tick 1; Tick 1; Tick 1; Look dQr; Look dQt; Look dPu;
   Tick 1; Tick 1; Tick 1; Look dQt; Look dPu;
   Tick 1; Tick 1; Look dQt; Tick 1].
Definition ex_b_labs : list (lab op op Z) :=
  [LAcq 0 (OTrigger 0 T_READ); LObs dQr 0%Z; LObs dQr 1%Z;
   LAcq 1 (OTrigger 0 T_TEST); LObs dQt 0%Z; LObs dQt 1%Z; LObs dQr 1%Z; LObs dQt 1%Z;
   LAcq 0 OService; LObs dPu 0%Z;
   LAcq 1 OService; LObs dQr 0%Z; LObs dQt 1%Z; LObs dPu (-1)%Z;
   LAcq 1 OService; LObs dQt 1%Z; LObs dPu 0%Z;
   LAcq 1 (OTrigger 0 T_TEST); LObs dQt 1%Z].

(* the schedule is an execution; it ends with no operation in flight and nothing left to do.
   Six locked operations: the unlock schedule has been consumed *)
Example C17d_ex_b_execution :
  let r := osched dBody dAns (start dW0 ex_b_tl) ex_b_acts in
  osteps dBody dAns (start dW0 ex_b_tl) (snd r) (fst r) /\
  snd r = ex_b_labs /\ quiescent (fst r) /\ remaining (fst r) 0 = [] /\ remaining (fst r) 1 = [] /\
  mu sio smu shs (shared (fst r)) = mkSmu [] [].
Proof.
  split; [exact (osched_sound _ _ dBody _ _ dAns ex_b_acts (start dW0 ex_b_tl))|].
  vm_compute. repeat split; repeat constructor.
Qed.

(* the scripted theorem applies to every schedule that ends all idle (helper over abstract
   schedules: the instance below only has to compute all_idle) *)
Definition ex_b_concl (P : nat * ctype -> bool) (labs : list (lab op op Z)) (c : conf sworld op) : Prop :=
  let w := shared c in
  w = dRun dW0 (map snd (acqs labs)) /\
  filter P (accepted (hist sio smu shs w)) =
  filter P (popped (hist sio smu shs w)) ++ filter P (ring_items dD (st sio smu shs w)).

Lemma ex_b_applies : forall P acts,
  all_idle (fst (osched dBody dAns (start dW0 ex_b_tl) acts)) ->
  ex_b_concl P (snd (osched dBody dAns (start dW0 ex_b_tl) acts))
               (fst (osched dBody dAns (start dW0 ex_b_tl) acts)).
Proof.
  intros P acts Hid.
  apply (C17_threads_observers_exactly_once_scripted dD P [] _ dMx [] ex_b_tl _ _
           (proj1 C17d_ex_hyps) (or_intror (proj1 (proj2 (proj2 C17d_ex_hyps))))); [|exact Hid].
  exact (osched_sound _ _ dBody _ _ dAns acts (start dW0 ex_b_tl)).
Qed.

(* per producer: the events of type READ (thread 0) and of type TEST (thread 1) *)
Definition dPr (it : nat * ctype) : bool := ctype_beq (snd it) T_READ.
Definition dPt (it : nat * ctype) : bool := ctype_beq (snd it) T_TEST.

Example C17d_ex_b_read :
  let r := osched dBody dAns (start dW0 ex_b_tl) ex_b_acts in ex_b_concl dPr (snd r) (fst r).
Proof. apply ex_b_applies. vm_compute. repeat constructor. Qed.
Example C17d_ex_b_test :
  let r := osched dBody dAns (start dW0 ex_b_tl) ex_b_acts in ex_b_concl dPt (snd r) (fst r).
Proof. apply ex_b_applies. vm_compute. repeat constructor. Qed.

(* the values: thread 0's event accepted once and popped once; thread 1's two events accepted,
   the first popped, the second still queued *)
Example C17d_ex_b_values :
  let w := shared (fst (osched dBody dAns (start dW0 ex_b_tl) ex_b_acts)) in
  accepted (hist sio smu shs w) = [(0, T_READ); (0, T_TEST); (0, T_TEST)] /\
  popped (hist sio smu shs w) = [(0, T_READ); (0, T_TEST)] /\
  ring_items dD (st sio smu shs w) = [(0, T_TEST)] /\
  filter dPr (accepted (hist sio smu shs w)) = [(0, T_READ)] /\
  filter dPr (popped (hist sio smu shs w)) = [(0, T_READ)] /\
  filter dPr (ring_items dD (st sio smu shs w)) = [] /\
  filter dPt (accepted (hist sio smu shs w)) = [(0, T_TEST); (0, T_TEST)] /\
  filter dPt (popped (hist sio smu shs w)) = [(0, T_TEST)] /\
  filter dPt (ring_items dD (st sio smu shs w)) = [(0, T_TEST)].
Proof. vm_compute. repeat split; reflexivity. Qed.

(* ---- (c) the flag stores ----
   thread 0 calls cat_service eight times (the eighth call finds the command machine in
   CS_SEARCH_COMMAND, as in Properties_C17c.C17c_ex_states), thread 1 triggers the READ event.
   Stores: group 0 := true while the FIRST service call is in phase Holding (the command machine
   is in CS_IDLE: blind, the store is taken); group 0 := false while the trigger is in phase
   Holding (a trigger is always blind); command 0 := true while the EIGHTH service call is in
   phase Holding (not blind: the guarded scheduler skips the action, the unguarded one takes
   it); command 0 := true again between BODY and RELEASE of that call (always allowed) *)
Definition ex_c_tl : list (list op) := [repeat OService 8; [OTrigger 0 T_READ]].
Definition ex_c_acts : list (sact op setter) :=
  [STick 0; SStore (SetGrp 0 true); SLook dQr; STick 0; STick 0;
   STick 1; SStore (SetGrp 0 false); STick 1; SLook dQr; STick 1] ++
  concat (repeat [STick 0; STick 0; STick 0] 6) ++
  [STick 0; SStore (SetCmd 0 true); STick 0; SStore (SetCmd 0 true); STick 0].
Definition ex_c_labs : list (slab op op Z setter) :=
  [SAcq 0 OService; SSet (SetGrp 0 true); SObs dQr 0%Z;
   SAcq 1 (OTrigger 0 T_READ); SSet (SetGrp 0 false); SObs dQr 1%Z] ++
  repeat (SAcq 0 OService) 7 ++ [SSet (SetCmd 0 true)].

(* the executable scheduler is sound (Lemmas_C17d.fsched_sound); in the guarded system it takes a
   store only if guard_ok holds *)
Example guard_ok_def : forall (c : conf sworld op) u,
  guard_ok dBlind c u = match holding_of c with
                        | [] => true
                        | io :: _ => SF.op_blind (snd io) (st sio smu shs (shared c))
                        end.
Proof. reflexivity. Qed.

Example C17d_ex_guarded_execution :
  let r := fsched dBody dAns dStore dBlind true (start dW0 ex_c_tl) ex_c_acts in
  fsteps dBody dAns dStore dBlind true (start dW0 ex_c_tl) (snd r) (fst r) /\
  snd r = ex_c_labs /\ quiescent (fst r) /\ remaining (fst r) 0 = [] /\ remaining (fst r) 1 = [].
Proof.
  split; [exact (fsched_sound _ _ dBody _ _ dAns _ dStore dBlind true ex_c_acts (start dW0 ex_c_tl))|].
  vm_compute. repeat split; repeat constructor.
Qed.

(* C17_threads_setters applies (helper over abstract schedules) *)
Definition ex_c_concl (labs : list (slab op op Z setter)) (c : conf sworld op) : Prop :=
  let w := shared c in let ws := dRun dW0 (lops labs) in
  st sio smu shs w = st sio smu shs ws /\ io sio smu shs w = io sio smu shs ws /\
  mu sio smu shs w = mu sio smu shs ws /\ hs sio smu shs w = hs sio smu shs ws.

Lemma ex_c_applies : forall acts,
  all_idle (fst (fsched dBody dAns dStore dBlind true (start dW0 ex_c_tl) acts)) ->
  ex_c_concl (snd (fsched dBody dAns dStore dBlind true (start dW0 ex_c_tl) acts))
             (fst (fsched dBody dAns dStore dBlind true (start dW0 ex_c_tl) acts)).
Proof.
  intros acts Hid.
  apply (C17_threads_setters dD sio smu shs s_read s_write s_lock s_unlock s_call dW0 ex_c_tl _ _); [|exact Hid].
  exact (fsched_sound _ _ dBody _ _ dAns _ dStore dBlind true acts (start dW0 ex_c_tl)).
Qed.

Example C17d_ex_guarded_applies :
  let r := fsched dBody dAns dStore dBlind true (start dW0 ex_c_tl) ex_c_acts in ex_c_concl (snd r) (fst r).
Proof. apply ex_c_applies. vm_compute. repeat constructor. Qed.

(* the values: the lookup has found +X (the store of command 0 came after the body), both flags
   as stored last; the label-order run agrees *)
Example C17d_ex_guarded_values :
  let r := fsched dBody dAns dStore dBlind true (start dW0 ex_c_tl) ex_c_acts in
  let s := st sio smu shs (shared (fst r)) in
  let s' := st sio smu shs (dRun dW0 (lops (snd r))) in
  (k_state (k s), dis_cmd s, dis_grp s) = (CS_COMMAND_FOUND, [true], [false]) /\
  (k_state (k s'), dis_cmd s', dis_grp s') = (CS_COMMAND_FOUND, [true], [false]) /\
  lops (snd r) = [OService; OSetGroupDisable 0 true; OTrigger 0 T_READ; OSetGroupDisable 0 false] ++
                 repeat OService 7 ++ [OSetCmdDisable 0 true].
Proof. vm_compute. repeat split; reflexivity. Qed.

(* the logs are NOT equal: the entry of the first store sits before the entries of the service
   call in flight in the real log (the log grows at the head), after them in the label-order run *)
Example C17d_ex_guarded_logs_differ :
  let r := fsched dBody dAns dStore dBlind true (start dW0 ex_c_tl) ex_c_acts in
  firstn 5 (rev (tr sio smu shs (shared (fst r)))) =
    [ERet (OSetGroupDisable 0 true) 0%Z; ELock true; ERd (Some 65%N); EUnlock true; ERet OService 1%Z] /\
  firstn 5 (rev (tr sio smu shs (dRun dW0 (lops (snd r))))) =
    [ELock true; ERd (Some 65%N); EUnlock true; ERet OService 1%Z; ERet (OSetGroupDisable 0 true) 0%Z].
Proof. vm_compute. split; reflexivity. Qed.

(* C17_threads_setters_exactly_once_scripted applies to both systems *)
Definition ex_c_once (g : bool) (P : nat * ctype -> bool) (c : conf sworld op) : Prop :=
  let w := shared c in
  filter P (accepted (hist sio smu shs w)) =
  filter P (popped (hist sio smu shs w)) ++ filter P (ring_items dD (st sio smu shs w)).
Lemma ex_c_once_applies : forall g P acts,
  all_idle (fst (fsched dBody dAns dStore dBlind g (start dW0 ex_c_tl) acts)) ->
  ex_c_once g P (fst (fsched dBody dAns dStore dBlind g (start dW0 ex_c_tl) acts)).
Proof.
  intros g P acts Hid.
  apply (C17_threads_setters_exactly_once_scripted dD g P [] _ dMx [] ex_c_tl _ _
           (proj1 C17d_ex_hyps) (or_intror (proj1 (proj2 (proj2 C17d_ex_hyps))))
           (fsched_sound _ _ dBody _ _ dAns _ dStore dBlind g acts (start dW0 ex_c_tl)) Hid).
Qed.
Example C17d_ex_setters_once :
  ex_c_once true dPr (fst (fsched dBody dAns dStore dBlind true (start dW0 ex_c_tl) ex_c_acts)) /\
  ex_c_once false dPr (fst (fsched dBody dAns dStore dBlind false (start dW0 ex_c_tl) ex_c_acts)) /\
  let w := shared (fst (fsched dBody dAns dStore dBlind false (start dW0 ex_c_tl) ex_c_acts)) in
  accepted (hist sio smu shs w) = [(0, T_READ)] /\ popped (hist sio smu shs w) = [(0, T_READ)].
Proof.
  split; [apply ex_c_once_applies; vm_compute; repeat constructor|].
  split; [apply ex_c_once_applies; vm_compute; repeat constructor|].
  vm_compute. split; reflexivity.
Qed.

(* ---- the guard is necessary ----
   the worlds of Properties_C17c.C17c_ex_setter_blind_necessary: after seven service calls the
   command machine is in CS_SEARCH_COMMAND.  One thread calls cat_service; the store
   command 0 := true falls between its ACQUIRE and its BODY.  UNGUARDED system: this is an
   execution; the body runs after the store, the lookup fails (CS_COMMAND_NOT_FOUND); the run
   of the label order [service; store] finds the command: the conclusion of
   C17_threads_setters fails.  The exact witness of C17_threads_setters_exact is
   [store; service].  GUARDED system: the scheduler refuses the store *)
Local Notation cD := Properties_C17c.exD.
Local Notation cStep := (step cD sio smu shs s_read s_write s_lock s_unlock s_call).
Local Notation cRun := (run cD sio smu shs s_read s_write s_lock s_unlock s_call).
Local Notation cBody := (fun (o : op) (w : sworld) => cStep w o).
Local Notation cAns := (fun (q : op) (w : sworld) => obs_ans cD q (st sio smu shs w)).
Local Notation cStore := (fun (u : setter) (w : sworld) => cStep w (setter_op u)).
Local Notation cW7 := (cRun Properties_C17c.exW0 (repeat OService 7)).
Definition ex_n_acts : list (sact op setter) := [STick 0; SStore (SetCmd 0 true); STick 0; STick 0].

Example C17d_ex_guard_necessary :
  let r := fsched cBody cAns cStore dBlind false (start cW7 [[OService]]) ex_n_acts in
  fsteps cBody cAns cStore dBlind false (start cW7 [[OService]]) (snd r) (fst r) /\
  snd r = [SAcq 0 OService; SSet (SetCmd 0 true)] /\
  quiescent (fst r) /\ remaining (fst r) 0 = [] /\
  SF.op_blind OService (st sio smu shs cW7) = false /\
  k_state (k (st sio smu shs (shared (fst r)))) = CS_COMMAND_NOT_FOUND /\
  k_state (k (st sio smu shs (cRun cW7 (lops (snd r))))) = CS_COMMAND_FOUND /\
  shared (fst r) = cRun cW7 (lops [SSet (SetCmd 0 true); SAcq 0 OService]) /\
  snd (fsched cBody cAns cStore dBlind true (start cW7 [[OService]]) ex_n_acts) = [SAcq 0 OService].
Proof.
  split; [exact (fsched_sound _ _ cBody _ _ cAns _ cStore dBlind false ex_n_acts (start cW7 [[OService]]))|].
  vm_compute. repeat split; repeat constructor.
Qed.

(* the same inside the bigger execution above: the unguarded scheduler takes the store that the
   guarded one skipped, and the final state is not the one of the label order *)
Example C17d_ex_guard_necessary_2 :
  let r := fsched dBody dAns dStore dBlind false (start dW0 ex_c_tl) ex_c_acts in
  snd r = ex_c_labs ++ [SSet (SetCmd 0 true)] /\
  k_state (k (st sio smu shs (shared (fst r)))) = CS_COMMAND_NOT_FOUND /\
  k_state (k (st sio smu shs (dRun dW0 (lops (snd r))))) = CS_COMMAND_FOUND.
Proof. vm_compute. repeat split; reflexivity. Qed.
