(* Lemmas_C15c.v — property C15, second half, for ARBITRARY finite readiness schedules (every fair
   schedule with finitely many refusals).  Lemmas_C15b.v proves the liveness of the service loop on
   the always-ready scripted environment; here the two schedule equations are dropped from the
   invariant.  Every io attempt either finds its schedule exhausted (it then behaves as in the
   always-ready proof), or pops a `true` bit (same outcome, one scheduled attempt less), or pops a
   `false` bit: the attempt is refused, nothing that the measure sees changes, and the number of
   scheduled attempts strictly decreases.  Hence every cat_service call decreases the potential Phi
   of Lemmas_C15b (schedule length not increasing), or keeps Phi and decreases the schedule length,
   or answers OK with no input left.  The pure step lemmas (Lemmas_C15ba.v) and the lemmas about the
   handler oracle (Lemmas_C15b.v: call_split, Prog, Same, Phi, ...) are reused unchanged. *)
From Coq Require Import List NArith ZArith Bool Arith Lia Wf_nat.
From CatV Require Import Bytes Defs Codec Fsm Script Skel SkelInv ResolveDefs SchedDefs TermDefs.
From CatV Require Import Lemmas_C03 Lemmas_C12 Lemmas_C15 Lemmas_C15ba Lemmas_C15b.
Import ListNotations.
Local Open Scope nat_scope.

(* number of scheduled io attempts (readiness bits) not yet used *)
Definition sched_left (w : sworld) : nat :=
  length (rd_sched (io _ _ _ w)) + length (wr_sched (io _ _ _ w)).

Definition slio (x : sio) : nat := length (rd_sched x) + length (wr_sched x).

(* ------------------------------------------------------------------ *)
(* the scripted io oracles                                              *)
(* ------------------------------------------------------------------ *)

(* a read attempt: refused by a false bit (a scheduled attempt is used up, the input is untouched),
   or it finds the input empty, or it delivers the first pending byte *)
Lemma s_read_cases : forall x,
  (snd (s_read x) = None /\ inq (fst (s_read x)) = inq x /\ slio (fst (s_read x)) < slio x) \/
  (snd (s_read x) = None /\ inq x = [] /\ inq (fst (s_read x)) = [] /\ slio (fst (s_read x)) <= slio x) \/
  (exists c q, inq x = c :: q /\ snd (s_read x) = Some c /\ inq (fst (s_read x)) = q /\
               slio (fst (s_read x)) <= slio x).
Proof.
  intros x. unfold s_read, slio. destruct (rd_sched x) as [|[|] rs]; cbn [pop_bit].
  - destruct (inq x) as [|c q]; cbn [fst snd inq rd_sched wr_sched length].
    + right. left. auto.
    + right. right. exists c, q. auto.
  - destruct (inq x) as [|c q]; cbn [fst snd inq rd_sched wr_sched length].
    + right. left. repeat split; lia.
    + right. right. exists c, q. repeat split; lia.
  - left. cbn [fst snd inq rd_sched wr_sched length]. repeat split; lia.
Qed.

(* a write attempt: accepted, or refused by a false bit *)
Lemma s_write_cases : forall x ch,
  slio (fst (s_write x ch)) <= slio x /\ inq (fst (s_write x ch)) = inq x /\
  (snd (s_write x ch) = true \/ slio (fst (s_write x ch)) < slio x).
Proof.
  intros x ch. unfold s_write, slio. destruct (wr_sched x) as [|b r]; cbn [pop_bit fst snd inq rd_sched wr_sched length].
  - repeat split; auto.
  - repeat split; [lia|]. right. lia.
Qed.

Section Fair.
Variable D : desc.
Variable m : list (list N).
Hypothesis WF : wf_desc D m.

Local Notation st := (Fsm.st sio smu shs).
Local Notation io := (Fsm.io sio smu shs).
Local Notation mu := (Fsm.mu sio smu shs).
Local Notation hs := (Fsm.hs sio smu shs).
Local Notation tr := (Fsm.tr sio smu shs).
Local Notation set_st := (Fsm.set_st sio smu shs).
Local Notation set_io := (Fsm.set_io sio smu shs).
Local Notation set_hs := (Fsm.set_hs sio smu shs).
Local Notation logw := (Fsm.logw sio smu shs).
Local Notation upd_st := (Fsm.upd_st sio smu shs).
Local Notation busy := (Fsm.busy sio smu shs).
Local Notation Safe := (Safe D m).
Local Notation NH := Lemmas_C15ba.NH.
Local Notation PC := (PC D).
Local Notation PU := (PU D).
Local Notation PG := (PG D).
Local Notation cC := (cC D).
Local Notation cU := (cU D).
Local Notation mU := (mU D).
Local Notation SOK := (Lemmas_C15b.SOK D).
Local Notation capok := (Lemmas_C15b.capok D).
Local Notation Prog := (Lemmas_C15b.Prog D).
Local Notation Same := Lemmas_C15b.Same.
Local Notation Phi := (Lemmas_C15b.Phi D).
Local Notation sl := sched_left.

Local Notation call_h := (Fsm.call_h D sio smu shs s_lock s_unlock s_call).
Local Notation s_cmd := (Fsm.cmd_service D sio smu shs s_read s_write s_lock s_unlock s_call).
Local Notation s_uns := (Fsm.unsolicited_events_service D sio smu shs s_write s_lock s_unlock s_call).
Local Notation s_body := (Fsm.service_body D sio smu shs s_read s_write s_lock s_unlock s_call).

(* ------------------------------------------------------------------ *)
(* invariant (no condition on the schedules) and step outcomes          *)
(* ------------------------------------------------------------------ *)

Definition FInv' (w : sworld) : Prop := NH (st w) /\ SOK (hs w).
Definition FInv (w : sworld) : Prop := Safe (st w) /\ FInv' w.

(* outcome of one step of the command machine / of the event machine: progress (Prog of
   Lemmas_C15b), or an io attempt was refused (nothing changed, one scheduled attempt less), or
   nothing changed for one of the reasons of the always-ready proof; the OK of a reading state now
   records that the input is really empty *)
Definition FStepC (w w2 : sworld) (rc : Z) : Prop :=
  FInv' w2 /\ (capok (st w) -> capok (st w2)) /\ sl w2 <= sl w /\
  (Prog w w2 \/
   (Same w w2 /\ sl w2 < sl w) \/
   (Same w w2 /\ k_state (k (st w)) <> CS_FLUSH /\
    ((rc = ST_OK /\ inq (io w) = []) \/
     (k_state (k (st w)) = CS_FLUSH_WAIT /\ u_state (u (st w)) = US_FLUSH)))).

Definition FStepU (w w1 : sworld) (us : Z) : Prop :=
  FInv' w1 /\ (capok (st w) -> capok (st w1)) /\ sl w1 <= sl w /\
  (Prog w w1 \/
   (Same w w1 /\ sl w1 < sl w) \/
   (Same w w1 /\
    ((us = ST_OK /\ u_state (u (st w)) = US_IDLE) \/ k_state (k (st w)) = CS_FLUSH))).

(* the io of w1 is that of w up to used-up schedule bits *)
Definition io_same (w w1 : sworld) : Prop := inq (io w1) = inq (io w) /\ sl w1 <= sl w.

Lemma io_same_refl : forall w, io_same w w.
Proof. intros w. split; [reflexivity | lia]. Qed.
Lemma io_same_eq : forall w w1, io w1 = io w -> io_same w w1.
Proof. intros w w1 E. unfold io_same, sched_left. rewrite E. split; [reflexivity | lia]. Qed.

Lemma stepC_pure : forall w w1 s' rc, FInv w -> hs w1 = hs w -> io_same w w1 ->
  PC (st w) s' -> FStepC w (set_st s' w1) rc.
Proof.
  intros w w1 s' rc (HS & Hnh & HK) E2 (I1 & I2) (A & B & C). split; [|split; [|split]].
  - unfold FInv'. wcbn. rewrite E2. auto.
  - unfold Lemmas_C15b.capok. wcbn. rewrite A. auto.
  - unfold sched_left in *. wcbn. exact I2.
  - left. right. right. left. wcbn. rewrite E2. auto.
Qed.

Lemma stepU_pure : forall w w1 s' us, FInv w -> hs w1 = hs w -> io_same w w1 ->
  PU (st w) s' -> FStepU w (set_st s' w1) us.
Proof.
  intros w w1 s' us (HS & Hnh & HK) E2 (I1 & I2) (K & B & C). split; [|split; [|split]].
  - unfold FInv'. wcbn. rewrite E2. auto.
  - unfold Lemmas_C15b.capok. wcbn. unfold Lemmas_C15ba.mU in C. cbn [lexlt] in C. lia.
  - unfold sched_left in *. wcbn. exact I2.
  - left. right. right. right. wcbn. rewrite E2. auto.
Qed.

Definition FStepG (f : fsm) (w w2 : sworld) (rc : Z) : Prop :=
  match f with ATCMD => FStepC w w2 rc | UNSOL => FStepU w w2 rc end.

Lemma stepG_pure : forall f w w1 s' rc, FInv w -> hs w1 = hs w -> io_same w w1 ->
  PG f (st w) s' -> FStepG f w (set_st s' w1) rc.
Proof. intros [|] w w1 s' rc; [apply stepC_pure | apply stepU_pure]. Qed.

Lemma stepG_consumed : forall f w w2 rc, FInv' w2 -> (capok (st w) -> capok (st w2)) ->
  sl w2 <= sl w ->
  script_left (hs w2) < script_left (hs w) -> inq (io w2) = inq (io w) ->
  FStepG f w w2 rc.
Proof.
  intros f w w2 rc HI Hc Hl H E.
  destruct f; (split; [exact HI | split; [exact Hc | split; [exact Hl | left; left; split; assumption]]]).
Qed.

(* ------------------------------------------------------------------ *)
(* the states that call a handler (io untouched)                        *)
(* ------------------------------------------------------------------ *)

Local Notation process_rt_loop := (Fsm.process_rt_loop D sio smu shs s_lock s_unlock s_call).
Local Notation format_read_args := (Fsm.format_read_args D sio smu shs s_lock s_unlock s_call).
Local Notation process_write_loop := (Fsm.process_write_loop D sio smu shs s_lock s_unlock s_call).
Local Notation process_run_loop := (Fsm.process_run_loop D sio smu shs s_lock s_unlock s_call).
Local Notation parse_write_args := (Fsm.parse_write_args D sio smu shs s_lock s_unlock s_call).

Ltac wred := unfold Fsm.busy, Fsm.upd_st; cbn [fst snd].

Ltac split_call :=
  match goal with |- context [call_h ?w ?q] => pattern (call_h w q); apply (call_split D m WF) end.

Lemma inv'_after : forall (w1 : sworld) s', SOK (hs w1) -> NH s' -> FInv' (set_st s' w1).
Proof. intros w1 s' H Hn. unfold FInv'. wcbn. auto. Qed.

Lemma consumed_after : forall f w w1 s' rc, FInv w -> SOK (hs w1) -> io w1 = io w ->
  script_left (hs w1) < script_left (hs w) -> (capok (st w) -> capok (st w1)) ->
  NH s' -> u_count (u s') <= u_count (u (st w1)) -> FStepG f w (set_st s' w1) rc.
Proof.
  intros f w w1 s' rc HI H1 E3 L Hcap Hn Hu. apply stepG_consumed.
  - apply inv'_after; assumption.
  - intros Hc0. specialize (Hcap Hc0). unfold Lemmas_C15b.capok in *. wcbn. lia.
  - unfold sched_left. wcbn. rewrite E3. lia.
  - wcbn. exact L.
  - wcbn. rewrite E3. reflexivity.
Qed.

(* cat.c:2220, 2295 *)
Lemma rt_loop_step : forall rd f w, FInv w -> loop_state f (st w) ->
  FStepG f w (fst (process_rt_loop rd f w)) (snd (process_rt_loop rd f w)).
Proof.
  intros rd f w HI Hst. pose proof HI as (HS & Hnh & HK).
  unfold Fsm.process_rt_loop. destruct (loop_state_inv D m f _ HS Hst) as [Hc _].
  destruct (g_cmd f (st w)) as [ci|] eqn:Ec; [|destruct Hc]. cbv zeta.
  split_call; [exact HK | |].
  - intros w1 E1 E2 E3. wred. rewrite E1.
    assert (X : PG f (st w) (rt_tail D rd f (mkHres RC_OK None [] []) (st w)))
      by (apply rt_tail_default_PG; assumption).
    destruct rd; (apply stepG_pure; [exact HI | exact E2 | apply io_same_eq; assumption | exact X]).
  - intros w1 r H1 E3 R Hc1 Hcap L. wred.
    pose proof (hrel_NH D m _ _ R Hnh) as Hn1. pose proof (hrel_loop D m f _ _ R Hst) as Hst1.
    destruct R as (R1' & _). specialize (R1' HS).
    destruct (apply_edit_loop D m f (r_edit r) (st w1) R1' Hst1) as (_ & C2 & _).
    apply (consumed_after f w w1); try assumption.
    + exact (rt_tail_NH D rd f r (st w1) Hn1 Hc1 C2).
    + apply (FR_le f). exact (rt_tail_FR D rd f r (st w1) Hn1 C2).
Qed.

(* cat.c:1783 *)
Lemma format_read_args_step : forall f w, FInv w -> fmt_state f (st w) true ->
  FStepG f w (fst (format_read_args f w)) (snd (format_read_args f w)).
Proof.
  intros f w HI Hst. pose proof HI as (HS & Hnh & HK).
  unfold Fsm.format_read_args.
  destruct (fmt_state_inv D m f _ true HS Hst) as (Hv & _).
  destruct (var_ok_at D _ _ Hv) as (ci & c & v & E1 & E2 & E3).
  unfold cmd_of, cmd_at. rewrite E1, E2, E3.
  assert (Body : forall s1, Safe s1 -> NH s1 -> fmt_state f s1 true -> g_cmd f s1 = g_cmd f (st w) ->
            g_var f s1 = g_var f (st w) -> PG f s1 (fra_body D f c v s1)).
  { intros s1 S1 N1 F1 G1 G2. apply (fra_body_PG D m WF f s1 ci c v); try assumption; congruence. }
  destruct (v_hread v).
  - split_call; [exact HK | |].
    + intros w1 E1' E2' E3'. cbn [default_res r_code Z.eqb negb]. wred. rewrite E1'.
      apply stepG_pure; [exact HI | exact E2' | apply io_same_eq; assumption |].
      apply Body; auto.
    + intros w1 r H1 E3' R Hc1 Hcap L.
      destruct (hrel_fmt D m f _ _ true R Hst) as (Hst1 & Ec1 & Ev1).
      pose proof (hrel_NH D m _ _ R Hnh) as Hn1. destruct R as (R1' & _). specialize (R1' HS).
      destruct (negb (r_code r =? 0)%Z); wred; apply (consumed_after f w w1); try assumption.
      * apply NH_end_with_error; exact Hn1.
      * destruct f; cbn; lia.
      * eapply PG_NH. apply Body; assumption.
      * eapply PG_cap. apply Body; assumption.
  - wred. apply stepG_pure; [exact HI | reflexivity | apply io_same_refl |]. apply Body; auto.
Qed.

(* cat.c:2146 *)
Lemma write_loop_step : forall w, FInv w -> k_state (k (st w)) = CS_WRITE_LOOP ->
  FStepC w (fst (process_write_loop w)) (snd (process_write_loop w)).
Proof.
  intros w HI Hst. pose proof HI as (HS & Hnh & HK).
  unfold Fsm.process_write_loop.
  assert (Hc : cmd_ok D (k_cmd (k (st w)))).
  { destruct HS as (_ & HKS & _). unfold KS in HKS. rewrite Hst in HKS. exact HKS. }
  sproj. destruct (k_cmd (k (st w))) as [ci|] eqn:Ec; [|destruct Hc]. cbv zeta.
  split_call; [exact HK | |].
  - intros w1 E1 E2 E3. wred. rewrite E1.
    apply stepC_pure; [exact HI | exact E2 | apply io_same_eq; assumption |].
    exact (write_tail_default_PC D (st w) Hnh Hst).
  - intros w1 r H1 E3 R Hc1 Hcap L. wred. apply (consumed_after ATCMD w w1); try assumption.
    + exact (write_tail_NH (r_code r) (st w1) (hrel_NH D m _ _ R Hnh) Hc1).
    + match goal with |- u_count (u ?x) <= _ => change x with (write_tail (r_code r) (st w1)) end.
      rewrite write_tail_u. lia.
Qed.

(* cat.c:2173 *)
Lemma run_loop_step : forall w, FInv w -> k_state (k (st w)) = CS_RUN_LOOP ->
  FStepC w (fst (process_run_loop w)) (snd (process_run_loop w)).
Proof.
  intros w HI Hst. pose proof HI as (HS & Hnh & HK).
  unfold Fsm.process_run_loop.
  assert (Hc : cmd_ok D (k_cmd (k (st w)))).
  { destruct HS as (_ & HKS & _). unfold KS in HKS. rewrite Hst in HKS. exact HKS. }
  sproj. destruct (k_cmd (k (st w))) as [ci|] eqn:Ec; [|destruct Hc]. cbv zeta.
  split_call; [exact HK | |].
  - intros w1 E1 E2 E3. wred. rewrite E1.
    apply stepC_pure; [exact HI | exact E2 | apply io_same_eq; assumption |].
    exact (run_tail_default_PC D (st w) Hnh Hst).
  - intros w1 r H1 E3 R Hc1 Hcap L. wred. apply (consumed_after ATCMD w w1); try assumption.
    + exact (run_tail_NH D (r_code r) (st w1) (hrel_NH D m _ _ R Hnh) Hc1).
    + match goal with |- u_count (u ?x) <= _ => change x with (run_tail D (r_code r) (st w1)) end.
      rewrite run_tail_u. lia.
Qed.

(* cat.c:1365 *)
Lemma parse_write_args_step : forall w, FInv w -> k_state (k (st w)) = CS_PARSE_WRITE_ARGS ->
  FStepC w (fst (parse_write_args w)) (snd (parse_write_args w)).
Proof.
  intros w HI Hst. pose proof HI as (HS & Hnh & HK).
  assert (HF : fault (st (fst (parse_write_args w))) = false).
  { pose proof (s_cmd_safe D m WF w HK HS) as X. unfold Fsm.cmd_service in X. rewrite Hst in X.
    apply safe_fault in X. exact X. }
  revert HF. unfold Fsm.parse_write_args.
  assert (HKS : var_ok D (k_cmd (k (st w))) (k_var (k (st w)))).
  { destruct HS as (_ & HKS & _). unfold KS in HKS. rewrite Hst in HKS. apply HKS. }
  destruct (var_ok_at D _ _ HKS) as (ci & c & v & E1 & E2 & E3).
  unfold cmd_of, cmd_at. sproj. rewrite E1, E2, E3.
  destruct (nth_error (mem (st w)) (v_slot v)) as [data|]; [|intros HF; discriminate HF].
  destruct (decode_var v _ data) as [[[pst data'] wsz] n].
  set (s1 := set_mem (upd (mem (st w)) (v_slot v) data')
                     (setk_position (k_position (k (st w)) + n) (st w))).
  assert (Hn1 : NH s1) by (destruct Hnh as [A B]; split; assumption).
  assert (Hc1 : cC s1 = cC (st w)) by (unfold Lemmas_C15ba.cC; subst s1; sproj; rewrite Hst; reflexivity).
  destruct pst as [| |comma]; [intros HF; discriminate HF | |]; intros _.
  - wred. apply stepC_pure; [exact HI | reflexivity | apply io_same_refl |].
    apply (PC_base D (st w) s1); [|reflexivity | exact Hc1].
    apply ack_error_PC; [exact Hn1|]. unfold Lemmas_C15ba.cC. subst s1. sproj. rewrite Hst. cbn. lia.
  - set (s2 := setk_write_size wsz s1).
    assert (Hn2 : NH s2) by (destruct Hnh as [A B]; split; assumption).
    assert (Hc2 : cC s2 = cC (st w)) by (unfold Lemmas_C15ba.cC; subst s2 s1; sproj; rewrite Hst; reflexivity).
    assert (Tail : forall s3, NH s3 -> k_state (k s3) = CS_PARSE_WRITE_ARGS -> k_cmd (k s3) = Some ci ->
              PC s3 (pwa_tail c comma s3)).
    { intros s3 N3 K3 C3. apply (pwa_tail_PC D s3 ci c comma); assumption. }
    assert (T2 : PC (st w) (pwa_tail c comma s2)).
    { apply (PC_base D (st w) s2); [|reflexivity | exact Hc2]. apply Tail; [exact Hn2 | exact Hst | exact E1]. }
    destruct (v_hwrite v).
    + split_call; [exact HK | |].
      * intros w1 E1' E2' E3'. cbn [default_res r_code Z.eqb negb]. wred. rewrite E1'. cbn [Fsm.st Fsm.set_st].
        apply stepC_pure; [exact HI | exact E2' | apply io_same_eq; exact E3' | exact T2].
      * intros w1 r H1 E3' R Hcd Hcap L. cbn [Fsm.st Fsm.set_st Fsm.hs Fsm.io] in *.
        pose proof (hrel_NH D m _ _ R Hn2) as Hn3. destruct R as (_ & _ & K & _).
        destruct (kv_proj _ _ K) as (K1 & K2 & _).
        assert (T3 : PC (st w1) (pwa_tail c comma (st w1)))
          by (apply Tail; [exact Hn3 | rewrite K1; exact Hst | rewrite K2; exact E1]).
        destruct (negb (r_code r =? 0)%Z); wred; apply (consumed_after ATCMD w w1); try assumption.
        -- apply (NH_end_with_error ATCMD); exact Hn3.
        -- cbn. lia.
        -- exact (PG_NH D ATCMD _ _ T3).
        -- exact (PG_cap D ATCMD _ _ T3).
    + wred. cbn [Fsm.st Fsm.set_st].
      apply stepC_pure; [exact HI | reflexivity | apply io_same_eq; reflexivity | exact T2].
Qed.

(* ------------------------------------------------------------------ *)
(* the io states under an arbitrary schedule                            *)
(* ------------------------------------------------------------------ *)

Local Notation reading := (Fsm.reading sio smu shs s_read).
Local Notation process_io_write := (Fsm.process_io_write sio smu shs s_write).
Local Notation unsolicited_process_io_write := (Fsm.unsolicited_process_io_write sio smu shs s_write).

(* a reading state: the attempt is refused (stall); or the queue is empty and the command machine
   answers OK without changing anything; or one byte of the pending input is consumed *)
Lemma reading_step : forall w body, FInv w -> k_state (k (st w)) <> CS_FLUSH ->
  (forall ch s, NH s -> k_state (k s) = k_state (k (st w)) -> k_cmd (k s) = k_cmd (k (st w)) ->
     RB s (body ch s)) ->
  FStepC w (fst (reading w body)) (snd (reading w body)).
Proof.
  intros w body HI Hnf Hb. pose proof HI as (HS & Hnh & HK).
  unfold Fsm.reading, Fsm.read_cmd_char.
  destruct (s_read_cases (io w)) as [(A & B & C) | [(A & Ei & B & C) | (c & q & Ei & A & B & C)]];
    destruct (s_read (io w)) as [io' r]; cbn [fst snd] in *; subst r.
  - (* refused by the schedule *)
    cbn [negb fst snd]. split; [|split; [|split]].
    + unfold FInv'. wcbn. auto.
    + auto.
    + unfold sched_left, slio in *. wcbn. lia.
    + right. left. split; [unfold Lemmas_C15b.Same; wcbn; auto|]. unfold sched_left, slio in *. wcbn. exact C.
  - (* ready, no input *)
    cbn [negb fst snd]. split; [|split; [|split]].
    + unfold FInv'. wcbn. auto.
    + auto.
    + unfold sched_left, slio in *. wcbn. lia.
    + right. right. split; [unfold Lemmas_C15b.Same; wcbn; rewrite B, Ei; auto|].
      split; [exact Hnf | left; auto].
  - (* one byte consumed *)
    cbn [negb]. wred. wcbn.
    match goal with |- context [body _ ?s2] => set (s2' := s2) end.
    assert (Hn2 : NH s2') by (subst s2'; destruct Hnh as [A' B']; destruct (_ && _); split; assumption).
    assert (Hk2 : k_state (k s2') = k_state (k (st w))) by (subst s2'; destruct (_ && _); reflexivity).
    assert (Hc2 : k_cmd (k s2') = k_cmd (k (st w))) by (subst s2'; destruct (_ && _); reflexivity).
    assert (Hu2 : u s2' = u (st w)) by (subst s2'; destruct (_ && _); reflexivity).
    destruct (Hb (k_char (k s2')) s2' Hn2 Hk2 Hc2) as [B1 B2]. split; [|split; [|split]].
    + unfold FInv'. wcbn. auto.
    + unfold Lemmas_C15b.capok. wcbn. rewrite B2, Hu2. auto.
    + unfold sched_left, slio in *. wcbn. lia.
    + left. right. left. wcbn. rewrite Ei, B, B2, Hu2. cbn [length]. auto.
Qed.

(* cat.c:2461 *)
Lemma flush_step_C : forall w, FInv w -> k_state (k (st w)) = CS_FLUSH ->
  FStepC w (fst (process_io_write w)) (snd (process_io_write w)).
Proof.
  intros w HI Hst. pose proof HI as (HS & Hnh & HK).
  unfold Fsm.process_io_write.
  assert (F : flush_ok (k_wbuf (k (st w))) (k_wstate (k (st w))) (k_position (k (st w))) (cbuf (st w))).
  { destruct HS as (_ & HKS & _). unfold KS in HKS. rewrite Hst in HKS. apply HKS. }
  destruct (wbuf_char_ok _ _ _ _ F) as (ch & Ec & _). rewrite Ec.
  destruct (N.eqb_spec ch 0) as [Z|Z].
  - wred. apply stepC_pure; [exact HI | reflexivity | apply io_same_refl |].
    apply (flush_done_PC D m); assumption.
  - destruct (s_write_cases (io w) ch) as (W1 & W2 & W3).
    destruct (s_write (io w) ch) as [io' ok]. cbn [fst snd] in *. destruct ok.
    + wred. wcbn.
      apply stepC_pure; [exact HI | reflexivity | split; [exact W2 | unfold sched_left, slio in *; wcbn; exact W1] |].
      apply (flush_adv_PC D (st w) ch); try assumption. apply HS.
    + destruct W3 as [W3|W3]; [discriminate W3|]. wred. split; [|split; [|split]].
      * unfold FInv'. wcbn. auto.
      * auto.
      * unfold sched_left, slio in *. wcbn. exact W1.
      * right. left. split; [unfold Lemmas_C15b.Same; wcbn; auto|]. unfold sched_left, slio in *. wcbn. exact W3.
Qed.

(* cat.c:2493 *)
Lemma flush_step_U : forall w, FInv w -> u_state (u (st w)) = US_FLUSH ->
  FStepU w (fst (unsolicited_process_io_write w)) (snd (unsolicited_process_io_write w)).
Proof.
  intros w HI Hst. pose proof HI as (HS & Hnh & HK).
  unfold Fsm.unsolicited_process_io_write.
  assert (F : flush_ok (u_wbuf (u (st w))) (u_wstate (u (st w))) (u_position (u (st w))) (ubuf (st w))).
  { destruct HS as (_ & _ & HUS). unfold US in HUS. rewrite Hst in HUS. apply HUS. }
  destruct (wbuf_char_ok _ _ _ _ F) as (ch & Ec & _). rewrite Ec.
  destruct (N.eqb_spec ch 0) as [Z|Z].
  - wred. apply stepU_pure; [exact HI | reflexivity | apply io_same_refl |].
    apply (flush_done_PU D m); assumption.
  - destruct (s_write_cases (io w) ch) as (W1 & W2 & W3).
    destruct (s_write (io w) ch) as [io' ok]. cbn [fst snd] in *. destruct ok.
    + wred. wcbn.
      apply stepU_pure; [exact HI | reflexivity | split; [exact W2 | unfold sched_left, slio in *; wcbn; exact W1] |].
      apply (flush_adv_PU D (st w) ch); try assumption. apply HS.
    + destruct W3 as [W3|W3]; [discriminate W3|]. wred. split; [|split; [|split]].
      * unfold FInv'. wcbn. auto.
      * auto.
      * unfold sched_left, slio in *. wcbn. exact W1.
      * right. left. split; [unfold Lemmas_C15b.Same; wcbn; auto|]. unfold sched_left, slio in *. wcbn. exact W3.
Qed.

(* ------------------------------------------------------------------ *)
(* one step of each machine                                             *)
(* ------------------------------------------------------------------ *)

Lemma KS_of : forall w, FInv w -> KS D (k (st w)) (cbuf (st w)).
Proof. intros w ((_ & H & _) & _). exact H. Qed.
Lemma US_of : forall w, FInv w -> US D (u (st w)) (ubuf (st w)).
Proof. intros w ((_ & _ & H) & _). exact H. Qed.

Ltac pure_c HI := wred; apply stepC_pure; [exact HI | reflexivity | apply io_same_refl |].
Ltac pure_u HI := wred; apply stepU_pure; [exact HI | reflexivity | apply io_same_refl |].

Theorem s_cmd_step : forall w, FInv w -> FStepC w (fst (s_cmd w)) (snd (s_cmd w)).
Proof.
  intros w HI. pose proof HI as (HS & Hnh & HK). pose proof (KS_of w HI) as HKS.
  unfold Fsm.cmd_service.
  destruct (k_state (k (st w))) eqn:Hst; unfold KS in HKS; rewrite Hst in HKS;
    unfold Fsm.error_state, Fsm.process_idle_state, Fsm.parse_prefix, Fsm.parse_command,
           Fsm.wait_read_acknowledge, Fsm.wait_test_acknowledge, Fsm.parse_command_args.
  - apply reading_step; [exact HI | congruence|]. intros ch s N _ _. apply error_body_RB; exact N.
  - apply reading_step; [exact HI | congruence|]. intros ch s N _ _. apply idle_body_RB; exact N.
  - apply reading_step; [exact HI | congruence|]. intros ch s N _ _. apply prefix_body_RB; exact N.
  - apply reading_step; [exact HI | congruence|]. intros ch s N _ _. apply parse_command_body_RB; exact N.
  - pure_c HI. apply (update_command_PC D m WF); assumption.
  - apply reading_step; [exact HI | congruence|]. intros ch s N _ _. apply wait_read_body_RB; exact N.
  - pure_c HI. apply (search_command_PC D m WF); assumption.
  - pure_c HI. apply (command_found_PC D m); assumption.
  - pure_c HI. apply ack_error_PC; [exact Hnh|]. unfold Lemmas_C15ba.cC. rewrite Hst. cbn. lia.
  - apply reading_step; [exact HI | congruence|]. intros ch s N _ _. apply parse_command_args_body_RB; exact N.
  - apply parse_write_args_step; assumption.
  - apply (format_read_args_step ATCMD); [exact HI | exact Hst].
  - apply reading_step; [exact HI | congruence|]. intros ch s N _ Ec.
    apply (wait_test_body_RB D); [exact N | rewrite Ec; exact HKS].
  - pure_c HI. apply (format_test_args_PG D m ATCMD); [exact HS | exact Hnh | exact Hst].
  - apply write_loop_step; assumption.
  - apply (rt_loop_step true ATCMD); [exact HI | left; exact Hst].
  - apply (rt_loop_step false ATCMD); [exact HI | right; exact Hst].
  - apply run_loop_step; assumption.
  - destruct Hnh as [_ B]. congruence.
  - destruct (ustate_eq_dec (u_state (u (st w))) US_FLUSH) as [E|E].
    + wred. unfold process_io_write_wait. rewrite E. cbn [ustate_beq negb]. split; [|split; [|split]].
      * unfold FInv'. wcbn. auto.
      * auto.
      * unfold sched_left. wcbn. lia.
      * right. right. split; [repeat split; reflexivity|]. split; [congruence|]. right. auto.
    + pure_c HI. apply wait_PC; assumption.
  - apply flush_step_C; assumption.
  - pure_c HI. apply reset_PC; assumption.
  - pure_c HI. apply ack_ok_PC; [exact Hnh|]. unfold Lemmas_C15ba.cC. rewrite Hst. cbn. lia.
  - pure_c HI. apply (TC_PC D 13); [apply (spfra_TG D ATCMD); [exact Hnh | exact HKS]|].
    unfold Lemmas_C15ba.cC. rewrite Hst. cbn. lia.
  - pure_c HI. apply (TC_PC D 13); [apply (spfta_TG D ATCMD); [exact Hnh | exact HKS]|].
    unfold Lemmas_C15ba.cC. rewrite Hst. cbn. lia.
  - pure_c HI. apply (print_cmd_list_PC D m); assumption.
Qed.

Theorem s_uns_step : forall w, FInv w -> FStepU w (fst (s_uns w)) (snd (s_uns w)).
Proof.
  intros w HI. pose proof HI as (HS & Hnh & HK). pose proof (US_of w HI) as HUS.
  unfold Fsm.unsolicited_events_service.
  destruct (u_state (u (st w))) eqn:Hst; unfold US in HUS; rewrite Hst in HUS.
  - destruct (ring_empty (st w)) eqn:Er; cbn [negb].
    + cbn [fst snd]. split; [exact (proj2 HI)|]. split; [auto|]. split; [lia|].
      right. right. split; [repeat split; reflexivity|]. left. auto.
    + wred. apply stepU_pure; [exact HI | destruct (ring_items D (st w)); reflexivity | |].
      * destruct (ring_items D (st w)); apply io_same_eq; reflexivity.
      * replace (st match ring_items D (st w) with [] => w | it :: _ => logw (EPop (fst it) (snd it)) w end)
          with (st w) by (destruct (ring_items D (st w)); reflexivity).
        apply (check_unsolicited_buffers_PU D m); assumption.
  - apply (format_read_args_step UNSOL); [exact HI | exact Hst].
  - pure_u HI. apply (format_test_args_PG D m UNSOL); [exact HS | exact Hnh | exact Hst].
  - apply (rt_loop_step true UNSOL); [exact HI | left; exact Hst].
  - apply (rt_loop_step false UNSOL); [exact HI | right; exact Hst].
  - destruct (cstate_eq_dec (k_state (k (st w))) CS_FLUSH) as [E|E].
    + wred. unfold unsolicited_process_io_write_wait. rewrite E. cbn [cstate_beq negb]. split; [|split; [|split]].
      * unfold FInv'. wcbn. auto.
      * auto.
      * unfold sched_left. wcbn. lia.
      * right. right. split; [repeat split; reflexivity|]. right. exact E.
    + pure_u HI. apply wait_PU; assumption.
  - apply flush_step_U; assumption.
  - pure_u HI. apply ureset_PU; [exact Hnh|]. unfold Lemmas_C15ba.cU. rewrite Hst. cbn. lia.
  - pure_u HI. apply ureset_PU; [exact Hnh|]. unfold Lemmas_C15ba.cU. rewrite Hst. cbn. lia.
  - pure_u HI. apply (TU_PU D 7); [apply (spfra_TG D UNSOL); [exact Hnh | exact HUS]|].
    unfold Lemmas_C15ba.cU. rewrite Hst. cbn. lia.
  - pure_u HI. apply (TU_PU D 7); [apply (spfta_TG D UNSOL); [exact Hnh | exact HUS]|].
    unfold Lemmas_C15ba.cU. rewrite Hst. cbn. lia.
Qed.

(* ------------------------------------------------------------------ *)
(* one cat_service call                                                 *)
(* ------------------------------------------------------------------ *)

(* the potential decreases (schedule not longer), or it is unchanged and a scheduled attempt was
   used up by a refusal, or the call answers OK and there is no input left *)
Theorem body_step : forall w, FInv w ->
  FInv (fst (s_body w)) /\ (capok (st w) -> capok (st (fst (s_body w)))) /\
  sl (fst (s_body w)) <= sl w /\
  ((capok (st w) -> Phi (fst (s_body w)) < Phi w) \/
   (Phi (fst (s_body w)) = Phi w /\ sl (fst (s_body w)) < sl w) \/
   (snd (s_body w) = ST_OK /\ inq (io w) = [])).
Proof.
  intros w HI. pose proof HI as (HS & Hnh & HK).
  pose proof (s_uns_step w HI) as (HI1' & Hc1 & L1 & HU). pose proof (s_uns_safe D m WF w HK HS) as HS1.
  unfold Fsm.service_body. destruct (s_uns w) as [w1 us]. cbn [fst snd] in *.
  assert (HI1 : FInv w1) by (split; assumption).
  pose proof (s_cmd_step w1 HI1) as (HI2' & Hc2 & L2 & HC).
  pose proof (s_cmd_safe D m WF w1 (proj2 HI1') HS1) as HS2.
  destruct (s_cmd w1) as [w2 rc]. cbn [fst snd] in *.
  assert (HI2 : FInv w2) by (split; assumption).
  assert (X : (capok (st w) -> Phi w2 < Phi w) \/ (Phi w2 = Phi w /\ sl w2 < sl w) \/
              (us = ST_OK /\ u_state (u (st w2)) = US_IDLE /\ rc = ST_OK /\ inq (io w) = [])).
  { destruct HU as [HU | [(EM1 & S1) | (EM1 & HU)]]; destruct HC as [HC | [(EM2 & S2) | (EM2 & Hnf & HC)]].
    - left. intros C0. pose proof (Prog_phi D _ _ HU (Hc1 C0)). pose proof (Prog_phi D _ _ HC (Hc2 (Hc1 C0))). lia.
    - left. intros C0. rewrite (Same_phi D _ _ EM2). exact (Prog_phi D _ _ HU (Hc1 C0)).
    - left. intros C0. rewrite (Same_phi D _ _ EM2). exact (Prog_phi D _ _ HU (Hc1 C0)).
    - left. intros C0. rewrite <- (Same_phi D _ _ EM1). exact (Prog_phi D _ _ HC (Hc2 (Hc1 C0))).
    - right. left. rewrite (Same_phi D _ _ EM2), (Same_phi D _ _ EM1). split; [reflexivity | lia].
    - right. left. rewrite (Same_phi D _ _ EM2), (Same_phi D _ _ EM1). split; [reflexivity | lia].
    - left. intros C0. rewrite <- (Same_phi D _ _ EM1). exact (Prog_phi D _ _ HC (Hc2 (Hc1 C0))).
    - right. left. rewrite (Same_phi D _ _ EM2), (Same_phi D _ _ EM1). split; [reflexivity | lia].
    - destruct EM1 as (ES1 & _ & EI1). destruct EM2 as (ES2 & _). rewrite ES1 in *.
      destruct HU as [[U1 U2] | U]; [|congruence].
      destruct HC as [[C1 C2] | [_ C]]; [|congruence].
      right. right. rewrite ES2. rewrite EI1 in C2. auto. }
  assert (Hc : capok (st w) -> capok (st w2)) by auto.
  assert (L : sl w2 <= sl w) by lia.
  destruct X as [X | [X | (X1 & X2 & X3 & X4)]].
  - destruct (_ || _); cbn [fst snd]; (split; [exact HI2 | split; [exact Hc | split; [exact L | left; exact X]]]).
  - destruct (_ || _); cbn [fst snd]; (split; [exact HI2 | split; [exact Hc | split; [exact L | right; left; exact X]]]).
  - subst us rc. rewrite X2. cbn. split; [exact HI2 | split; [exact Hc | split; [exact L | right; right; auto]]].
Qed.

Local Notation s_do := (Fsm.do_op D sio smu shs s_read s_write s_lock s_unlock s_call).

(* the number of calls is at most the potential of the starting world plus the number of scheduled
   attempts *)
Theorem reaches_ok_fair : forall w, d_mutex D = false -> FInv w -> capok (st w) ->
  exists n, n <= Phi w + sl w /\ inq (io (nsvc D n w)) = [] /\
            snd (s_do (nsvc D n w) OService) = ST_OK.
Proof.
  intros w Hmx. remember (Phi w + sl w) as p eqn:Ep. revert w Ep.
  induction p as [p IH] using lt_wf_ind. intros w Ep HI Hc.
  destruct (body_step w HI) as (HI2 & Hc2 & L & Cs).
  assert (Es : exists w2 r, s_body w = (w2, r) /\ svc D w = logw (ERet OService r) w2).
  { unfold svc, Fsm.step. cbn [Fsm.do_op]. unfold Fsm.api_service, Fsm.bracket. rewrite Hmx.
    destruct (s_body w) as [w2 r]. eauto. }
  destruct Es as (w2 & r & Eb & Es). rewrite Eb in *. cbn [fst snd] in *.
  assert (Rec : Phi w2 + sl w2 < Phi w + sl w ->
    exists n, n <= p /\ inq (io (nsvc D n w)) = [] /\ snd (s_do (nsvc D n w) OService) = ST_OK).
  { intros Lt. destruct (IH (Phi (svc D w) + sl (svc D w))) with (w := svc D w) as (n & Hn & Hi & Ho).
    + rewrite Ep, Es. exact Lt.
    + reflexivity.
    + rewrite Es. exact HI2.
    + rewrite Es. exact (Hc2 Hc).
    + exists (S n). split; [|split; [exact Hi | exact Ho]]. rewrite Es in Hn.
      change (Phi (logw (ERet OService r) w2)) with (Phi w2) in Hn.
      change (sl (logw (ERet OService r) w2)) with (sl w2) in Hn. lia. }
  destruct Cs as [X | [(X1 & X2) | (E & Ei)]].
  - apply Rec. specialize (X Hc). lia.
  - apply Rec. lia.
  - exists 0. split; [lia|]. split; [exact Ei|].
    cbn [nsvc iter Fsm.do_op]. unfold Fsm.api_service, Fsm.bracket. rewrite Hmx, Eb. exact E.
Qed.

End Fair.

(* ================================================================== *)
(* the delivered statements                                            *)
(* ================================================================== *)

Theorem C15_reaches_quiescence_fair_proof : forall D m (w : sworld),
  d_mutex D = false ->
  wf_desc D m -> Safe D m (st _ _ _ w) ->
  J (ctl_of (st _ _ _ w)) ->
  script_ok no_hold_res (hs _ _ _ w) = true ->
  k_state (k (st _ _ _ w)) <> CS_HOLD ->
  script_ok (res_calls_ok D) (hs _ _ _ w) = true ->
  u_count (u (st _ _ _ w)) <= d_cap D ->
  exists n, n <= C15_bound D w + sched_left w /\
    inq (io _ _ _ (nsvc D n w)) = [] /\
    snd (do_op D sio smu shs s_read s_write s_lock s_unlock s_call (nsvc D n w) OService) = ST_OK.
Proof.
  intros D m w Hmx WF HS HJ S1 Hk S2 Hc.
  assert (Hh : k_hold (k (st _ _ _ w)) = false).
  { destruct HJ as [[H1 _] _]. cbn in H1.
    destruct (k_hold (k (st _ _ _ w))); [exfalso; apply Hk, H1; reflexivity | reflexivity]. }
  destruct (reaches_ok_fair D m WF w Hmx) as (n & Hn & Hi & Ho).
  - split; [exact HS|]. split; [split; assumption|]. split; assumption.
  - exact Hc.
  - exists n. split; [|split; [exact Hi | exact Ho]]. pose proof (Phi_bound D w). lia.
Qed.

Print Assumptions C15_reaches_quiescence_fair_proof.

(* quiescence is reached, nothing is left behind, and it stays *)
Theorem C15_fair_nothing_left_proof : forall D m (w : sworld),
  d_mutex D = false ->
  wf_desc D m -> Safe D m (st _ _ _ w) ->
  J (ctl_of (st _ _ _ w)) ->
  script_ok no_hold_res (hs _ _ _ w) = true ->
  k_state (k (st _ _ _ w)) <> CS_HOLD ->
  script_ok (res_calls_ok D) (hs _ _ _ w) = true ->
  u_count (u (st _ _ _ w)) <= d_cap D ->
  exists n, n <= C15_bound D w + sched_left w /\
    let w' := nsvc D n w in
    inq (io _ _ _ w') = [] /\
    u_count (u (st _ _ _ w')) = 0 /\ u_state (u (st _ _ _ w')) = US_IDLE /\
    reading_state (k_state (k (st _ _ _ w'))) = true /\ ring_items D (st _ _ _ w') = [] /\
    forall j,
      snd (do_op D sio smu shs s_read s_write s_lock s_unlock s_call (nsvc D j w') OService) = ST_OK /\
      st _ _ _ (nsvc D j w') = st _ _ _ w' /\ hs _ _ _ (nsvc D j w') = hs _ _ _ w'.
Proof.
  intros D m w Hmx WF HS HJ S1 Hk S2 Hc.
  destruct (C15_reaches_quiescence_fair_proof D m w Hmx WF HS HJ S1 Hk S2 Hc) as (n & Hn & Hi & Ho).
  exists n. split; [exact Hn|]. cbv zeta. set (w' := nsvc D n w) in *.
  split; [exact Hi|].
  assert (Q : exists w'', service_body D sio smu shs s_read s_write s_lock s_unlock s_call w' = (w'', ST_OK)).
  { cbn [Fsm.do_op] in Ho. unfold Fsm.api_service, Fsm.bracket in Ho. rewrite Hmx in Ho.
    destruct (service_body D sio smu shs s_read s_write s_lock s_unlock s_call w') as [w'' s].
    cbn [snd] in Ho. subst s. eauto. }
  destruct Q as (w'' & Q).
  destruct (C15_ok_is_quiescent D sio smu shs s_read s_write s_lock s_unlock s_call w' w'' Q)
    as (Q1 & Q2 & Q3 & Q4 & _).
  split; [exact Q3|]. split; [exact Q2|]. split; [exact Q1|]. split; [exact Q4|].
  intros j. split; [exact (C15_quiescent_forever_ok D w' j Hmx Hi Ho)|].
  exact (C15_quiescent_forever D w' j Hmx Hi Ho).
Qed.

Print Assumptions C15_fair_nothing_left_proof.
