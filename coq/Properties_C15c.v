(* Properties_C15c.v — property C15, second half, for ALL fair io schedules with finitely many
   refusals.  Properties_C15b.v proves that the service loop reaches quiescence on the always-ready
   scripted environment (rd_sched = wr_sched = []).  Here the readiness schedules of Script.v are
   ARBITRARY finite lists of bits (one bit popped per read / write attempt; `false` = the attempt is
   refused: the read returns nothing without consuming input, the write is not accepted; an
   exhausted schedule means "ready").  A finite list followed by "always ready" is exactly a fair
   schedule with finitely many refusals.  Whatever the schedule, after at most
        C15_bound D w + sched_left w
   cat_service calls the pending input has been consumed completely and cat_service answers OK;
   at that point nothing is left behind (no event queued or in progress, no output pending), and
   every further call answers OK without changing the state.

   With a refusing read schedule an EARLIER call may answer OK while input is still pending (the
   refused read looks like "no byte available", cf. C15_ok_is_quiescent); that is why `inq = []` is
   part of the conclusions (example C15c_ex_early_ok below).

   Proofs: Lemmas_C15c.v (the step lemmas of Lemmas_C15b.v with the schedule equations dropped
   from the invariant: every call decreases the potential Phi of Lemmas_C15b with the schedules
   not growing, or keeps Phi and uses up a scheduled attempt by a refusal, or answers OK with no
   input left), on top of Lemmas_C15ba.v / Lemmas_C15b.v / Lemmas_C15.v.

   Definitions used in the statements (TermDefs.v, SchedDefs.v, Lemmas_C15c.v):
     sched_left w       = length (rd_sched (io w)) + length (wr_sched (io w))   (Lemmas_C15c.v;
                          restated below as sched_left_def)
     C15_bound D w      = script_left (hs w) * ((d_cap D + 1) * cost_u D + cost_c D)
                          + length (inq (io w)) * cost_c D + u_count (u (st w)) * cost_u D
                          + cost_u D + cost_c D
     script_left, no_hold_res, res_calls_ok, script_ok, svc, nsvc, cost_u, cost_c: see Properties_C15b.v *)
From Coq Require Import List NArith ZArith Bool Arith Lia.
From Coq Require Import ZifyNat ZifyN.
From CatV Require Import Bytes Defs Codec Fsm Script TraceDefs Skel SkelInv ResolveDefs SchedDefs TermDefs.
From CatV Require Import Lemmas_C03 Lemmas_C15c.
Import ListNotations.

(* the number of scheduled io attempts (readiness bits) not yet used *)
Example sched_left_def : forall w : sworld,
  sched_left w = length (rd_sched (io _ _ _ w)) + length (wr_sched (io _ _ _ w)).
Proof. intros w. reflexivity. Qed.

(* 1. quiescence is reached under every finite readiness schedule: the input is consumed
   completely and cat_service answers OK, after at most bound + scheduled attempts calls *)
Theorem C15_reaches_quiescence_fair : forall D m (w : sworld),
  d_mutex D = false ->
  wf_desc D m -> Safe D m (st _ _ _ w) ->             (* safety invariant, e.g. any reachable state *)
  J (ctl_of (st _ _ _ w)) ->                          (* control invariant, e.g. any reachable state *)
  script_ok no_hold_res (hs _ _ _ w) = true ->        (* no handler asks for HOLD any more ... *)
  k_state (k (st _ _ _ w)) <> CS_HOLD ->              (* ... and the command is not currently held *)
  script_ok (res_calls_ok D) (hs _ _ _ w) = true ->   (* inner triggers name pool commands *)
  u_count (u (st _ _ _ w)) <= d_cap D ->              (* the queue holds at most d_cap events *)
  exists n, n <= C15_bound D w + sched_left w /\
    inq (io _ _ _ (nsvc D n w)) = [] /\
    snd (do_op D sio smu shs s_read s_write s_lock s_unlock s_call (nsvc D n w) OService) = ST_OK.
Proof. exact Lemmas_C15c.C15_reaches_quiescence_fair_proof. Qed.
Print Assumptions C15_reaches_quiescence_fair.

(* 2. ... and then nothing is left behind, and it stays so: no event queued or in progress, the
   command machine waits for input in a reading state, and every further call answers OK and
   leaves the parser's state and the handlers' scripts untouched *)
Theorem C15_fair_nothing_left : forall D m (w : sworld),
  d_mutex D = false ->
  wf_desc D m -> Safe D m (st _ _ _ w) ->
  J (ctl_of (st _ _ _ w)) ->
  script_ok no_hold_res (hs _ _ _ w) = true ->
  k_state (k (st _ _ _ w)) <> CS_HOLD ->
  script_ok (res_calls_ok D) (hs _ _ _ w) = true ->
  u_count (u (st _ _ _ w)) <= d_cap D ->
  exists n, n <= C15_bound D w + sched_left w /\
    let w' := nsvc D n w in
    inq (io _ _ _ w') = [] /\
    u_count (u (st _ _ _ w')) = 0 /\ u_state (u (st _ _ _ w')) = US_IDLE /\
    reading_state (k_state (k (st _ _ _ w'))) = true /\ ring_items D (st _ _ _ w') = [] /\
    forall j,
      snd (do_op D sio smu shs s_read s_write s_lock s_unlock s_call (nsvc D j w') OService) = ST_OK /\
      st _ _ _ (nsvc D j w') = st _ _ _ w' /\ hs _ _ _ (nsvc D j w') = hs _ _ _ w'.
Proof. exact Lemmas_C15c.C15_fair_nothing_left_proof. Qed.
Print Assumptions C15_fair_nothing_left.

(* ------------------------------------------------------------------ *)
(* non-vacuity: scripted runs with refusing schedules                   *)
(* ------------------------------------------------------------------ *)

Definition rets (h : list event) : list Z :=
  flat_map (fun e => match e with ERet _ r => [r] | _ => [] end) h.
Definition written (h : list event) : list N :=
  flat_map (fun e => match e with EWr _ ch true => [ch] | _ => [] end) h.
Definition refused_writes (h : list event) : nat :=
  length (filter (fun e => match e with EWr _ _ false => true | _ => false end) h).
Definition refused_reads (h : list event) : nat :=
  length (filter (fun e => match e with ERd None => true | _ => false end) h).

(* one command "+X" with read and run handlers, no mutex, queue capacity 2 (as in Properties_C15b.v) *)
Definition exD : desc :=
  mkDesc [[mkCmd [43; 88]%N None false true true false [] false false false]] [] 16 None 0%N 2 false.
Local Notation exdo := (do_op exD sio smu shs s_read s_write s_lock s_unlock s_call).

Definition ex_rd : list bool := [false; true; false; false; true].
Definition ex_wr : list bool := [true; false; false; true; false; true; true; false].
Definition ex_script : shs :=
  [((1, 0, 0), [mkHres RC_DATA_OK (Some [43; 88; 61; 49]%N) [] [];
                mkHres RC_DATA_OK (Some [43; 88; 61; 50]%N) [] [];
                mkHres RC_DATA_OK (Some [43; 88; 61; 51]%N) [] []])].

(* the world exW of Properties_C15b.v (input "AT+X?\n" pending, two read events of "+X" queued),
   once with refusing schedules and once always ready *)
Definition exW_of (rd wr : list bool) : sworld :=
  srun exD (sinit exD [] (mkSio [65; 84; 43; 88; 63; 10]%N rd wr) (mkSmu [] []) ex_script)
       [SOp (OTrigger 0 T_READ); SOp (OTrigger 0 T_READ)].
Definition exWf : sworld := exW_of ex_rd ex_wr.
Definition exWr : sworld := exW_of [] [].

Lemma ex_wf : wf_desc exD [].
Proof. unfold wf_desc. cbn. repeat split; try lia; repeat (apply Forall_cons; [apply Forall_nil|]); apply Forall_nil. Qed.

(* the hypotheses of the theorems hold for exWf; 13 attempts are scheduled; the bound is 116280 + 13 *)
Example C15c_ex_hypotheses :
  d_mutex exD = false /\ wf_desc exD [] /\ Safe exD [] (st _ _ _ exWf) /\ J (ctl_of (st _ _ _ exWf)) /\
  script_ok no_hold_res (hs _ _ _ exWf) = true /\ k_state (k (st _ _ _ exWf)) <> CS_HOLD /\
  script_ok (res_calls_ok exD) (hs _ _ _ exWf) = true /\ u_count (u (st _ _ _ exWf)) <= d_cap exD /\
  rd_sched (io _ _ _ exWf) = ex_rd /\ wr_sched (io _ _ _ exWf) = ex_wr /\ sched_left exWf = 13 /\
  N.of_nat (C15_bound exD exWf + sched_left exWf) = 116293%N.
Proof.
  split; [reflexivity|]. split; [exact ex_wf|]. split.
  { unfold Safe, Base, KS, US, ring_ok, cmd_wk. cbn. repeat split; try lia.
    repeat (apply Forall_cons; [cbn; lia|]). apply Forall_nil. }
  split.
  { replace (ctl_of (st _ _ _ exWf)) with init_ctl by (vm_compute; reflexivity). exact J_init. }
  split; [reflexivity|]. split; [cbn; discriminate|]. split; [reflexivity|].
  split; [cbn; lia|]. split; [reflexivity|]. split; [reflexivity|]. split; [reflexivity|].
  vm_compute; reflexivity.
Qed.

(* the always-ready run takes 39 calls (Properties_C15b.C15b_ex_run); with these schedules 43 calls
   answer BUSY, the 44th answers OK with the input consumed; 3 reads and 4 writes were refused on
   the way (the other 6 scheduled bits were `true`), and the bytes written are exactly those of
   the always-ready run *)
Example C15c_ex_run :
  map (fun n => snd (exdo (nsvc exD n exWf) OService)) (seq 0 45) = repeat ST_BUSY 43 ++ [ST_OK; ST_OK] /\
  inq (io _ _ _ (nsvc exD 43 exWf)) = [] /\ sched_left (nsvc exD 43 exWf) = 0 /\
  43 <= C15_bound exD exWf + sched_left exWf /\
  map (fun n => snd (exdo (nsvc exD n exWr) OService)) (seq 0 41) = repeat ST_BUSY 39 ++ [ST_OK; ST_OK] /\
  written (hist _ _ _ (nsvc exD 43 exWf)) = written (hist _ _ _ (nsvc exD 39 exWr)) /\
  written (hist _ _ _ (nsvc exD 43 exWf)) =
    [10; 43; 88; 61; 49; 10;  10; 43; 88; 61; 50; 10;  10; 43; 88; 61; 51; 10;  10; 79; 75; 10]%N.
Proof.
  split; [vm_compute; reflexivity|]. split; [vm_compute; reflexivity|]. split; [vm_compute; reflexivity|].
  split; [apply Nat.leb_le; vm_compute; reflexivity|].
  split; [vm_compute; reflexivity|]. split; vm_compute; reflexivity.
Qed.

Example C15c_ex_refusals :
  refused_reads (hist _ _ _ (nsvc exD 43 exWf)) = 3 /\ refused_writes (hist _ _ _ (nsvc exD 43 exWf)) = 4 /\
  refused_reads (hist _ _ _ (nsvc exD 39 exWr)) = 0 /\ refused_writes (hist _ _ _ (nsvc exD 39 exWr)) = 0.
Proof. vm_compute. repeat split; reflexivity. Qed.

(* the theorems apply to exWf *)
Example C15c_ex_theorem_applies :
  exists n, (N.of_nat n <= 116293)%N /\ inq (io _ _ _ (nsvc exD n exWf)) = [] /\
            snd (exdo (nsvc exD n exWf) OService) = ST_OK.
Proof.
  destruct C15c_ex_hypotheses as (H1 & H2 & H3 & H4 & H5 & H6 & H7 & H8 & _ & _ & _ & H9).
  destruct (C15_reaches_quiescence_fair exD [] exWf H1 H2 H3 H4 H5 H6 H7 H8) as (n & Hn & Hi & Ho).
  exists n. split; [|split; assumption].
  rewrite <- H9. lia.
Qed.

(* why `inq = []` is part of the conclusion: the same input with no event queued.  The very first
   read attempt is refused, so the first call answers OK although all 6 input bytes are pending
   (calls 3 and 4 likewise, with 5 bytes pending); quiescence proper is reached after 37 calls
   (31 when always ready), with the same output *)
Definition exWg_of (rd wr : list bool) : sworld :=
  sinit exD [] (mkSio [65; 84; 43; 88; 63; 10]%N rd wr) (mkSmu [] []) ex_script.
Definition exWg : sworld := exWg_of ex_rd [true; false; false; true; false].

Example C15c_ex_early_ok :
  Safe exD [] (st _ _ _ exWg) /\ J (ctl_of (st _ _ _ exWg)) /\ u_count (u (st _ _ _ exWg)) <= d_cap exD /\
  snd (exdo exWg OService) = ST_OK /\ length (inq (io _ _ _ exWg)) = 6 /\
  map (fun n => (snd (exdo (nsvc exD n exWg) OService), length (inq (io _ _ _ (nsvc exD n exWg))))) (seq 0 5) =
    [(ST_OK, 6); (ST_BUSY, 6); (ST_OK, 5); (ST_OK, 5); (ST_BUSY, 5)] /\
  map (fun n => snd (exdo (nsvc exD n exWg) OService)) (seq 5 34) = repeat ST_BUSY 32 ++ [ST_OK; ST_OK] /\
  inq (io _ _ _ (nsvc exD 37 exWg)) = [] /\
  map (fun n => snd (exdo (nsvc exD n (exWg_of [] [])) OService)) (seq 0 33) = repeat ST_BUSY 31 ++ [ST_OK; ST_OK] /\
  written (hist _ _ _ (nsvc exD 37 exWg)) = written (hist _ _ _ (nsvc exD 31 (exWg_of [] []))) /\
  written (hist _ _ _ (nsvc exD 37 exWg)) = [10; 43; 88; 61; 49; 10;  10; 79; 75; 10]%N.
Proof.
  split.
  { unfold Safe, Base, KS, US, ring_ok, cmd_wk. cbn. repeat split; try lia.
    repeat (apply Forall_cons; [cbn; lia|]). apply Forall_nil. }
  split; [exact J_init|]. split; [cbn; lia|].
  vm_compute. repeat split; reflexivity.
Qed.
