(* Properties_C03c.v — property C03, three facts that Properties_C03.v (the fault flag is never raised)
   uses implicitly, stated on their own:
     1. the argument decoders never modify a byte of a variable's storage at or beyond data_size, never
        change the length of the storage, and report a write_size of at most data_size — for EVERY
        text (NUL-terminated or not) and every storage;
     2. in shared-buffer mode the command machine's region [0, asz) and the event machine's region
        [uoff, uoff + usz) of the one working buffer are disjoint and inside it;
     3. in every reachable state of the domain the two working buffers, the event ring and every
        variable's storage have the lengths fixed at initialisation.
   Proofs are in Lemmas_Calls.v (3 from the invariant Safe of Lemmas_C03b.v). *)
From Coq Require Import List NArith ZArith Bool Arith Lia.
From CatV Require Import Bytes Defs Codec Fsm Script Lemmas_C03.
From CatV Require Lemmas_Calls.
Import ListNotations.
Local Open Scope nat_scope.

(* 1. as requested, for storages at least data_size long ... *)
Theorem C03_decode_within_size : forall v l data, v_size v <= length data ->
  let '(p, d, ws, n) := decode_var v l data in
  length d = length data /\ skipn (v_size v) d = skipn (v_size v) data /\ ws <= v_size v.
Proof. intros v l data _. exact (Lemmas_Calls.decode_within_size v l data). Qed.

(* ... and the hypothesis is not needed: a storage shorter than data_size is never extended (the
   model's checked store reports SFault instead) *)
Theorem C03_decode_within_size_any : forall v l data,
  let '(p, d, ws, n) := decode_var v l data in
  length d = length data /\ skipn (v_size v) d = skipn (v_size v) data /\ ws <= v_size v.
Proof. exact Lemmas_Calls.decode_within_size. Qed.

(* 2. cat.c:44-57 in shared mode: both regions are buf_size / 2 long, the second starts at buf_size / 2 *)
Theorem C03_shared_split : forall D, d_ubuf_size D = None ->
  asz_of D <= uoff_of D /\ uoff_of D + usz_of D <= d_buf_size D.
Proof. exact Lemmas_Calls.shared_split. Qed.

(* 3. lengths over histories, in the domain of Properties_C03.v *)
Theorem C03_lengths_reachable : forall (D : desc) (ioS muS hS : Type)
  (io_read : ioS -> ioS * option N) (io_write : ioS -> N -> ioS * bool)
  (mu_lock mu_unlock : muS -> muS * bool) (h_call : hS -> hreq -> hS * hres),
  (forall hs q, Forall (valid_icall D) (r_calls (snd (h_call hs q)))) ->
  forall m x mx h ops, wf_desc D m -> Forall (valid_op D) ops ->
  let s := st ioS muS hS (run D ioS muS hS io_read io_write mu_lock mu_unlock h_call
                              (mkWorld ioS muS hS (init_state D m) x mx h []) ops) in
  length (cbuf s) = asz_of D /\ length (ubuf s) = usz_of D /\ length (u_ring (u s)) = d_cap D /\
  map (@length N) (mem s) = map (@length N) m.
Proof. exact Lemmas_Calls.lengths_reachable. Qed.

Print Assumptions C03_decode_within_size.
Print Assumptions C03_decode_within_size_any.
Print Assumptions C03_shared_split.
Print Assumptions C03_lengths_reachable.

(* ------------------------------------------------------------------ *)
(* non-vacuity                                                          *)
(* ------------------------------------------------------------------ *)
Module Examples.

(* a 2-byte string variable and a 2-byte hex buffer inside 4-byte storages, a uint8 inside 3 bytes *)
Definition v_str := mkVar None VBufStr 2 RW false false 0.
Definition v_hex := mkVar None VBufHex 2 RW false false 0.
Definition v_u8 := mkVar None VUint 1 RW false false 0.
Definition txt (l : list nat) : list N := map N.of_nat l.

(* a one-character string writes the character and its NUL; bytes 2 and 3 of the storage are kept *)
Example ex_str : decode_var v_str (txt [34; 97; 34; 0]) [9; 9; 9; 9]%N = (SOk false, [97; 0; 9; 9]%N, 1, 4).
Proof. vm_compute. reflexivity. Qed.
(* an unterminated text: the decoder runs off the end (SFault in the model), having modified only the
   first data_size bytes *)
Example ex_str_unterminated :
  decode_var v_str (txt [34; 97; 98; 99]) [9; 9; 9; 9]%N = (SErr, [97; 98; 9; 9]%N, 0, 4) /\
  decode_var v_str (txt [34; 97; 98]) [9; 9; 9; 9]%N = (SFault, [97; 98; 9; 9]%N, 0, 3).
Proof. vm_compute. split; reflexivity. Qed.
Example ex_hex : decode_var v_hex (txt [65; 66; 67; 68; 0]) [9; 9; 9; 9]%N = (SOk false, [171; 205; 9; 9]%N, 2, 5).
Proof. vm_compute. reflexivity. Qed.
Example ex_hex_too_long :
  decode_var v_hex (txt [65; 66; 67; 68; 69; 70; 0]) [9; 9; 9; 9]%N = (SErr, [171; 205; 9; 9]%N, 0, 6).
Proof. vm_compute. reflexivity. Qed.
Example ex_u8 : decode_var v_u8 (txt [50; 48; 48; 44]) [9; 9; 9]%N = (SOk true, [200; 9; 9]%N, 1, 4).
Proof. vm_compute. reflexivity. Qed.

(* shared mode with an odd buffer size: regions [0,7) and [7,14) of a 15-byte buffer *)
Definition D_shared := mkDesc [[mkCmd [43; 88]%N None false false true false [] false false false]] [] 15 None 0%N 2 false.
Example ex_split :
  d_ubuf_size D_shared = None /\ (asz_of D_shared, uoff_of D_shared, usz_of D_shared) = (7, 7, 7).
Proof. vm_compute. split; reflexivity. Qed.

(* the domain of 3 is the one of Properties_C03.v (its example ex_wf / ex_run); the lengths on a run
   in shared mode *)
Example ex_wf_shared : wf_desc D_shared [].
Proof.
  unfold wf_desc. cbn. repeat split; try lia;
    repeat constructor; unfold wf_var, hexbuf_nonempty; cbn; eauto; try discriminate; try lia.
Qed.
Example ex_lengths :
  let w := run D_shared sio smu shs s_read s_write s_lock s_unlock s_call
               (sinit D_shared [] (mkSio (txt [65; 84; 43; 88; 10]) [] []) (mkSmu [] []) [])
               (OTrigger 0 T_READ :: repeat OService 60) in
  (length (cbuf (st _ _ _ w)), length (ubuf (st _ _ _ w)), length (u_ring (u (st _ _ _ w))),
   k_state (k (st _ _ _ w)), fault (st _ _ _ w)) = (7, 7, 2, CS_IDLE, false).
Proof. vm_compute. reflexivity. Qed.

End Examples.
