(* SchedDefs.v — definitions used to state C12 (independence from io scheduling) and C15 on the
   scripted environment of Script.v.  No proofs. *)
From Coq Require Import List NArith ZArith Bool Arith.
From CatV Require Import Bytes Defs Codec Fsm Script ResolveDefs.
Import ListNotations.

(* events that remain visible when refused io attempts and the per-call return records of
   cat_service are deleted *)
Definition visible (e : event) : bool :=
  match e with
  | ERd None => false
  | EWr _ _ false => false
  | ERet OService _ => false
  | _ => true
  end.

Section Sched.
Variable D : desc.

Definition svc (w : sworld) : sworld :=
  step D sio smu shs s_read s_write s_lock s_unlock s_call w OService.
Definition nsvc (n : nat) (w : sworld) : sworld := iter n svc w.

(* what must not depend on the schedule: the object state, the handlers' state, the input not yet
   consumed, and everything observable that happened (accepted output bytes, consumed input bytes,
   handler calls with their arguments) *)
Definition core (w : sworld) : state * shs * list N * list event :=
  (st _ _ _ w, hs _ _ _ w, inq (io _ _ _ w), filter visible (tr _ _ _ w)).

(* the same world with both schedules replaced by "always ready" *)
Definition eager_io (x : sio) : sio := mkSio (inq x) [] [].
Definition eager (w : sworld) : sworld := set_io _ _ _ (eager_io (io _ _ _ w)) w.

(* scripts whose results never make inner trigger calls / never return HOLD on the event side *)
Definition res_no_trigger (r : hres) : bool :=
  forallb (fun c => match c with ITrigger _ _ => false | _ => true end) (r_calls r).
Definition script_ok (P : hres -> bool) (h : shs) : bool :=
  forallb (fun e => forallb P (snd e)) h.
End Sched.
