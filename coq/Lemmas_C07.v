(* Lemmas_C07.v — property C07: print/parse round trip of variables. *)
From Coq Require Import List NArith ZArith Bool Arith Lia.
From Coq Require Import ZifyBool ZifyNat ZifyN.
From CatV Require Import Bytes Defs Codec Spec.
Import ListNotations.
Local Open Scope N_scope.

#[local] Ltac Zify.zify_post_hook ::= Z.div_mod_to_equations.

#[local] Arguments N.mul : simpl never.
#[local] Arguments N.add : simpl never.
#[local] Arguments N.sub : simpl never.
#[local] Arguments N.div : simpl never.
#[local] Arguments N.modulo : simpl never.
#[local] Arguments N.pow : simpl never.
#[local] Arguments N.log2 : simpl never.
#[local] Arguments N.ltb : simpl never.
#[local] Arguments N.leb : simpl never.
#[local] Arguments Z.mul : simpl never.
#[local] Arguments Z.add : simpl never.
#[local] Arguments Z.sub : simpl never.
#[local] Arguments Z.div : simpl never.
#[local] Arguments Z.modulo : simpl never.
#[local] Arguments Z.ltb : simpl never.
#[local] Arguments Z.eqb : simpl never.

(* ---------- value equality ---------- *)
Fixpoint cstr (l : list N) : list N :=
  match l with [] => [] | c :: r => if c =? 0 then [] else c :: cstr r end.
Definition same_value (v : var) (d1 d2 : list N) : Prop :=
  match v_type v with VBufStr => cstr d1 = cstr d2 /\ length d1 = length d2 | _ => d1 = d2 end.

(* ================= 1. decimal digits ================= *)

Lemma dec_value_go_snoc : forall l a c,
  dec_value_go a (l ++ [c]) = dec_value_go a l * 10 + (c - 48).
Proof.
  induction l as [|x l IH]; intros a c; cbn [app dec_value_go]; [reflexivity|apply IH].
Qed.

Lemma dec_value_go_ge : forall l a, a <= dec_value_go a l.
Proof.
  induction l as [|x l IH]; intros a; cbn [dec_value_go]; [lia|].
  specialize (IH (a * 10 + (x - 48))). lia.
Qed.

Lemma print_dec_aux_app : forall fuel n acc,
  print_dec_aux fuel n acc = print_dec_aux fuel n [] ++ acc.
Proof.
  induction fuel as [|f IH]; intros n acc; cbn [print_dec_aux].
  - destruct (n <? 10); reflexivity.
  - destruct (n <? 10); [reflexivity|].
    rewrite (IH _ (_ :: acc)), (IH _ [_]), <- app_assoc. reflexivity.
Qed.

(* the fuel log2 n is enough *)
Lemma log2_div_fuel : forall b n f, 2 <= b -> b <= n -> N.log2 n <= N.of_nat f ->
  exists f', f = S f' /\ N.log2 (n / b) <= N.of_nat f'.
Proof.
  intros b n f Hb Hn Hf.
  assert (Hm : 0 < n / b) by (apply N.div_str_pos; lia).
  assert (H2 : 2 * (n / b) <= n) by (pose proof (N.mul_div_le n b); nia).
  pose proof (N.log2_le_mono _ _ H2) as Hl.
  rewrite (N.log2_double _ Hm) in Hl.
  destruct f as [|f']; [lia|]. exists f'. split; [reflexivity|lia].
Qed.

Lemma is_dec_digit : forall d, d < 10 -> is_dec (dec_digit d) = true.
Proof.
  intros d H. unfold is_dec, dec_digit.
  apply andb_true_intro; split; apply N.leb_le; lia.
Qed.

Lemma dec_digit_val : forall d, dec_digit d - 48 = d.
Proof. intros; unfold dec_digit; lia. Qed.

Lemma print_dec_aux_small : forall f n acc, n < 10 -> print_dec_aux f n acc = dec_digit n :: acc.
Proof.
  intros f n acc H. apply N.ltb_lt in H. destruct f; cbn [print_dec_aux]; rewrite H; reflexivity.
Qed.

Lemma print_dec_aux_spec : forall f n, N.log2 n <= N.of_nat f ->
  dec_value (print_dec_aux f n []) = n /\
  forallb is_dec (print_dec_aux f n []) = true /\
  print_dec_aux f n [] <> [].
Proof.
  induction f as [|f IH]; intros n Hf.
  - destruct (N.ltb_spec n 10) as [H|H].
    + rewrite print_dec_aux_small by assumption.
      unfold dec_value. cbn [dec_value_go forallb].
      rewrite dec_digit_val, is_dec_digit by assumption.
      repeat split; try lia; discriminate.
    + exfalso. destruct (log2_div_fuel 10 n 0 ltac:(lia) H Hf) as (f' & E & _). discriminate.
  - destruct (N.ltb_spec n 10) as [H|H].
    + rewrite print_dec_aux_small by assumption.
      unfold dec_value. cbn [dec_value_go forallb].
      rewrite dec_digit_val, is_dec_digit by assumption.
      repeat split; try lia; discriminate.
    + destruct (log2_div_fuel 10 n (S f) ltac:(lia) H Hf) as (f' & E & Hf').
      injection E as <-.
      destruct (IH _ Hf') as (IH1 & IH2 & IH3).
      cbn [print_dec_aux]. apply N.ltb_ge in H. rewrite H.
      rewrite print_dec_aux_app. unfold dec_value in *.
      assert (n mod 10 < 10) by (apply N.mod_lt; lia).
      rewrite dec_value_go_snoc, IH1, forallb_app, IH2, dec_digit_val.
      cbn [forallb]. rewrite is_dec_digit by assumption.
      repeat split.
      * pose proof (N.div_mod n 10). lia.
      * intro E. apply app_eq_nil in E. destruct E; discriminate.
Qed.

Theorem C07_print_dec_inverse : forall n,
  dec_value (print_dec n) = n /\ forallb is_dec (print_dec n) = true /\ print_dec n <> [].
Proof.
  intro n. unfold print_dec. apply print_dec_aux_spec. lia.
Qed.

(* ================= 2. hexadecimal digits ================= *)

Lemma hex_digit_props : forall d, d < 16 ->
  is_hex (hex_digit d) = true /\ hexval (hex_digit d) = d.
Proof.
  intros d H. unfold is_hex, hexval, hex_digit.
  destruct (N.ltb_spec d 10) as [L|L].
  - assert (E1 : (48 <=? 48 + d) = true) by (apply N.leb_le; lia).
    assert (E2 : (48 + d <=? 57) = true) by (apply N.leb_le; lia).
    rewrite E1, E2. cbn [andb orb]. split; [reflexivity|lia].
  - assert (E1 : (48 <=? 55 + d) = true) by (apply N.leb_le; lia).
    assert (E2 : (55 + d <=? 57) = false) by (apply N.leb_gt; lia).
    assert (E3 : (65 <=? 55 + d) = true) by (apply N.leb_le; lia).
    assert (E4 : (55 + d <=? 70) = true) by (apply N.leb_le; lia).
    rewrite E1, E2, E3, E4. cbn [andb orb]. split; [reflexivity|lia].
Qed.

Lemma is_hex_range : forall c, is_hex c = true -> (48 <= c <= 57) \/ (65 <= c <= 70).
Proof.
  intros c H. unfold is_hex in H.
  apply orb_true_iff in H. destruct H as [H|H]; apply andb_true_iff in H; destruct H as [A B];
    apply N.leb_le in A; apply N.leb_le in B; lia.
Qed.

Lemma to_upper_id : forall c, c < 97 -> to_upper c = c.
Proof.
  intros c H. unfold to_upper.
  assert (E : (97 <=? c) = false) by (apply N.leb_gt; lia). rewrite E. reflexivity.
Qed.

Lemma is_hex_upper : forall c, is_hex c = true -> to_upper c = c.
Proof. intros c H. apply is_hex_range in H. apply to_upper_id. lia. Qed.

Lemma is_term_cases : forall t, is_term t = true -> t = 0 \/ t = 44.
Proof.
  intros t H. unfold is_term, ch_COMMA in H. apply orb_true_iff in H.
  destruct H as [H|H]; apply N.eqb_eq in H; auto.
Qed.

Lemma is_term_false : forall c, c <> 0 -> c <> 44 -> is_term c = false.
Proof.
  intros c A B. unfold is_term, ch_COMMA.
  apply N.eqb_neq in A. apply N.eqb_neq in B. rewrite A, B. reflexivity.
Qed.

Lemma is_hex_not_term : forall c, is_hex c = true -> is_term c = false.
Proof. intros c H. apply is_hex_range in H. apply is_term_false; lia. Qed.

Lemma is_dec_range : forall c, is_dec c = true -> 48 <= c <= 57.
Proof.
  intros c H. unfold is_dec in H. apply andb_true_iff in H. destruct H as [A B].
  apply N.leb_le in A. apply N.leb_le in B. lia.
Qed.

Lemma is_dec_not_term : forall c, is_dec c = true -> is_term c = false.
Proof. intros c H. apply is_dec_range in H. apply is_term_false; lia. Qed.

Lemma to_upper_term : forall t, is_term t = true -> to_upper t = t.
Proof. intros t H. apply is_term_cases in H. apply to_upper_id. lia. Qed.

Lemma hex_value_go_snoc : forall l a c,
  hex_value_go a (l ++ [c]) = hex_value_go a l * 16 + hexval (to_upper c).
Proof.
  induction l as [|x l IH]; intros a c; cbn [app hex_value_go]; [reflexivity|apply IH].
Qed.

Lemma hex_value_go_ge : forall l a, a <= hex_value_go a l.
Proof.
  induction l as [|x l IH]; intros a; cbn [hex_value_go]; [lia|].
  specialize (IH (a * 16 + hexval (to_upper x))). lia.
Qed.

Lemma print_hex_min_app : forall fuel n acc,
  print_hex_min fuel n acc = print_hex_min fuel n [] ++ acc.
Proof.
  induction fuel as [|f IH]; intros n acc; cbn [print_hex_min].
  - destruct (n <? 16); reflexivity.
  - destruct (n <? 16); [reflexivity|].
    rewrite (IH _ (_ :: acc)), (IH _ [_]), <- app_assoc. reflexivity.
Qed.

Lemma print_hex_min_small : forall f n acc, n < 16 -> print_hex_min f n acc = hex_digit n :: acc.
Proof.
  intros f n acc H. apply N.ltb_lt in H. destruct f; cbn [print_hex_min]; rewrite H; reflexivity.
Qed.

Lemma print_hex_min_big : forall f n, 16 <= n -> N.log2 n <= N.of_nat f ->
  exists f', f = S f' /\ N.log2 (n / 16) <= N.of_nat f' /\
    print_hex_min f n [] = print_hex_min f' (n / 16) [] ++ [hex_digit (n mod 16)].
Proof.
  intros f n H Hf.
  destruct (log2_div_fuel 16 n f ltac:(lia) H Hf) as (f' & -> & Hf').
  exists f'. split; [reflexivity|]. split; [assumption|].
  cbn [print_hex_min]. apply N.ltb_ge in H. rewrite H. apply print_hex_min_app.
Qed.

Lemma print_hex_min_spec : forall f n, N.log2 n <= N.of_nat f ->
  hex_value_go 0 (print_hex_min f n []) = n /\
  forallb is_hex (print_hex_min f n []) = true /\
  print_hex_min f n [] <> [].
Proof.
  induction f as [|f IH]; intros n Hf.
  all: destruct (N.ltb_spec n 16) as [H|H].
  2: { exfalso. destruct (print_hex_min_big 0 n H Hf) as (f' & E & _). discriminate. }
  1,2: rewrite print_hex_min_small by assumption;
    destruct (hex_digit_props n H) as [A B];
    cbn [hex_value_go forallb]; rewrite (is_hex_upper _ A), A, B;
    repeat split; try lia; discriminate.
  destruct (print_hex_min_big (S f) n H Hf) as (f' & Ef & Hf' & E). injection Ef as <-.
  rewrite E. destruct (IH _ Hf') as (IH1 & IH2 & IH3).
  assert (Hm : n mod 16 < 16) by (apply N.mod_lt; lia).
  destruct (hex_digit_props _ Hm) as [A B].
  rewrite hex_value_go_snoc, IH1, forallb_app, IH2, (is_hex_upper _ A), B.
  cbn [forallb]. rewrite A.
  repeat split.
  + pose proof (N.div_mod n 16). lia.
  + intro E'. apply app_eq_nil in E'. destruct E'; discriminate.
Qed.

Lemma hex_value_go_zeros : forall m l, hex_value_go 0 (repeat ch_0 m ++ l) = hex_value_go 0 l.
Proof.
  induction m as [|m IH]; intros l; cbn [repeat app hex_value_go]; [reflexivity|].
  replace (0 * 16 + hexval (to_upper ch_0)) with 0 by reflexivity. apply IH.
Qed.

Lemma forallb_repeat : forall (f : N -> bool) c m, f c = true -> forallb f (repeat c m) = true.
Proof. intros f c m H. induction m; cbn [repeat forallb]; [reflexivity|]. rewrite H, IHm. reflexivity. Qed.

Lemma print_hex_pad_spec : forall w n,
  hex_value_go 0 (print_hex_pad w n) = n /\
  forallb is_hex (print_hex_pad w n) = true /\
  print_hex_pad w n <> [].
Proof.
  intros w n. unfold print_hex_pad.
  destruct (print_hex_min_spec (N.to_nat (N.log2 n)) n ltac:(lia)) as (A & B & C).
  rewrite hex_value_go_zeros, forallb_app, B, forallb_repeat by reflexivity.
  repeat split; [assumption|].
  intro E. apply app_eq_nil in E. destruct E. contradiction.
Qed.

(* one byte prints as exactly two digits *)
Lemma print_hex_pad_byte : forall b, b < 256 ->
  print_hex_pad 2 b = [hex_digit (b / 16); hex_digit (b mod 16)].
Proof.
  intros b Hb. unfold print_hex_pad.
  destruct (N.ltb_spec b 16) as [H|H].
  - rewrite print_hex_min_small by assumption.
    rewrite N.div_small, N.mod_small by assumption. reflexivity.
  - destruct (print_hex_min_big (N.to_nat (N.log2 b)) b H ltac:(lia)) as (f' & _ & _ & E).
    rewrite E. rewrite print_hex_min_small by (apply N.div_lt_upper_bound; lia).
    reflexivity.
Qed.

(* the padded rendering has exactly w digits when the value fits *)
Lemma print_hex_min_length : forall f n w, N.log2 n <= N.of_nat f ->
  n < 16 ^ N.of_nat w -> (0 < w)%nat -> (length (print_hex_min f n []) <= w)%nat.
Proof.
  induction f as [|f IH]; intros n w Hf Hn Hw.
  all: destruct (N.ltb_spec n 16) as [H|H];
    [rewrite print_hex_min_small by assumption; cbn [length]; lia|].
  - exfalso. destruct (print_hex_min_big 0 n H Hf) as (f' & E & _). discriminate.
  - destruct (print_hex_min_big (S f) n H Hf) as (f' & Ef & Hf' & E). injection Ef as <-.
    rewrite E, app_length. cbn [length].
    destruct w as [|w]; [lia|].
    replace (N.of_nat (S w)) with (1 + N.of_nat w) in Hn by lia.
    rewrite N.pow_add_r in Hn. change (16 ^ 1) with 16 in Hn.
    destruct w as [|w]; [change (16 ^ N.of_nat 0) with 1 in Hn; lia|].
    assert (Hq : n / 16 < 16 ^ N.of_nat (S w)) by (apply N.div_lt_upper_bound; lia).
    specialize (IH (n / 16) (S w) Hf' Hq ltac:(lia)). lia.
Qed.

Lemma print_hex_pad_length : forall w n, n < 16 ^ N.of_nat w -> (0 < w)%nat ->
  length (print_hex_pad w n) = w.
Proof.
  intros w n Hn Hw. unfold print_hex_pad.
  pose proof (print_hex_min_length (N.to_nat (N.log2 n)) n w ltac:(lia) Hn Hw).
  rewrite app_length, repeat_length. lia.
Qed.

(* ================= 3. little-endian bytes ================= *)

Lemma two_pow8_S : forall k, two_pow8 (S k) = 256 * two_pow8 k.
Proof.
  intro k. unfold two_pow8.
  replace (8 * N.of_nat (S k)) with (8 + 8 * N.of_nat k) by lia.
  rewrite N.pow_add_r. reflexivity.
Qed.

Lemma two_pow8_0 : two_pow8 0 = 1.
Proof. reflexivity. Qed.

Lemma two_pow8_pos : forall k, 0 < two_pow8 k.
Proof. induction k; [rewrite two_pow8_0|rewrite two_pow8_S]; lia. Qed.

Lemma le_value_lt : forall l, Forall (fun b => b < 256) l -> le_value l < two_pow8 (length l).
Proof.
  induction 1 as [|b l Hb Hl IH]; cbn [le_value length].
  - rewrite two_pow8_0. lia.
  - rewrite two_pow8_S. lia.
Qed.

Lemma le_bytes_le_value : forall l, Forall (fun b => b < 256) l ->
  le_bytes (length l) (le_value l) = l.
Proof.
  induction 1 as [|b l Hb Hl IH]; cbn [le_value length le_bytes]; [reflexivity|].
  f_equal.
  - lia.
  - replace ((b + 256 * le_value l) / 256) with (le_value l) by lia. exact IH.
Qed.

Lemma le_value_le_bytes : forall k n, le_value (le_bytes k n) = n mod two_pow8 k.
Proof.
  induction k as [|k IH]; intro n; cbn [le_bytes le_value].
  - rewrite two_pow8_0, N.mod_1_r. reflexivity.
  - rewrite IH, two_pow8_S.
    pose proof (two_pow8_pos k).
    rewrite N.mod_mul_r by lia. reflexivity.
Qed.

Lemma le_bytes_length : forall k n, length (le_bytes k n) = k.
Proof. induction k; intro n; cbn [le_bytes length]; [reflexivity|]. rewrite IHk. reflexivity. Qed.

Lemma le_bytes_signed_le_value_signed : forall l, Forall (fun b => b < 256) l ->
  le_bytes_signed (length l) (le_value_signed (length l) l) = l.
Proof.
  intros l H. unfold le_bytes_signed, le_value_signed.
  rewrite firstn_all.
  pose proof (le_value_lt l H) as Hlt.
  set (u := le_value l) in *. set (m := two_pow8 (length l)) in *.
  assert (E : Z.to_N ((if N.ltb u (N.div m 2) then Z.of_N u else (Z.of_N u - Z.of_N m)%Z) mod Z.of_N m)%Z = u).
  { destruct (N.ltb u (N.div m 2)).
    - rewrite Z.mod_small by lia. lia.
    - replace (Z.of_N u - Z.of_N m)%Z with (Z.of_N u + (-1) * Z.of_N m)%Z by lia.
      rewrite Z.mod_add by lia. rewrite Z.mod_small by lia. lia. }
  rewrite E. apply le_bytes_le_value. exact H.
Qed.

(* ================= 4. the numeric scanners on well-formed digit strings ================= *)

Lemma dec_not_sign : forall c, is_dec c = true -> (c =? ch_MINUS) = false /\ (c =? ch_PLUS) = false.
Proof.
  intros c H. apply is_dec_range in H. unfold ch_MINUS, ch_PLUS.
  split; apply N.eqb_neq; lia.
Qed.

Section Scan.
Variables (t : N) (tail : list N).
Hypothesis Ht : is_term t = true.

Lemma parse_uint_go_digits : forall digits val ok n,
  forallb is_dec digits = true -> (ok = true \/ digits <> []) ->
  dec_value_go val digits <= max_u64 ->
  parse_uint_go (digits ++ t :: tail) val ok n =
    (SOk (t =? ch_COMMA), dec_value_go val digits, (n + S (length digits))%nat).
Proof.
  induction digits as [|c r IH]; intros val ok n Hd Hok Hv.
  - destruct Hok as [->|C]; [|congruence].
    cbn [app parse_uint_go dec_value_go length andb]. rewrite Ht.
    f_equal; lia.
  - cbn [forallb] in Hd. apply andb_true_iff in Hd. destruct Hd as [Hc Hr].
    cbn [app parse_uint_go dec_value_go length].
    rewrite (is_dec_not_term _ Hc), andb_false_r, Hc.
    cbn [dec_value_go] in Hv.
    pose proof (dec_value_go_ge r (val * 10 + (c - 48))) as Hge.
    pose proof (is_dec_range _ Hc) as Hrg.
    assert (E : ((max_u64 - (c - 48)) / 10 <? val) = false).
    { apply N.ltb_ge. unfold max_u64 in *. lia. }
    rewrite E.
    rewrite N.mod_small by (unfold max_u64, two64 in *; lia).
    rewrite IH; [|assumption|left; reflexivity|assumption].
    f_equal; lia.
Qed.

Lemma parse_uint_digits : forall digits,
  forallb is_dec digits = true -> digits <> [] -> dec_value digits <= max_u64 ->
  parse_uint (digits ++ t :: tail) = (SOk (t =? ch_COMMA), dec_value digits, S (length digits)).
Proof.
  intros digits A B C. unfold parse_uint, dec_value.
  rewrite parse_uint_go_digits; auto.
Qed.

Lemma parse_int_go_digits : forall digits a sign ok n,
  (sign =? 0)%Z = false ->
  forallb is_dec digits = true -> (ok = true \/ digits <> []) ->
  (Z.of_N (dec_value_go a digits) <= max_i64)%Z ->
  parse_int_go (digits ++ t :: tail) (Z.of_N a) sign ok n =
    (SOk (t =? ch_COMMA), (Z.of_N (dec_value_go a digits) * sign)%Z, (n + S (length digits))%nat).
Proof.
  induction digits as [|c r IH]; intros a sign ok n Hs Hd Hok Hv.
  - destruct Hok as [->|C]; [|congruence].
    cbn [app parse_int_go dec_value_go length andb]. rewrite Ht.
    f_equal; lia.
  - cbn [forallb] in Hd. apply andb_true_iff in Hd. destruct Hd as [Hc Hr].
    cbn [app parse_int_go dec_value_go length].
    rewrite (is_dec_not_term _ Hc), andb_false_r, Hs, Hc.
    cbn [dec_value_go] in Hv.
    pose proof (dec_value_go_ge r (a * 10 + (c - 48))) as Hge.
    pose proof (is_dec_range _ Hc) as Hrg.
    assert (E : ((max_i64 - Z.of_N (c - 48)) / 10 <? Z.of_N a)%Z = false).
    { apply Z.ltb_ge. unfold max_i64 in *. lia. }
    rewrite E.
    replace (Z.of_N a * 10 + Z.of_N (c - 48))%Z with (Z.of_N (a * 10 + (c - 48))) by lia.
    assert (E2 : (max_i64 <? Z.of_N (a * 10 + (c - 48)))%Z = false).
    { apply Z.ltb_ge. lia. }
    rewrite E2.
    rewrite IH; [|assumption|assumption|left; reflexivity|assumption].
    f_equal; lia.
Qed.

Lemma parse_int_pos : forall digits,
  forallb is_dec digits = true -> digits <> [] -> (Z.of_N (dec_value digits) <= max_i64)%Z ->
  parse_int (digits ++ t :: tail) =
    (SOk (t =? ch_COMMA), Z.of_N (dec_value digits), S (length digits)).
Proof.
  intros [|c r] Hd Hne Hv; [congruence|].
  cbn [forallb] in Hd. apply andb_true_iff in Hd. destruct Hd as [Hc Hr].
  destruct (dec_not_sign _ Hc) as [E1 E2].
  unfold parse_int, dec_value in *. cbn [app parse_int_go andb dec_value_go] in *.
  change ((0 =? 0)%Z) with true. cbn iota.
  rewrite E1, E2, Hc.
  replace (0 * 10 + (c - 48)) with (c - 48) in * by lia.
  rewrite parse_int_go_digits; [|reflexivity|assumption|left; reflexivity|assumption].
  cbn [length]. rewrite Z.mul_1_r. reflexivity.
Qed.

Lemma parse_int_neg : forall digits,
  forallb is_dec digits = true -> digits <> [] -> (Z.of_N (dec_value digits) <= max_i64)%Z ->
  parse_int (ch_MINUS :: digits ++ t :: tail) =
    (SOk (t =? ch_COMMA), (- Z.of_N (dec_value digits))%Z, S (S (length digits))).
Proof.
  intros digits Hd Hne Hv.
  unfold parse_int, dec_value in *. cbn [parse_int_go andb].
  change ((0 =? 0)%Z) with true. cbn iota.
  change (ch_MINUS =? ch_MINUS) with true. cbn iota.
  change 0%Z with (Z.of_N 0) at 1.
  rewrite parse_int_go_digits; [|reflexivity|assumption|right; assumption|assumption].
  f_equal. f_equal. lia.
Qed.

Lemma parse_hex_go_digits : forall digits val st n,
  forallb is_hex digits = true -> (st = 3%nat \/ (st = 2%nat /\ digits <> [])) ->
  hex_value_go val digits < 2 ^ 60 ->
  parse_hex_go (digits ++ t :: tail) val st n =
    (SOk (t =? ch_COMMA), hex_value_go val digits, (n + S (length digits))%nat).
Proof.
  induction digits as [|c r IH]; intros val st n Hd Hst Hv.
  - destruct Hst as [->|[_ C]]; [|congruence].
    cbn [app parse_hex_go hex_value_go length Nat.leb andb].
    rewrite (to_upper_term _ Ht), Ht. f_equal; lia.
  - cbn [forallb] in Hd. apply andb_true_iff in Hd. destruct Hd as [Hc Hr].
    cbn [hex_value_go] in Hv. rewrite (is_hex_upper _ Hc) in Hv.
    pose proof (hex_value_go_ge r (val * 16 + hexval c)) as Hge.
    change (2 ^ 60) with 1152921504606846976 in *.
    assert (Hh : hexval c < 16).
    { pose proof (is_hex_range _ Hc). unfold hexval.
      destruct ((48 <=? c) && (c <=? 57)) eqn:E.
      - apply andb_true_iff in E. destruct E as [A B]. apply N.leb_le in A, B. lia.
      - apply andb_false_iff in E. destruct E as [A|A]; apply N.leb_gt in A; lia. }
    assert (E : (N.shiftr val 60 =? 0) = true).
    { apply N.eqb_eq. rewrite N.shiftr_div_pow2. apply N.div_small.
      change (2 ^ 60) with 1152921504606846976. lia. }
    assert (Hres : parse_hex_go (r ++ t :: tail) ((val * 16 + hexval c) mod two64) 3 (S n) =
             (SOk (t =? ch_COMMA), hex_value_go (val * 16 + hexval c) r, (S n + S (length r))%nat)).
    { rewrite N.mod_small by (unfold two64; lia).
      apply IH; [assumption|left; reflexivity|assumption]. }
    cbn [hex_value_go length app]. rewrite (is_hex_upper _ Hc).
    replace (n + S (S (length r)))%nat with (S n + S (length r))%nat by lia.
    rewrite <- Hres.
    destruct Hst as [->|[-> _]]; cbn [parse_hex_go Nat.leb andb];
      rewrite (is_hex_upper _ Hc), ?(is_hex_not_term _ Hc), Hc, E; reflexivity.
Qed.

Lemma parse_hex_digits : forall digits,
  forallb is_hex digits = true -> digits <> [] -> hex_value_go 0 digits < 2 ^ 60 ->
  parse_hex (48 :: 120 :: digits ++ t :: tail) =
    (SOk (t =? ch_COMMA), hex_value_go 0 digits, S (S (S (length digits)))).
Proof.
  intros digits A B C. unfold parse_hex.
  cbn [parse_hex_go Nat.leb andb].
  change (to_upper 48) with 48. change (48 =? ch_0) with true. cbn iota.
  change (to_upper 120) with 88. change (88 =? ch_X) with true. cbn iota.
  rewrite parse_hex_go_digits; [|assumption|right; split; [reflexivity|assumption]|assumption].
  repeat f_equal.
Qed.

End Scan.

(* ================= 5. the buffer decoders on printed text ================= *)

(* evaluate comparisons between closed numerals *)
Ltac ceqb :=
  repeat match goal with
  | |- context [N.eqb ?a ?b] =>
    let r := eval vm_compute in (N.eqb a b) in
    match r with
    | true => change (N.eqb a b) with true
    | false => change (N.eqb a b) with false
    end
  end.

Lemma upd_app : forall (pre : list N) x r v, upd (pre ++ x :: r) (length pre) v = pre ++ v :: r.
Proof. induction pre as [|p pre IH]; intros; cbn [app length upd]; [reflexivity|]. rewrite IH. reflexivity. Qed.

Section BufStep.
Variable dsz : nat.

Lemma bufhex_step : forall b l size data n, b < 256 ->
  (size < dsz)%nat -> (size < length data)%nat ->
  parse_bufhex_go (hex_digit (b / 16) :: hex_digit (b mod 16) :: l) 0 false size data false dsz n =
  parse_bufhex_go l 0 false (S size) (upd data size b) false dsz (S (S n)).
Proof.
  intros b l size data n Hb Hs Hd.
  assert (H1 : b / 16 < 16) by (apply N.div_lt_upper_bound; lia).
  assert (H2 : b mod 16 < 16) by (apply N.mod_lt; lia).
  destruct (hex_digit_props _ H1) as [A1 B1]. destruct (hex_digit_props _ H2) as [A2 B2].
  cbn [parse_bufhex_go].
  rewrite (is_hex_upper _ A1), (is_hex_upper _ A2), (is_hex_not_term _ A1), (is_hex_not_term _ A2).
  rewrite !andb_false_r, A1, A2, B1, B2. cbn [negb].
  assert (E1 : (dsz <=? size)%nat = false) by (apply Nat.leb_gt; lia).
  assert (E2 : (size <? length data)%nat = true) by (apply Nat.ltb_lt; lia).
  rewrite E1, E2.
  replace ((0 * 16 + b / 16) mod 256) with (b / 16) by lia.
  replace ((b / 16 * 16 + b mod 16) mod 256) with b by lia.
  reflexivity.
Qed.

Lemma bufhex_scan : forall bytes pre rest n l,
  Forall (fun b => b < 256) bytes ->
  (length bytes <= length rest)%nat -> (length pre + length bytes <= dsz)%nat ->
  parse_bufhex_go (concat (map (print_hex_pad 2) bytes) ++ l) 0 false (length pre) (pre ++ rest) false dsz n =
  parse_bufhex_go l 0 false (length pre + length bytes)
                  (pre ++ bytes ++ skipn (length bytes) rest) false dsz (n + 2 * length bytes).
Proof.
  induction bytes as [|b bs IH]; intros pre rest n l Hb Hl Hd.
  - cbn [map concat app length skipn]. rewrite !Nat.add_0_r. reflexivity.
  - inversion Hb as [|? ? Hb1 Hb2]; subst.
    destruct rest as [|x rest']; cbn [length] in *; [lia|].
    cbn [map concat]. rewrite print_hex_pad_byte by assumption. cbn [app].
    rewrite bufhex_step; [|assumption|lia|rewrite app_length; cbn [length]; lia].
    rewrite upd_app.
    replace (pre ++ b :: rest') with ((pre ++ [b]) ++ rest') by (rewrite <- app_assoc; reflexivity).
    replace (S (length pre)) with (length (pre ++ [b])) by (rewrite app_length; cbn [length]; lia).
    rewrite IH; [|assumption|lia|rewrite app_length; cbn [length]; lia].
    cbn [skipn]. rewrite <- app_assoc. cbn [app]. rewrite app_length. cbn [length].
    f_equal; lia.
Qed.

(* --- strings --- *)
Definition esc (ch : N) : list N :=
  if ch =? ch_BSL then [ch_BSL; ch_BSL]
  else if ch =? ch_QUOTE then [ch_BSL; ch_QUOTE]
  else if ch =? ch_LF then [ch_BSL; ch_n]
  else [ch].

Lemma str_body_pieces_cons : forall c r, c <> 0 ->
  str_body_pieces (c :: r) = esc c :: str_body_pieces r.
Proof.
  intros c r H. cbn [str_body_pieces]. apply N.eqb_neq in H. rewrite H. reflexivity.
Qed.

Lemma bufstr_step : forall c l size data n, c <> 0 ->
  (size < dsz)%nat -> (size < length data)%nat ->
  parse_bufstr_go (esc c ++ l) 1 size data false dsz n =
  parse_bufstr_go l 1 (S size) (upd data size c) false dsz (n + length (esc c)).
Proof.
  intros c l size data n Hc Hs Hd.
  assert (E1 : (dsz <=? size)%nat = false) by (apply Nat.leb_gt; lia).
  assert (E2 : (size <? length data)%nat = true) by (apply Nat.ltb_lt; lia).
  unfold esc.
  destruct (N.eqb_spec c ch_BSL) as [->|N1].
  { cbn [app parse_bufstr_go length]. ceqb. cbn iota. rewrite E1, E2.
    replace (n + 2)%nat with (S (S n)) by lia. reflexivity. }
  destruct (N.eqb_spec c ch_QUOTE) as [->|N2].
  { cbn [app parse_bufstr_go length]. ceqb. cbn iota. rewrite E1, E2.
    replace (n + 2)%nat with (S (S n)) by lia. reflexivity. }
  destruct (N.eqb_spec c ch_LF) as [->|N3].
  { cbn [app parse_bufstr_go length]. ceqb. cbn iota. rewrite E1, E2.
    replace (n + 2)%nat with (S (S n)) by lia. reflexivity. }
  cbn [app parse_bufstr_go length].
  apply N.eqb_neq in Hc, N1, N2. rewrite Hc, N1, N2, E1, E2.
  replace (n + 1)%nat with (S n) by lia. reflexivity.
Qed.

Lemma cstr_shorter : forall l, In 0 l -> (length (cstr l) < length l)%nat.
Proof.
  induction l as [|c r IH]; intros H; [destruct H|].
  cbn [cstr length]. destruct (N.eqb_spec c 0) as [->|Hc]; cbn [length]; [lia|].
  destruct H as [H|H]; [congruence|]. specialize (IH H). lia.
Qed.

Lemma cstr_cstr_app : forall l x, cstr (cstr l ++ 0 :: x) = cstr l.
Proof.
  induction l as [|c r IH]; intros x; cbn [cstr app].
  - reflexivity.
  - destruct (c =? 0) eqn:E; cbn [cstr app].
    + reflexivity.
    + rewrite E, IH. reflexivity.
Qed.

End BufStep.

Section Buf.
Variables (t : N) (tail : list N) (dsz : nat).
Hypothesis Ht : is_term t = true.

Lemma bufhex_end : forall size data n, (0 < size)%nat ->
  parse_bufhex_go (t :: tail) 0 false size data false dsz n =
  mkBres (SOk (t =? ch_COMMA)) data size (S n).
Proof.
  intros size data n H. cbn [parse_bufhex_go negb].
  assert (E : (0 <? size)%nat = true) by (apply Nat.ltb_lt; lia).
  rewrite E, (to_upper_term _ Ht), Ht. reflexivity.
Qed.

Lemma bufstr_scan : forall l pre rest n,
  In 0 l -> length l = length rest -> (length pre + length rest = dsz)%nat ->
  parse_bufstr_go (concat (str_body_pieces l) ++ ch_QUOTE :: t :: tail) 1 (length pre) (pre ++ rest) false dsz n =
  mkBres (SOk (t =? ch_COMMA))
         (pre ++ cstr l ++ 0 :: skipn (S (length (cstr l))) rest)
         (length pre + length (cstr l))
         (n + length (concat (str_body_pieces l)) + 2).
Proof.
  induction l as [|c r IH]; intros pre rest n Hin Hl Hd; [destruct Hin|].
  destruct rest as [|x rest']; cbn [length] in *; [lia|].
  destruct (N.eqb_spec c 0) as [->|Hc].
  - cbn [str_body_pieces cstr]. ceqb. cbn [concat app length skipn parse_bufstr_go]. ceqb. cbn iota.
    rewrite Ht.
    assert (E1 : (dsz <=? length pre)%nat = false) by (apply Nat.leb_gt; lia).
    assert (E2 : (length pre <? length (pre ++ x :: rest'))%nat = true)
      by (apply Nat.ltb_lt; rewrite app_length; cbn [length]; lia).
    rewrite E1, E2, upd_app. f_equal; lia.
  - destruct Hin as [Hin|Hin]; [congruence|].
    rewrite str_body_pieces_cons by assumption. cbn [concat]. rewrite <- app_assoc.
    rewrite bufstr_step; [|assumption|lia|rewrite app_length; cbn [length]; lia].
    rewrite upd_app.
    replace (pre ++ c :: rest') with ((pre ++ [c]) ++ rest') by (rewrite <- app_assoc; reflexivity).
    replace (S (length pre)) with (length (pre ++ [c])) by (rewrite app_length; cbn [length]; lia).
    rewrite IH; [|assumption|lia|rewrite app_length; cbn [length]; lia].
    cbn [cstr]. apply N.eqb_neq in Hc. rewrite Hc. cbn [length skipn app].
    rewrite <- app_assoc. cbn [app]. rewrite !app_length. cbn [length].
    f_equal; lia.
Qed.

Lemma bufstr_full : forall l rest,
  In 0 l -> length l = length rest -> length rest = dsz ->
  parse_bufstr (ch_QUOTE :: concat (str_body_pieces l) ++ ch_QUOTE :: t :: tail) rest false dsz =
  mkBres (SOk (t =? ch_COMMA))
         (cstr l ++ 0 :: skipn (S (length (cstr l))) rest)
         (length (cstr l))
         (S (S (S (length (concat (str_body_pieces l)))))).
Proof.
  intros l rest Hin Hl Hd. unfold parse_bufstr. cbn [parse_bufstr_go]. ceqb. cbn iota.
  pose proof (bufstr_scan l [] rest 1%nat Hin Hl ltac:(cbn [length]; lia)) as E.
  cbn [app length] in E. rewrite E. f_equal; lia.
Qed.

End Buf.

(* ================= 6. widths, ranges, validators ================= *)

Lemma supported_width_cases : forall k, supported_width k = true -> k = 1%nat \/ k = 2%nat \/ k = 4%nat.
Proof.
  intros k H. unfold supported_width in H.
  apply orb_true_iff in H. destruct H as [H|H]; [apply orb_true_iff in H; destruct H as [H|H]|];
    apply Nat.eqb_eq in H; auto.
Qed.

Lemma two_pow8_supported : forall k, supported_width k = true ->
  two_pow8 k <= 4294967296 /\ two_pow8 k = 2 * (two_pow8 k / 2) /\ 0 < two_pow8 k.
Proof.
  intros k H. destruct (supported_width_cases k H) as [ -> | [ -> | -> ] ].
  - change (two_pow8 1) with 256. lia.
  - change (two_pow8 2) with 65536. lia.
  - change (two_pow8 4) with 4294967296. lia.
Qed.

Lemma le_value_signed_range : forall l, supported_width (length l) = true ->
  Forall (fun b => b < 256) l ->
  (- Z.of_N (two_pow8 (length l) / 2) <= le_value_signed (length l) l <= Z.of_N (two_pow8 (length l) / 2) - 1)%Z.
Proof.
  intros l Hs H. unfold le_value_signed. rewrite firstn_all.
  pose proof (le_value_lt l H) as Hlt.
  destruct (two_pow8_supported _ Hs) as (_ & He & _).
  set (u := le_value l) in *. set (m := two_pow8 (length l)) in *.
  destruct (N.ltb_spec u (m / 2)); lia.
Qed.

Lemma store_prefix_all : forall data bytes, length data = length bytes ->
  store_prefix data bytes = Some bytes.
Proof.
  intros data bytes H. unfold store_prefix.
  assert (E : (length data <? length bytes)%nat = false) by (apply Nat.ltb_ge; lia).
  rewrite E, <- H, skipn_all, app_nil_r. reflexivity.
Qed.

Lemma validate_int_ok : forall data data', supported_width (length data) = true ->
  Forall (fun b => b < 256) data -> length data' = length data ->
  validate_int false (length data) (le_value_signed (length data) data) data' = VOk data (length data).
Proof.
  intros data data' Hs Hb Hl. unfold validate_int. rewrite Hs. cbn [negb].
  pose proof (le_value_signed_range data Hs Hb) as Hr.
  set (z := le_value_signed (length data) data) in *.
  set (half := Z.of_N (two_pow8 (length data) / 2)) in *.
  assert (E1 : (z <? - half)%Z = false) by (apply Z.ltb_ge; lia).
  assert (E2 : (half - 1 <? z)%Z = false) by (apply Z.ltb_ge; lia).
  rewrite E1, E2. cbn [orb]. unfold z.
  rewrite le_bytes_signed_le_value_signed by assumption.
  rewrite store_prefix_all by assumption. reflexivity.
Qed.

Lemma validate_uint_ok : forall data data', supported_width (length data) = true ->
  Forall (fun b => b < 256) data -> length data' = length data ->
  validate_uint false (length data) (le_value data) data' = VOk data (length data).
Proof.
  intros data data' Hs Hb Hl. unfold validate_uint. rewrite Hs. cbn [negb].
  pose proof (le_value_lt data Hb) as Hr.
  assert (E1 : (two_pow8 (length data) - 1 <? le_value data) = false) by (apply N.ltb_ge; lia).
  rewrite E1, le_bytes_le_value by assumption.
  rewrite store_prefix_all by assumption. reflexivity.
Qed.

Lemma parse_int_print : forall z t tail, is_term t = true ->
  (- max_i64 <= z <= max_i64)%Z ->
  parse_int (print_dec_z z ++ t :: tail) = (SOk (t =? ch_COMMA), z, S (length (print_dec_z z))).
Proof.
  intros z t tail Ht Hz.
  destruct z as [|p|p]; unfold print_dec_z.
  - destruct (C07_print_dec_inverse (Z.to_N 0)) as (A & B & C).
    rewrite parse_int_pos; [rewrite A; reflexivity|assumption..|rewrite A; unfold max_i64; lia].
  - destruct (C07_print_dec_inverse (Z.to_N (Z.pos p))) as (A & B & C).
    rewrite parse_int_pos; [rewrite A; f_equal; f_equal; lia|assumption..|rewrite A; lia].
  - destruct (C07_print_dec_inverse (N.pos p)) as (A & B & C).
    cbn [app]. rewrite parse_int_neg; [rewrite A; reflexivity|assumption..|rewrite A; lia].
Qed.

Lemma bufhex_text_length : forall bytes, Forall (fun b => b < 256) bytes ->
  length (concat (map (print_hex_pad 2) bytes)) = (0 + 2 * length bytes)%nat.
Proof.
  induction 1 as [|b r Hb Hr IH]; cbn [map concat length]; [reflexivity|].
  rewrite app_length, IH, print_hex_pad_byte by assumption. cbn [length]. lia.
Qed.

(* ================= 7. C07: the round trip ================= *)

Theorem C07_var_roundtrip : forall v data data' txt t tail,
  v_access v = RW ->
  Forall (fun b => b < 256) data -> length data = v_size v -> length data' = v_size v ->
  (v_type v = VBufStr -> In 0 data) ->
  (v_type v = VBufHex -> (0 < v_size v)%nat) ->
  var_text v data = Some txt -> is_term t = true ->
  exists d ws,
    decode_var v (txt ++ t :: tail) data' = (SOk (t =? ch_COMMA), d, ws, S (length txt)) /\
    same_value v d data.
Proof.
  intros v data data' txt t tail Hacc Hb Hl Hl' Hstr Hhex Htxt Ht.
  unfold var_text, fmt_num_text in Htxt. unfold decode_var, same_value.
  rewrite Hacc. change (vaccess_beq RW RO) with false.
  rewrite <- Hl in *.
  destruct (v_type v) eqn:Ety.
  - (* VInt *)
    unfold fmt_int_text in Htxt. rewrite <- Hl, Hacc in Htxt.
    destruct (supported_width (length data)) eqn:Hs; [|discriminate].
    injection Htxt as <-.
    pose proof (le_value_signed_range data Hs Hb) as Hr.
    destruct (two_pow8_supported _ Hs) as (Hle & _ & _).
    rewrite parse_int_print; [|assumption|unfold max_i64; lia].
    rewrite validate_int_ok by assumption.
    eexists; eexists; split; reflexivity.
  - (* VUint *)
    unfold fmt_uint_text in Htxt. rewrite <- Hl, Hacc, firstn_all in Htxt.
    destruct (supported_width (length data)) eqn:Hs; [|discriminate].
    injection Htxt as <-.
    pose proof (le_value_lt data Hb) as Hr.
    destruct (two_pow8_supported _ Hs) as (Hle & _ & _).
    destruct (C07_print_dec_inverse (le_value data)) as (A & B & C).
    rewrite parse_uint_digits; [|assumption..|rewrite A; unfold max_u64; lia].
    rewrite A, validate_uint_ok by assumption.
    eexists; eexists; split; reflexivity.
  - (* VHex *)
    unfold fmt_hex_text in Htxt. rewrite <- Hl, Hacc, firstn_all in Htxt.
    destruct (supported_width (length data)) eqn:Hs; [|discriminate].
    injection Htxt as <-.
    pose proof (le_value_lt data Hb) as Hr.
    destruct (two_pow8_supported _ Hs) as (Hle & _ & _).
    match goal with |- context [print_hex_pad ?w ?n] =>
      destruct (print_hex_pad_spec w n) as (A & B & C) end.
    rewrite <- !app_comm_cons.
    rewrite parse_hex_digits;
      [|assumption..|rewrite A; change (2 ^ 60) with 1152921504606846976; lia].
    rewrite A, validate_uint_ok by assumption.
    eexists; eexists; split; reflexivity.
  - (* VBufHex *)
    injection Htxt as <-.
    unfold fmt_bufhex_pieces. rewrite Hacc, <- Hl, firstn_all.
    unfold parse_bufhex.
    change (fun b : N => print_hex_pad 2 b) with (print_hex_pad 2).
    pose proof (bufhex_scan (length data) data [] data' 0%nat (t :: tail) Hb) as E.
    cbn [app length] in E. rewrite E by lia.
    rewrite bufhex_end by (try assumption; specialize (Hhex eq_refl); lia).
    cbn [b_st b_data b_wsize b_n].
    replace (skipn (length data) data') with (@nil N) by (rewrite <- Hl', skipn_all; reflexivity).
    rewrite app_nil_r, bufhex_text_length by assumption.
    eexists; eexists; split; reflexivity.
  - (* VBufStr *)
    injection Htxt as <-.
    unfold fmt_bufstr_pieces. rewrite Hacc, <- Hl, firstn_all.
    cbn [concat app]. rewrite concat_app. cbn [concat app]. rewrite <- app_assoc. cbn [app].
    rewrite (bufstr_full t tail (length data)) by (auto; lia).
    cbn [b_st b_data b_wsize b_n].
    eexists; eexists; split.
    + replace (S (length (ch_QUOTE :: concat (str_body_pieces data) ++ [ch_QUOTE])))
        with (S (S (S (length (concat (str_body_pieces data))))))
        by (cbn [length]; rewrite app_length; cbn [length]; lia).
      reflexivity.
    + split; [apply cstr_cstr_app|].
      pose proof (cstr_shorter data (Hstr eq_refl)).
      rewrite app_length. cbn [length]. rewrite skipn_length. lia.
Qed.

(* ================= 8. C07: no delimiter inside the printed text ================= *)

Definition okc (c : N) : Prop := c <> 0 /\ c <> 10 /\ c <> 44 /\ c <> 63.

Lemma Forall_neq_notin : forall (x : N) l, Forall (fun c => c <> x) l -> ~ In x l.
Proof. intros x l H Hin. rewrite Forall_forall in H. exact (H _ Hin eq_refl). Qed.

Lemma okc_concl : forall txt, Forall okc txt ->
  ~ In 0 txt /\ ~ In 10 txt /\ field_ok txt = true /\
  match txt with c :: _ => c <> 63 | [] => True end.
Proof.
  intros txt H. repeat split.
  - apply Forall_neq_notin. eapply Forall_impl; [|exact H]. intros a (A & _); exact A.
  - apply Forall_neq_notin. eapply Forall_impl; [|exact H]. intros a (_ & A & _); exact A.
  - unfold field_ok. apply forallb_forall. intros c Hc.
    rewrite Forall_forall in H. destruct (H _ Hc) as (A & _ & B & _).
    rewrite is_term_false by assumption. reflexivity.
  - destruct txt as [|c r]; [exact I|]. inversion H as [|? ? Hc _]; subst.
    destruct Hc as (_ & _ & _ & A); exact A.
Qed.

Lemma forallb_Forall_okc : forall (f : N -> bool) l,
  (forall c, f c = true -> okc c) -> forallb f l = true -> Forall okc l.
Proof.
  intros f l Hf H. apply Forall_forall. intros c Hc.
  apply Hf. rewrite forallb_forall in H. apply H. exact Hc.
Qed.

Lemma is_dec_okc : forall c, is_dec c = true -> okc c.
Proof. intros c H. apply is_dec_range in H. unfold okc. lia. Qed.

Lemma is_hex_okc : forall c, is_hex c = true -> okc c.
Proof. intros c H. apply is_hex_range in H. unfold okc. lia. Qed.

Lemma print_dec_okc : forall n, Forall okc (print_dec n).
Proof.
  intro n. destruct (C07_print_dec_inverse n) as (_ & B & _).
  exact (forallb_Forall_okc _ _ is_dec_okc B).
Qed.

Lemma print_dec_z_okc : forall z, Forall okc (print_dec_z z).
Proof.
  intros [|p|p]; unfold print_dec_z; try apply print_dec_okc.
  constructor; [|apply print_dec_okc]. unfold okc, ch_MINUS. lia.
Qed.

Lemma print_hex_pad_okc : forall w n, Forall okc (print_hex_pad w n).
Proof.
  intros w n. destruct (print_hex_pad_spec w n) as (_ & B & _).
  exact (forallb_Forall_okc _ _ is_hex_okc B).
Qed.

Lemma Forall_concat_map : forall (A : Type) (P : N -> Prop) (f : A -> list N) l,
  (forall x, Forall P (f x)) -> Forall P (concat (map f l)).
Proof.
  intros A P f l H. induction l as [|x r IH]; cbn [map concat]; [constructor|].
  apply Forall_app. split; [apply H|exact IH].
Qed.

Lemma str_body_clean : forall l,
  Forall (fun c => c <> 0 /\ c <> 10) (concat (str_body_pieces l)).
Proof.
  induction l as [|c r IH]; cbn [str_body_pieces concat]; [constructor|].
  destruct (N.eqb_spec c 0) as [->|N0]; [constructor|].
  cbn [concat]. apply Forall_app. split; [|exact IH].
  destruct (N.eqb_spec c ch_BSL) as [->|N1].
  { repeat constructor; unfold ch_BSL; lia. }
  destruct (N.eqb_spec c ch_QUOTE) as [->|N2].
  { repeat constructor; unfold ch_BSL, ch_QUOTE; lia. }
  destruct (N.eqb_spec c ch_LF) as [->|N3].
  { repeat constructor; unfold ch_BSL, ch_n; lia. }
  unfold ch_LF in N3. repeat constructor; assumption.
Qed.

Theorem C07_no_delim : forall v data txt,
  Forall (fun b => b < 256) data -> (v_size v <= length data)%nat ->
  var_text v data = Some txt ->
  ~ In 0 txt /\ ~ In 10 txt /\ (v_type v <> VBufStr -> field_ok txt = true) /\
  (match txt with c :: _ => c <> 63 | [] => True end).
Proof.
  intros v data txt _ _ Htxt.
  assert (Hnum : Forall okc txt ->
    ~ In 0 txt /\ ~ In 10 txt /\ (v_type v <> VBufStr -> field_ok txt = true) /\
    (match txt with c :: _ => c <> 63 | [] => True end)).
  { intro H. destruct (okc_concl txt H) as (A & B & C & D). auto. }
  unfold var_text, fmt_num_text in Htxt.
  destruct (v_type v) eqn:Ety.
  - unfold fmt_int_text in Htxt. destruct (supported_width (v_size v)); [|discriminate].
    injection Htxt as <-. apply Hnum. apply print_dec_z_okc.
  - unfold fmt_uint_text in Htxt. destruct (supported_width (v_size v)); [|discriminate].
    injection Htxt as <-. apply Hnum. apply print_dec_okc.
  - unfold fmt_hex_text in Htxt. destruct (supported_width (v_size v)); [|discriminate].
    injection Htxt as <-. apply Hnum.
    constructor; [unfold okc; lia|]. constructor; [unfold okc; lia|]. apply print_hex_pad_okc.
  - injection Htxt as <-. apply Hnum. unfold fmt_bufhex_pieces.
    apply Forall_concat_map. intro x. apply print_hex_pad_okc.
  - injection Htxt as <-. unfold fmt_bufstr_pieces.
    set (body := match v_access v with WO => [] | _ => firstn (v_size v) data end).
    assert (H : Forall (fun c => c <> 0 /\ c <> 10)
                  (concat ([ch_QUOTE] :: str_body_pieces body ++ [[ch_QUOTE]]))).
    { cbn [concat app]. constructor; [unfold ch_QUOTE; lia|].
      rewrite concat_app. apply Forall_app. split; [apply str_body_clean|].
      cbn [concat app]. constructor; [unfold ch_QUOTE; lia|constructor]. }
    split; [|split; [|split]].
    + apply Forall_neq_notin. eapply Forall_impl; [|exact H]. intros a (A & _); exact A.
    + apply Forall_neq_notin. eapply Forall_impl; [|exact H]. intros a (_ & A); exact A.
    + intro C. congruence.
    + cbn [concat app]. unfold ch_QUOTE. lia.
Qed.

(* ================= 9. non-vacuity: concrete instances ================= *)

Definition ex_var (ty : vtype) (sz : nat) : var := mkVar None ty sz RW false false 0.

Example ex_int8_min :
  var_text (ex_var VInt 1) [128] = Some [45; 49; 50; 56] /\
  decode_var (ex_var VInt 1) ([45; 49; 50; 56] ++ [0]) [7] = (SOk false, [128], 1%nat, 5%nat).
Proof. vm_compute. split; reflexivity. Qed.

Example ex_int32_min :
  var_text (ex_var VInt 4) [0; 0; 0; 128] = Some [45; 50; 49; 52; 55; 52; 56; 51; 54; 52; 56] /\
  decode_var (ex_var VInt 4) ([45; 50; 49; 52; 55; 52; 56; 51; 54; 52; 56] ++ [44; 49]) [7; 7; 7; 7]
    = (SOk true, [0; 0; 0; 128], 4%nat, 12%nat).
Proof. vm_compute. split; reflexivity. Qed.

Example ex_uint16_max :
  var_text (ex_var VUint 2) [255; 255] = Some [54; 53; 53; 51; 53] /\
  decode_var (ex_var VUint 2) ([54; 53; 53; 51; 53] ++ [0]) [7; 7] = (SOk false, [255; 255], 2%nat, 6%nat).
Proof. vm_compute. split; reflexivity. Qed.

Example ex_hex16_pad :
  var_text (ex_var VHex 2) [255; 0] = Some [48; 120; 48; 48; 70; 70] /\
  decode_var (ex_var VHex 2) ([48; 120; 48; 48; 70; 70] ++ [0]) [7; 7] = (SOk false, [255; 0], 2%nat, 7%nat).
Proof. vm_compute. split; reflexivity. Qed.

Example ex_hexbuf :
  var_text (ex_var VBufHex 2) [10; 255] = Some [48; 65; 70; 70] /\
  decode_var (ex_var VBufHex 2) ([48; 65; 70; 70] ++ [44]) [7; 7] = (SOk true, [10; 255], 2%nat, 5%nat).
Proof. vm_compute. split; reflexivity. Qed.

(* quote, backslash, LF, comma, byte >= 128, CR, 'n', then the NUL; the byte after the NUL is not restored *)
Example ex_string :
  var_text (ex_var VBufStr 9) [34; 92; 10; 44; 200; 13; 110; 0; 5]
    = Some [34; 92; 34; 92; 92; 92; 110; 44; 200; 13; 110; 34] /\
  decode_var (ex_var VBufStr 9) ([34; 92; 34; 92; 92; 92; 110; 44; 200; 13; 110; 34] ++ [0]) [7; 7; 7; 7; 7; 7; 7; 7; 7]
    = (SOk false, [34; 92; 10; 44; 200; 13; 110; 0; 7], 7%nat, 13%nat).
Proof. vm_compute. split; reflexivity. Qed.

Example ex_string_nul_first :
  decode_var (ex_var VBufStr 3) ([34; 34] ++ [0]) [7; 7; 7] = (SOk false, [0; 7; 7], 0%nat, 3%nat).
Proof. vm_compute. reflexivity. Qed.

(* the hypotheses of the round trip are needed: an unterminated string, an empty hex buffer *)
Example ex_string_unterminated_rejected :
  var_text (ex_var VBufStr 3) [4; 5; 6] = Some [34; 4; 5; 6; 34] /\
  decode_var (ex_var VBufStr 3) ([34; 4; 5; 6; 34] ++ [0]) [7; 7; 7] = (SErr, [4; 5; 6], 0%nat, 6%nat).
Proof. vm_compute. split; reflexivity. Qed.

Example ex_hexbuf_empty_rejected :
  var_text (ex_var VBufHex 0) [] = Some [] /\
  decode_var (ex_var VBufHex 0) ([] ++ [0]) [] = (SErr, [], 0%nat, 1%nat).
Proof. vm_compute. split; reflexivity. Qed.

(* the general theorem applied to one instance *)
Example ex_apply_theorem : exists d ws,
  decode_var (ex_var VInt 2) ([45; 49] ++ 0 :: [1; 2; 3]) [9; 9] = (SOk (0 =? ch_COMMA), d, ws, 3%nat) /\
  same_value (ex_var VInt 2) d [255; 255].
Proof.
  apply (C07_var_roundtrip (ex_var VInt 2) [255; 255] [9; 9] [45; 49] 0 [1; 2; 3]);
    try reflexivity; try discriminate.
  repeat constructor.
Qed.

Example ex_print_dec : print_dec 18446744073709551615 =
  [49; 56; 52; 52; 54; 55; 52; 52; 48; 55; 51; 55; 48; 57; 53; 53; 49; 54; 49; 53].
Proof. vm_compute. reflexivity. Qed.
