(* Properties_C13p.v -- property C13, observer half: two restatements of theorems of Properties_C13o.v.
   Proofs are in Lemmas_C13p.v (derived from Lemmas_C13o.v).

   1. Properties_C13o.in_progress is  [last (popped (hist w)) (0, T_NONE)]  when the event machine is
      not idle: a list built with a DEFAULT element, which in a world with an empty pop history would
      name the event (0, T_NONE) that nobody triggered (C13p_ex_default_is_bogus: such worlds are not
      reachable, but the statement should not depend on a default).  Here: in_progress_opt, an option
      without default, and C13_observers_exact_opt: by cases on idle / not idle, with the event in
      progress given as the LAST ELEMENT of the pop history (popped (hist w) = p ++ [it]).
   2. Properties_C13o.C13_full_predicts_mutex assumes that lock and unlock succeed in ALL mutex
      states, which no scripted mutex with a failing entry satisfies.  C13_full_predicts_mutex' assumes
      the success of the two lock calls and the two unlock calls actually made, stated on the mutex
      states that occur (mu w; the state the query leaves), and only when a mutex is configured. *)
From Coq Require Import List NArith ZArith Bool Arith Lia.
From CatV Require Import Bytes Defs Codec Fsm TraceDefs Script Lemmas_C03b Lemmas_C13 Lemmas_C13o Lemmas_C13p.
From CatV Require Properties_C13o.
Import ListNotations.
Local Open Scope nat_scope.

(* the last element of a list, if any *)
Example last_opt_def : forall (A : Type) (l : list A),
  last_opt l = match rev l with [] => None | x :: _ => Some x end.
Proof. reflexivity. Qed.
Example last_opt_spec : forall (A : Type) (p : list A) x, last_opt (p ++ [x]) = Some x /\ @last_opt A [] = None.
Proof. intros A p x. split; [apply last_opt_snoc | reflexivity]. Qed.

Section Statements.
Variable D : desc.
Variables ioS muS hS : Type.
Variable io_read : ioS -> ioS * option N.
Variable io_write : ioS -> N -> ioS * bool.
Variable mu_lock : muS -> muS * bool.
Variable mu_unlock : muS -> muS * bool.
Variable h_call : hS -> hreq -> hS * hres.

Local Notation world := (Fsm.world ioS muS hS).
Local Notation mkWorld := (Fsm.mkWorld ioS muS hS).
Local Notation st := (Fsm.st ioS muS hS).
Local Notation mu := (Fsm.mu ioS muS hS).
Local Notation hist := (TraceDefs.hist ioS muS hS).
Local Notation run := (Fsm.run D ioS muS hS io_read io_write mu_lock mu_unlock h_call).
Local Notation api_trigger := (Fsm.api_trigger D ioS muS hS mu_lock mu_unlock).
Local Notation api_is_full := (Fsm.api_is_full D ioS muS hS mu_lock mu_unlock).
Local Notation in_progress_opt := (Lemmas_C13p.in_progress_opt ioS muS hS).

(* the event being processed: none while the event machine is idle, otherwise the event popped last *)
Example in_progress_opt_def : forall w : world,
  in_progress_opt w = if ustate_beq (u_state (u (st w))) US_IDLE then None else last_opt (popped (hist w)).
Proof. reflexivity. Qed.

(* ---------------- 1. the observers, exactly, without a default ---------------- *)
(* hypotheses as in Properties_C13o.C13_observers_exact.
   Event machine NOT idle: the pop history is not empty, its LAST element `it` is the event in
     progress (u_cmd / u_type name it); cat_is_unsolicited_event_buffered ci t = BUSY iff `it` matches
     or a queued event matches (ev_match: same command, and t = T_NONE or same type);
     cat_get_processed_command(UNSOL) = the command of `it`.
   Event machine idle: nothing in progress, u_cmd = NULL; BUSY iff a queued event matches;
     cat_get_processed_command(UNSOL) = NULL (-1). *)
Theorem C13_observers_exact_opt : forall m x mx h ops,
  0 < d_cap D ->
  (forall h q, Forall (valid_icall D) (r_calls (snd (h_call h q)))) ->
  Forall (valid_op D) ops ->
  let w := run (mkWorld (init_state D m) x mx h []) ops in
  (u_state (u (st w)) <> US_IDLE ->
     exists p it, popped (hist w) = p ++ [it] /\ in_progress_opt w = Some it /\
       u_cmd (u (st w)) = Some (fst it) /\ u_type (u (st w)) = snd it /\
       (forall ci t, is_event_buffered D (st w) ci t = ST_BUSY <->
          ev_match ci t it = true \/
          exists it', In it' (ring_items D (st w)) /\ ev_match ci t it' = true) /\
       get_processed (st w) UNSOL = Z.of_nat (fst it)) /\
  (u_state (u (st w)) = US_IDLE ->
     in_progress_opt w = None /\ u_cmd (u (st w)) = None /\
     (forall ci t, is_event_buffered D (st w) ci t = ST_BUSY <->
        exists it', In it' (ring_items D (st w)) /\ ev_match ci t it' = true) /\
     get_processed (st w) UNSOL = (-1)%Z).
Proof. exact (Lemmas_C13p.observers_exact_opt D ioS muS hS io_read io_write mu_lock mu_unlock h_call). Qed.

(* in reachable worlds the list of Properties_C13o.v is this option (so nothing proved with it is lost) *)
Theorem C13_in_progress_opt_agrees : forall m x mx h ops,
  0 < d_cap D ->
  (forall h q, Forall (valid_icall D) (r_calls (snd (h_call h q)))) ->
  Forall (valid_op D) ops ->
  let w := run (mkWorld (init_state D m) x mx h []) ops in
  Properties_C13o.in_progress ioS muS hS w = match in_progress_opt w with Some it => [it] | None => [] end.
Proof. exact (Lemmas_C13p.in_progress_opt_agrees D ioS muS hS io_read io_write mu_lock mu_unlock h_call). Qed.

(* ---------------- 2. the query, then the trigger, with a mutex ---------------- *)
(* w1: the world the query leaves.  If a mutex is configured, the query's lock (in mu w) and unlock (in
   the state that lock leaves) succeed, and so do the trigger's lock (in mu w1) and unlock: then the
   query did not change the parser, its answer predicts the trigger's answer, and the mutex state the
   query leaves is the one its unlock returned.  Nothing is assumed about any other mutex state. *)
Theorem C13_full_predicts_mutex' : forall (w : world) ci t,
  let w1 := fst (api_is_full w) in
  (d_mutex D = true -> snd (mu_lock (mu w)) = true /\ snd (mu_unlock (fst (mu_lock (mu w)))) = true) ->
  (d_mutex D = true -> snd (mu_lock (mu w1)) = true /\ snd (mu_unlock (fst (mu_lock (mu w1)))) = true) ->
  st w1 = st w /\
  (d_mutex D = true -> mu w1 = fst (mu_unlock (fst (mu_lock (mu w))))) /\
  (snd (api_is_full w) = ST_BUFFER_FULL <-> snd (api_trigger w1 ci t) = ST_BUFFER_FULL) /\
  (snd (api_is_full w) = ST_OK <-> snd (api_trigger w1 ci t) = ST_OK).
Proof. exact (Lemmas_C13p.full_predicts_mutex_calls D ioS muS hS mu_lock mu_unlock). Qed.

End Statements.

Print Assumptions C13_observers_exact_opt.
Print Assumptions C13_in_progress_opt_agrees.
Print Assumptions C13_full_predicts_mutex'.

(* ------------------------------------------------------------------ *)
(* non-vacuity: the instance of Properties_C13o.v                       *)
(* (two commands with read and test handlers, capacity 2; oRun mutex mx ops: the scripted run)        *)
(* ------------------------------------------------------------------ *)
Import Properties_C13o.

(* why no default: in a (not reachable) world whose event machine is busy and whose pop history is empty,
   the list of Properties_C13o.v names the event (0, T_NONE); the option says None *)
Example C13p_ex_default_is_bogus :
  let w := mkWorld sio smu unit (setu_state US_READ_LOOP (init_state (oD false) []))
                   (mkSio [] [] []) (mkSmu [] []) tt [] in
  in_progress sio smu unit w = [(0, T_NONE)] /\ Lemmas_C13p.in_progress_opt sio smu unit w = None.
Proof. vm_compute. split; reflexivity. Qed.

Definition ops1 : list op := otrig ++ [OService].
Example ops1_valid : Forall (valid_op (oD false)) ops1 /\ Forall (valid_op (oD false)) otrig.
Proof.
  unfold ops1, otrig. cbn [app]. split;
    repeat (apply Forall_cons; [first [exact I | split; [cbn; lia | auto]]|]); apply Forall_nil.
Qed.

(* the conclusion of C13_observers_exact_opt for the descriptor oD false, as a predicate of the world *)
Definition opt_concl (w : kworld) : Prop :=
  (u_state (u (Fsm.st _ _ _ w)) <> US_IDLE ->
     exists p it, popped (hist _ _ _ w) = p ++ [it] /\ Lemmas_C13p.in_progress_opt sio smu unit w = Some it /\
       u_cmd (u (Fsm.st _ _ _ w)) = Some (fst it) /\ u_type (u (Fsm.st _ _ _ w)) = snd it /\
       (forall ci t, is_event_buffered (oD false) (Fsm.st _ _ _ w) ci t = ST_BUSY <->
          ev_match ci t it = true \/
          exists it', In it' (ring_items (oD false) (Fsm.st _ _ _ w)) /\ ev_match ci t it' = true) /\
       get_processed (Fsm.st _ _ _ w) UNSOL = Z.of_nat (fst it)) /\
  (u_state (u (Fsm.st _ _ _ w)) = US_IDLE ->
     Lemmas_C13p.in_progress_opt sio smu unit w = None /\ u_cmd (u (Fsm.st _ _ _ w)) = None /\
     (forall ci t, is_event_buffered (oD false) (Fsm.st _ _ _ w) ci t = ST_BUSY <->
        exists it', In it' (ring_items (oD false) (Fsm.st _ _ _ w)) /\ ev_match ci t it' = true) /\
     get_processed (Fsm.st _ _ _ w) UNSOL = (-1)%Z).

(* the theorem instantiated on the scripted runs of Properties_C13o.v *)
Example C13p_ex_instance : forall ops, Forall (valid_op (oD false)) ops -> opt_concl (oRun false (mkSmu [] []) ops).
Proof.
  intros ops Ho. destruct C13o_hyps as (Hc & Hv & _).
  exact (C13_observers_exact_opt (oD false) sio smu unit s_read s_write s_lock s_unlock k_call
           [] (mkSio [] [] []) (mkSmu [] []) tt ops Hc Hv Ho).
Qed.

(* C13_observers_exact_opt APPLIED, event machine busy: three triggers (the third refused) and one
   cat_service call -- (0, READ) is the last popped event and in progress, (1, TEST) is queued *)
Example C13p_ex_busy :
  let w := oRun false (mkSmu [] []) ops1 in
  popped (hist _ _ _ w) = [] ++ [(0, T_READ)] /\
  Lemmas_C13p.in_progress_opt sio smu unit w = Some (0, T_READ) /\
  u_cmd (u (Fsm.st _ _ _ w)) = Some 0 /\ u_type (u (Fsm.st _ _ _ w)) = T_READ /\
  (forall ci t, is_event_buffered (oD false) (Fsm.st _ _ _ w) ci t = ST_BUSY <->
     ev_match ci t (0, T_READ) = true \/ exists it', In it' [(1, T_TEST)] /\ ev_match ci t it' = true) /\
  get_processed (Fsm.st _ _ _ w) UNSOL = 0%Z.
Proof.
  pose proof (C13p_ex_instance ops1 (proj1 ops1_valid)) as H.
  set (w := oRun false (mkSmu [] []) ops1) in *. cbv zeta.
  assert (Hn : u_state (u (Fsm.st _ _ _ w)) <> US_IDLE) by (vm_compute; discriminate).
  assert (Er : ring_items (oD false) (Fsm.st _ _ _ w) = [(1, T_TEST)]) by (vm_compute; reflexivity).
  assert (Ep : popped (hist _ _ _ w) = [(0, T_READ)]) by (vm_compute; reflexivity).
  clearbody w. destruct H as [H _].
  destruct (H Hn) as (p & it & E1 & E2 & E3 & E4 & E5 & E6).
  assert (Eit : it = (0, T_READ)).
  { rewrite Ep in E1. destruct p as [|a [|b p]]; cbn in E1; [congruence | discriminate E1 | discriminate E1]. }
  subst it. rewrite Er in E5.
  split; [exact Ep|]. split; [exact E2|]. split; [exact E3|]. split; [exact E4|]. split; [exact E5 | exact E6].
Qed.

(* ... and event machine idle: before any cat_service call both accepted events are queued, nothing is in
   progress, the observers are decided by the queue alone *)
Example C13p_ex_idle :
  let w := oRun false (mkSmu [] []) otrig in
  Lemmas_C13p.in_progress_opt sio smu unit w = None /\ u_cmd (u (Fsm.st _ _ _ w)) = None /\
  (forall ci t, is_event_buffered (oD false) (Fsm.st _ _ _ w) ci t = ST_BUSY <->
     exists it', In it' [(0, T_READ); (1, T_TEST)] /\ ev_match ci t it' = true) /\
  get_processed (Fsm.st _ _ _ w) UNSOL = (-1)%Z.
Proof.
  pose proof (C13p_ex_instance otrig (proj2 ops1_valid)) as H.
  set (w := oRun false (mkSmu [] []) otrig) in *. cbv zeta.
  assert (Hi : u_state (u (Fsm.st _ _ _ w)) = US_IDLE) by (vm_compute; reflexivity).
  assert (Er : ring_items (oD false) (Fsm.st _ _ _ w) = [(0, T_READ); (1, T_TEST)]) by (vm_compute; reflexivity).
  clearbody w. destruct H as [_ H]. destruct (H Hi) as (E1 & E2 & E3 & E4). rewrite Er in E3.
  split; [exact E1|]. split; [exact E2|]. split; [exact E3 | exact E4].
Qed.

(* ---- scripted mutex: four locks and four unlocks succeed, every later one FAILS ---- *)
Definition mxS : smu := mkSmu [true; true; true; true; false; false] [true; true; true; true; false; false].

(* the all-states hypotheses of Properties_C13o.C13_full_predicts_mutex are false for scripted mutexes *)
Example C13p_ex_old_hyps_false :
  ~ (forall m, snd (s_lock m) = true) /\ ~ (forall m, snd (s_unlock m) = true).
Proof.
  split; intros H; [specialize (H (mkSmu [false] [])) | specialize (H (mkSmu [] [false]))]; discriminate H.
Qed.

(* two accepted triggers (they use two locks and two unlocks of the schedule): the queue is full; then
   the query and a third trigger use the remaining successful entries.  C13_full_predicts_mutex' APPLIED:
   its hypotheses hold by computation; it yields BUFFER_FULL <-> BUFFER_FULL; and indeed both are
   BUFFER_FULL, and the next lock would fail *)
Example C13p_ex_scripted_mutex :
  let w := oRun true mxS [OTrigger 0 T_READ; OTrigger 1 T_TEST] in
  let w1 := fst (Fsm.api_is_full (oD true) sio smu unit s_lock s_unlock w) in
  let w2 := fst (Fsm.api_trigger (oD true) sio smu unit s_lock s_unlock w1 0 T_TEST) in
  Fsm.st _ _ _ w1 = Fsm.st _ _ _ w /\
  (snd (Fsm.api_is_full (oD true) sio smu unit s_lock s_unlock w) = ST_BUFFER_FULL <->
   snd (Fsm.api_trigger (oD true) sio smu unit s_lock s_unlock w1 0 T_TEST) = ST_BUFFER_FULL) /\
  snd (Fsm.api_is_full (oD true) sio smu unit s_lock s_unlock w) = ST_BUFFER_FULL /\
  Fsm.mu _ _ _ w2 = mkSmu [false; false] [false; false] /\ snd (s_lock (Fsm.mu _ _ _ w2)) = false.
Proof.
  intros w w1 w2.
  assert (H1 : d_mutex (oD true) = true ->
               snd (s_lock (Fsm.mu _ _ _ w)) = true /\ snd (s_unlock (fst (s_lock (Fsm.mu _ _ _ w)))) = true)
    by (intros _; vm_compute; split; reflexivity).
  assert (H2 : d_mutex (oD true) = true ->
               snd (s_lock (Fsm.mu _ _ _ w1)) = true /\ snd (s_unlock (fst (s_lock (Fsm.mu _ _ _ w1)))) = true)
    by (intros _; vm_compute; split; reflexivity).
  destruct (C13_full_predicts_mutex' (oD true) sio smu unit s_lock s_unlock w 0 T_TEST H1 H2) as (A & _ & B & _).
  split; [exact A|]. split; [exact B|]. vm_compute. repeat split; reflexivity.
Qed.

(* the same with a queue that is not full: one trigger, then the query says OK and the second trigger is
   accepted *)
Example C13p_ex_scripted_mutex_ok :
  let w := oRun true mxS [OTrigger 0 T_READ] in
  let w1 := fst (Fsm.api_is_full (oD true) sio smu unit s_lock s_unlock w) in
  (snd (Fsm.api_is_full (oD true) sio smu unit s_lock s_unlock w) = ST_OK <->
   snd (Fsm.api_trigger (oD true) sio smu unit s_lock s_unlock w1 1 T_TEST) = ST_OK) /\
  snd (Fsm.api_trigger (oD true) sio smu unit s_lock s_unlock w1 1 T_TEST) = ST_OK /\
  ring_items (oD true) (Fsm.st _ _ _ (fst (Fsm.api_trigger (oD true) sio smu unit s_lock s_unlock w1 1 T_TEST)))
    = [(0, T_READ); (1, T_TEST)].
Proof.
  intros w w1.
  assert (H1 : d_mutex (oD true) = true ->
               snd (s_lock (Fsm.mu _ _ _ w)) = true /\ snd (s_unlock (fst (s_lock (Fsm.mu _ _ _ w)))) = true)
    by (intros _; vm_compute; split; reflexivity).
  assert (H2 : d_mutex (oD true) = true ->
               snd (s_lock (Fsm.mu _ _ _ w1)) = true /\ snd (s_unlock (fst (s_lock (Fsm.mu _ _ _ w1)))) = true)
    by (intros _; vm_compute; split; reflexivity).
  destruct (C13_full_predicts_mutex' (oD true) sio smu unit s_lock s_unlock w 1 T_TEST H1 H2) as (_ & _ & _ & B).
  split; [exact B|]. vm_compute. split; reflexivity.
Qed.

(* the hypotheses are needed: if the trigger's lock fails, the query said BUFFER_FULL / OK but the
   trigger answers MUTEX_LOCK *)
Example C13p_ex_lock_needed :
  let w := oRun true (mkSmu [true; true; false] []) [OTrigger 0 T_READ] in
  let w1 := fst (Fsm.api_is_full (oD true) sio smu unit s_lock s_unlock w) in
  snd (Fsm.api_is_full (oD true) sio smu unit s_lock s_unlock w) = ST_OK /\
  snd (Fsm.api_trigger (oD true) sio smu unit s_lock s_unlock w1 1 T_TEST) = ST_MUTEX_LOCK.
Proof. vm_compute. split; reflexivity. Qed.
