From Coq Require Extraction.
From Coq Require Import ExtrOcamlBasic.
From CatV Require Import Bytes Defs Codec Fsm Script Search.
Extraction Language OCaml.
Extraction "catmodel_ext" sstep sinit srun st tr hs io mu search_command_by_name search_variable_by_name search_group_by_name.
