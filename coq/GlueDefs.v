(* GlueDefs.v — definitions used to state the end-to-end theorems that connect the per-function
   results (C02 lookup, C06 collection, C04/C05/C07 codecs) to the machine fed through io:
   the scripted, always-ready environment of Script.v with the event machine idle.  No proofs. *)
From Coq Require Import List NArith ZArith Bool Arith.
From CatV Require Import Bytes Defs Codec Spec Fsm Script ResolveDefs SchedDefs.
Import ListNotations.
Local Open Scope nat_scope.

(* a scripted world: given object state, input queue, handler scripts; always-ready io; no mutex use *)
Definition mkw (s : state) (input : list N) (h : shs) (t : list event) : sworld :=
  mkWorld sio smu shs s (mkSio input [] []) (mkSmu [] []) h t.

(* the ECall events of a trace, oldest first *)
Definition calls_of (t : list event) : list (hreq * Z) :=
  flat_map (fun e => match e with ECall q c => [(q, c)] | _ => [] end) (rev t).

(* accepted output bytes of a trace, oldest first *)
Definition output_of (t : list event) : list N :=
  flat_map (fun e => match e with EWr _ ch true => [ch] | _ => [] end) (rev t).

(* request type announced by the suffix character that ends the name *)
Definition type_of_term (term : N) : ctype :=
  if (term =? ch_EQ)%N then T_WRITE else if (term =? ch_QM)%N then T_READ else T_RUN.

Definition name_ok (typed : list N) : bool :=
  nonempty typed && forallb (fun c => is_name_char (to_upper c)) typed.
