(* Properties_C06.v — property C06: handlers see exactly the arguments that were sent.  The write
   handler gets the bytes between '=' and the line end unchanged (case preserved, CR removed),
   NUL-terminated, with their exact length; a line whose arguments do not fit the working buffer
   (length >= capacity) is rejected as a whole (ERROR, no handler call, no variable touched), never
   truncated.  Proofs are in Lemmas_C06.v; the definitions pca_body / args_byte / args_feed /
   test_shortcut / no_cr are in CollectDefs.v. *)
From Coq Require Import List NArith ZArith Bool Arith.
From CatV Require Import Bytes Defs Codec Spec Fsm ResolveDefs CollectDefs Lemmas_C06.
Import ListNotations.
Local Open Scope nat_scope.

Section C06.
Variable D : desc.
Variables ioS muS hS : Type.
Variable io_read : ioS -> ioS * option N.
Variable io_write : ioS -> N -> ioS * bool.
Variable mu_lock : muS -> muS * bool.
Variable mu_unlock : muS -> muS * bool.
Variable h_call : hS -> hreq -> hS * hres.

Local Notation world := (Fsm.world ioS muS hS).
Local Notation st := (Fsm.st ioS muS hS).
Local Notation hs := (Fsm.hs ioS muS hS).
Local Notation tr := (Fsm.tr ioS muS hS).
Local Notation reading := (Fsm.reading ioS muS hS io_read).
Local Notation error_state := (Fsm.error_state ioS muS hS io_read).
Local Notation parse_command_args := (Fsm.parse_command_args D ioS muS hS io_read).
Local Notation process_write_loop := (Fsm.process_write_loop D ioS muS hS mu_lock mu_unlock h_call).
Local Notation process_rt_loop := (Fsm.process_rt_loop D ioS muS hS mu_lock mu_unlock h_call).

(* 0. pca_body is literally the function the model gives to `reading` in parse_command_args *)
Theorem C06_pca_body_is_model : forall w : world, parse_command_args w = reading w (pca_body D).
Proof. exact (Lemmas_C06.C06_pca_body_is_model D ioS muS hS io_read). Qed.

(* entry: command_found (write form) establishes the preconditions of C06_collect *)
Theorem C06_entry : forall s c,
  cmd_of D ATCMD s = Some c -> k_type (k s) = T_WRITE -> 0 < asz s ->
  let s' := command_found D s in
  k_state (k s') = CS_PARSE_COMMAND_ARGS /\ cmd_of D ATCMD s' = Some c /\ k_length (k s') = 0 /\
  nth_error (cbuf s') 0 = Some 0%N /\ asz s' = asz s /\ fault s' = fault s /\ mem s' = mem s /\
  k_cr (k s') = k_cr (k s).
Proof. exact (Lemmas_C06.C06_entry D). Qed.

(* 1. collection, for every byte string bs without LF (any length, any byte values): the text
      a = bs without its CRs is in the buffer, NUL-terminated, with its exact length, iff
      |a| < capacity; otherwise the machine is in CS_ERROR.  No fault, no variable touched. *)
Theorem C06_collect : forall s c bs,
  k_state (k s) = CS_PARSE_COMMAND_ARGS -> cmd_of D ATCMD s = Some c ->
  k_length (k s) = 0 -> 0 < asz s -> fault s = false ->
  nth_error (cbuf s) 0 = Some 0%N ->
  ~ In ch_LF bs ->
  (test_shortcut c = true -> match no_cr bs with q :: _ => q <> ch_QM | [] => True end) ->
  let a := no_cr bs in
  let s' := args_feed D s bs in
  fault s' = false /\ mem s' = mem s /\ cmd_of D ATCMD s' = Some c /\
  if length a <? asz s
  then k_state (k s') = CS_PARSE_COMMAND_ARGS /\ k_length (k s') = length a /\
       firstn (S (length a)) (cbuf s') = a ++ [0%N] /\ length (cbuf s') = length (cbuf s) /\
       k_cr (k s') = (k_cr (k s) || existsb (fun ch => (ch =? ch_CR)%N) bs)
  else k_state (k s') = CS_ERROR.
Proof. exact (Lemmas_C06.C06_collect D). Qed.

(* 2. the test shortcut `=?` is taken when '?' is the very first argument character (CRs before
      it do not count) *)
Theorem C06_test_shortcut : forall s c bs,
  k_state (k s) = CS_PARSE_COMMAND_ARGS -> cmd_of D ATCMD s = Some c -> k_length (k s) = 0 ->
  test_shortcut c = true -> Forall (fun ch => ch = ch_CR) bs ->
  let s' := args_feed D s (bs ++ [ch_QM]) in
  k_state (k s') = CS_WAIT_TEST_ACK /\ k_type (k s') = T_TEST /\ cbuf s' = cbuf s /\ mem s' = mem s.
Proof. exact (Lemmas_C06.C06_test_shortcut D). Qed.

(* 3. what the write handler is given at the moment it is called: exactly one call in this step,
      data = a ++ NUL, len = |a| *)
Theorem C06_write_handler_args : forall (w : world) ci a,
  k_state (k (st w)) = CS_WRITE_LOOP -> k_cmd (k (st w)) = Some ci ->
  k_length (k (st w)) = length a -> firstn (S (length a)) (cbuf (st w)) = a ++ [0%N] ->
  exists code rest,
    tr (fst (process_write_loop w)) =
      rest ++ ECall (HWrite ci (a ++ [0%N]) (length a) (k_index (k (st w)))) code :: tr w
    /\ forallb (fun e => match e with ECall _ _ => false | _ => true end) rest = true.
Proof. exact (Lemmas_C06.C06_write_handler_args D ioS muS hS mu_lock mu_unlock h_call). Qed.

(* 4. dispatch on LF from the collected state, command without writable variable: straight to the
      write handler state, the collected text and its length untouched *)
Theorem C06_dispatch_no_vars : forall s c,
  k_state (k s) = CS_PARSE_COMMAND_ARGS -> cmd_of D ATCMD s = Some c ->
  c_only_test c = false -> vars_access_possible c WO = false -> c_hwrite c = true ->
  let s' := pca_body D ch_LF (setk_char ch_LF s) in
  k_state (k s') = CS_WRITE_LOOP /\ cbuf s' = cbuf s /\ k_length (k s') = k_length (k s) /\
  k_index (k s') = 0 /\ mem s' = mem s.
Proof. exact (Lemmas_C06.C06_dispatch_no_vars D). Qed.

(* 5. over-long lines: in CS_ERROR every byte but LF is ignored; LF starts the ERROR response; no
      handler oracle step, no store; the only trace event is the read itself *)
Theorem C06_error_drains : forall w : world, k_state (k (st w)) = CS_ERROR ->
  6 <= length (cbuf (st w)) ->
  let w' := fst (error_state w) in
  mem (st w') = mem (st w) /\ hs w' = hs w /\
  (k_state (k (st w')) = CS_ERROR \/
   (k_state (k (st w')) = CS_FLUSH_WAIT /\ k_wafter (k (st w')) = CS_AFTER_RESET /\
    firstn 6 (cbuf (st w')) = txt_ERROR ++ [0%N])).
Proof. exact (Lemmas_C06.C06_error_drains ioS muS hS io_read). Qed.

Theorem C06_error_no_call : forall w : world,
  exists r, tr (fst (error_state w)) = ERd r :: tr w.
Proof. exact (Lemmas_C06.C06_error_no_call ioS muS hS io_read). Qed.

(* 6. what read/test handlers are given (both machines): the text up to the cursor, the cursor,
      the capacity of THAT machine's buffer; exactly one call in the step *)
Theorem C06_rt_handler_args : forall rd f (w : world) ci,
  g_cmd f (st w) = Some ci ->
  exists code rest,
    tr (fst (process_rt_loop rd f w)) =
      rest ++ ECall ((if rd then HRead else HTest) f ci (firstn (S (g_pos f (st w))) (g_buf f (st w)))
                      (g_pos f (st w)) (length (g_buf f (st w)))) code :: tr w
    /\ forallb (fun e => match e with ECall _ _ => false | _ => true end) rest = true.
Proof. exact (Lemmas_C06.C06_rt_handler_args D ioS muS hS mu_lock mu_unlock h_call). Qed.

End C06.

Print Assumptions C06_pca_body_is_model.
Print Assumptions C06_entry.
Print Assumptions C06_collect.
Print Assumptions C06_test_shortcut.
Print Assumptions C06_write_handler_args.
Print Assumptions C06_dispatch_no_vars.
Print Assumptions C06_error_drains.
Print Assumptions C06_error_no_call.
Print Assumptions C06_rt_handler_args.

(* ---------- non-vacuity: concrete instances (capacity 6) ---------- *)
Module C06_examples.
Definition c0 := mkCmd [88%N] None true false false true [] false false false.   (* "X", write + test *)
Definition D0 := mkDesc [[c0]] [] 6 (Some 6) 85%N 2 false.
Definition s1 : state :=
  command_found D0 (init_state D0 [[1%N]] |> setk_cmd (Some 0) |> setk_type T_WRITE).
Definition show (s : state) := (k_state (k s), k_length (k s), cbuf s, k_cr (k s)).

(* the hypotheses of C06_collect / C06_test_shortcut hold for s1 *)
Example ex_hyps :
  k_state (k s1) = CS_PARSE_COMMAND_ARGS /\ cmd_of D0 ATCMD s1 = Some c0 /\ k_length (k s1) = 0 /\
  asz s1 = 6 /\ fault s1 = false /\ nth_error (cbuf s1) 0 = Some 0%N /\ test_shortcut c0 = true.
Proof. vm_compute. repeat split. Qed.

(* capacity - 2 = 4 bytes: lower case and a byte >= 128 unchanged; CR at start, middle, end dropped *)
Example ex_len4 : show (args_feed D0 s1 [13; 97; 13; 200; 122; 65; 13]%N)
                  = (CS_PARSE_COMMAND_ARGS, 4, [97; 200; 122; 65; 0; 85]%N, true).
Proof. vm_compute. reflexivity. Qed.
(* capacity - 1 = 5 bytes: the longest text that fits *)
Example ex_len5 : show (args_feed D0 s1 [97; 98; 200; 99; 255]%N)
                  = (CS_PARSE_COMMAND_ARGS, 5, [97; 98; 200; 99; 255; 0]%N, false).
Proof. vm_compute. reflexivity. Qed.
(* capacity = 6 bytes and capacity + 1 = 7 bytes: rejected *)
Example ex_len6 : k_state (k (args_feed D0 s1 [97; 98; 200; 99; 13; 100; 101]%N)) = CS_ERROR.
Proof. vm_compute. reflexivity. Qed.
Example ex_len7 : k_state (k (args_feed D0 s1 [97; 98; 200; 99; 100; 101; 102; 13]%N)) = CS_ERROR.
Proof. vm_compute. reflexivity. Qed.
(* '?' is special only as the first argument character *)
Example ex_qm_first : show (args_feed D0 s1 [13; 63]%N) = (CS_WAIT_TEST_ACK, 0, [0; 85; 85; 85; 85; 85]%N, true).
Proof. vm_compute. reflexivity. Qed.
Example ex_qm_later : show (args_feed D0 s1 [97; 63]%N)
                      = (CS_PARSE_COMMAND_ARGS, 2, [97; 63; 0; 85; 85; 85]%N, false).
Proof. vm_compute. reflexivity. Qed.
(* without the NUL written by command_found the empty text would not be NUL-terminated: the
   hypothesis  nth_error (cbuf s) 0 = Some 0  of C06_collect is necessary *)
Example ex_need_nul :
  let s0 := init_state D0 [[1%N]] |> setk_cmd (Some 0) |> setk_state CS_PARSE_COMMAND_ARGS in
  firstn 1 (cbuf (args_feed D0 s0 [])) = [85%N].
Proof. vm_compute. reflexivity. Qed.

(* end to end through the whole model: complete lines "ATx=ab<CR><LF>" etc., 100 service calls *)
Definition rd (l : list N) : list N * option N := match l with [] => ([], None) | x :: r => (r, Some x) end.
Definition wr (l : list N) (c : N) : list N * bool := (l, true).
Definition mx (u : unit) : unit * bool := (u, true).
Definition hc (u : unit) (q : hreq) : unit * hres := (u, mkHres RC_OK None [] []).
Definition w0 (inp : list N) := mkWorld (list N) unit unit (init_state D0 [[1%N]]) inp tt tt [].
Definition calls (inp : list N) : list event :=
  filter (fun e => match e with ECall _ _ => true | _ => false end)
    (tr _ _ _ (run D0 _ _ _ rd wr mx mx hc (w0 inp) (repeat OService 100))).
Definition output (inp : list N) : list N :=
  rev (flat_map (fun e => match e with EWr _ ch true => [ch] | _ => [] end)
    (tr _ _ _ (run D0 _ _ _ rd wr mx mx hc (w0 inp) (repeat OService 100)))).

Example ex_run_ab : calls [65; 84; 120; 61; 97; 98; 13; 10]%N = [ECall (HWrite 0 [97; 98; 0]%N 2 0) 3].
Proof. vm_compute. reflexivity. Qed.
Example ex_run_5 : calls [65; 84; 120; 61; 13; 97; 200; 99; 100; 122; 13; 10]%N
                   = [ECall (HWrite 0 [97; 200; 99; 100; 122; 0]%N 5 0) 3].
Proof. vm_compute. reflexivity. Qed.
Example ex_run_6 : calls [65; 84; 120; 61; 97; 200; 99; 100; 101; 102; 13; 10]%N = []
                   /\ output [65; 84; 120; 61; 97; 200; 99; 100; 101; 102; 13; 10]%N
                      = [13; 10; 69; 82; 82; 79; 82; 13; 10]%N.
Proof. vm_compute. split; reflexivity. Qed.
Example ex_run_test : calls [65; 84; 120; 61; 63; 13; 10]%N = [ECall (HTest ATCMD 0 [88; 61; 0]%N 2 6) 3].
Proof. vm_compute. reflexivity. Qed.
End C06_examples.
