(* Properties_C07.v — property C07: the text printed for a read-write variable, fed back as a
   write argument of the same variable, is accepted and restores the value.
   All proofs are in Lemmas_C07.v. *)
From Coq Require Import List NArith ZArith Bool Arith.
From CatV Require Import Bytes Defs Codec Spec Lemmas_C07.
Import ListNotations.
Local Open Scope N_scope.

(* Value equality per type (definitions imported from Lemmas_C07, repeated here for the reader):

   Fixpoint cstr (l : list N) : list N :=
     match l with [] => [] | c :: r => if c =? 0 then [] else c :: cstr r end.
   Definition same_value (v : var) (d1 d2 : list N) : Prop :=
     match v_type v with
     | VBufStr => cstr d1 = cstr d2 /\ length d1 = length d2
     | _ => d1 = d2
     end.

   integers and hex buffers byte for byte; strings up to and including the first NUL. *)

Theorem C07_var_roundtrip : forall v data data' txt t tail,
  v_access v = RW ->
  Forall (fun b => b < 256) data -> length data = v_size v -> length data' = v_size v ->
  (v_type v = VBufStr -> In 0 data) ->             (* the string is NUL-terminated inside its storage *)
  (v_type v = VBufHex -> (0 < v_size v)%nat) ->     (* an empty hex buffer prints the empty text *)
  var_text v data = Some txt -> is_term t = true ->
  exists d ws,
    decode_var v (txt ++ t :: tail) data' = (SOk (t =? ch_COMMA), d, ws, S (length txt)) /\
    same_value v d data.
Proof. exact Lemmas_C07.C07_var_roundtrip. Qed.
Print Assumptions C07_var_roundtrip.

(* the printed text never contains a NUL or a raw line feed, and for the non-string types no comma
   either, so a comma-joined list of such texts splits back at the same places *)
Theorem C07_no_delim : forall v data txt,
  Forall (fun b => b < 256) data -> (v_size v <= length data)%nat ->
  var_text v data = Some txt ->
  ~ In 0 txt /\ ~ In 10 txt /\ (v_type v <> VBufStr -> field_ok txt = true) /\
  (match txt with c :: _ => c <> 63 | [] => True end).   (* never starts with '?' *)
Proof. exact Lemmas_C07.C07_no_delim. Qed.
Print Assumptions C07_no_delim.

(* the decimal printer is the standard notation: parsing it back (unbounded Horner) gives the number *)
Theorem C07_print_dec_inverse : forall n,
  dec_value (print_dec n) = n /\ forallb is_dec (print_dec n) = true /\ print_dec n <> [].
Proof. exact Lemmas_C07.C07_print_dec_inverse. Qed.
Print Assumptions C07_print_dec_inverse.
