(* Defs.v — descriptor, object state (one field per field of struct cat_object /
   struct cat_unsolicited_fsm), setters, list helpers.  No proofs. *)
From Coq Require Import List NArith ZArith Bool Arith.
From CatV Require Import Bytes.
Import ListNotations.

Notation "x |> f" := (f x) (at level 50, left associativity, only parsing).

(* ---------- enumerations of cat.h ---------- *)

Inductive fsm := ATCMD | UNSOL.

Inductive vtype := VInt | VUint | VHex | VBufHex | VBufStr.
Inductive vaccess := RW | RO | WO.

Inductive cstate :=
  | CS_ERROR | CS_IDLE | CS_PARSE_PREFIX | CS_PARSE_COMMAND_CHAR | CS_UPDATE_COMMAND_STATE
  | CS_WAIT_READ_ACK | CS_SEARCH_COMMAND | CS_COMMAND_FOUND | CS_COMMAND_NOT_FOUND
  | CS_PARSE_COMMAND_ARGS | CS_PARSE_WRITE_ARGS | CS_FORMAT_READ_ARGS | CS_WAIT_TEST_ACK
  | CS_FORMAT_TEST_ARGS | CS_WRITE_LOOP | CS_READ_LOOP | CS_TEST_LOOP | CS_RUN_LOOP | CS_HOLD
  | CS_FLUSH_WAIT | CS_FLUSH | CS_AFTER_RESET | CS_AFTER_OK | CS_AFTER_FMT_READ
  | CS_AFTER_FMT_TEST | CS_PRINT_CMD.

Inductive ustate :=
  | US_IDLE | US_FORMAT_READ_ARGS | US_FORMAT_TEST_ARGS | US_READ_LOOP | US_TEST_LOOP
  | US_FLUSH_WAIT | US_FLUSH | US_AFTER_RESET | US_AFTER_OK | US_AFTER_FMT_READ | US_AFTER_FMT_TEST.

(* cat_cmd_type, including the two pseudo values used by the list printer *)
Inductive ctype := T_NONE | T_RUN | T_READ | T_WRITE | T_TEST | T_TOTAL.

(* write_buf pointer: the newline string (from its CR, or from its LF) or the
   machine's own formatting buffer *)
Inductive wbuf := WB_NL (crlf : bool) | WB_MAIN.
Inductive wstate := WS_BEFORE | WS_MAIN | WS_AFTER.

Scheme Equality for fsm.
Scheme Equality for vtype.
Scheme Equality for vaccess.
Scheme Equality for cstate.
Scheme Equality for ustate.
Scheme Equality for ctype.
Scheme Equality for wstate.

(* ---------- descriptor ---------- *)

Record var := mkVar {
  v_name : option (list N);
  v_type : vtype;
  v_size : nat;            (* data_size *)
  v_access : vaccess;
  v_hread : bool;          (* var->read  != NULL *)
  v_hwrite : bool;         (* var->write != NULL *)
  v_slot : nat             (* index of its storage in the memory *)
}.

Record cmd := mkCmd {
  c_name : list N;
  c_descr : option (list N);
  c_hwrite : bool; c_hread : bool; c_hrun : bool; c_htest : bool;
  c_vars : list var;       (* var / var_num; [] models var == NULL or var_num == 0 *)
  c_need_all : bool; c_only_test : bool; c_implicit : bool
}.

Record desc := mkDesc {
  d_groups : list (list cmd);      (* registered commands, by group *)
  d_extra : list cmd;              (* commands used only for unsolicited events *)
  d_buf_size : nat;
  d_ubuf_size : option nat;        (* None = shared working buffer *)
  d_fill : N;                      (* initial content of the application's buffers *)
  d_cap : nat;                     (* CAT_UNSOLICITED_CMD_BUFFER_SIZE *)
  d_mutex : bool
}.

Definition cmds (D : desc) : list cmd := concat (d_groups D).
Definition ncmds (D : desc) : nat := length (cmds D).
Definition pool (D : desc) : list cmd := cmds D ++ d_extra D.

(* cat.c:422 get_command_by_index: walk over the groups *)
Fixpoint cmd_by_index (gs : list (list cmd)) (i : nat) : option cmd :=
  match gs with
  | [] => None
  | g :: gs' => if i <? length g then nth_error g i else cmd_by_index gs' (i - length g)
  end.

Fixpoint group_of_index (gs : list (list cmd)) (i : nat) (gi : nat) : option nat :=
  match gs with
  | [] => None
  | g :: gs' => if i <? length g then Some gi else group_of_index gs' (i - length g) (S gi)
  end.

(* cat.c:44-57 *)
Definition asz_of (D : desc) : nat :=
  match d_ubuf_size D with Some _ => d_buf_size D | None => Nat.div2 (d_buf_size D) end.
Definition usz_of (D : desc) : nat :=
  match d_ubuf_size D with Some n => n | None => Nat.div2 (d_buf_size D) end.
(* offset of the unsolicited region inside buf in shared mode *)
Definition uoff_of (D : desc) : nat := Nat.div2 (d_buf_size D).

(* ---------- list helpers ---------- *)

Fixpoint upd {A} (l : list A) (i : nat) (v : A) : list A :=
  match l, i with
  | [], _ => []
  | _ :: r, O => v :: r
  | x :: r, S i' => x :: upd r i' v
  end.

Definition nthb (l : list bool) (i : nat) : bool := nth i l false.

(* ---------- object state ---------- *)

Record cfsm := mkCfsm {
  k_index : nat;
  k_partial : nat;
  k_length : nat;
  k_position : nat;
  k_write_size : nat;
  k_cmd : option nat;
  k_var : nat;
  k_type : ctype;
  k_char : N;
  k_state : cstate;
  k_cr : bool;
  k_hold : bool;
  k_hold_exit : Z;
  k_wbuf : wbuf;
  k_wstate : wstate;
  k_wafter : cstate;
  k_implicit : bool
}.

Definition set_k_index (v : nat) (x : cfsm) : cfsm := mkCfsm v (k_partial x) (k_length x) (k_position x) (k_write_size x) (k_cmd x) (k_var x) (k_type x) (k_char x) (k_state x) (k_cr x) (k_hold x) (k_hold_exit x) (k_wbuf x) (k_wstate x) (k_wafter x) (k_implicit x).
Definition set_k_partial (v : nat) (x : cfsm) : cfsm := mkCfsm (k_index x) v (k_length x) (k_position x) (k_write_size x) (k_cmd x) (k_var x) (k_type x) (k_char x) (k_state x) (k_cr x) (k_hold x) (k_hold_exit x) (k_wbuf x) (k_wstate x) (k_wafter x) (k_implicit x).
Definition set_k_length (v : nat) (x : cfsm) : cfsm := mkCfsm (k_index x) (k_partial x) v (k_position x) (k_write_size x) (k_cmd x) (k_var x) (k_type x) (k_char x) (k_state x) (k_cr x) (k_hold x) (k_hold_exit x) (k_wbuf x) (k_wstate x) (k_wafter x) (k_implicit x).
Definition set_k_position (v : nat) (x : cfsm) : cfsm := mkCfsm (k_index x) (k_partial x) (k_length x) v (k_write_size x) (k_cmd x) (k_var x) (k_type x) (k_char x) (k_state x) (k_cr x) (k_hold x) (k_hold_exit x) (k_wbuf x) (k_wstate x) (k_wafter x) (k_implicit x).
Definition set_k_write_size (v : nat) (x : cfsm) : cfsm := mkCfsm (k_index x) (k_partial x) (k_length x) (k_position x) v (k_cmd x) (k_var x) (k_type x) (k_char x) (k_state x) (k_cr x) (k_hold x) (k_hold_exit x) (k_wbuf x) (k_wstate x) (k_wafter x) (k_implicit x).
Definition set_k_cmd (v : option nat) (x : cfsm) : cfsm := mkCfsm (k_index x) (k_partial x) (k_length x) (k_position x) (k_write_size x) v (k_var x) (k_type x) (k_char x) (k_state x) (k_cr x) (k_hold x) (k_hold_exit x) (k_wbuf x) (k_wstate x) (k_wafter x) (k_implicit x).
Definition set_k_var (v : nat) (x : cfsm) : cfsm := mkCfsm (k_index x) (k_partial x) (k_length x) (k_position x) (k_write_size x) (k_cmd x) v (k_type x) (k_char x) (k_state x) (k_cr x) (k_hold x) (k_hold_exit x) (k_wbuf x) (k_wstate x) (k_wafter x) (k_implicit x).
Definition set_k_type (v : ctype) (x : cfsm) : cfsm := mkCfsm (k_index x) (k_partial x) (k_length x) (k_position x) (k_write_size x) (k_cmd x) (k_var x) v (k_char x) (k_state x) (k_cr x) (k_hold x) (k_hold_exit x) (k_wbuf x) (k_wstate x) (k_wafter x) (k_implicit x).
Definition set_k_char (v : N) (x : cfsm) : cfsm := mkCfsm (k_index x) (k_partial x) (k_length x) (k_position x) (k_write_size x) (k_cmd x) (k_var x) (k_type x) v (k_state x) (k_cr x) (k_hold x) (k_hold_exit x) (k_wbuf x) (k_wstate x) (k_wafter x) (k_implicit x).
Definition set_k_state (v : cstate) (x : cfsm) : cfsm := mkCfsm (k_index x) (k_partial x) (k_length x) (k_position x) (k_write_size x) (k_cmd x) (k_var x) (k_type x) (k_char x) v (k_cr x) (k_hold x) (k_hold_exit x) (k_wbuf x) (k_wstate x) (k_wafter x) (k_implicit x).
Definition set_k_cr (v : bool) (x : cfsm) : cfsm := mkCfsm (k_index x) (k_partial x) (k_length x) (k_position x) (k_write_size x) (k_cmd x) (k_var x) (k_type x) (k_char x) (k_state x) v (k_hold x) (k_hold_exit x) (k_wbuf x) (k_wstate x) (k_wafter x) (k_implicit x).
Definition set_k_hold (v : bool) (x : cfsm) : cfsm := mkCfsm (k_index x) (k_partial x) (k_length x) (k_position x) (k_write_size x) (k_cmd x) (k_var x) (k_type x) (k_char x) (k_state x) (k_cr x) v (k_hold_exit x) (k_wbuf x) (k_wstate x) (k_wafter x) (k_implicit x).
Definition set_k_hold_exit (v : Z) (x : cfsm) : cfsm := mkCfsm (k_index x) (k_partial x) (k_length x) (k_position x) (k_write_size x) (k_cmd x) (k_var x) (k_type x) (k_char x) (k_state x) (k_cr x) (k_hold x) v (k_wbuf x) (k_wstate x) (k_wafter x) (k_implicit x).
Definition set_k_wbuf (v : wbuf) (x : cfsm) : cfsm := mkCfsm (k_index x) (k_partial x) (k_length x) (k_position x) (k_write_size x) (k_cmd x) (k_var x) (k_type x) (k_char x) (k_state x) (k_cr x) (k_hold x) (k_hold_exit x) v (k_wstate x) (k_wafter x) (k_implicit x).
Definition set_k_wstate (v : wstate) (x : cfsm) : cfsm := mkCfsm (k_index x) (k_partial x) (k_length x) (k_position x) (k_write_size x) (k_cmd x) (k_var x) (k_type x) (k_char x) (k_state x) (k_cr x) (k_hold x) (k_hold_exit x) (k_wbuf x) v (k_wafter x) (k_implicit x).
Definition set_k_wafter (v : cstate) (x : cfsm) : cfsm := mkCfsm (k_index x) (k_partial x) (k_length x) (k_position x) (k_write_size x) (k_cmd x) (k_var x) (k_type x) (k_char x) (k_state x) (k_cr x) (k_hold x) (k_hold_exit x) (k_wbuf x) (k_wstate x) v (k_implicit x).
Definition set_k_implicit (v : bool) (x : cfsm) : cfsm := mkCfsm (k_index x) (k_partial x) (k_length x) (k_position x) (k_write_size x) (k_cmd x) (k_var x) (k_type x) (k_char x) (k_state x) (k_cr x) (k_hold x) (k_hold_exit x) (k_wbuf x) (k_wstate x) (k_wafter x) v.

Record ufsm := mkUfsm {
  u_state : ustate;
  u_index : nat;
  u_position : nat;
  u_cmd : option nat;
  u_var : nat;
  u_type : ctype;
  u_wbuf : wbuf;
  u_wstate : wstate;
  u_wafter : ustate;
  u_ring : list (nat * ctype);
  u_tail : nat;
  u_head : nat;
  u_count : nat
}.

Definition set_u_state (v : ustate) (x : ufsm) : ufsm := mkUfsm v (u_index x) (u_position x) (u_cmd x) (u_var x) (u_type x) (u_wbuf x) (u_wstate x) (u_wafter x) (u_ring x) (u_tail x) (u_head x) (u_count x).
Definition set_u_index (v : nat) (x : ufsm) : ufsm := mkUfsm (u_state x) v (u_position x) (u_cmd x) (u_var x) (u_type x) (u_wbuf x) (u_wstate x) (u_wafter x) (u_ring x) (u_tail x) (u_head x) (u_count x).
Definition set_u_position (v : nat) (x : ufsm) : ufsm := mkUfsm (u_state x) (u_index x) v (u_cmd x) (u_var x) (u_type x) (u_wbuf x) (u_wstate x) (u_wafter x) (u_ring x) (u_tail x) (u_head x) (u_count x).
Definition set_u_cmd (v : option nat) (x : ufsm) : ufsm := mkUfsm (u_state x) (u_index x) (u_position x) v (u_var x) (u_type x) (u_wbuf x) (u_wstate x) (u_wafter x) (u_ring x) (u_tail x) (u_head x) (u_count x).
Definition set_u_var (v : nat) (x : ufsm) : ufsm := mkUfsm (u_state x) (u_index x) (u_position x) (u_cmd x) v (u_type x) (u_wbuf x) (u_wstate x) (u_wafter x) (u_ring x) (u_tail x) (u_head x) (u_count x).
Definition set_u_type (v : ctype) (x : ufsm) : ufsm := mkUfsm (u_state x) (u_index x) (u_position x) (u_cmd x) (u_var x) v (u_wbuf x) (u_wstate x) (u_wafter x) (u_ring x) (u_tail x) (u_head x) (u_count x).
Definition set_u_wbuf (v : wbuf) (x : ufsm) : ufsm := mkUfsm (u_state x) (u_index x) (u_position x) (u_cmd x) (u_var x) (u_type x) v (u_wstate x) (u_wafter x) (u_ring x) (u_tail x) (u_head x) (u_count x).
Definition set_u_wstate (v : wstate) (x : ufsm) : ufsm := mkUfsm (u_state x) (u_index x) (u_position x) (u_cmd x) (u_var x) (u_type x) (u_wbuf x) v (u_wafter x) (u_ring x) (u_tail x) (u_head x) (u_count x).
Definition set_u_wafter (v : ustate) (x : ufsm) : ufsm := mkUfsm (u_state x) (u_index x) (u_position x) (u_cmd x) (u_var x) (u_type x) (u_wbuf x) (u_wstate x) v (u_ring x) (u_tail x) (u_head x) (u_count x).
Definition set_u_ring (v : list (nat * ctype)) (x : ufsm) : ufsm := mkUfsm (u_state x) (u_index x) (u_position x) (u_cmd x) (u_var x) (u_type x) (u_wbuf x) (u_wstate x) (u_wafter x) v (u_tail x) (u_head x) (u_count x).
Definition set_u_tail (v : nat) (x : ufsm) : ufsm := mkUfsm (u_state x) (u_index x) (u_position x) (u_cmd x) (u_var x) (u_type x) (u_wbuf x) (u_wstate x) (u_wafter x) (u_ring x) v (u_head x) (u_count x).
Definition set_u_head (v : nat) (x : ufsm) : ufsm := mkUfsm (u_state x) (u_index x) (u_position x) (u_cmd x) (u_var x) (u_type x) (u_wbuf x) (u_wstate x) (u_wafter x) (u_ring x) (u_tail x) v (u_count x).
Definition set_u_count (v : nat) (x : ufsm) : ufsm := mkUfsm (u_state x) (u_index x) (u_position x) (u_cmd x) (u_var x) (u_type x) (u_wbuf x) (u_wstate x) (u_wafter x) (u_ring x) (u_tail x) (u_head x) v.

Record state := mkState {
  k : cfsm;
  u : ufsm;
  cbuf : list N;
  ubuf : list N;
  mem : list (list N);
  dis_cmd : list bool;
  dis_grp : list bool;
  fault : bool;
  gL : nat;
  gS : nat;
  gR : nat
}.

Definition set_k (v : cfsm) (x : state) : state := mkState v (u x) (cbuf x) (ubuf x) (mem x) (dis_cmd x) (dis_grp x) (fault x) (gL x) (gS x) (gR x).
Definition set_u (v : ufsm) (x : state) : state := mkState (k x) v (cbuf x) (ubuf x) (mem x) (dis_cmd x) (dis_grp x) (fault x) (gL x) (gS x) (gR x).
Definition set_cbuf (v : list N) (x : state) : state := mkState (k x) (u x) v (ubuf x) (mem x) (dis_cmd x) (dis_grp x) (fault x) (gL x) (gS x) (gR x).
Definition set_ubuf (v : list N) (x : state) : state := mkState (k x) (u x) (cbuf x) v (mem x) (dis_cmd x) (dis_grp x) (fault x) (gL x) (gS x) (gR x).
Definition set_mem (v : list (list N)) (x : state) : state := mkState (k x) (u x) (cbuf x) (ubuf x) v (dis_cmd x) (dis_grp x) (fault x) (gL x) (gS x) (gR x).
Definition set_dis_cmd (v : list bool) (x : state) : state := mkState (k x) (u x) (cbuf x) (ubuf x) (mem x) v (dis_grp x) (fault x) (gL x) (gS x) (gR x).
Definition set_dis_grp (v : list bool) (x : state) : state := mkState (k x) (u x) (cbuf x) (ubuf x) (mem x) (dis_cmd x) v (fault x) (gL x) (gS x) (gR x).
Definition set_fault (v : bool) (x : state) : state := mkState (k x) (u x) (cbuf x) (ubuf x) (mem x) (dis_cmd x) (dis_grp x) v (gL x) (gS x) (gR x).
Definition set_gL (v : nat) (x : state) : state := mkState (k x) (u x) (cbuf x) (ubuf x) (mem x) (dis_cmd x) (dis_grp x) (fault x) v (gS x) (gR x).
Definition set_gS (v : nat) (x : state) : state := mkState (k x) (u x) (cbuf x) (ubuf x) (mem x) (dis_cmd x) (dis_grp x) (fault x) (gL x) v (gR x).
Definition set_gR (v : nat) (x : state) : state := mkState (k x) (u x) (cbuf x) (ubuf x) (mem x) (dis_cmd x) (dis_grp x) (fault x) (gL x) (gS x) v.

Definition setk_index (v : nat) (s : state) : state := set_k (set_k_index v (k s)) s.
Definition setk_partial (v : nat) (s : state) : state := set_k (set_k_partial v (k s)) s.
Definition setk_length (v : nat) (s : state) : state := set_k (set_k_length v (k s)) s.
Definition setk_position (v : nat) (s : state) : state := set_k (set_k_position v (k s)) s.
Definition setk_write_size (v : nat) (s : state) : state := set_k (set_k_write_size v (k s)) s.
Definition setk_cmd (v : option nat) (s : state) : state := set_k (set_k_cmd v (k s)) s.
Definition setk_var (v : nat) (s : state) : state := set_k (set_k_var v (k s)) s.
Definition setk_type (v : ctype) (s : state) : state := set_k (set_k_type v (k s)) s.
Definition setk_char (v : N) (s : state) : state := set_k (set_k_char v (k s)) s.
Definition setk_state (v : cstate) (s : state) : state := set_k (set_k_state v (k s)) s.
Definition setk_cr (v : bool) (s : state) : state := set_k (set_k_cr v (k s)) s.
Definition setk_hold (v : bool) (s : state) : state := set_k (set_k_hold v (k s)) s.
Definition setk_hold_exit (v : Z) (s : state) : state := set_k (set_k_hold_exit v (k s)) s.
Definition setk_wbuf (v : wbuf) (s : state) : state := set_k (set_k_wbuf v (k s)) s.
Definition setk_wstate (v : wstate) (s : state) : state := set_k (set_k_wstate v (k s)) s.
Definition setk_wafter (v : cstate) (s : state) : state := set_k (set_k_wafter v (k s)) s.
Definition setk_implicit (v : bool) (s : state) : state := set_k (set_k_implicit v (k s)) s.
Definition setu_state (v : ustate) (s : state) : state := set_u (set_u_state v (u s)) s.
Definition setu_index (v : nat) (s : state) : state := set_u (set_u_index v (u s)) s.
Definition setu_position (v : nat) (s : state) : state := set_u (set_u_position v (u s)) s.
Definition setu_cmd (v : option nat) (s : state) : state := set_u (set_u_cmd v (u s)) s.
Definition setu_var (v : nat) (s : state) : state := set_u (set_u_var v (u s)) s.
Definition setu_type (v : ctype) (s : state) : state := set_u (set_u_type v (u s)) s.
Definition setu_wbuf (v : wbuf) (s : state) : state := set_u (set_u_wbuf v (u s)) s.
Definition setu_wstate (v : wstate) (s : state) : state := set_u (set_u_wstate v (u s)) s.
Definition setu_wafter (v : ustate) (s : state) : state := set_u (set_u_wafter v (u s)) s.
Definition setu_ring (v : list (nat * ctype)) (s : state) : state := set_u (set_u_ring v (u s)) s.
Definition setu_tail (v : nat) (s : state) : state := set_u (set_u_tail v (u s)) s.
Definition setu_head (v : nat) (s : state) : state := set_u (set_u_head v (u s)) s.
Definition setu_count (v : nat) (s : state) : state := set_u (set_u_count v (u s)) s.

(* per-machine generic accessors (the *_by_fsm helpers of cat.c) *)
Definition g_pos (f : fsm) (s : state) : nat :=
  match f with ATCMD => k_position (k s) | UNSOL => u_position (u s) end.
Definition setg_pos (f : fsm) (v : nat) (s : state) : state :=
  match f with ATCMD => setk_position v s | UNSOL => setu_position v s end.
Definition g_buf (f : fsm) (s : state) : list N :=
  match f with ATCMD => cbuf s | UNSOL => ubuf s end.
Definition setg_buf (f : fsm) (v : list N) (s : state) : state :=
  match f with ATCMD => set_cbuf v s | UNSOL => set_ubuf v s end.
Definition g_cmd (f : fsm) (s : state) : option nat :=
  match f with ATCMD => k_cmd (k s) | UNSOL => u_cmd (u s) end.
Definition g_var (f : fsm) (s : state) : nat :=
  match f with ATCMD => k_var (k s) | UNSOL => u_var (u s) end.
Definition setg_var (f : fsm) (v : nat) (s : state) : state :=
  match f with ATCMD => setk_var v s | UNSOL => setu_var v s end.
Definition g_index (f : fsm) (s : state) : nat :=
  match f with ATCMD => k_index (k s) | UNSOL => u_index (u s) end.
Definition setg_index (f : fsm) (v : nat) (s : state) : state :=
  match f with ATCMD => setk_index v s | UNSOL => setu_index v s end.
(* capacity of the machine's buffer: get_atcmd_buf_size / get_unsolicited_buf_size *)
Definition g_bsz (f : fsm) (s : state) : nat := length (g_buf f s).
Definition asz (s : state) : nat := length (cbuf s).
Definition usz (s : state) : nat := length (ubuf s).

Definition set_fault_flag (s : state) : state := set_fault true s.
