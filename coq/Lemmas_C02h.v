(* Lemmas_C02h.v — property C02 at history level: for ARBITRARY oracles and schedules (refused reads
   between the bytes of a name, refused writes, events interleaved, mutex failures, API calls in
   between) and every history from cat_init in the supported domain, the command selected when the
   command machine enters CS_COMMAND_FOUND is Spec.resolve of the name typed on the CURRENT line (a
   pure function of the bytes io_read delivered so far), and the request type is the one the suffix
   announces; the search is left with "not found" only when resolve is None.
     part A  the line in progress and its phases (pure functions of the consumed bytes)
     part B  the invariant on the object state, one step of every line-reading state
     part C  one command-machine step, one operation (skeleton for the other states)
     part D  histories in the supported domain: the positive half, CS_COMMAND_NOT_FOUND
     part E  the step that leaves the search, composition with C02_calls_selected
     part F  the request type between CS_COMMAND_FOUND and the callback (WRITE may become TEST)
     part G  the typed name, declaratively
   The enable flags are read per character (get_cmd_state), so the history theorems take C09's
   flags_between_lines.  Statements: Properties_C02h.v. *)
From Coq Require Import List NArith ZArith Bool Arith Lia.
From CatV Require Import Bytes Defs Codec Spec Fsm ResolveDefs Skel SkelInv SkelSim EvSkel EvSkelSim
  Lemmas_Ctl Lemmas_C03 Lemmas_Domain.
From CatV Require Lemmas_C02 Lemmas_C01s Lemmas_C11 Lemmas_C09 Lemmas_Calls.
Import ListNotations.
Local Open Scope nat_scope.

(* ================================================================== *)
(* A. the line in progress                                              *)
(* ================================================================== *)

Definition ends_lf (l : list N) : bool :=
  match rev l with c :: _ => (c =? ch_LF)%N | [] => false end.

(* the line in progress: it restarts with the first byte consumed after a line feed, and keeps its
   terminating line feed as long as nothing newer has been consumed *)
Definition cur_line (bs : list N) : list N :=
  fold_left (fun acc c => if ends_lf acc then [c] else acc ++ [c]) bs [].

(* the phases of a line, as the reader sees them *)
Inductive lphase :=
  | LBlank                               (* only CR so far *)
  | LA                                   (* 'A' seen *)
  | LName (t : list N)                   (* "AT" seen; t = the name characters so far, upper-cased *)
  | LQm (t : list N)                     (* name, then '?' *)
  | LEnd (t : list N) (ty : ctype)       (* name and suffix complete *)
  | LNoCmd.                              (* anything else: no command on this line *)

Definition lstep (p : lphase) (c : N) : lphase :=
  let u := to_upper c in
  match p with
  | LBlank => if (u =? ch_A)%N then LA else if (u =? ch_CR)%N then LBlank else LNoCmd
  | LA => if (u =? ch_T)%N then LName [] else if (u =? ch_CR)%N then LA else LNoCmd
  | LName t =>
      if (u =? ch_LF)%N then match t with [] => LNoCmd | _ => LEnd t T_RUN end
      else if (u =? ch_CR)%N then LName t
      else if (u =? ch_QM)%N then match t with [] => LNoCmd | _ => LQm t end
      else if (u =? ch_EQ)%N then match t with [] => LNoCmd | _ => LEnd t T_WRITE end
      else if is_name_char u then LName (t ++ [u])
      else LNoCmd
  | LQm t => if (u =? ch_LF)%N then LEnd t T_READ else if (u =? ch_CR)%N then LQm t else LNoCmd
  | LEnd t ty => LEnd t ty
  | LNoCmd => LNoCmd
  end.

Definition scan (l : list N) : lphase := fold_left lstep l LBlank.

(* the name typed on the line, and the request type its suffix announces; a line that so far
   consists of "AT" and name characters only announces the implicit write *)
Definition typed_of (l : list N) : list N :=
  match scan l with LName t | LQm t | LEnd t _ => t | _ => [] end.
Definition type_of (l : list N) : ctype :=
  match scan l with LEnd _ ty => ty | LName _ => T_WRITE | LQm _ => T_READ | _ => T_NONE end.

Lemma ends_lf_snoc : forall l c, ends_lf (l ++ [c]) = (c =? ch_LF)%N.
Proof. intros l c. unfold ends_lf. rewrite rev_unit. reflexivity. Qed.

Lemma cur_line_snoc : forall bs c,
  cur_line (bs ++ [c]) = if ends_lf (cur_line bs) then [c] else cur_line bs ++ [c].
Proof. intros bs c. unfold cur_line. rewrite fold_left_app. reflexivity. Qed.

Lemma scan_snoc : forall l c, scan (l ++ [c]) = lstep (scan l) c.
Proof. intros l c. unfold scan. rewrite fold_left_app. reflexivity. Qed.

Lemma scan_one : forall c, scan [c] = lstep LBlank c.
Proof. reflexivity. Qed.

Definition open_phase (p : lphase) : bool :=
  match p with LBlank | LA | LName _ | LQm _ => true | _ => false end.

Lemma lstep_lf_closed : forall p, open_phase (lstep p ch_LF) = false.
Proof.
  intros p. unfold lstep. change (to_upper ch_LF) with ch_LF. destruct p as [| |t|t|t ty|]; cbn; try reflexivity.
  destruct t; reflexivity.
Qed.

Lemma open_not_lf : forall l, open_phase (scan l) = true -> ends_lf l = false.
Proof.
  intros l. destruct l as [|a l'] using rev_ind; [reflexivity|]. clear IHl'.
  rewrite scan_snoc, ends_lf_snoc. intros H.
  destruct (N.eqb_spec a ch_LF) as [->|]; [|reflexivity].
  rewrite lstep_lf_closed in H. discriminate.
Qed.

(* the line after one more byte, in a phase that cannot follow a line feed *)
Lemma cur_line_open : forall bs c, open_phase (scan (cur_line bs)) = true ->
  cur_line (bs ++ [c]) = cur_line bs ++ [c].
Proof. intros bs c H. rewrite cur_line_snoc, (open_not_lf _ H). reflexivity. Qed.

(* the link to the flag `seen` of Lemmas_C01s: no byte other than CR since the last line feed *)
Lemma blank_of_seen : forall bs, Lemmas_C01s.seen_after false bs = false ->
  ends_lf (cur_line bs) = true \/ scan (cur_line bs) = LBlank.
Proof.
  intros bs. induction bs as [|c bs IH] using rev_ind; intros H.
  - right. reflexivity.
  - rewrite Lemmas_C01s.seen_after_app in H. cbn [Lemmas_C01s.seen_after] in H.
    rewrite cur_line_snoc.
    destruct (N.eqb_spec c ch_LF) as [->|NE].
    + left. destruct (ends_lf (cur_line bs)); [reflexivity | apply ends_lf_snoc].
    + apply orb_false_iff in H. destruct H as [H1 H2]. apply negb_false_iff in H2.
      apply N.eqb_eq in H2. subst c. right.
      destruct (IH H1) as [E|E].
      * rewrite E. reflexivity.
      * assert (O : open_phase (scan (cur_line bs)) = true) by (rewrite E; reflexivity).
        rewrite (open_not_lf _ O), scan_snoc, E. reflexivity.
Qed.

(* in the idle state: whatever the line was, after one more byte its phase is the first step *)
Lemma scan_idle_next : forall bs c, Lemmas_C01s.seen_after false bs = false ->
  scan (cur_line (bs ++ [c])) = lstep LBlank c.
Proof.
  intros bs c H. rewrite cur_line_snoc. destruct (blank_of_seen bs H) as [E|E].
  - rewrite E. reflexivity.
  - assert (O : open_phase (scan (cur_line bs)) = true) by (rewrite E; reflexivity).
    rewrite (open_not_lf _ O), scan_snoc, E. reflexivity.
Qed.

Lemma to_upper_idem_cases : forall c, to_upper (to_upper c) = to_upper c.
Proof.
  intros c. unfold to_upper at 2 3.
  destruct ((97 <=? c) && (c <=? 122))%N eqn:E; [|unfold to_upper; rewrite E; reflexivity].
  apply andb_prop in E. destruct E as [E1 E2]. apply N.leb_le in E1. apply N.leb_le in E2.
  unfold to_upper.
  destruct ((97 <=? c - 32) && (c - 32 <=? 122))%N eqn:E3; [|reflexivity].
  apply andb_prop in E3. destruct E3 as [E3 _]. apply N.leb_le in E3. lia.
Qed.

(* ================================================================== *)
(* B. the invariant on the object state                                 *)
(* ================================================================== *)
From Coq Require Import ZifyBool ZifyNat ZifyN.
Ltac Zify.zify_post_hook ::= Z.div_mod_to_equations.

(* the states in which the invariant says something *)
Definition front (x : cstate) : bool :=
  match x with
  | CS_PARSE_PREFIX | CS_PARSE_COMMAND_CHAR | CS_UPDATE_COMMAND_STATE | CS_WAIT_READ_ACK
  | CS_SEARCH_COMMAND | CS_COMMAND_FOUND | CS_COMMAND_NOT_FOUND => true
  | _ => false
  end.

Lemma find_full_app : forall t e a b i,
  find_full t e (a ++ b) i =
  match find_full t e a i with Some j => Some j | None => find_full t e b (i + length a) end.
Proof.
  intros t e a. induction a as [|x a IH]; intros b i; cbn [app find_full length].
  - rewrite Nat.add_0_r. reflexivity.
  - destruct (e i && list_eqb (upper (c_name x)) t); [reflexivity|].
    rewrite IH. replace (S i + length a) with (i + S (length a)) by lia. reflexivity.
Qed.

Lemma pp_app : forall t e a b i,
  proper_prefix_of t e (a ++ b) i = proper_prefix_of t e a i ++ proper_prefix_of t e b (i + length a).
Proof.
  intros t e a. induction a as [|x a IH]; intros b i; cbn [app proper_prefix_of length].
  - rewrite Nat.add_0_r. reflexivity.
  - rewrite IH, <- app_assoc. replace (S i + length a) with (i + S (length a)) by lia. reflexivity.
Qed.

Section StateInv.
Variable D : desc.
Local Notation n := (ncmds D).
Hypothesis Hn : 0 < n.
Hypothesis HnL : n <= 4 * asz_of D.

(* a reference state carrying only the enable flags and the buffer size (Lemmas_C02 is stated
   relative to such a state) *)
Definition Rf (dc dg : list bool) : state :=
  mkState init_cfsm (init_ufsm D) (repeat 0%N (asz_of D)) [] [] dc dg false 0 0 0.
Definition R (s : state) : state := Rf (dis_cmd s) (dis_grp s).

Lemma R_len : forall s, length (cbuf (R s)) = asz_of D.
Proof. intros s. apply repeat_length. Qed.
Lemma HnR : forall s, n <= 4 * length (cbuf (R s)).
Proof. intros s. rewrite R_len. exact HnL. Qed.
Lemma R_eq : forall s s', dis_cmd s' = dis_cmd s -> dis_grp s' = dis_grp s -> R s' = R s.
Proof. intros s s' E1 E2. unfold R. rewrite E1, E2. reflexivity. Qed.
Lemma en_R : forall s i, enabled D (R s) i = enabled D s i.
Proof. reflexivity. Qed.

Local Notation Good s t := (Lemmas_C02.Good D (R s) t s).
Local Notation SW s t ch idx := (Lemmas_C02.SW D (R s) t ch idx s).
Local Notation lanes s f := (Lemmas_C02.lanes D (R s) (cbuf s) f).

(* the search sweep has dealt with the commands pre; P = the proper-prefix matches among them *)
Definition SRCH (t : list N) (s : state) : Prop :=
  fault s = false /\ lanes s (fun _ c => lane_spec t c) /\
  exists pre rest, cmds D = pre ++ rest /\ rest <> [] /\ k_index (k s) = length pre /\
    find_full t (enabled D (R s)) pre 0 = None /\
    k_partial (k s) = length (proper_prefix_of t (enabled D (R s)) pre 0) /\
    Lemmas_C02.Ccond (proper_prefix_of t (enabled D (R s)) pre 0) (k_cmd (k s)).

Definition Qat (x : cstate) (s : state) (l : list N) : Prop :=
  match x with
  | CS_PARSE_PREFIX => scan l = LA
  | CS_PARSE_COMMAND_CHAR => exists t, scan l = LName t /\ Good s t /\ k_type (k s) = T_RUN
  | CS_UPDATE_COMMAND_STATE =>
      exists t' ch, scan l = LName (t' ++ [ch]) /\ SW s t' ch (k_index (k s)) /\
                    k_index (k s) < n /\ k_type (k s) = T_RUN
  | CS_WAIT_READ_ACK => exists t, scan l = LQm t /\ t <> [] /\ Good s t /\ k_type (k s) = T_READ
  | CS_SEARCH_COMMAND =>
      exists t, t <> [] /\ typed_of l = t /\ type_of l = k_type (k s) /\ SRCH t s
  | CS_COMMAND_FOUND =>
      k_cmd (k s) = resolve (typed_of l) (enabled D s) (cmds D) /\ k_cmd (k s) <> None /\
      k_type (k s) = type_of l
  | CS_COMMAND_NOT_FOUND => resolve (typed_of l) (enabled D s) (cmds D) = None
  | _ => True
  end.
Definition Q0 (s : state) (l : list N) : Prop := Qat (k_state (k s)) s l.

Lemma Q0_at : forall s l x, k_state (k s) = x -> Qat x s l -> Q0 s l.
Proof. intros s l x <- H. exact H. Qed.
Lemma Q0_trivial : forall s l, front (k_state (k s)) = false -> Q0 s l.
Proof. intros s l H. unfold Q0. destruct (k_state (k s)); try discriminate H; exact I. Qed.

(* ---- the invariant only looks at these fields ---- *)
Definition eqk (s s' : state) : Prop :=
  cbuf s' = cbuf s /\ dis_cmd s' = dis_cmd s /\ dis_grp s' = dis_grp s /\
  k_index (k s') = k_index (k s) /\ k_partial (k s') = k_partial (k s) /\
  k_length (k s') = k_length (k s) /\ k_cmd (k s') = k_cmd (k s) /\ k_type (k s') = k_type (k s) /\
  k_state (k s') = k_state (k s) /\ k_implicit (k s') = k_implicit (k s).

Lemma eqk_refl : forall s, eqk s s.
Proof. intros s. unfold eqk. auto 12. Qed.

Lemma Good_same' : forall t s s', cbuf s' = cbuf s -> dis_cmd s' = dis_cmd s -> dis_grp s' = dis_grp s ->
  k_index (k s') = k_index (k s) -> k_length (k s') = k_length (k s) ->
  k_implicit (k s') = k_implicit (k s) -> fault s' = false -> Good s t -> Good s' t.
Proof.
  intros t s s' E1 E2 E3 E4 E6 E10 F (_ & H2 & H3 & H4 & H5 & H6 & H7 & H8).
  rewrite (R_eq s s' E2 E3). unfold Lemmas_C02.Good, Lemmas_C02.samedis. rewrite E1, E2, E3, E4, E6, E10.
  split; [exact F|]. split; [exact H2|]. split; [exact H3|]. split; [exact H4|].
  split; [exact H5|]. split; [exact H6|]. split; [exact H7|exact H8].
Qed.

Lemma Good_same : forall t s s', eqk s s' -> fault s' = false -> Good s t -> Good s' t.
Proof.
  intros t s s' (E1 & E2 & E3 & E4 & E5 & E6 & E7 & E8 & E9 & E10). apply Good_same'; assumption.
Qed.

Lemma SW_same : forall t ch idx s s', eqk s s' -> k_char (k s') = k_char (k s) -> fault s' = false ->
  SW s t ch idx -> SW s' t ch idx.
Proof.
  intros t ch idx s s' (E1 & E2 & E3 & E4 & E5 & E6 & E7 & E8 & E9 & E10) EC F
    (_ & H2 & H3 & H4 & H5 & H6 & H7 & H8).
  rewrite (R_eq s s' E2 E3). unfold Lemmas_C02.SW, Lemmas_C02.samedis. rewrite E1, E2, E3, E6, E10, EC.
  split; [exact F|]. split; [exact H2|]. split; [exact H3|]. split; [exact H4|].
  split; [exact H5|]. split; [exact H6|]. split; [exact H7|exact H8].
Qed.

Lemma SRCH_same' : forall t s s', cbuf s' = cbuf s -> dis_cmd s' = dis_cmd s -> dis_grp s' = dis_grp s ->
  k_index (k s') = k_index (k s) -> k_partial (k s') = k_partial (k s) -> k_cmd (k s') = k_cmd (k s) ->
  fault s' = false -> SRCH t s -> SRCH t s'.
Proof.
  intros t s s' E1 E2 E3 E4 E5 E7 F (_ & H2 & H3).
  unfold SRCH. rewrite (R_eq s s' E2 E3), E1, E4, E5, E7.
  split; [exact F|]. split; [exact H2|exact H3].
Qed.

Lemma SRCH_same : forall t s s', eqk s s' -> fault s' = false -> SRCH t s -> SRCH t s'.
Proof.
  intros t s s' (E1 & E2 & E3 & E4 & E5 & E6 & E7 & E8 & E9 & E10). apply SRCH_same'; assumption.
Qed.

Lemma Q0_same : forall s s' l, eqk s s' ->
  (k_state (k s) = CS_UPDATE_COMMAND_STATE -> k_char (k s') = k_char (k s)) ->
  fault s' = false -> Q0 s l -> Q0 s' l.
Proof.
  intros s s' l E EC F H. pose proof E as (E1 & E2 & E3 & E4 & E5 & E6 & E7 & E8 & E9 & E10).
  unfold Q0 in *. rewrite E9. destruct (k_state (k s)) eqn:Hk; cbn [Qat] in *; try exact I.
  - exact H.
  - destruct H as (t & H1 & H2 & H3). exists t. split; [exact H1|].
    split; [eapply Good_same; eassumption | congruence].
  - destruct H as (t & ch & H1 & H2 & H3 & H4). exists t, ch. split; [exact H1|].
    rewrite E4, E8. split; [|split; assumption].
    eapply SW_same; [exact E | apply EC; reflexivity | exact F | exact H2].
  - destruct H as (t & H1 & H2 & H3 & H4). exists t. split; [exact H1|]. split; [exact H2|].
    split; [eapply Good_same; eassumption | congruence].
  - destruct H as (t & H1 & H2 & H3 & H4). exists t. split; [exact H1|]. split; [exact H2|].
    split; [congruence|]. eapply SRCH_same; eassumption.
  - destruct H as (H1 & H2 & H3). rewrite E7, E8.
    replace (enabled D s') with (enabled D s); [split; [exact H1|split; assumption]|].
    unfold enabled, is_command_disable. rewrite E2, E3. reflexivity.
  - replace (enabled D s') with (enabled D s); [exact H|].
    unfold enabled, is_command_disable. rewrite E2, E3. reflexivity.
Qed.

Lemma Q0_eqk : forall s s' l, eqk s s' -> k_char (k s') = k_char (k s) -> fault s' = false ->
  Q0 s l -> Q0 s' l.
Proof. intros s s' l E EC F H. eapply Q0_same; eauto. Qed.


(* ---- the bodies of the line-reading states (Fsm.v), named ---- *)
Definition idle_body (ch : N) (s : state) : state :=
  if (ch =? ch_A)%N then setk_state CS_PARSE_PREFIX s
  else if (ch =? ch_LF)%N || (ch =? ch_CR)%N then s
  else setk_state CS_ERROR s.
Definition pp_body (ch : N) (s : state) : state :=
  if (ch =? ch_T)%N then s |> prepare_parse_command |> setk_state CS_PARSE_COMMAND_CHAR
  else if (ch =? ch_LF)%N then ack_error s
  else if (ch =? ch_CR)%N then setk_cr true s
  else setk_state CS_ERROR s.
Definition pc_body (ch : N) (s : state) : state :=
  if (ch =? ch_LF)%N then
    if negb (k_length (k s) =? 0) then s |> prepare_search_command |> setk_state CS_SEARCH_COMMAND
    else ack_ok s
  else if (ch =? ch_CR)%N then setk_cr true s
  else if (ch =? ch_QM)%N then
    if k_length (k s) =? 0 then setk_state CS_ERROR s
    else s |> setk_type T_READ |> setk_state CS_WAIT_READ_ACK
  else if (ch =? ch_EQ)%N then
    if k_length (k s) =? 0 then setk_state CS_ERROR s
    else s |> setk_type T_WRITE |> prepare_search_command |> setk_state CS_SEARCH_COMMAND
  else if is_name_char ch then
    s |> setk_length (S (k_length (k s))) |> setk_state CS_UPDATE_COMMAND_STATE
  else setk_state CS_ERROR s.
Definition wr_body (ch : N) (s : state) : state :=
  if (ch =? ch_LF)%N then s |> prepare_search_command |> setk_state CS_SEARCH_COMMAND
  else if (ch =? ch_CR)%N then setk_cr true s
  else setk_state CS_ERROR s.

Lemma cmds_ne : cmds D <> [].
Proof. intros E. unfold ncmds in Hn. rewrite E in Hn. cbn in Hn. lia. Qed.

(* ---- CS_IDLE ---- *)
Lemma idle_step : forall s1 l' c, k_state (k s1) = CS_IDLE -> scan l' = lstep LBlank c ->
  Q0 (idle_body (to_upper c) s1) l'.
Proof.
  intros s1 l' c Hk Hl. unfold idle_body.
  destruct (to_upper c =? ch_A)%N eqn:EA.
  - apply Q0_at with CS_PARSE_PREFIX; [reflexivity|]. cbn [Qat]. rewrite Hl. unfold lstep. rewrite EA. reflexivity.
  - destruct ((to_upper c =? ch_LF)%N || (to_upper c =? ch_CR)%N).
    + apply Q0_trivial. rewrite Hk. reflexivity.
    + apply Q0_trivial. reflexivity.
Qed.

(* ---- CS_PARSE_PREFIX ---- *)
Lemma Good_start : forall s, fault s = false -> k_implicit (k s) = false -> length (cbuf s) = asz_of D ->
  Good (setk_state CS_PARSE_COMMAND_CHAR (prepare_parse_command s)) [].
Proof.
  intros s F Hi HL. set (s' := setk_state CS_PARSE_COMMAND_CHAR (prepare_parse_command s)).
  unfold Lemmas_C02.Good. split; [exact F|]. split; [exact Hi|]. split; [reflexivity|]. split; [reflexivity|].
  split; [split; reflexivity|].
  change (cbuf s') with (repeat 85%N (length (cbuf s))).
  split; [rewrite repeat_length, R_len; exact HL|]. split.
  - unfold Lemmas_C02.bytes256. apply Forall_forall. intros x Hx. apply repeat_spec in Hx. subst x. reflexivity.
  - intros i c Hc _. unfold Lemmas_C02.lane_of.
    assert (Hi' : i < n) by (unfold ncmds; apply nth_error_Some; congruence).
    rewrite Lemmas_C02.nth_error_repeat' by lia.
    rewrite Lemmas_C02.lane_get_85 by (apply Nat.mod_upper_bound; lia). reflexivity.
Qed.

Lemma prefix_step : forall s1 l c, scan l = LA ->
  fault s1 = false -> k_implicit (k s1) = false -> length (cbuf s1) = asz_of D ->
  k_state (k s1) = CS_PARSE_PREFIX ->
  Q0 (pp_body (to_upper c) s1) (l ++ [c]).
Proof.
  intros s1 l c Hl F Hi HL Hk. unfold pp_body.
  destruct (to_upper c =? ch_T)%N eqn:ET.
  - apply Q0_at with CS_PARSE_COMMAND_CHAR; [reflexivity|]. cbn [Qat]. exists [].
    split; [rewrite scan_snoc, Hl; unfold lstep; rewrite ET; reflexivity|].
    split; [apply Good_start; assumption | reflexivity].
  - destruct (to_upper c =? ch_LF)%N eqn:EL; [apply Q0_trivial; reflexivity|].
    destruct (to_upper c =? ch_CR)%N eqn:EC.
    + apply Q0_at with CS_PARSE_PREFIX; [exact Hk|]. cbn [Qat].
      rewrite scan_snoc, Hl. unfold lstep. rewrite ET, EC. reflexivity.
    + apply Q0_trivial. reflexivity.
Qed.

(* ---- the start of the search sweep ---- *)
Lemma SRCH_start : forall t s, t <> [] -> Good s t ->
  SRCH t (s |> prepare_search_command |> setk_state CS_SEARCH_COMMAND).
Proof.
  intros t s Ht (F & _ & _ & _ & _ & _ & _ & HLn).
  unfold SRCH. split; [exact F|]. split.
  - apply Lemmas_C02.lanes_spec_of_st; [exact Ht | exact HLn].
  - exists [], (cmds D). split; [reflexivity|]. split; [exact cmds_ne|]. repeat split; reflexivity.
Qed.

Lemma SRCH_start_ty : forall t s ty, t <> [] -> Good s t ->
  SRCH t (s |> setk_type ty |> prepare_search_command |> setk_state CS_SEARCH_COMMAND).
Proof.
  intros t s ty Ht G.
  apply (SRCH_same' t (s |> prepare_search_command |> setk_state CS_SEARCH_COMMAND)); try reflexivity.
  - destruct G as (F & _). exact F.
  - apply SRCH_start; assumption.
Qed.

Lemma Good_len : forall s t, Good s t -> k_length (k s) = length t.
Proof. intros s t (_ & _ & H & _). exact H. Qed.

Lemma len0 : forall (t : list N), (length t =? 0) = match t with [] => true | _ => false end.
Proof. destruct t; reflexivity. Qed.

(* ---- CS_PARSE_COMMAND_CHAR ---- *)
Lemma pc_step : forall s1 l c t, scan l = LName t -> Good s1 t -> k_type (k s1) = T_RUN ->
  k_char (k s1) = to_upper c -> k_state (k s1) = CS_PARSE_COMMAND_CHAR ->
  Q0 (pc_body (to_upper c) s1) (l ++ [c]).
Proof.
  intros s1 l c t Hl G Ty Hc Hk. unfold pc_body. rewrite (Good_len _ _ G), len0.
  assert (Hs : scan (l ++ [c]) = lstep (LName t) c) by (rewrite scan_snoc, Hl; reflexivity).
  unfold lstep in Hs.
  destruct (to_upper c =? ch_LF)%N eqn:EL.
  { destruct t as [|a t]; cbn [negb]; [apply Q0_trivial; reflexivity|].
    apply Q0_at with CS_SEARCH_COMMAND; [reflexivity|]. cbn [Qat]. exists (a :: t).
    split; [discriminate|]. unfold typed_of, type_of. rewrite Hs.
    split; [reflexivity|]. split; [symmetry; exact Ty|]. apply SRCH_start; [discriminate | exact G]. }
  destruct (to_upper c =? ch_CR)%N eqn:EC.
  { apply Q0_at with CS_PARSE_COMMAND_CHAR; [exact Hk|]. cbn [Qat]. exists t.
    split; [exact Hs|]. split; [|exact Ty].
    eapply Good_same'; [| | | | | | | exact G]; try reflexivity; destruct G as (F & _); exact F. }
  destruct (to_upper c =? ch_QM)%N eqn:EQ.
  { destruct t as [|a t]; [apply Q0_trivial; reflexivity|].
    apply Q0_at with CS_WAIT_READ_ACK; [reflexivity|]. cbn [Qat]. exists (a :: t).
    split; [exact Hs|]. split; [discriminate|]. split; [|reflexivity].
    eapply Good_same'; [| | | | | | | exact G]; try reflexivity; destruct G as (F & _); exact F. }
  destruct (to_upper c =? ch_EQ)%N eqn:EE.
  { destruct t as [|a t]; [apply Q0_trivial; reflexivity|].
    apply Q0_at with CS_SEARCH_COMMAND; [reflexivity|]. cbn [Qat]. exists (a :: t).
    split; [discriminate|]. unfold typed_of, type_of. rewrite Hs.
    split; [reflexivity|]. split; [reflexivity|]. apply SRCH_start_ty; [discriminate | exact G]. }
  destruct (is_name_char (to_upper c)) eqn:EN; [|apply Q0_trivial; reflexivity].
  apply Q0_at with CS_UPDATE_COMMAND_STATE; [reflexivity|]. cbn [Qat]. exists t, (to_upper c).
  destruct G as (F & Hi & Hlen & Hidx & Hd & HL & HB & HLn).
  set (s2 := setk_state CS_UPDATE_COMMAND_STATE (setk_length (S (length t)) s1)).
  change (k_index (k s2)) with (k_index (k s1)). rewrite Hidx. change (R s2) with (R s1).
  split; [exact Hs|]. split; [|split; [exact Hn | exact Ty]].
  unfold Lemmas_C02.SW. split; [exact F|]. split; [reflexivity|].
  split; [exact Hc|]. split; [exact Hd|]. split; [exact HL|]. split; [exact HB|]. split.
  - apply (Lemmas_C02.lanes_ext D (R s1) _ _ _ (fun i c _ _ => eq_refl) HLn).
  - change (k_implicit (k s2)) with (k_implicit (k s1)). rewrite Hi.
    split; [discriminate|]. intros (i & c0 & H & _). lia.
Qed.

(* ---- CS_WAIT_READ_ACK ---- *)
Lemma wr_step : forall s1 l c t, scan l = LQm t -> t <> [] -> Good s1 t -> k_type (k s1) = T_READ ->
  k_state (k s1) = CS_WAIT_READ_ACK ->
  Q0 (wr_body (to_upper c) s1) (l ++ [c]).
Proof.
  intros s1 l c t Hl Ht G Ty Hk. unfold wr_body.
  assert (Hs : scan (l ++ [c]) = lstep (LQm t) c) by (rewrite scan_snoc, Hl; reflexivity).
  unfold lstep in Hs.
  destruct (to_upper c =? ch_LF)%N eqn:EL.
  { apply Q0_at with CS_SEARCH_COMMAND; [reflexivity|]. cbn [Qat]. exists t.
    split; [exact Ht|]. unfold typed_of, type_of. rewrite Hs.
    split; [reflexivity|]. split; [symmetry; exact Ty|]. apply SRCH_start; assumption. }
  destruct (to_upper c =? ch_CR)%N eqn:EC; [|apply Q0_trivial; reflexivity].
  apply Q0_at with CS_WAIT_READ_ACK; [exact Hk|]. cbn [Qat]. exists t.
  split; [exact Hs|]. split; [exact Ht|]. split; [|exact Ty].
  eapply Good_same'; [| | | | | | | exact G]; try reflexivity; destruct G as (F & _); exact F.
Qed.


(* ---- CS_UPDATE_COMMAND_STATE ---- *)
Lemma upd_s1_frame : forall s c cs,
  k_state (k (Lemmas_C02.upd_s1 s c cs)) = k_state (k s) /\
  k_type (k (Lemmas_C02.upd_s1 s c cs)) = k_type (k s).
Proof. intros s c cs. unfold Lemmas_C02.upd_s1, set_cmd_state. Lemmas_C09.brk; split; reflexivity. Qed.

Lemma uc_more : forall s, S (k_index (k s)) < n ->
  k_state (k (update_command D s)) = k_state (k s) /\ k_type (k (update_command D s)) = k_type (k s).
Proof.
  intros s H. rewrite Lemmas_C02.update_command_unf.
  destruct (cmd_by_index (d_groups D) (k_index (k s))) as [c|]; [|split; reflexivity].
  destruct (get_cmd_state D s (k_index (k s))) as [cs|]; [|split; reflexivity].
  unfold Lemmas_C02.upd_fin.
  replace (n <=? S (k_index (k s))) with false by (symmetry; apply Nat.leb_gt; lia).
  exact (upd_s1_frame s c cs).
Qed.

Lemma uc_last_type : forall s, k_state (k s) = CS_UPDATE_COMMAND_STATE ->
  k_state (k (update_command D s)) = CS_PARSE_COMMAND_CHAR ->
  k_type (k (update_command D s)) = k_type (k s).
Proof.
  intros s Hk. rewrite Lemmas_C02.update_command_unf.
  destruct (cmd_by_index (d_groups D) (k_index (k s))) as [c|];
    [|intros X; change (k_state (k s) = CS_PARSE_COMMAND_CHAR) in X; congruence].
  destruct (get_cmd_state D s (k_index (k s))) as [cs|];
    [|intros X; change (k_state (k s) = CS_PARSE_COMMAND_CHAR) in X; congruence].
  destruct (upd_s1_frame s c cs) as [A B]. set (s1 := Lemmas_C02.upd_s1 s c cs) in *.
  unfold Lemmas_C02.upd_fin. destruct (n <=? S (k_index (k s))).
  - cbv zeta. destruct (negb (k_implicit (k (setk_index 0 s1)))).
    + intros _. exact B.
    + intros X. discriminate X.
  - intros X. change (k_state (k s1) = CS_PARSE_COMMAND_CHAR) in X. congruence.
Qed.

Lemma Good_R : forall s s' t, Lemmas_C02.Good D (R s) t s' -> Good s' t.
Proof.
  intros s s' t H. pose proof H as (_ & _ & _ & _ & (D1 & D2) & _).
  rewrite (R_eq s s' D1 D2). exact H.
Qed.

Lemma SRCH_of_Ready : forall s s' t, t <> [] -> Lemmas_C02.Ready D (R s) t s' -> SRCH t s'.
Proof.
  intros s s' t Ht (F & Hi & Hp & Hc & _ & (D1 & D2) & HLn).
  unfold SRCH. rewrite (R_eq s s' D1 D2). split; [exact F|]. split.
  - apply Lemmas_C02.lanes_spec_of_st; [exact Ht | exact HLn].
  - exists [], (cmds D). split; [reflexivity|]. split; [exact cmds_ne|].
    split; [exact Hi|]. split; [reflexivity|]. split; [exact Hp | exact Hc].
Qed.

Lemma update_step : forall s l t' ch, k_state (k s) = CS_UPDATE_COMMAND_STATE ->
  scan l = LName (t' ++ [ch]) -> SW s t' ch (k_index (k s)) -> k_index (k s) < n ->
  k_type (k s) = T_RUN ->
  Q0 (update_command D s) l.
Proof.
  intros s l t' ch Hk Hl HSW Hlt Ty.
  destruct (Lemmas_C02.update_core D (R s) Hn (HnR s) t' ch s (k_index (k s)) HSW eq_refl Hlt)
    as (s1 & E & H1).
  assert (Hd : dis_cmd s1 = dis_cmd s /\ dis_grp s1 = dis_grp s).
  { destruct H1 as (_ & _ & _ & Hd & _). exact Hd. }
  destruct (Nat.lt_ge_cases (S (k_index (k s))) n) as [Hm|Hm].
  - destruct (uc_more s Hm) as [Ks Kt].
    assert (E' : update_command D s = setk_index (S (k_index (k s))) s1).
    { rewrite E. unfold Lemmas_C02.upd_fin.
      replace (n <=? S (k_index (k s))) with false by (symmetry; apply Nat.leb_gt; lia). reflexivity. }
    apply Q0_at with CS_UPDATE_COMMAND_STATE; [rewrite Ks; exact Hk|]. cbn [Qat]. exists t', ch.
    split; [exact Hl|]. rewrite Kt. rewrite E'.
    replace (k_index (k (setk_index (S (k_index (k s))) s1))) with (S (k_index (k s))) by reflexivity.
    rewrite (R_eq s (setk_index (S (k_index (k s))) s1) (proj1 Hd) (proj2 Hd)).
    split; [apply Lemmas_C02.SW_setk_index; exact H1 | split; [exact Hm | exact Ty]].
  - assert (En : S (k_index (k s)) = n) by lia.
    assert (E' : update_command D s = Lemmas_C02.upd_fin D s1 (n - 1)).
    { rewrite E. f_equal. lia. }
    rewrite En in H1.
    destruct (k_implicit (k s1)) eqn:Hi.
    + destruct (Lemmas_C02.after_sweep_implicit D (R s) Hn (HnR s) t' ch s1 H1 Hi) as (Rd & T & _ & _).
      rewrite <- E' in Rd, T.
      assert (Ht : t' ++ [ch] <> []) by (intros X; apply app_eq_nil in X; destruct X; discriminate).
      apply Q0_at with CS_SEARCH_COMMAND; [destruct Rd as (_ & _ & _ & _ & X & _); exact X|].
      cbn [Qat]. exists (t' ++ [ch]). split; [exact Ht|]. unfold typed_of, type_of. rewrite Hl.
      split; [reflexivity|]. split; [symmetry; exact T|].
      eapply SRCH_of_Ready; [exact Ht | exact Rd].
    + destruct (Lemmas_C02.after_sweep_plain D (R s) Hn (HnR s) t' ch s1 H1 Hi) as (G & X).
      rewrite <- E' in G, X.
      apply Q0_at with CS_PARSE_COMMAND_CHAR; [exact X|]. cbn [Qat]. exists (t' ++ [ch]).
      split; [exact Hl|]. split; [eapply Good_R; exact G|].
      rewrite (uc_last_type s Hk X). exact Ty.
Qed.

(* ---- CS_SEARCH_COMMAND ---- *)
Lemma search_frame : forall s,
  cbuf (search_command D s) = cbuf s /\ dis_cmd (search_command D s) = dis_cmd s /\
  dis_grp (search_command D s) = dis_grp s /\ k_type (k (search_command D s)) = k_type (k s).
Proof. intros s. unfold search_command. Lemmas_C09.brk; repeat split; reflexivity. Qed.

Lemma search_step : forall t s, t <> [] -> SRCH t s -> k_state (k s) = CS_SEARCH_COMMAND ->
  let s' := search_command D s in
  (k_state (k s') = CS_SEARCH_COMMAND /\ SRCH t s') \/
  (k_state (k s') = CS_COMMAND_FOUND /\
   k_cmd (k s') = resolve t (enabled D (R s)) (cmds D) /\ k_cmd (k s') <> None) \/
  (k_state (k s') = Lemmas_C02.NFs (k_char (k s)) /\ resolve t (enabled D (R s)) (cmds D) = None).
Proof.
  intros t s Ht (F & HL & pre & rest & Hcm & Hne & Hidx & Hff & Hp & HC) Hk s'. subst s'.
  destruct rest as [|c rest]; [congruence|]. clear Hne.
  set (en := enabled D (R s)) in *.
  set (P := proper_prefix_of t en pre 0) in *.
  assert (Hcmd : nth_error (cmds D) (length pre) = Some c).
  { rewrite Hcm, nth_error_app2 by lia. rewrite Nat.sub_diag. reflexivity. }
  assert (Hnn : n = length pre + S (length rest)).
  { unfold ncmds. rewrite Hcm, app_length. reflexivity. }
  assert (Hget : get_cmd_state D s (k_index (k s)) = Some (if en (length pre) then lane_spec t c else 0%N)).
  { rewrite Hidx. apply (Lemmas_C02.get_lane D (R s) t s (length pre) c); [split; reflexivity | exact HL | exact Hcmd]. }
  (* continuing after this command, whose contribution to the spec side is known *)
  assert (Hcont : forall sx P', fault sx = false -> k_index (k sx) = length pre ->
            k_state (k sx) = CS_SEARCH_COMMAND -> cbuf sx = cbuf s -> dis_cmd sx = dis_cmd s ->
            dis_grp sx = dis_grp s -> k_char (k sx) = k_char (k s) ->
            k_partial (k sx) = length P' -> Lemmas_C02.Ccond P' (k_cmd (k sx)) ->
            find_full t en (pre ++ [c]) 0 = None -> proper_prefix_of t en (pre ++ [c]) 0 = P' ->
            let s' := Lemmas_C02.s_finish D sx in
            (k_state (k s') = CS_SEARCH_COMMAND /\ SRCH t s') \/
            (k_state (k s') = CS_COMMAND_FOUND /\ k_cmd (k s') = resolve t en (cmds D) /\ k_cmd (k s') <> None) \/
            (k_state (k s') = Lemmas_C02.NFs (k_char (k s)) /\ resolve t en (cmds D) = None)).
  { intros sx P' Fx Hix Hsx Hbx Hd1 Hd2 Hcx Hpx HCx Hff' Hpp' s'. subst s'.
    destruct rest as [|c2 rest2].
    - rewrite (Lemmas_C02.s_finish_last D (R s) Hn (HnR s) sx (length pre) Hix) by (cbn in Hnn; lia).
      assert (Hres : resolve t en (cmds D) = match P' with [i] => Some i | _ => None end).
      { unfold resolve. rewrite Hcm, Hff', Hpp'. reflexivity. }
      rewrite Hres, <- Hcx.
      destruct P' as [|a [|b P']]; cbn in HCx, Hpx.
      + rewrite HCx. right. right. split; reflexivity.
      + rewrite HCx, Hpx. right. left. split; [reflexivity|]. split; [exact HCx|].
        change (k_cmd (k sx) <> None). rewrite HCx. discriminate.
      + destruct (k_cmd (k sx)); [|congruence]. rewrite Hpx. right. right. split; reflexivity.
    - rewrite (Lemmas_C02.s_finish_more D (R s) Hn (HnR s) sx (length pre) Hix) by (cbn in Hnn; lia).
      left. split; [exact Hsx|].
      apply (SRCH_same' t (setk_index (S (length pre)) (set_cbuf (cbuf s) sx))); try reflexivity;
        [exact Hbx | exact Fx |].
      unfold SRCH. split; [exact Fx|].
      replace (R (setk_index (S (length pre)) (set_cbuf (cbuf s) sx))) with (R s)
        by (symmetry; apply (R_eq s); [exact Hd1 | exact Hd2]).
      split; [exact HL|].
      exists (pre ++ [c]), (c2 :: rest2). split; [rewrite Hcm, <- app_assoc; reflexivity|].
      split; [discriminate|]. split; [rewrite app_length; cbn; lia|].
      fold en. split; [exact Hff'|]. rewrite Hpp'. split; [exact Hpx | exact HCx]. }
  assert (Hff0 : forall b, find_full t en (pre ++ b) 0 = find_full t en b (length pre)).
  { intros b. rewrite find_full_app, Hff. reflexivity. }
  assert (Hpp0 : forall b, proper_prefix_of t en (pre ++ b) 0 = P ++ proper_prefix_of t en b (length pre)).
  { intros b. rewrite pp_app. reflexivity. }
  destruct (en (length pre)) eqn:Een.
  2:{ rewrite (Lemmas_C02.search_command_v0 D s Hget).
      apply (Hcont s P); auto.
      - rewrite Hff0. cbn [find_full]. rewrite Een. reflexivity.
      - rewrite Hpp0. cbn [proper_prefix_of]. rewrite Een. cbn [andb app]. apply app_nil_r. }
  rewrite Lemmas_C02.lane_spec_st in Hget. unfold Lemmas_C02.st in Hget.
  destruct (list_eqb (upper (c_name c)) t) eqn:E1.
  { rewrite (Lemmas_C02.search_command_v2 D s Hget). right. left.
    split; [reflexivity|].
    assert (Hres : resolve t en (cmds D) = Some (length pre)).
    { unfold resolve. rewrite Hcm, Hff0. cbn [find_full]. rewrite Een, E1. reflexivity. }
    rewrite Hres. split; [cbn; rewrite Hidx; reflexivity | cbn; discriminate]. }
  destruct (is_prefix t (upper (c_name c))) eqn:E2.
  2:{ rewrite (Lemmas_C02.search_command_v0 D s Hget).
      apply (Hcont s P); auto.
      - rewrite Hff0. cbn [find_full]. rewrite Een, E1. reflexivity.
      - rewrite Hpp0. cbn [proper_prefix_of]. rewrite Een, E2. cbn [andb app]. apply app_nil_r. }
  assert (Hlen : (length t <? length (c_name c)) = true).
  { apply Nat.ltb_lt. pose proof (Lemmas_C02.partial_longer D (R s) Hn (HnR s) t _ E1 E2) as Hx.
    unfold upper in Hx. rewrite map_length in Hx. exact Hx. }
  assert (Hff1 : find_full t en (pre ++ [c]) 0 = None).
  { rewrite Hff0. cbn [find_full]. rewrite Een, E1. reflexivity. }
  assert (Hpp1 : proper_prefix_of t en (pre ++ [c]) 0 = P ++ [length pre]).
  { rewrite Hpp0. cbn [proper_prefix_of]. rewrite Een, E2, Hlen. reflexivity. }
  rewrite (Lemmas_C02.search_command_v1 D s Hget).
  assert (Hnext : let s' := Lemmas_C02.s_finish D (Lemmas_C02.s_partial s) in
            (k_state (k s') = CS_SEARCH_COMMAND /\ SRCH t s') \/
            (k_state (k s') = CS_COMMAND_FOUND /\ k_cmd (k s') = resolve t en (cmds D) /\ k_cmd (k s') <> None) \/
            (k_state (k s') = Lemmas_C02.NFs (k_char (k s)) /\ resolve t en (cmds D) = None)).
  { apply (Hcont (Lemmas_C02.s_partial s) (P ++ [length pre])); try assumption; try reflexivity.
    - cbn. rewrite Hp, app_length. cbn. lia.
    - cbn. rewrite Hidx. apply (Lemmas_C02.Ccond_snoc P (k_cmd (k s))). exact HC. }
  destruct (k_cmd (k s)) as [kc|] eqn:Ek; [|exact Hnext].
  rewrite Hidx. destruct (S (length pre) =? n) eqn:E3; [|exact Hnext].
  apply Nat.eqb_eq in E3. destruct rest as [|c2 rest2]; [|cbn in Hnn; lia].
  right. right. split; [reflexivity|].
  unfold resolve. rewrite Hcm, Hff1, Hpp1.
  destruct P as [|a P0]; [cbn in HC; congruence|]. destruct P0; reflexivity.
Qed.

Lemma NFs_cases : forall ch, Lemmas_C02.NFs ch = CS_COMMAND_NOT_FOUND \/ Lemmas_C02.NFs ch = CS_ERROR.
Proof. intros ch. unfold Lemmas_C02.NFs. destruct (ch =? ch_LF)%N; auto. Qed.

Lemma enabled_dis : forall s s', dis_cmd s' = dis_cmd s -> dis_grp s' = dis_grp s ->
  enabled D s' = enabled D s.
Proof. intros s s' E2 E3. unfold enabled, is_command_disable. rewrite E2, E3. reflexivity. Qed.

Lemma search_Q0 : forall s l, k_state (k s) = CS_SEARCH_COMMAND -> Q0 s l ->
  Q0 (search_command D s) l /\
  (k_state (k (search_command D s)) = CS_COMMAND_NOT_FOUND \/ k_state (k (search_command D s)) = CS_ERROR ->
   resolve (typed_of l) (enabled D s) (cmds D) = None).
Proof.
  intros s l Hk H. unfold Q0 in H. rewrite Hk in H. cbn [Qat] in H.
  destruct H as (t & Ht & Hty & Htp & HS).
  destruct (search_frame s) as (E1 & E2 & E3 & E4).
  destruct (search_step t s Ht HS Hk) as [(X & S') | [(X & C1 & C2) | (X & Rn)]]; cbv zeta in *.
  - split; [|intros [Y|Y]; congruence].
    apply Q0_at with CS_SEARCH_COMMAND; [exact X|]. cbn [Qat]. exists t.
    split; [exact Ht|]. split; [exact Hty|]. split; [congruence | exact S'].
  - split; [|intros [Y|Y]; congruence].
    apply Q0_at with CS_COMMAND_FOUND; [exact X|]. cbn [Qat].
    rewrite (enabled_dis s _ E2 E3), Hty. split; [exact C1|]. split; [exact C2 | congruence].
  - split; [|intros _; rewrite Hty; exact Rn].
    destruct (NFs_cases (k_char (k s))) as [Y|Y]; rewrite Y in X.
    + apply Q0_at with CS_COMMAND_NOT_FOUND; [exact X|]. cbn [Qat].
      rewrite (enabled_dis s _ E2 E3), Hty. exact Rn.
    + apply Q0_trivial. rewrite X. reflexivity.
Qed.

(* ---- CS_COMMAND_FOUND and CS_COMMAND_NOT_FOUND are left at once ---- *)
Lemma command_found_moves : forall s,
  fault (command_found D s) = true \/ front (k_state (k (command_found D s))) = false.
Proof.
  intros s. unfold command_found.
  unfold start_processing_format_read_args, end_with_error, set_loop_state.
  Lemmas_C09.brk; first [right; reflexivity | left; reflexivity].
Qed.

End StateInv.


(* ================================================================== *)
(* C. one step of the command machine, one operation, histories         *)
(* ================================================================== *)

(* the states whose successors the control skeleton (Skel.v) describes precisely enough *)
Definition back (x : cstate) : bool :=
  match x with
  | CS_IDLE | CS_PARSE_PREFIX | CS_PARSE_COMMAND_CHAR | CS_UPDATE_COMMAND_STATE | CS_WAIT_READ_ACK
  | CS_SEARCH_COMMAND | CS_COMMAND_FOUND => false
  | _ => true
  end.

Lemma back_next : forall bad c c' r, J c -> back (ck c) = true -> cmd_next bad c c' r ->
  front (ck c') = false.
Proof.
  intros bad c c' r HJ HB H. dctl c. destruct k0; cbn in HB; try discriminate HB; cbn in H; unfrel.
  all: repeat (progress (unfrel; decomp; cbn in * )).
  all: try solve [unfa; cbn; reflexivity].
  all: try solve [destruct lf; unfa; cbn; reflexivity].
  all: try solve [destruct hold; unfa; cbn; reflexivity].
  all: try solve [unfJ; cbn in *; destruct wa; cbn in *; try reflexivity; intuition discriminate].
Qed.

Section World.
Variable D : desc.
Variables ioS muS hS : Type.
Variable io_read : ioS -> ioS * option N.
Variable io_write : ioS -> N -> ioS * bool.
Variable mu_lock : muS -> muS * bool.
Variable mu_unlock : muS -> muS * bool.
Variable h_call : hS -> hreq -> hS * hres.
Hypothesis no_uhold : forall hs q, unsol_req q = true -> r_code (snd (h_call hs q)) <> RC_HOLD.
Hypothesis Hn : 0 < ncmds D.
Hypothesis HnL : ncmds D <= 4 * asz_of D.

Notation world := (Fsm.world ioS muS hS).
Notation mkWorld := (Fsm.mkWorld ioS muS hS).
Notation st := (Fsm.st ioS muS hS).
Notation io := (Fsm.io ioS muS hS).
Notation tr := (Fsm.tr ioS muS hS).
Notation set_st := (Fsm.set_st ioS muS hS).
Notation set_io := (Fsm.set_io ioS muS hS).
Notation logw := (Fsm.logw ioS muS hS).
Notation bracket := (Fsm.bracket D ioS muS hS mu_lock mu_unlock).
Notation cmd_service := (Fsm.cmd_service D ioS muS hS io_read io_write mu_lock mu_unlock h_call).
Notation unsolicited_events_service := (Fsm.unsolicited_events_service D ioS muS hS io_write mu_lock mu_unlock h_call).
Notation service_body := (Fsm.service_body D ioS muS hS io_read io_write mu_lock mu_unlock h_call).
Notation do_op := (Fsm.do_op D ioS muS hS io_read io_write mu_lock mu_unlock h_call).
Notation step := (Fsm.step D ioS muS hS io_read io_write mu_lock mu_unlock h_call).
Notation run := (Fsm.run D ioS muS hS io_read io_write mu_lock mu_unlock h_call).
Notation consumed := Lemmas_C01s.consumed.

Definition lineof (w : world) : list N := cur_line (consumed (tr w)).
Definition WQ (w : world) : Prop := Q0 D (st w) (lineof w).

Lemma WQ_ext : forall w w' : world, st w' = st w -> consumed (tr w') = consumed (tr w) -> WQ w -> WQ w'.
Proof. intros w w' E1 E2 H. unfold WQ, lineof in *. rewrite E1, E2. exact H. Qed.

Lemma rd_pre_facts : forall c s,
  eqk s (Lemmas_C01s.rd_pre c s) /\ fault (Lemmas_C01s.rd_pre c s) = fault s /\
  k_char (k (Lemmas_C01s.rd_pre c s)) = Lemmas_C01s.rd_char (k_state (k s)) c.
Proof.
  intros c s. unfold Lemmas_C01s.rd_pre. cbv zeta.
  destruct (_ && _); (split; [unfold eqk; repeat split; reflexivity | split; reflexivity]).
Qed.

Lemma cmd_step : forall w : world,
  J (ctl_of (st w)) -> fault (st (fst (cmd_service w))) = false -> length (cbuf (st w)) = asz_of D ->
  (k_state (k (st w)) = CS_IDLE -> Lemmas_C01s.seen_after false (consumed (tr w)) = false) ->
  WQ w -> WQ (fst (cmd_service w)).
Proof.
  intros w HJ Hf HL HI H.
  assert (F0 : fault (st w) = false).
  { destruct (fault (st w)) eqn:E; [|reflexivity].
    rewrite (F_cmd_service D ioS muS hS io_read io_write mu_lock mu_unlock h_call w E) in Hf. discriminate. }
  destruct (back (k_state (k (st w)))) eqn:HB.
  { unfold WQ. apply Q0_trivial.
    apply (back_next _ _ _ _ HJ HB
             (cmd_service_sim D ioS muS hS io_read io_write mu_lock mu_unlock h_call no_uhold w)). }
  unfold WQ, lineof in H. unfold Q0 in H.
  pose proof (rd_pre_facts) as RP.
  destruct (k_state (k (st w))) eqn:Hk; try discriminate HB; cbn [Qat] in H; unfold Fsm.cmd_service; rewrite Hk.
  - (* IDLE *)
    unfold Fsm.process_idle_state. rewrite Lemmas_C01s.reading_eq. rewrite Hk.
    destruct (io_read (io w)) as [io' [c|]]; cbv zeta; unfold WQ, lineof;
      cbn [fst Fsm.st Fsm.tr Fsm.set_st Fsm.logw Fsm.set_io]; rewrite Lemmas_C01s.consumed_cons;
      cbn [Lemmas_C01s.rd_byte]; [|rewrite app_nil_r; apply Q0_trivial; rewrite Hk; reflexivity].
    destruct (RP c (st w)) as (E & F1 & C1).
    apply (idle_step D (Lemmas_C01s.rd_pre c (st w)) _ c).
    + destruct E as (_ & _ & _ & _ & _ & _ & _ & _ & E9 & _). congruence.
    + apply scan_idle_next. apply HI. reflexivity.
  - (* PARSE_PREFIX *)
    unfold Fsm.parse_prefix. rewrite Lemmas_C01s.reading_eq. rewrite Hk.
    destruct (io_read (io w)) as [io' [c|]]; cbv zeta; unfold WQ, lineof;
      cbn [fst Fsm.st Fsm.tr Fsm.set_st Fsm.logw Fsm.set_io]; rewrite Lemmas_C01s.consumed_cons;
      cbn [Lemmas_C01s.rd_byte];
      [|rewrite app_nil_r; apply Q0_at with CS_PARSE_PREFIX; [exact Hk | exact H]].
    destruct (RP c (st w)) as (E & F1 & C1).
    pose proof E as (E1 & _ & _ & _ & _ & _ & _ & _ & E9 & E10).
    rewrite cur_line_open by (rewrite H; reflexivity).
    apply (prefix_step D Hn HnL (Lemmas_C01s.rd_pre c (st w)) _ c H).
    + congruence.
    + rewrite E10. destruct (k_implicit (k (st w))) eqn:Ei; [|reflexivity].
      pose proof (Lemmas_Ctl.J_implicit (st w) HJ Ei). congruence.
    + congruence.
    + congruence.
  - (* PARSE_COMMAND_CHAR *)
    unfold Fsm.parse_command. rewrite Lemmas_C01s.reading_eq. rewrite Hk.
    destruct (io_read (io w)) as [io' [c|]]; cbv zeta; unfold WQ, lineof;
      cbn [fst Fsm.st Fsm.tr Fsm.set_st Fsm.logw Fsm.set_io]; rewrite Lemmas_C01s.consumed_cons;
      cbn [Lemmas_C01s.rd_byte];
      [|rewrite app_nil_r; apply Q0_at with CS_PARSE_COMMAND_CHAR; [exact Hk | exact H]].
    destruct (RP c (st w)) as (E & F1 & C1).
    pose proof E as (E1 & _ & _ & _ & _ & _ & _ & E8 & E9 & E10).
    destruct H as (t & Hs & G & Ty).
    rewrite cur_line_open by (rewrite Hs; reflexivity).
    apply (pc_step D Hn HnL (Lemmas_C01s.rd_pre c (st w)) _ c t Hs).
    + apply (Good_same D t (st w)); [exact E | congruence | exact G].
    + congruence.
    + rewrite C1, Hk. reflexivity.
    + congruence.
  - (* UPDATE_COMMAND_STATE *)
    unfold WQ, lineof. cbn [fst Fsm.busy Fsm.upd_st Fsm.st Fsm.tr Fsm.set_st].
    destruct H as (t' & ch & Hs & HSW & Hlt & Ty).
    exact (update_step D Hn HnL (st w) _ t' ch Hk Hs HSW Hlt Ty).
  - (* WAIT_READ_ACK *)
    unfold Fsm.wait_read_acknowledge. rewrite Lemmas_C01s.reading_eq. rewrite Hk.
    destruct (io_read (io w)) as [io' [c|]]; cbv zeta; unfold WQ, lineof;
      cbn [fst Fsm.st Fsm.tr Fsm.set_st Fsm.logw Fsm.set_io]; rewrite Lemmas_C01s.consumed_cons;
      cbn [Lemmas_C01s.rd_byte];
      [|rewrite app_nil_r; apply Q0_at with CS_WAIT_READ_ACK; [exact Hk | exact H]].
    destruct (RP c (st w)) as (E & F1 & C1).
    pose proof E as (E1 & _ & _ & _ & _ & _ & _ & E8 & E9 & E10).
    destruct H as (t & Hs & Ht & G & Ty).
    rewrite cur_line_open by (rewrite Hs; reflexivity).
    apply (wr_step D Hn HnL (Lemmas_C01s.rd_pre c (st w)) _ c t Hs Ht).
    + apply (Good_same D t (st w)); [exact E | congruence | exact G].
    + congruence.
    + congruence.
  - (* SEARCH_COMMAND *)
    unfold WQ, lineof. cbn [fst Fsm.busy Fsm.upd_st Fsm.st Fsm.tr Fsm.set_st].
    apply (search_Q0 D Hn HnL (st w) _ Hk). unfold Q0. rewrite Hk. exact H.
  - (* COMMAND_FOUND *)
    unfold WQ, lineof. cbn [fst Fsm.busy Fsm.upd_st Fsm.st Fsm.tr Fsm.set_st].
    assert (Hf' : fault (command_found D (st w)) = false).
    { revert Hf. unfold Fsm.cmd_service. rewrite Hk. exact (fun x => x). }
    destruct (command_found_moves D (st w)) as [X|X]; [congruence|].
    apply Q0_trivial. exact X.
Qed.


Local Notation usim := (uns_service_sim D ioS muS hS io_write mu_lock mu_unlock h_call no_uhold).

(* the event machine leaves everything the invariant looks at alone *)
Lemma uns_eqk : forall w : world,
  eqk (st w) (st (fst (unsolicited_events_service w))) /\
  k_char (k (st (fst (unsolicited_events_service w)))) = k_char (k (st w)).
Proof.
  intros w.
  destruct (Lemmas_C11.C11_frame_uns_nohold_proof D ioS muS hS io_write mu_lock mu_unlock h_call no_uhold w)
    as (KP & KS & _). cbv zeta in *.
  destruct (Lemmas_C09.uns_evrel D ioS muS hS io_write mu_lock mu_unlock h_call w) as (_ & _ & _ & D1 & D2 & _).
  unfold Lemmas_C11.kpart in KP. injection KP; intros.
  split; [unfold eqk; repeat split; assumption | assumption].
Qed.

Lemma WQ_service_body : forall w : world,
  J (ctl_of (st w)) -> fault (st (fst (service_body w))) = false -> length (cbuf (st w)) = asz_of D ->
  (k_state (k (st w)) = CS_IDLE -> Lemmas_C01s.seen_after false (consumed (tr w)) = false) ->
  WQ w -> WQ (fst (service_body w)).
Proof.
  intros w HJ Hf HL HI H.
  destruct (Lemmas_C01s.service_body_shape D ioS muS hS io_read io_write mu_lock mu_unlock h_call w)
    as (e1 & e2 & T1 & N1 & Es & Et & _ & _). cbv zeta in *.
  set (w1 := fst (unsolicited_events_service w)) in *.
  destruct (uns_eqk w) as (E & EC). fold w1 in E, EC.
  pose proof E as (E1 & _ & _ & _ & _ & _ & _ & _ & E9 & _).
  rewrite Es in Hf.
  assert (F1 : fault (st w1) = false).
  { destruct (fault (st w1)) eqn:X; [|reflexivity].
    rewrite (F_cmd_service D ioS muS hS io_read io_write mu_lock mu_unlock h_call w1 X) in Hf. discriminate. }
  assert (C1 : consumed (tr w1) = consumed (tr w)).
  { rewrite T1. apply Lemmas_C01s.consumed_app_nord. exact N1. }
  eapply WQ_ext; [exact Es | rewrite Et; reflexivity |].
  apply cmd_step.
  - eapply J_uns_next; [exact HJ | apply usim].
  - exact Hf.
  - congruence.
  - intros X. rewrite C1. apply HI. congruence.
  - unfold WQ, lineof. rewrite C1. eapply Q0_eqk; [exact E | exact EC | exact F1 | exact H].
Qed.

Lemma op_eq_dec_service : forall o : op, {o = OService} + {o <> OService}.
Proof. destruct o; try (right; discriminate); left; reflexivity. Qed.

(* the other operations: the flags change only through the two flag operations, nothing else the
   invariant looks at changes *)
Lemma other_op_eqk : forall (w : world) o, o <> OService -> Lemmas_C09.flag_op o = false ->
  eqk (st w) (st (fst (do_op w o))) /\ k_char (k (st (fst (do_op w o)))) = k_char (k (st w)).
Proof.
  intros w o Ho Hfl.
  set (P := fun s' : state => eqk (st w) s' /\ k_char (k s') = k_char (k (st w))).
  assert (P0 : P (st w)) by (split; [apply eqk_refl | reflexivity]).
  destruct o; cbn [Fsm.do_op Lemmas_C09.flag_op] in *; try discriminate Hfl; try exact P0.
  - contradiction Ho; reflexivity.
  - unfold Fsm.api_trigger.
    apply (Lemmas_C09.bracket_P D ioS muS hS mu_lock mu_unlock P); [exact P0|].
    intros w0 E0. unfold P. rewrite <- E0. unfold push_unsolicited_cmd.
    Lemmas_C09.brk; cbn [fst Fsm.st Fsm.set_st]; (split; [unfold eqk; repeat split; reflexivity | reflexivity]).
  - unfold Fsm.api_hold_exit.
    apply (Lemmas_C09.bracket_P D ioS muS hS mu_lock mu_unlock P); [exact P0|].
    intros w0 E0. unfold P. rewrite <- E0. unfold hold_exit.
    Lemmas_C09.brk; cbn [fst Fsm.st Fsm.set_st]; (split; [unfold eqk; repeat split; reflexivity | reflexivity]).
  - unfold Fsm.api_is_busy.
    apply (Lemmas_C09.bracket_P D ioS muS hS mu_lock mu_unlock P); [exact P0|].
    intros w0 E0. cbn [fst]. rewrite E0. exact P0.
  - unfold Fsm.api_is_hold.
    apply (Lemmas_C09.bracket_P D ioS muS hS mu_lock mu_unlock P); [exact P0|].
    intros w0 E0. cbn [fst]. rewrite E0. exact P0.
  - unfold Fsm.api_is_full.
    apply (Lemmas_C09.bracket_P D ioS muS hS mu_lock mu_unlock P); [exact P0|].
    intros w0 E0. cbn [fst]. rewrite E0. exact P0.
Qed.

Lemma flag_op_state : forall (w : world) o, Lemmas_C09.flag_op o = true ->
  k_state (k (st (fst (do_op w o)))) = k_state (k (st w)).
Proof. intros w o H. destruct o; try discriminate H; reflexivity. Qed.

Local Notation st_step := (Lemmas_Ctl.st_step D ioS muS hS io_read io_write mu_lock mu_unlock h_call).
Local Notation run_snoc := (Lemmas_Ctl.run_snoc D ioS muS hS io_read io_write mu_lock mu_unlock h_call).
Local Notation step_tr := (Lemmas_C01s.step_tr D ioS muS hS io_read io_write mu_lock mu_unlock h_call).

Lemma WQ_do_op : forall (w : world) o,
  J (ctl_of (st w)) -> fault (st (fst (do_op w o))) = false -> length (cbuf (st w)) = asz_of D ->
  (k_state (k (st w)) = CS_IDLE -> Lemmas_C01s.seen_after false (consumed (tr w)) = false) ->
  (Lemmas_C09.flag_op o = true -> k_state (k (st w)) = CS_IDLE) ->
  WQ w -> WQ (fst (do_op w o)).
Proof.
  intros w o HJ Hf HL HI HF H.
  destruct (op_eq_dec_service o) as [->|Ho].
  - cbn [Fsm.do_op] in *. unfold Fsm.api_service in *.
    destruct (Lemmas_C01s.bracket_shape D ioS muS hS mu_lock mu_unlock w service_body)
      as [[Es [pre [Et Hp]]] | (w1 & pre & post & E1 & T1 & Hp & Hq & Es & Et)].
    + eapply WQ_ext; [exact Es | rewrite Et; apply Lemmas_C01s.consumed_app_nord; exact Hp | exact H].
    + assert (C1 : consumed (tr w1) = consumed (tr w))
        by (rewrite T1; apply Lemmas_C01s.consumed_app_nord; exact Hp).
      assert (H1 : WQ w1) by (eapply WQ_ext; [exact E1 | exact C1 | exact H]).
      rewrite Es in Hf.
      assert (H2 : WQ (fst (service_body w1))).
      { apply WQ_service_body; [rewrite E1; exact HJ | exact Hf | rewrite E1; exact HL | | exact H1].
        rewrite E1, C1. exact HI. }
      eapply WQ_ext; [exact Es | rewrite Et; apply Lemmas_C01s.consumed_app_nord; exact Hq | exact H2].
  - destruct (Lemmas_C01s.other_op_nord D ioS muS hS io_read io_write mu_lock mu_unlock h_call w o Ho)
      as [evs [T Hnr]].
    unfold WQ, lineof. rewrite T, Lemmas_C01s.consumed_app_nord by exact Hnr.
    destruct (Lemmas_C09.flag_op o) eqn:Efl.
    + apply Q0_trivial. rewrite (flag_op_state w o Efl), (HF eq_refl). reflexivity.
    + destruct (other_op_eqk w o Ho Efl) as (E & EC).
      eapply Q0_eqk; [exact E | exact EC | exact Hf | exact H].
Qed.

Lemma WQ_step : forall (w : world) o,
  J (ctl_of (st w)) -> fault (st (step w o)) = false -> length (cbuf (st w)) = asz_of D ->
  (k_state (k (st w)) = CS_IDLE -> Lemmas_C01s.seen_after false (consumed (tr w)) = false) ->
  (Lemmas_C09.flag_op o = true -> k_state (k (st w)) = CS_IDLE) ->
  WQ w -> WQ (step w o).
Proof.
  intros w o HJ Hf HL HI HF H. rewrite st_step in Hf.
  eapply WQ_ext; [apply st_step | | apply WQ_do_op; eassumption].
  rewrite step_tr, Lemmas_C01s.consumed_cons. apply app_nil_r.
Qed.

Lemma WQ_init : forall m x mx h, WQ (mkWorld (init_state D m) x mx h []).
Proof. intros. apply Q0_trivial. reflexivity. Qed.

Local Notation fbl := (Lemmas_C09.flags_between_lines D ioS muS hS io_read io_write mu_lock mu_unlock h_call).

Lemma fbl_snoc : forall ops (w : world) o,
  fbl w (ops ++ [o]) <-> fbl w ops /\ (Lemmas_C09.flag_op o = true -> k_state (k (st (run w ops))) = CS_IDLE).
Proof.
  induction ops as [|a ops IH]; intros w o; cbn [app Lemmas_C09.flags_between_lines Fsm.run fold_left].
  - tauto.
  - rewrite IH. unfold Fsm.run. tauto.
Qed.

Lemma fbl_app : forall ops1 (w : world) ops2, fbl w (ops1 ++ ops2) -> fbl w ops1.
Proof.
  induction ops1 as [|a ops IH]; intros w ops2 H; cbn [app Lemmas_C09.flags_between_lines] in *.
  - exact I.
  - destruct H as [H1 H2]. split; [exact H1 | eapply IH; exact H2].
Qed.

End World.

(* ================================================================== *)
(* D. histories in the supported domain                                 *)
(* ================================================================== *)
Section Hist.
Variable D : desc.
Variables ioS muS hS : Type.
Variable io_read : ioS -> ioS * option N.
Variable io_write : ioS -> N -> ioS * bool.
Variable mu_lock : muS -> muS * bool.
Variable mu_unlock : muS -> muS * bool.
Variable h_call : hS -> hreq -> hS * hres.
Hypothesis no_uhold : forall hs q, unsol_req q = true -> r_code (snd (h_call hs q)) <> RC_HOLD.
Hypothesis handlers_valid : forall hs q, Forall (valid_icall D) (r_calls (snd (h_call hs q))).

Notation world := (Fsm.world ioS muS hS).
Notation mkWorld := (Fsm.mkWorld ioS muS hS).
Notation st := (Fsm.st ioS muS hS).
Notation tr := (Fsm.tr ioS muS hS).
Notation do_op := (Fsm.do_op D ioS muS hS io_read io_write mu_lock mu_unlock h_call).
Notation step := (Fsm.step D ioS muS hS io_read io_write mu_lock mu_unlock h_call).
Notation run := (Fsm.run D ioS muS hS io_read io_write mu_lock mu_unlock h_call).
Notation cmd_service := (Fsm.cmd_service D ioS muS hS io_read io_write mu_lock mu_unlock h_call).
Notation unsolicited_events_service := (Fsm.unsolicited_events_service D ioS muS hS io_write mu_lock mu_unlock h_call).
Notation service_body := (Fsm.service_body D ioS muS hS io_read io_write mu_lock mu_unlock h_call).
Notation consumed := Lemmas_C01s.consumed.
Notation fbl := (Lemmas_C09.flags_between_lines D ioS muS hS io_read io_write mu_lock mu_unlock h_call).
Notation lineOf := (lineof ioS muS hS).
Notation WQw := (WQ D ioS muS hS).
Notation reach m x mx h ops := (run (mkWorld (init_state D m) x mx h []) ops).
Local Notation run_snoc := (Lemmas_Ctl.run_snoc D ioS muS hS io_read io_write mu_lock mu_unlock h_call).
Local Notation st_step := (Lemmas_Ctl.st_step D ioS muS hS io_read io_write mu_lock mu_unlock h_call).

Lemma wf_n : forall m, wf_desc D m -> 0 < ncmds D /\ ncmds D <= 4 * asz_of D.
Proof. intros m (_ & A & B & _). split; assumption. Qed.

(* the facts about a reachable world the step lemmas need *)
Lemma reach_facts : forall m x mx h ops, wf_desc D m -> Forall (valid_op D) ops ->
  let w := reach m x mx h ops in
  fault (st w) = false /\ J (ctl_of (st w)) /\ length (cbuf (st w)) = asz_of D /\
  (k_state (k (st w)) = CS_IDLE -> Lemmas_C01s.seen_after false (consumed (tr w)) = false).
Proof.
  intros m x mx h ops WF FO w.
  destruct (J_in_domain D ioS muS hS io_read io_write mu_lock mu_unlock h_call no_uhold handlers_valid
              m x mx h ops WF FO) as [F0 HJ]. fold w in F0, HJ.
  split; [exact F0|]. split; [exact HJ|]. split.
  - exact (proj1 (Lemmas_Calls.lengths_reachable D ioS muS hS io_read io_write mu_lock mu_unlock h_call
                    handlers_valid m x mx h ops WF FO)).
  - intros Hk.
    apply (Lemmas_C01s.C01_idle_iff_blank_nofault D ioS muS hS io_read io_write mu_lock mu_unlock h_call
             no_uhold m x mx h ops F0); [fold w; rewrite Hk; reflexivity | exact Hk].
Qed.

Theorem WQ_reachable : forall m x mx h ops, wf_desc D m -> Forall (valid_op D) ops ->
  fbl (mkWorld (init_state D m) x mx h []) ops -> WQw (reach m x mx h ops).
Proof.
  intros m x mx h ops WF. destruct (wf_n m WF) as [Hn HnL].
  induction ops as [|o ops IH] using rev_ind; intros FO FB.
  - apply WQ_init.
  - rewrite run_snoc. pose proof FO as FO'. apply Forall_app in FO'. destruct FO' as [FO1 _].
    apply (fbl_snoc D ioS muS hS io_read io_write mu_lock mu_unlock h_call) in FB. destruct FB as [FB1 FB2].
    destruct (reach_facts m x mx h ops WF FO1) as (F0 & HJ & HL & HI).
    apply (WQ_step D ioS muS hS io_read io_write mu_lock mu_unlock h_call no_uhold Hn HnL); try assumption.
    + rewrite <- run_snoc.
      exact (C03_no_fault D ioS muS hS io_read io_write mu_lock mu_unlock h_call handlers_valid
               m x mx h (ops ++ [o]) WF FO).
    + apply IH; assumption.
Qed.

(* ---- the positive half ---- *)
Theorem C02_found_is_resolve_proof : forall m x mx h ops,
  wf_desc D m -> Forall (valid_op D) ops ->
  fbl (mkWorld (init_state D m) x mx h []) ops ->
  let w := reach m x mx h ops in
  k_state (k (st w)) = CS_COMMAND_FOUND ->
  k_cmd (k (st w)) = resolve (typed_of (lineOf w)) (enabled D (st w)) (cmds D) /\
  k_cmd (k (st w)) <> None /\
  k_type (k (st w)) = type_of (lineOf w).
Proof.
  intros m x mx h ops WF FO FB w Hk.
  pose proof (WQ_reachable m x mx h ops WF FO FB) as H. fold w in H.
  unfold WQ, Q0 in H. rewrite Hk in H. exact H.
Qed.

(* ---- the negative half: the state CS_COMMAND_NOT_FOUND ---- *)
Theorem C02_not_found_proof : forall m x mx h ops,
  wf_desc D m -> Forall (valid_op D) ops ->
  fbl (mkWorld (init_state D m) x mx h []) ops ->
  let w := reach m x mx h ops in
  k_state (k (st w)) = CS_COMMAND_NOT_FOUND ->
  resolve (typed_of (lineOf w)) (enabled D (st w)) (cmds D) = None.
Proof.
  intros m x mx h ops WF FO FB w Hk.
  pose proof (WQ_reachable m x mx h ops WF FO FB) as H. fold w in H.
  unfold WQ, Q0 in H. rewrite Hk in H. exact H.
Qed.

End Hist.


(* ================================================================== *)
(* E. leaving the search, and the composition with the callbacks         *)
(* ================================================================== *)
Section Hist2.
Variable D : desc.
Variables ioS muS hS : Type.
Variable io_read : ioS -> ioS * option N.
Variable io_write : ioS -> N -> ioS * bool.
Variable mu_lock : muS -> muS * bool.
Variable mu_unlock : muS -> muS * bool.
Variable h_call : hS -> hreq -> hS * hres.
Hypothesis no_uhold : forall hs q, unsol_req q = true -> r_code (snd (h_call hs q)) <> RC_HOLD.
Hypothesis handlers_valid : forall hs q, Forall (valid_icall D) (r_calls (snd (h_call hs q))).

Notation world := (Fsm.world ioS muS hS).
Notation mkWorld := (Fsm.mkWorld ioS muS hS).
Notation st := (Fsm.st ioS muS hS).
Notation tr := (Fsm.tr ioS muS hS).
Notation do_op := (Fsm.do_op D ioS muS hS io_read io_write mu_lock mu_unlock h_call).
Notation step := (Fsm.step D ioS muS hS io_read io_write mu_lock mu_unlock h_call).
Notation run := (Fsm.run D ioS muS hS io_read io_write mu_lock mu_unlock h_call).
Notation cmd_service := (Fsm.cmd_service D ioS muS hS io_read io_write mu_lock mu_unlock h_call).
Notation unsolicited_events_service := (Fsm.unsolicited_events_service D ioS muS hS io_write mu_lock mu_unlock h_call).
Notation service_body := (Fsm.service_body D ioS muS hS io_read io_write mu_lock mu_unlock h_call).
Notation consumed := Lemmas_C01s.consumed.
Notation fbl := (Lemmas_C09.flags_between_lines D ioS muS hS io_read io_write mu_lock mu_unlock h_call).
Notation lineOf := (lineof ioS muS hS).
Notation WQw := (WQ D ioS muS hS).
Notation reach m x mx h ops := (run (mkWorld (init_state D m) x mx h []) ops).
Local Notation run_snoc := (Lemmas_Ctl.run_snoc D ioS muS hS io_read io_write mu_lock mu_unlock h_call).
Local Notation st_step := (Lemmas_Ctl.st_step D ioS muS hS io_read io_write mu_lock mu_unlock h_call).

(* an operation that takes the command machine out of the search with "not found" *)
Lemma search_exit : forall (w : world) o, 0 < ncmds D -> ncmds D <= 4 * asz_of D ->
  WQw w -> k_state (k (st w)) = CS_SEARCH_COMMAND ->
  fault (st (step w o)) = false ->
  k_state (k (st (step w o))) = CS_COMMAND_NOT_FOUND \/ k_state (k (st (step w o))) = CS_ERROR ->
  resolve (typed_of (lineOf w)) (enabled D (st w)) (cmds D) = None.
Proof.
  intros w o Hn HnL H Hk Hf HX. rewrite st_step in Hf, HX.
  destruct (op_eq_dec_service o) as [->|Ho].
  - cbn [Fsm.do_op] in *. unfold Fsm.api_service in *.
    destruct (Lemmas_C01s.bracket_shape D ioS muS hS mu_lock mu_unlock w service_body)
      as [[Es _] | (w1 & pre & post & E1 & T1 & Hp & Hq & Es & Et)].
    + rewrite Es in HX. destruct HX; congruence.
    + rewrite Es in Hf, HX.
      destruct (Lemmas_C01s.service_body_shape D ioS muS hS io_read io_write mu_lock mu_unlock h_call w1)
        as (e1 & e2 & _ & _ & Es2 & _). cbv zeta in *.
      set (w2 := fst (unsolicited_events_service w1)) in *.
      destruct (uns_eqk D ioS muS hS io_write mu_lock mu_unlock h_call no_uhold w1) as (E & EC).
      fold w2 in E, EC. rewrite E1 in E, EC.
      pose proof E as (_ & D1 & D2 & _ & _ & _ & _ & _ & E9 & _).
      rewrite Es2 in Hf, HX.
      assert (Hk2 : k_state (k (st w2)) = CS_SEARCH_COMMAND) by congruence.
      assert (F2 : fault (st w2) = false).
      { destruct (fault (st w2)) eqn:X; [|reflexivity].
        rewrite (F_cmd_service D ioS muS hS io_read io_write mu_lock mu_unlock h_call w2 X) in Hf. discriminate. }
      assert (Q2 : Q0 D (st w2) (lineOf w)).
      { eapply Q0_eqk; [exact E | exact EC | exact F2 | exact H]. }
      unfold Fsm.cmd_service in HX. rewrite Hk2 in HX.
      cbn [fst Fsm.busy Fsm.upd_st Fsm.st Fsm.set_st] in HX.
      rewrite <- (enabled_dis D (st w) (st w2) D1 D2).
      exact (proj2 (search_Q0 D Hn HnL (st w2) _ Hk2 Q2) HX).
  - exfalso. destruct (Lemmas_C09.flag_op o) eqn:Efl.
    + rewrite (flag_op_state D ioS muS hS io_read io_write mu_lock mu_unlock h_call w o Efl) in HX.
      destruct HX; congruence.
    + destruct (other_op_eqk D ioS muS hS io_read io_write mu_lock mu_unlock h_call w o Ho Efl)
        as ((_ & _ & _ & _ & _ & _ & _ & _ & E9 & _) & _).
      rewrite E9 in HX. destruct HX; congruence.
Qed.

Theorem C02_search_fails_proof : forall m x mx h ops o,
  wf_desc D m -> Forall (valid_op D) (ops ++ [o]) ->
  fbl (mkWorld (init_state D m) x mx h []) ops ->
  let w := reach m x mx h ops in
  k_state (k (st w)) = CS_SEARCH_COMMAND ->
  k_state (k (st (step w o))) = CS_COMMAND_NOT_FOUND \/ k_state (k (st (step w o))) = CS_ERROR ->
  resolve (typed_of (lineOf w)) (enabled D (st w)) (cmds D) = None.
Proof.
  intros m x mx h ops o WF FO FB w Hk HX. destruct (wf_n D m WF) as [Hn HnL].
  pose proof FO as FO'. apply Forall_app in FO'. destruct FO' as [FO1 _].
  apply (search_exit w o Hn HnL); try assumption.
  - exact (WQ_reachable D ioS muS hS io_read io_write mu_lock mu_unlock h_call no_uhold handlers_valid
             m x mx h ops WF FO1 FB).
  - unfold w. rewrite <- run_snoc.
    exact (C03_no_fault D ioS muS hS io_read io_write mu_lock mu_unlock h_call handlers_valid
             m x mx h (ops ++ [o]) WF FO).
Qed.

(* ---- every command-side callback of a history concerns resolve (typed name of its line) ---- *)
Theorem C02_handler_is_resolved_proof : forall m x mx h ops q code,
  wf_desc D m -> Forall (valid_op D) ops ->
  let w0 := mkWorld (init_state D m) x mx h [] in
  fbl w0 ops ->
  In (ECall q code) (tr (run w0 ops)) -> Lemmas_Calls.ev_side q = false ->
  exists ops0 opsm ops2, ops = ops0 ++ opsm ++ OService :: ops2 /\
    let wf := run w0 ops0 in
    k_state (k (st wf)) = CS_COMMAND_FOUND /\
    resolve (typed_of (lineOf wf)) (enabled D (st wf)) (cmds D) = Some (req_cmd q) /\
    k_type (k (st wf)) = type_of (lineOf wf) /\
    (forall j, j <= length opsm -> Lemmas_C09.needs_cmd (st (run w0 (ops0 ++ firstn j opsm))) = true) /\
    let s := st (run w0 (ops0 ++ opsm)) in
    k_cmd (k s) = Some (req_cmd q) /\ k_state (k s) = Lemmas_Calls.call_state q /\
    k_type (k s) = Lemmas_Calls.kind_type q.
Proof.
  intros m x mx h ops q code WF FO w0 FB Hin Hev.
  destruct (Lemmas_Calls.calls_selected D ioS muS hS io_read io_write mu_lock mu_unlock h_call
              no_uhold handlers_valid m x mx h ops q code WF FO Hin Hev)
    as (ops0 & opsm & ops2 & E & Hk & Hc & Hnd & Hs).
  exists ops0, opsm, ops2. split; [exact E|]. cbv zeta.
  assert (FO0 : Forall (valid_op D) ops0) by (rewrite E in FO; apply Forall_app in FO; tauto).
  assert (FB0 : fbl w0 ops0).
  { rewrite E in FB. eapply (fbl_app D ioS muS hS io_read io_write mu_lock mu_unlock h_call); exact FB. }
  destruct (C02_found_is_resolve_proof D ioS muS hS io_read io_write mu_lock mu_unlock h_call
              no_uhold handlers_valid m x mx h ops0 WF FO0 FB0 Hk) as (R1 & _ & R3).
  split; [exact Hk|]. split; [exact (eq_trans (eq_sym R1) Hc)|]. split; [exact R3|]. split; [exact Hnd | exact Hs].
Qed.

End Hist2.


(* ================================================================== *)
(* F. the request type between CS_COMMAND_FOUND and the callback         *)
(* ================================================================== *)
(* while the selected command is needed the request type is kept, except that a write request
   becomes a test request ('?' right after '=') *)
Definition tyev (a b : ctype) : Prop := b = a \/ (a = T_WRITE /\ b = T_TEST).

Lemma tyev_refl : forall a, tyev a a.
Proof. intros a. left. reflexivity. Qed.
Lemma tyev_trans : forall a b c, tyev a b -> tyev b c -> tyev a c.
Proof.
  unfold tyev. intros a b c H1 H2.
  destruct H1 as [E1|[E1 E1']]; destruct H2 as [E2|[E2 E2']]; subst; try discriminate; auto.
Qed.

Ltac solveE :=
  unfold Lemmas_Calls.a_needs, Lemmas_Calls.JT, tyev in *; unfa; cbn in *;
  try solve [ auto | discriminate | intuition (try discriminate; try congruence) ].

Lemma type_next_cmd : forall c c' r, Lemmas_Calls.JT c -> cmd_next False c c' r ->
  Lemmas_Calls.a_needs c = true -> Lemmas_Calls.a_needs c' = true -> tyev (cty c) (cty c').
Proof.
  intros c c' r HT H N N'. dctl c. destruct k0; cbn in H; unfrel.
  8: destruct ty; cbn in H.
  all: repeat (progress (unfrel; decomp; cbn in * )).
  all: try solve [solveE].
  all: try solve [destruct wa; solveE].
  all: try solve [destruct lf; solveE].
  all: try solve [destruct hold; solveE].
Qed.

Lemma type_next_op : forall o c c' r, Lemmas_Calls.JT c -> op_next False o c c' r ->
  Lemmas_Calls.a_needs c = true -> Lemmas_Calls.a_needs c' = true -> tyev (cty c) (cty c').
Proof.
  intros o c c' r HT H N N'. destruct o; cbn in H; try (subst; apply tyev_refl).
  - destruct H as [[-> _] | (r0 & (c1 & us & rc & Hu & Hc & _) & _)]; [apply tyev_refl|].
    destruct (Lemmas_Calls.uns_next_frame _ _ _ Hu) as (E1 & E2 & E3).
    rewrite <- E2. apply (type_next_cmd c1 c' rc (Lemmas_Calls.JT_uns_next _ _ _ HT Hu) Hc); [|exact N'].
    rewrite (Lemmas_Calls.a_needs_ext c c1 E1 E3). exact N.
  - destruct (heff_ck _ _ H) as (_ & _ & _ & E2 & _). rewrite E2. apply tyev_refl.
Qed.

Section Hist3.
Variable D : desc.
Variables ioS muS hS : Type.
Variable io_read : ioS -> ioS * option N.
Variable io_write : ioS -> N -> ioS * bool.
Variable mu_lock : muS -> muS * bool.
Variable mu_unlock : muS -> muS * bool.
Variable h_call : hS -> hreq -> hS * hres.
Hypothesis no_uhold : forall hs q, unsol_req q = true -> r_code (snd (h_call hs q)) <> RC_HOLD.
Hypothesis handlers_valid : forall hs q, Forall (valid_icall D) (r_calls (snd (h_call hs q))).

Notation world := (Fsm.world ioS muS hS).
Notation mkWorld := (Fsm.mkWorld ioS muS hS).
Notation st := (Fsm.st ioS muS hS).
Notation tr := (Fsm.tr ioS muS hS).
Notation do_op := (Fsm.do_op D ioS muS hS io_read io_write mu_lock mu_unlock h_call).
Notation step := (Fsm.step D ioS muS hS io_read io_write mu_lock mu_unlock h_call).
Notation run := (Fsm.run D ioS muS hS io_read io_write mu_lock mu_unlock h_call).
Notation fbl := (Lemmas_C09.flags_between_lines D ioS muS hS io_read io_write mu_lock mu_unlock h_call).
Notation lineOf := (lineof ioS muS hS).
Notation reach m x mx h ops := (run (mkWorld (init_state D m) x mx h []) ops).
Local Notation run_snoc := (Lemmas_Ctl.run_snoc D ioS muS hS io_read io_write mu_lock mu_unlock h_call).
Local Notation st_step := (Lemmas_Ctl.st_step D ioS muS hS io_read io_write mu_lock mu_unlock h_call).

Lemma firstn_S_snoc : forall (l : list op) j, j < length l ->
  exists o, firstn (S j) l = firstn j l ++ [o].
Proof.
  induction l as [|a l IH]; intros j Hj; [cbn in Hj; lia|].
  destruct j as [|j].
  - exists a. reflexivity.
  - destruct (IH j) as [o E]; [cbn in Hj; lia|]. exists o.
    change (firstn (S (S j)) (a :: l)) with (a :: firstn (S j) l). rewrite E. reflexivity.
Qed.

Lemma Forall_firstn_op : forall (P : op -> Prop) l j, Forall P l -> Forall P (firstn j l).
Proof.
  intros P l j H. rewrite <- (firstn_skipn j l) in H. apply Forall_app in H. tauto.
Qed.

(* along a stretch of a history in which the selected command stays needed *)
Lemma type_stretch : forall m x mx h ops0 opsm,
  wf_desc D m -> Forall (valid_op D) (ops0 ++ opsm) ->
  (forall j, j <= length opsm ->
     Lemmas_C09.needs_cmd (st (reach m x mx h (ops0 ++ firstn j opsm))) = true) ->
  forall j, j <= length opsm ->
  tyev (k_type (k (st (reach m x mx h ops0))))
       (k_type (k (st (reach m x mx h (ops0 ++ firstn j opsm))))).
Proof.
  intros m x mx h ops0 opsm WF FO Hnd j. induction j as [|j IH]; intros Hj.
  - cbn [firstn]. rewrite app_nil_r. apply tyev_refl.
  - destruct (firstn_S_snoc opsm j) as [o E]; [lia|].
    eapply tyev_trans; [apply IH; lia|].
    rewrite E, app_assoc, run_snoc.
    assert (FOj : Forall (valid_op D) (ops0 ++ firstn j opsm)).
    { apply Forall_app in FO. destruct FO as [A B]. apply Forall_app. split; [exact A|].
      apply Forall_firstn_op. exact B. }
    assert (FOs : Forall (valid_op D) ((ops0 ++ firstn j opsm) ++ [o])).
    { rewrite <- app_assoc, <- E. apply Forall_app in FO. destruct FO as [A B]. apply Forall_app.
      split; [exact A|]. apply Forall_firstn_op. exact B. }
    set (w := reach m x mx h (ops0 ++ firstn j opsm)).
    assert (Hf : fault (st (step w o)) = false).
    { unfold w. rewrite <- run_snoc.
      exact (C03_no_fault D ioS muS hS io_read io_write mu_lock mu_unlock h_call handlers_valid
               m x mx h _ WF FOs). }
    pose proof (Lemmas_Calls.JT_in_domain D ioS muS hS io_read io_write mu_lock mu_unlock h_call
                  no_uhold handlers_valid m x mx h _ WF FOj) as HT. fold w in HT.
    pose proof (do_op_sim D ioS muS hS io_read io_write mu_lock mu_unlock h_call no_uhold w o) as Sim.
    rewrite st_step in Hf |- *.
    apply (op_next_weaken _ False) in Sim; [|intro Hb; rewrite Hb in Hf; discriminate].
    apply (type_next_op o _ _ _ HT Sim).
    + exact (Hnd j ltac:(lia)).
    + pose proof (Hnd (S j) Hj) as X. rewrite E, app_assoc, run_snoc, st_step in X. exact X.
Qed.

(* every command-side callback: the command is resolve of the name typed on its line, and the
   callback's kind is the one the line's suffix announces (a write request may have become a test) *)
Theorem C02_handler_kind_proof : forall m x mx h ops q code,
  wf_desc D m -> Forall (valid_op D) ops ->
  let w0 := mkWorld (init_state D m) x mx h [] in
  fbl w0 ops ->
  In (ECall q code) (tr (run w0 ops)) -> Lemmas_Calls.ev_side q = false ->
  exists ops0 ops1, ops = ops0 ++ ops1 /\
    let wf := run w0 ops0 in
    k_state (k (st wf)) = CS_COMMAND_FOUND /\
    resolve (typed_of (lineOf wf)) (enabled D (st wf)) (cmds D) = Some (req_cmd q) /\
    tyev (type_of (lineOf wf)) (Lemmas_Calls.kind_type q).
Proof.
  intros m x mx h ops q code WF FO w0 FB Hin Hev.
  destruct (C02_handler_is_resolved_proof D ioS muS hS io_read io_write mu_lock mu_unlock h_call
              no_uhold handlers_valid m x mx h ops q code WF FO FB Hin Hev)
    as (ops0 & opsm & ops2 & E & Hk & Rs & Ty & Hnd & (_ & _ & Tq)).
  exists ops0, (opsm ++ OService :: ops2). split; [exact E|]. cbv zeta.
  split; [exact Hk|]. split; [exact Rs|].
  assert (FO' : Forall (valid_op D) (ops0 ++ opsm)).
  { rewrite E, app_assoc in FO. apply Forall_app in FO. tauto. }
  pose proof (type_stretch m x mx h ops0 opsm WF FO' Hnd (length opsm) (le_n _)) as X.
  rewrite firstn_all in X. subst w0. rewrite <- Ty, <- Tq. exact X.
Qed.

End Hist3.


(* ================================================================== *)
(* G. the typed name, declaratively                                     *)
(* ================================================================== *)
Fixpoint take_while (p : N -> bool) (l : list N) : list N :=
  match l with c :: r => if p c then c :: take_while p r else [] | [] => [] end.
Fixpoint drop_while (p : N -> bool) (l : list N) : list N :=
  match l with c :: r => if p c then drop_while p r else l | [] => [] end.

Definition is_cr (c : N) : bool := (c =? ch_CR)%N.
Definition name_or_cr (c : N) : bool := is_cr c || is_name_char (to_upper c).

(* the bytes after the prefix: CRs, 'A' or 'a', CRs, 'T' or 't' *)
Definition after_at (l : list N) : option (list N) :=
  match drop_while is_cr l with
  | a :: r =>
    if (to_upper a =? ch_A)%N then
      match drop_while is_cr r with
      | t :: r' => if (to_upper t =? ch_T)%N then Some r' else None
      | [] => None
      end
    else None
  | [] => None
  end.

(* the maximal run of name characters (CRs skipped) after the prefix, upper-cased *)
Definition typed_decl (l : list N) : list N :=
  match after_at l with
  | Some body => map to_upper (filter (fun c => negb (is_cr c)) (take_while name_or_cr body))
  | None => []
  end.

Definition has_name (p : lphase) (t : list N) : Prop :=
  p = LName t \/ p = LQm t \/ exists ty, p = LEnd t ty.

Lemma fold_end : forall l t ty, fold_left lstep l (LEnd t ty) = LEnd t ty.
Proof. induction l as [|c l IH]; intros; [reflexivity | apply IH]. Qed.
Lemma fold_nocmd : forall l, fold_left lstep l LNoCmd = LNoCmd.
Proof. induction l as [|c l IH]; [reflexivity | exact IH]. Qed.

Lemma has_name_nocmd : forall t, ~ has_name LNoCmd t.
Proof. intros t [H|[H|[ty H]]]; discriminate H. Qed.

Lemma to_upper_cr' : forall c, (to_upper c =? ch_CR)%N = (c =? ch_CR)%N.
Proof. exact Lemmas_C01s.to_upper_cr. Qed.

Lemma fold_qm : forall l t0 t, has_name (fold_left lstep l (LQm t0)) t -> t = t0.
Proof.
  induction l as [|c l IH]; intros t0 t H.
  - destruct H as [H|[H|[ty H]]]; inversion H; reflexivity.
  - cbn [fold_left] in H. unfold lstep at 2 in H. cbv zeta in H.
    destruct (to_upper c =? ch_LF)%N.
    + rewrite fold_end in H. destruct H as [H|[H|[ty H]]]; inversion H; reflexivity.
    + destruct (to_upper c =? ch_CR)%N; [apply IH; exact H|].
      rewrite fold_nocmd in H. destruct (has_name_nocmd _ H).
Qed.

Lemma name_char_not_special : forall u, is_name_char u = true ->
  (u =? ch_LF)%N = false /\ (u =? ch_CR)%N = false /\ (u =? ch_QM)%N = false /\ (u =? ch_EQ)%N = false.
Proof.
  intros u H. unfold is_name_char in H.
  repeat split; apply N.eqb_neq; intros ->; vm_compute in H; discriminate H.
Qed.

Definition nm (l : list N) : list N :=
  map to_upper (filter (fun c => negb (is_cr c)) (take_while name_or_cr l)).

Lemma is_cr_up : forall c, is_cr c = (to_upper c =? ch_CR)%N.
Proof. intros c. unfold is_cr. symmetry. apply Lemmas_C01s.to_upper_cr. Qed.

Lemma nm_cr : forall c l, (to_upper c =? ch_CR)%N = true -> nm (c :: l) = nm l.
Proof.
  intros c l H. unfold nm. cbn [take_while]. unfold name_or_cr at 1. rewrite is_cr_up, H.
  cbn [orb filter]. rewrite is_cr_up, H. reflexivity.
Qed.
Lemma nm_name : forall c l, (to_upper c =? ch_CR)%N = false -> is_name_char (to_upper c) = true ->
  nm (c :: l) = to_upper c :: nm l.
Proof.
  intros c l H1 H2. unfold nm. cbn [take_while]. unfold name_or_cr at 1. rewrite is_cr_up, H1, H2.
  cbn [orb filter]. rewrite is_cr_up, H1. reflexivity.
Qed.
Lemma nm_stop : forall c l, (to_upper c =? ch_CR)%N = false -> is_name_char (to_upper c) = false ->
  nm (c :: l) = [].
Proof.
  intros c l H1 H2. unfold nm. cbn [take_while]. unfold name_or_cr at 1. rewrite is_cr_up, H1, H2.
  reflexivity.
Qed.

Lemma fold_name : forall l t0 t, has_name (fold_left lstep l (LName t0)) t -> t = t0 ++ nm l.
Proof.
  induction l as [|c l IH]; intros t0 t H.
  - cbn. rewrite app_nil_r. destruct H as [H|[H|[ty H]]]; inversion H; reflexivity.
  - cbn [fold_left] in H. unfold lstep at 2 in H. cbv zeta in H.
    destruct (to_upper c =? ch_CR)%N eqn:EC.
    { assert (EL : (to_upper c =? ch_LF)%N = false)
        by (apply N.eqb_eq in EC; rewrite EC; reflexivity).
      rewrite EL in H. rewrite (nm_cr c l EC). apply IH. exact H. }
    destruct (is_name_char (to_upper c)) eqn:EN.
    { destruct (name_char_not_special _ EN) as (E1 & _ & E3 & E4). rewrite E1, E3, E4 in H.
      rewrite (nm_name c l EC EN). rewrite (IH _ _ H), <- app_assoc. reflexivity. }
    rewrite (nm_stop c l EC EN), app_nil_r.
    destruct (to_upper c =? ch_LF)%N.
    { destruct t0; [rewrite fold_nocmd in H; destruct (has_name_nocmd _ H)|].
      rewrite fold_end in H. destruct H as [H|[H|[ty H]]]; inversion H; reflexivity. }
    destruct (to_upper c =? ch_QM)%N.
    { destruct t0; [rewrite fold_nocmd in H; destruct (has_name_nocmd _ H)|].
      apply (fold_qm l). exact H. }
    destruct (to_upper c =? ch_EQ)%N.
    { destruct t0; [rewrite fold_nocmd in H; destruct (has_name_nocmd _ H)|].
      rewrite fold_end in H. destruct H as [H|[H|[ty H]]]; inversion H; reflexivity. }
    rewrite fold_nocmd in H. destruct (has_name_nocmd _ H).
Qed.

Lemma fold_a : forall l t, has_name (fold_left lstep l LA) t ->
  exists x r, drop_while is_cr l = x :: r /\ (to_upper x =? ch_T)%N = true /\
              t = nm r.
Proof.
  induction l as [|c l IH]; intros t H.
  - destruct H as [H|[H|[ty H]]]; discriminate H.
  - cbn [fold_left] in H. unfold lstep at 2 in H. cbv zeta in H. cbn [drop_while]. rewrite is_cr_up.
    destruct (to_upper c =? ch_T)%N eqn:ET.
    + assert (EC : (to_upper c =? ch_CR)%N = false) by (apply N.eqb_eq in ET; rewrite ET; reflexivity).
      rewrite EC. exists c, l. split; [reflexivity|]. split; [exact ET|]. exact (fold_name l [] t H).
    + destruct (to_upper c =? ch_CR)%N; [apply IH; exact H|].
      rewrite fold_nocmd in H. destruct (has_name_nocmd _ H).
Qed.

Lemma fold_blank : forall l t, has_name (fold_left lstep l LBlank) t -> typed_decl l = t.
Proof.
  unfold typed_decl, after_at. fold nm.
  induction l as [|c l IH]; intros t H.
  - destruct H as [H|[H|[ty H]]]; discriminate H.
  - cbn [fold_left] in H. unfold lstep at 2 in H. cbv zeta in H. cbn [drop_while]. rewrite is_cr_up.
    destruct (to_upper c =? ch_A)%N eqn:EA.
    + assert (EC : (to_upper c =? ch_CR)%N = false) by (apply N.eqb_eq in EA; rewrite EA; reflexivity).
      rewrite EC, EA. destruct (fold_a l t H) as (x & r & E1 & E2 & E3). rewrite E1, E2. symmetry. exact E3.
    + destruct (to_upper c =? ch_CR)%N; [apply IH; exact H|].
      rewrite fold_nocmd in H. destruct (has_name_nocmd _ H).
Qed.

(* whenever the line has a name (in particular in CS_COMMAND_FOUND, where resolve of it is not None),
   typed_of is: skip CRs, 'A', skip CRs, 'T', then the maximal run of name characters and CRs, CRs
   dropped, upper-cased *)
Theorem typed_of_decl : forall l t, has_name (scan l) t -> typed_of l = t /\ typed_decl l = t.
Proof.
  intros l t H. split; [|apply fold_blank; exact H].
  unfold typed_of. destruct H as [H|[H|[ty H]]]; rewrite H; reflexivity.
Qed.

Lemma typed_nonempty_has_name : forall l, typed_of l <> [] -> has_name (scan l) (typed_of l).
Proof.
  intros l. unfold typed_of, has_name. destruct (scan l) as [| |t|t|t ty|]; intros H; try congruence; eauto.
Qed.

Theorem typed_of_is_decl : forall l, typed_of l <> [] -> typed_of l = typed_decl l.
Proof.
  intros l H. symmetry. exact (proj2 (typed_of_decl l _ (typed_nonempty_has_name l H))).
Qed.
