(* Properties_C11s.v — property C11, the WHOLE-STREAM statement: the accepted output of any history
   from cat_init is the concatenation, in order of start, of whole units, each emitted by one producer.
   It closes the two links that the per-session theorems of Properties_C11.v / C11b.v leave open:
     (a) C11_wait_is_fresh: in every reachable state a machine that waits for the channel has a FRESH
         flush cursor, and (C11_flush_entered_only_from_wait) FLUSH is entered only from the wait state
         with the prepared unit untouched — so what a session emits (`remaining` at its opening) is the
         whole unit (C11_started_whole);
     (b) C11_stream / C11_stream_any: the composition over the history (session, gap without writes,
         session, ...), by an invariant over all operations.
   Hypotheses: the fresh-cursor invariant, the entry lemmas and the wholeness of the started units need
   NONE (arbitrary oracles, arbitrary descriptor, faults included); the stream theorems need only D3
   (no_uhold: an event-side handler never answers HOLD; C11_ex_hold_truncates shows it is necessary).
   Proofs are in Lemmas_C11s.v. *)
From Coq Require Import List NArith ZArith Bool Arith.
From CatV Require Import Bytes Defs Codec Fsm Script ResolveDefs TextDefs TraceDefs Skel SkelSim Lemmas_C11 Lemmas_C11s.
Import ListNotations.
Local Open Scope nat_scope.

(* ------------------------------------------------------------------ *)
(* definitions needed to read the statements (they live in Lemmas_C11s.v; restated as checked      *)
(* equations).  From Lemmas_C11.v / Properties_C11.v: nl_text, remaining, remaining_u, accepted_wr, *)
(* excl, upart, kpart;  TextDefs.text_of;  TraceDefs.hist w = rev (tr w).                           *)
(* ------------------------------------------------------------------ *)

(* did a machine move from its wait state into its FLUSH state between s and s' *)
Example def_enters_c : forall s s',
  enters_c s s' = cstate_beq (k_state (k s)) CS_FLUSH_WAIT && cstate_beq (k_state (k s')) CS_FLUSH.
Proof. reflexivity. Qed.
Example def_enters_u : forall s s',
  enters_u s s' = ustate_beq (u_state (u s)) US_FLUSH_WAIT && ustate_beq (u_state (u s')) US_FLUSH.
Proof. reflexivity. Qed.

(* the flush sessions opened between s and s': producer and state at the opening *)
Example def_new_starts : forall s s',
  new_starts s s' =
  (if enters_u s s' then [(UNSOL, s')] else []) ++ (if enters_c s s' then [(ATCMD, s')] else []).
Proof. reflexivity. Qed.

(* the unit a session will emit, as a function of the state at its opening (event machine: up to the
   closing newline, whose text is chosen from k_cr when the payload has been sent) *)
Example def_unit_of : forall x,
  unit_of x = match fst x with ATCMD => (ATCMD, remaining (snd x)) | UNSOL => (UNSOL, remaining_u (snd x)) end.
Proof. reflexivity. Qed.

(* the bytes of a unit tagged with its producer; cr: the closing newline of an event unit *)
Example def_unit_bytes : forall x cr,
  unit_bytes x cr = map (pair (fst x)) (match fst x with ATCMD => snd x | UNSOL => snd x ++ nl_text cr end).
Proof. reflexivity. Qed.
(* concatenation of units, one closing-newline flag per unit (ignored for command units) *)
Example def_stream : forall units crs,
  stream units crs = concat (map (fun p => unit_bytes (fst p) (snd p)) (combine units crs)).
Proof. reflexivity. Qed.

(* a whole unit: newline ++ text of the buffer ++ newline, or (a line of the command list) the bare
   text; event machine: newline ++ text of its buffer (then the closing newline) *)
Example def_whole_unit : forall x,
  whole_unit x =
  match fst x with
  | ATCMD => remaining (snd x) =
               nl_text (k_cr (k (snd x))) ++ text_of (cbuf (snd x)) ++ nl_text (k_cr (k (snd x))) \/
             remaining (snd x) = text_of (cbuf (snd x))
  | UNSOL => exists cr, remaining_u (snd x) = nl_text cr ++ text_of (ubuf (snd x))
  end.
Proof. reflexivity. Qed.

(* the stream after a history with accepted output acc and started units `units`:
   (K) the command machine owns the channel: the last started unit is its unit in flight, and
       sent ++ remaining = that unit;  (U) the same for the event machine (its closing newline cr1 is
       known once WS_AFTER is reached);  (I) nobody owns the channel: whole units only *)
Example def_stream_inv : forall s acc units,
  stream_inv s acc units =
  ((k_state (k s) = CS_FLUSH /\ u_state (u s) <> US_FLUSH /\
    exists units' U crs bytes, units = units' ++ [(ATCMD, U)] /\ length crs = length units' /\
      acc = stream units' crs ++ map (pair ATCMD) bytes /\ bytes ++ remaining s = U) \/
   (u_state (u s) = US_FLUSH /\ k_state (k s) <> CS_FLUSH /\
    exists units' U crs bytes, units = units' ++ [(UNSOL, U)] /\ length crs = length units' /\
      acc = stream units' crs ++ map (pair UNSOL) bytes /\
      if wstate_beq (u_wstate (u s)) WS_AFTER
      then exists cr1, bytes ++ remaining_u s = U ++ nl_text cr1
      else bytes ++ remaining_u s = U) \/
   (k_state (k s) <> CS_FLUSH /\ u_state (u s) <> US_FLUSH /\
    exists crs, length crs = length units /\ acc = stream units crs)).
Proof. reflexivity. Qed.

(* per-producer projections *)
Example def_proj : forall f l, proj f l = map snd (filter (fun p => fsm_beq (fst p) f) l).
Proof. reflexivity. Qed.
Example def_units_of : forall f units, units_of f units = filter (fun x => fsm_beq (fst x) f) units.
Proof. reflexivity. Qed.

Section C11s.
Variable D : desc.
Variables ioS muS hS : Type.
Variable io_read : ioS -> ioS * option N.
Variable io_write : ioS -> N -> ioS * bool.
Variable mu_lock : muS -> muS * bool.
Variable mu_unlock : muS -> muS * bool.
Variable h_call : hS -> hreq -> hS * hres.

Notation world := (Fsm.world ioS muS hS).
Notation st := (Fsm.st ioS muS hS).
Notation tr := (Fsm.tr ioS muS hS).
Notation hist := (TraceDefs.hist ioS muS hS).
Notation service_body := (Fsm.service_body D ioS muS hS io_read io_write mu_lock mu_unlock h_call).
Notation step := (Fsm.step D ioS muS hS io_read io_write mu_lock mu_unlock h_call).
Notation run := (Fsm.run D ioS muS hS io_read io_write mu_lock mu_unlock h_call).
Notation init m x mx h := (mkWorld ioS muS hS (init_state D m) x mx h []).
Notation reach m x mx h ops := (run (init m x mx h) ops).

(* the flush sessions opened along a history, in order (producer, state at the opening) ... *)
Notation starts := (Lemmas_C11s.starts D ioS muS hS io_read io_write mu_lock mu_unlock h_call).
Example def_starts : forall (w : world) o ops,
  starts w [] = [] /\
  starts w (o :: ops) = new_starts (st w) (st (step w o)) ++ starts (step w o) ops.
Proof. split; reflexivity. Qed.
(* ... and the units they emit *)
Notation started := (Lemmas_C11s.started D ioS muS hS io_read io_write mu_lock mu_unlock h_call).
Example def_started : forall (w : world) ops, started w ops = map unit_of (starts w ops).
Proof. reflexivity. Qed.

(* ================================================================== *)
(* P1. the fresh-cursor invariant — no hypothesis at all                *)
(* ================================================================== *)

(* in EVERY state of EVERY history from cat_init (arbitrary oracles and descriptor): a machine that
   waits for the channel has its cursor at position 0 of the first phase of its unit *)
Theorem C11_wait_is_fresh : forall m x mx h ops,
  let s := st (reach m x mx h ops) in
  (k_state (k s) = CS_FLUSH_WAIT ->
     k_position (k s) = 0 /\
     ((k_wstate (k s) = WS_BEFORE /\ k_wbuf (k s) = WB_NL (k_cr (k s))) \/
      (k_wstate (k s) = WS_AFTER /\ k_wbuf (k s) = WB_MAIN))) /\
  (u_state (u s) = US_FLUSH_WAIT ->
     u_position (u s) = 0 /\ u_wstate (u s) = WS_BEFORE /\ exists cr, u_wbuf (u s) = WB_NL cr).
Proof. exact (Lemmas_C11s.C11_wait_is_fresh_proof D ioS muS hS io_read io_write mu_lock mu_unlock h_call). Qed.

(* the continuation state of a flush (where the machine goes when the unit is out) is, in every
   reachable state, one of the states a flush is started with — never FLUSH or FLUSH_WAIT: a finished
   session is not replayed *)
Example def_wafter_ok : forall a b,
  wafter_ok_c a = match a with
                  | CS_IDLE | CS_AFTER_RESET | CS_AFTER_OK | CS_AFTER_FMT_READ | CS_AFTER_FMT_TEST
                  | CS_PRINT_CMD => true
                  | _ => false
                  end /\
  wafter_ok_u b = match b with US_IDLE | US_AFTER_OK | US_AFTER_FMT_READ | US_AFTER_FMT_TEST => true | _ => false end.
Proof. split; reflexivity. Qed.
Theorem C11_continuations : forall m x mx h ops,
  let s := st (reach m x mx h ops) in
  wafter_ok_c (k_wafter (k s)) = true /\ wafter_ok_u (u_wafter (u s)) = true.
Proof. exact (Lemmas_C11s.C11_continuations_proof D ioS muS hS io_read io_write mu_lock mu_unlock h_call). Qed.

(* one cat_service body, ANY world: CS_FLUSH is entered only from CS_FLUSH_WAIT, US_FLUSH only from
   US_FLUSH_WAIT, and the registers and buffer of the entering machine are those it had while waiting
   (kpart: everything but k_state and the hold registers; upart: everything but the queue) *)
Theorem C11_flush_entered_only_from_wait : forall w,
  let s := st w in let s' := st (fst (service_body w)) in
  (k_state (k s') = CS_FLUSH -> k_state (k s) <> CS_FLUSH ->
     k_state (k s) = CS_FLUSH_WAIT /\ u_state (u s') <> US_FLUSH /\ kpart s' = kpart s) /\
  (u_state (u s') = US_FLUSH -> u_state (u s) <> US_FLUSH ->
     u_state (u s) = US_FLUSH_WAIT /\ k_state (k s) <> CS_FLUSH /\ upart s' = upart (setu_state US_FLUSH s)).
Proof.
  exact (Lemmas_C11s.C11_flush_entered_only_from_wait_proof D ioS muS hS io_read io_write mu_lock mu_unlock h_call).
Qed.

(* the same for any API operation (service with a mutex that may fail, trigger, hold_exit, queries, ...) *)
Theorem C11_flush_entered_only_from_wait_op : forall w o,
  let s := st w in let s' := st (step w o) in
  (k_state (k s') = CS_FLUSH -> k_state (k s) <> CS_FLUSH ->
     k_state (k s) = CS_FLUSH_WAIT /\ u_state (u s') <> US_FLUSH /\ kpart s' = kpart s) /\
  (u_state (u s') = US_FLUSH -> u_state (u s) <> US_FLUSH ->
     u_state (u s) = US_FLUSH_WAIT /\ k_state (k s) <> CS_FLUSH /\ upart s' = upart (setu_state US_FLUSH s)).
Proof.
  exact (Lemmas_C11s.C11_flush_entered_only_from_wait_op_proof D ioS muS hS io_read io_write mu_lock mu_unlock h_call).
Qed.

(* no unit is lost or altered while its producer waits: a waiting machine keeps the unit it prepared
   (buffer, cursor, newline selection, continuation) and leaves its wait state only into FLUSH.
   The command machine's half needs D3 (an event-side HOLD would force CS_HOLD); the event machine's none *)
Theorem C11_wait_left_only_to_flush : forall w o,
  let s := st w in let s' := st (step w o) in
  ((forall hs q, unsol_req q = true -> r_code (snd (h_call hs q)) <> RC_HOLD) ->
   k_state (k s) = CS_FLUSH_WAIT ->
     kpart s' = kpart s /\ (k_state (k s') = CS_FLUSH_WAIT \/ k_state (k s') = CS_FLUSH)) /\
  (u_state (u s) = US_FLUSH_WAIT ->
     upart s' = upart s \/ (k_state (k s) <> CS_FLUSH /\ upart s' = upart (setu_state US_FLUSH s))).
Proof.
  exact (Lemmas_C11s.C11_wait_left_only_to_flush_proof D ioS muS hS io_read io_write mu_lock mu_unlock h_call).
Qed.

(* hence every session opened in a history emits a WHOLE unit: what remains to be sent at the
   opening is newline ++ text ++ newline (or the bare text of a list line) of the buffer as prepared *)
Theorem C11_started_whole : forall m x mx h ops,
  Forall whole_unit (starts (init m x mx h) ops).
Proof. exact (Lemmas_C11s.C11_starts_whole_proof D ioS muS hS io_read io_write mu_lock mu_unlock h_call). Qed.

(* an operation opens at most one session (the exclusion holds in all histories: C11_exclusion_history) *)
Theorem C11_one_start_per_op : forall s s', excl s' -> length (new_starts s s') <= 1.
Proof. exact Lemmas_C11s.new_starts_one. Qed.

(* ================================================================== *)
(* P2. the stream of a whole history — under D3 only                    *)
(* ================================================================== *)
Hypothesis no_uhold : forall hs q, unsol_req q = true -> r_code (snd (h_call hs q)) <> RC_HOLD.

(* ANY history from cat_init, at any point: the accepted output so far, plus what the unit in flight
   (if any) still has to send, is the concatenation in order of start of the units started *)
Theorem C11_stream_any : forall m x mx h ops,
  let w := reach m x mx h ops in
  stream_inv (st w) (accepted_wr (hist w)) (started (init m x mx h) ops).
Proof.
  exact (Lemmas_C11s.stream_inv_run D ioS muS hS io_read io_write mu_lock mu_unlock h_call no_uhold).
Qed.

(* the property: when neither machine is in its FLUSH state, the accepted output is EXACTLY the
   concatenation, in order of start, of the units started — each tagged throughout with its one
   producer, none interleaved, none lost, none duplicated, none truncated.  crs: the closing newline
   of each event unit (chosen when the unit closes; ignored for command units) *)
Theorem C11_stream : forall m x mx h ops,
  let w := reach m x mx h ops in
  k_state (k (st w)) <> CS_FLUSH -> u_state (u (st w)) <> US_FLUSH ->
  exists crs, length crs = length (started (init m x mx h) ops) /\
    accepted_wr (hist w) = stream (started (init m x mx h) ops) crs.
Proof.
  exact (Lemmas_C11s.C11_stream_proof D ioS muS hS io_read io_write mu_lock mu_unlock h_call no_uhold).
Qed.

(* each producer's bytes are its own units in its own order *)
Theorem C11_stream_per_producer : forall m x mx h ops,
  let w := reach m x mx h ops in
  k_state (k (st w)) <> CS_FLUSH -> u_state (u (st w)) <> US_FLUSH ->
  proj ATCMD (accepted_wr (hist w)) = concat (map snd (units_of ATCMD (started (init m x mx h) ops))) /\
  exists ucrs, length ucrs = length (units_of UNSOL (started (init m x mx h) ops)) /\
    proj UNSOL (accepted_wr (hist w)) =
      concat (map (fun p => snd (fst p) ++ nl_text (snd p))
                  (combine (units_of UNSOL (started (init m x mx h) ops)) ucrs)).
Proof.
  exact (Lemmas_C11s.C11_stream_per_producer_proof D ioS muS hS io_read io_write mu_lock mu_unlock h_call no_uhold).
Qed.

End C11s.

Print Assumptions C11_wait_is_fresh.
Print Assumptions C11_continuations.
Print Assumptions C11_flush_entered_only_from_wait.
Print Assumptions C11_flush_entered_only_from_wait_op.
Print Assumptions C11_wait_left_only_to_flush.
Print Assumptions C11_started_whole.
Print Assumptions C11_one_start_per_op.
Print Assumptions C11_stream_any.
Print Assumptions C11_stream.
Print Assumptions C11_stream_per_producer.

(* ------------------------------------------------------------------ *)
(* non-vacuity: computed examples                                       *)
(* ------------------------------------------------------------------ *)

(* one command "+X" with run and read handlers, no mutex, queue capacity 2 *)
Definition exD : desc :=
  mkDesc [[mkCmd [43; 88]%N None false true true false [] false false false]] [] 16 None 0%N 2 false.

Definition s_run := run exD sio smu shs s_read s_write s_lock s_unlock s_call.
Definition s_started := started exD sio smu shs s_read s_write s_lock s_unlock s_call.
Definition s_starts := starts exD sio smu shs s_read s_write s_lock s_unlock s_call.

(* a mixed run: input "AT+X?\r\n" "AT+X\r\n" "AT+X?\n"; four events (read of +X) triggered at three
   different moments; the read handler answers DATA_OK five times (then OK); 22 write attempts are
   answered by the schedule below (12 refusals) *)
Definition ex_w0 : sworld :=
  sinit exD []
        (mkSio [65;84;43;88;63;13;10; 65;84;43;88;13;10; 65;84;43;88;63;10]%N []
               [false; true; false; false; true; true; false; true; false; true; false; false; false; true;
                true; true; false; true; true; false; false; true])
        (mkSmu [] [])
        [((1, 0, 0), repeat (mkHres RC_DATA_OK None [] []) 5)].
Definition ex_ops : list op :=
  [OTrigger 0 T_READ] ++ repeat OService 12 ++ [OTrigger 0 T_READ; OTrigger 0 T_READ] ++
  repeat OService 40 ++ [OTrigger 0 T_READ] ++ repeat OService 120.

(* eight units were started, four by each producer, alternating; the event units open with "\n" or
   "\r\n" depending on k_cr at that moment *)
Example C11s_ex_started :
  s_started ex_w0 ex_ops =
  [(UNSOL, [10; 43; 88; 61]); (ATCMD, [13; 10; 43; 88; 61; 13; 10]);
   (UNSOL, [13; 10; 43; 88; 61]); (ATCMD, [13; 10; 79; 75; 13; 10]);
   (UNSOL, [13; 10; 43; 88; 61]); (ATCMD, [13; 10; 79; 75; 13; 10]);
   (UNSOL, [13; 10; 43; 88; 61]); (ATCMD, [10; 79; 75; 10])]%N.
Proof. vm_compute. reflexivity. Qed.

(* the run ends idle with everything consumed, and the accepted output (48 bytes) IS the
   concatenation of the eight units; the closing newlines of the event units: "\r\n" "\r\n" "\n" "\n" *)
Example C11s_ex_stream :
  let w := s_run ex_w0 ex_ops in
  k_state (k (st _ _ _ w)) = CS_IDLE /\ u_state (u (st _ _ _ w)) = US_IDLE /\
  inq (io _ _ _ w) = [] /\ wr_sched (io _ _ _ w) = [] /\
  length (accepted_wr (hist _ _ _ w)) = 48 /\
  accepted_wr (hist _ _ _ w) =
    stream (s_started ex_w0 ex_ops) [true; false; true; false; false; false; false; false].
Proof. vm_compute. repeat split; reflexivity. Qed.

(* every started unit of the run is a whole unit: checked on the states at the openings *)
Example C11s_ex_whole :
  map (fun x => match fst x with
                | ATCMD => (text_of (cbuf (snd x)), k_wstate (k (snd x)), k_position (k (snd x)))
                | UNSOL => (text_of (ubuf (snd x)), u_wstate (u (snd x)), u_position (u (snd x)))
                end) (s_starts ex_w0 ex_ops) =
  [([43; 88; 61], WS_BEFORE, 0%nat); ([43; 88; 61], WS_BEFORE, 0%nat); ([43; 88; 61], WS_BEFORE, 0%nat);
   ([79; 75], WS_BEFORE, 0%nat); ([43; 88; 61], WS_BEFORE, 0%nat); ([79; 75], WS_BEFORE, 0%nat);
   ([43; 88; 61], WS_BEFORE, 0%nat); ([79; 75], WS_BEFORE, 0%nat)]%N.
Proof. vm_compute. reflexivity. Qed.

(* in the middle of the run a unit is in flight.  After 30 operations the command machine owns the
   channel while the event machine waits (case K of stream_inv): accepted ++ rest of the unit in
   flight = the stream of the units started so far *)
Example C11s_ex_in_flight_cmd :
  let w := s_run ex_w0 (firstn 30 ex_ops) in
  k_state (k (st _ _ _ w)) = CS_FLUSH /\ u_state (u (st _ _ _ w)) = US_FLUSH_WAIT /\
  remaining (st _ _ _ w) <> [] /\
  accepted_wr (hist _ _ _ w) ++ map (pair ATCMD) (remaining (st _ _ _ w)) =
    stream (s_started ex_w0 (firstn 30 ex_ops)) [true; false].
Proof. vm_compute. repeat split; try reflexivity. discriminate. Qed.

(* after 40 operations the event machine owns it while the command machine waits (case U, closing
   newline not yet chosen) *)
Example C11s_ex_in_flight_uns :
  let w := s_run ex_w0 (firstn 40 ex_ops) in
  k_state (k (st _ _ _ w)) = CS_FLUSH_WAIT /\ u_state (u (st _ _ _ w)) = US_FLUSH /\
  u_wstate (u (st _ _ _ w)) = WS_MAIN /\ remaining_u (st _ _ _ w) <> [] /\
  s_started ex_w0 (firstn 40 ex_ops) =
    [(UNSOL, [10; 43; 88; 61]); (ATCMD, [13; 10; 43; 88; 61; 13; 10]); (UNSOL, [13; 10; 43; 88; 61])]%N /\
  accepted_wr (hist _ _ _ w) ++ map (pair UNSOL) (remaining_u (st _ _ _ w)) =
    stream (firstn 2 (s_started ex_w0 (firstn 40 ex_ops))) [true; false] ++
    map (pair UNSOL) [13; 10; 43; 88; 61]%N.
Proof. vm_compute. repeat split; try reflexivity. discriminate. Qed.

(* the hypothesis of the stream theorems is satisfiable: e.g. handlers that always answer OK *)
Example C11s_ex_no_uhold :
  forall (hs : unit) q, unsol_req q = true ->
    r_code (snd ((fun (h : unit) (_ : hreq) => (h, mkHres RC_OK None [] [])) hs q)) <> RC_HOLD.
Proof. intros hs q _. cbn. discriminate. Qed.

(* ... and NECESSARY: an event-side read handler answers HOLD while the command machine is sending
   "\r\nOK\r\n" (one byte sent): the command machine is forced to CS_HOLD, its unit is truncated; after
   cat_hold_exit a second "\r\nOK\r\n" is sent.  Two units were started (12 bytes), 7 bytes were
   accepted: no choice of crs makes the equality of C11_stream true *)
Definition ex_hold_w0 : sworld :=
  sinit exD [] (mkSio [65;84;43;88;13;10]%N [] []) (mkSmu [] []) [((1, 0, 0), [mkHres RC_HOLD None [] []])].
Definition ex_hold_ops : list op :=
  repeat OService 12 ++ [OTrigger 0 T_READ] ++ repeat OService 6 ++ [OHoldExit 0%Z] ++ repeat OService 40.
Example C11s_ex_hold_truncates :
  let w := s_run ex_hold_w0 ex_hold_ops in
  k_state (k (st _ _ _ w)) = CS_IDLE /\ u_state (u (st _ _ _ w)) = US_IDLE /\
  s_started ex_hold_w0 ex_hold_ops = [(ATCMD, [13; 10; 79; 75; 13; 10]); (ATCMD, [13; 10; 79; 75; 13; 10])]%N /\
  accepted_wr (hist _ _ _ w) =
    [(ATCMD, 13); (ATCMD, 13); (ATCMD, 10); (ATCMD, 79); (ATCMD, 75); (ATCMD, 13); (ATCMD, 10)]%N /\
  forall crs, length crs = 2 -> accepted_wr (hist _ _ _ w) <> stream (s_started ex_hold_w0 ex_hold_ops) crs.
Proof.
  vm_compute. repeat split; try reflexivity.
  intros [|a [|b [|c crs]]] L; try discriminate L. intro E. discriminate E.
Qed.
