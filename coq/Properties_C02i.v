(* Properties_C02i.v — property C02 at HISTORY level, strengthened (review of Properties_C02h.v).
   For ARBITRARY io / mutex / handler oracles and every list of API operations from cat_init in the
   supported domain, with the enable flags changed only between lines (flags_between_lines):

     C02_found_is_resolve'   (1) in CS_COMMAND_FOUND: the conclusion of C02_found_is_resolve AND the
                             typed name is not empty (resolve [] of a one-command table is Some 0), hence
                             equal to its declarative reading typed_decl, AND the line ends exactly where
                             the lookup was launched (`fresh`);
     C02_handler_step        (2) PER OCCURRENCE: the operation o that logs a command-side callback is a
                             cat_service call, and the history ops BEFORE o splits at a CS_COMMAND_FOUND
                             state wf of the SAME line: the selected command stays needed (and is the same)
                             at every point from wf up to `run ops`, every byte consumed since wf has been
                             APPENDED to wf's line (consumed = consumed wf ++ more and line = line wf ++
                             more: the line was not restarted, no new lookup), wf's line resolves to the
                             callback's command;
     C02_calls_one_line      per line: two callback operations between which the selected command stays
                             needed concern ONE command, the one the name rule selects for that line;
     C02_type_when_needed / C02_types_by_state / C02_handler_kind'
                             (3) the request type INCLUDING TEST (scope decision D9): whenever the selected
                             command c is needed,
                                 k_type = req_type (dispatch_accepts c F_TEST) (type announced at wf) more
                             i.e. TEST iff WRITE was announced, the first byte other than CR consumed
                             since is '?' and c serves TEST (test handler or variables, not implicit);
                             when the lookup was launched by a suffix (LF, '?' LF, '=': `by_suffix`), this
                             is a function of the line alone, k_type = type_of' c line; the callback's
                             kind EQUALS it.

   Two corrections to the targets as proposed, both witnessed below:
   * "the number of LF-terminated non-blank lines is the same at the FOUND point and at the call" is
     false for WRITE requests (the LF is consumed in between, ex_lines_differ); the same-line fact is
     stated with the bytes: everything consumed since has been appended to the line.
   * `k_type = type_of' c line` for ALL lines is false when the lookup was launched by the implicit-write
     rule in the middle of the name characters: after "ATD1?" the request is a WRITE with arguments
     "1?", whereas every scanner of the line alone reads the name "D1" and the suffix '?'
     (ex_implicit_not_by_line).  There the bytes after the launch are not determined by the line; the
     equality is stated relative to the FOUND point (req_type), and for the line alone under by_suffix.

   History theorems take the universally quantified oracle hypotheses no_uhold / handlers_valid
   (Lemmas_Domain.v).  `tr w` is newest first.  Proofs: Lemmas_C02i.v. *)
From Coq Require Import List NArith ZArith Bool Arith Lia.
From CatV Require Import Bytes Defs Codec Spec Fsm Script ResolveDefs Skel SkelSim EvSkelSim Lemmas_C03.
From CatV Require Lemmas_C01s Lemmas_C09 Lemmas_Calls.
From CatV Require Import Lemmas_C02h Lemmas_C02i.
Import ListNotations.
Local Open Scope nat_scope.

(* ------------------------------------------------------------------ *)
(* definitions used in the statements (checked equations)               *)
(* ------------------------------------------------------------------ *)
(* cur_line, lstep/scan, typed_of, type_of, typed_decl: Properties_C02h.v *)

(* the phases of a line, refined after '=' (the new bytes are compared as delivered, CR / LF / '?'
   are not letters):  XEq t = name '=' CR*;  XTest t = name '=' CR* '?' CR*;  XTestEnd t = ... LF;
   XTestX t = name '=' CR* '?' CR* then another byte;  XArgs t = name '=' CR* and a first argument
   byte other than '?';  XWEnd t = ... LF *)
Example def_xstep : forall p c,
  xstep p c =
  let u := to_upper c in
  match p with
  | XBlank => if (u =? ch_A)%N then XA else if (u =? ch_CR)%N then XBlank else XNoCmd
  | XA => if (u =? ch_T)%N then XName [] else if (u =? ch_CR)%N then XA else XNoCmd
  | XName t =>
      if (u =? ch_LF)%N then match t with [] => XNoCmd | _ => XEnd t T_RUN end
      else if (u =? ch_CR)%N then XName t
      else if (u =? ch_QM)%N then match t with [] => XNoCmd | _ => XQm t end
      else if (u =? ch_EQ)%N then match t with [] => XNoCmd | _ => XEq t end
      else if is_name_char u then XName (t ++ [u])
      else XNoCmd
  | XQm t => if (u =? ch_LF)%N then XEnd t T_READ else if (u =? ch_CR)%N then XQm t else XNoCmd
  | XEnd t ty => XEnd t ty
  | XEq t =>
      if (c =? ch_LF)%N then XWEnd t else if (c =? ch_CR)%N then XEq t
      else if (c =? ch_QM)%N then XTest t else XArgs t
  | XTest t =>
      if (c =? ch_LF)%N then XTestEnd t else if (c =? ch_CR)%N then XTest t else XTestX t
  | XTestEnd t => XTestEnd t
  | XTestX t => XTestX t
  | XArgs t => if (c =? ch_LF)%N then XWEnd t else XArgs t
  | XWEnd t => XWEnd t
  | XNoCmd => XNoCmd
  end.
Proof. reflexivity. Qed.
Example def_xscan : forall l, xscan l = fold_left xstep l XBlank.
Proof. reflexivity. Qed.

(* forgetting the argument part gives the phases of Properties_C02h.v *)
Example def_xold : forall p,
  xold p = match p with
           | XBlank => LBlank | XA => LA | XName t => LName t | XQm t => LQm t | XEnd t ty => LEnd t ty
           | XEq t | XTest t | XTestEnd t | XTestX t | XArgs t | XWEnd t => LEnd t T_WRITE
           | XNoCmd => LNoCmd
           end.
Proof. reflexivity. Qed.
Theorem xscan_refines_scan : forall l, xold (xscan l) = scan l.
Proof. exact Lemmas_C02i.xold_scan. Qed.

(* the line has the shape  name '=' CR* '?' ... *)
Example def_test_shape : forall p,
  test_shape p = match p with XTest _ | XTestEnd _ | XTestX _ => true | _ => false end.
Proof. reflexivity. Qed.
(* D9: "=?" is a TEST only for a command with a test handler or variables that is not implicit-write *)
Example def_serves_test : forall c,
  serves_test c = dispatch_accepts c F_TEST /\
  dispatch_accepts c F_TEST = ((c_htest c || nonempty (c_vars c)) && negb (c_implicit c)).
Proof. intros c. split; reflexivity. Qed.
(* the request type of a line for the selected command c *)
Example def_type_of' : forall c l,
  type_of' c l = if test_shape (xscan l) then (if serves_test c then T_TEST else T_WRITE) else type_of l.
Proof. reflexivity. Qed.
(* the lookup was launched right at the end of the line read so far / by a suffix (not by the
   implicit-write rule in the middle of the name characters) *)
Example def_fresh : forall p, fresh p = match p with XName _ | XEnd _ _ | XEq _ => true | _ => false end.
Proof. reflexivity. Qed.
Example def_by_suffix : forall p, by_suffix p = match p with XEnd _ _ | XEq _ => true | _ => false end.
Proof. reflexivity. Qed.
(* the first argument byte: the first byte other than CR *)
Example def_first_arg : forall l,
  first_arg l = match l with c :: r => if (c =? ch_CR)%N then first_arg r else Some c | [] => None end.
Proof. intros l. destruct l; reflexivity. Qed.
Example def_is_qm : forall o, is_qm o = match o with Some c => (c =? ch_QM)%N | None => false end.
Proof. reflexivity. Qed.
(* the request type, given the type announced when the lookup was launched, whether the selected
   command serves TEST, and the bytes consumed since *)
Example def_req_type : forall tc ty0 more,
  req_type tc ty0 more =
  match ty0 with T_WRITE => if tc && is_qm (first_arg more) then T_TEST else T_WRITE | t => t end.
Proof. intros tc ty0 more. destruct ty0; reflexivity. Qed.

(* when the lookup was launched by a suffix, req_type is type_of' of the line alone *)
Theorem C02_type_of'_by_suffix : forall c h more, by_suffix (xscan h) = true ->
  type_of' c (h ++ more) = req_type (serves_test c) (type_of h) more.
Proof. exact Lemmas_C02i.type_of'_split. Qed.
Print Assumptions xscan_refines_scan.
Print Assumptions C02_type_of'_by_suffix.

(* ================================================================== *)
(* the theorems                                                          *)
(* ================================================================== *)
Section C02i.
Variable D : desc.
Variables ioS muS hS : Type.
Variable io_read : ioS -> ioS * option N.
Variable io_write : ioS -> N -> ioS * bool.
Variable mu_lock : muS -> muS * bool.
Variable mu_unlock : muS -> muS * bool.
Variable h_call : hS -> hreq -> hS * hres.
(* D3: event-side handlers do not return HOLD; events triggered from handlers name pool commands *)
Hypothesis no_uhold : forall hs q, unsol_req q = true -> r_code (snd (h_call hs q)) <> RC_HOLD.
Hypothesis handlers_valid : forall hs q, Forall (valid_icall D) (r_calls (snd (h_call hs q))).

Notation world := (Fsm.world ioS muS hS).
Notation mkWorld := (Fsm.mkWorld ioS muS hS).
Notation st := (Fsm.st ioS muS hS).
Notation tr := (Fsm.tr ioS muS hS).
Notation step := (Fsm.step D ioS muS hS io_read io_write mu_lock mu_unlock h_call).
Notation run := (Fsm.run D ioS muS hS io_read io_write mu_lock mu_unlock h_call).
Notation reach m x mx h ops := (run (mkWorld (init_state D m) x mx h []) ops).
Notation flags_between_lines :=
  (Lemmas_C09.flags_between_lines D ioS muS hS io_read io_write mu_lock mu_unlock h_call).
Notation consumed := Lemmas_C01s.consumed.
(* the line in progress in world w *)
Notation line w := (cur_line (consumed (tr w))).
Notation on_line := (Lemmas_C02i.on_line D ioS muS hS io_read io_write mu_lock mu_unlock h_call).

(* 1. the positive half, with the missing conjuncts *)
Theorem C02_found_is_resolve' : forall m x mx h ops,
  wf_desc D m -> Forall (valid_op D) ops ->
  flags_between_lines (mkWorld (init_state D m) x mx h []) ops ->
  let w := reach m x mx h ops in
  k_state (k (st w)) = CS_COMMAND_FOUND ->
  (k_cmd (k (st w)) = resolve (typed_of (line w)) (enabled D (st w)) (cmds D) /\
   k_cmd (k (st w)) <> None /\
   k_type (k (st w)) = type_of (line w)) /\
  typed_of (line w) <> [] /\
  typed_of (line w) = typed_decl (line w) /\
  fresh (xscan (line w)) = true.
Proof.
  exact (Lemmas_C02i.C02_found_is_resolve'_proof D ioS muS hS io_read io_write mu_lock mu_unlock h_call
           no_uhold handlers_valid).
Qed.

(* "the world run w0 ops is on the line whose lookup selected command number ci = c" *)
Example def_on_line : forall ops (w0 : world) ci c,
  on_line ops w0 ci c =
  (exists ops0 opsm, ops = ops0 ++ opsm /\
    let wf := run w0 ops0 in let w := run w0 ops in
    k_state (k (st wf)) = CS_COMMAND_FOUND /\
    resolve (typed_of (line wf)) (enabled D (st wf)) (cmds D) = Some ci /\
    nth_error (cmds D) ci = Some c /\
    typed_of (line wf) <> [] /\ typed_of (line wf) = typed_decl (line wf) /\
    fresh (xscan (line wf)) = true /\
    (forall j, j <= length opsm -> Lemmas_C09.needs_cmd (st (run w0 (ops0 ++ firstn j opsm))) = true) /\
    (forall j, j <= length opsm -> k_cmd (k (st (run w0 (ops0 ++ firstn j opsm)))) = Some ci) /\
    exists more,
      consumed (tr w) = consumed (tr wf) ++ more /\ line w = line wf ++ more /\
      k_type (k (st w)) = req_type (serves_test c) (type_of (line wf)) more /\
      (by_suffix (xscan (line wf)) = true -> k_type (k (st w)) = type_of' c (line w))).
Proof. reflexivity. Qed.

(* 2. per occurrence: for every history ops in the domain and every further operation o, if o logs
   the command-side callback q (it is among the NEW events of that step), then o is cat_service, the
   machine is in the callback's state with the callback's command and request type, and ops splits
   at the CS_COMMAND_FOUND state wf of the same line (spelled out; = on_line ops w0 (req_cmd q) c) *)
Theorem C02_handler_step : forall m x mx h ops o new q code,
  wf_desc D m -> Forall (valid_op D) (ops ++ [o]) ->
  let w0 := mkWorld (init_state D m) x mx h [] in
  flags_between_lines w0 ops ->
  tr (step (run w0 ops) o) = new ++ tr (run w0 ops) ->
  In (ECall q code) new -> Lemmas_Calls.ev_side q = false ->
  o = OService /\
  (let s := st (run w0 ops) in
   k_cmd (k s) = Some (req_cmd q) /\ k_state (k s) = Lemmas_Calls.call_state q /\
   k_type (k s) = Lemmas_Calls.kind_type q) /\
  exists c ops0 opsm, ops = ops0 ++ opsm /\
    let wf := run w0 ops0 in let w := run w0 ops in
    k_state (k (st wf)) = CS_COMMAND_FOUND /\
    resolve (typed_of (line wf)) (enabled D (st wf)) (cmds D) = Some (req_cmd q) /\
    nth_error (cmds D) (req_cmd q) = Some c /\
    typed_of (line wf) <> [] /\ typed_of (line wf) = typed_decl (line wf) /\
    fresh (xscan (line wf)) = true /\
    (forall j, j <= length opsm -> Lemmas_C09.needs_cmd (st (run w0 (ops0 ++ firstn j opsm))) = true) /\
    (forall j, j <= length opsm -> k_cmd (k (st (run w0 (ops0 ++ firstn j opsm)))) = Some (req_cmd q)) /\
    exists more,
      consumed (tr w) = consumed (tr wf) ++ more /\ line w = line wf ++ more /\
      k_type (k (st w)) = req_type (serves_test c) (type_of (line wf)) more /\
      (by_suffix (xscan (line wf)) = true -> k_type (k (st w)) = type_of' c (line w)).
Proof.
  exact (Lemmas_C02i.C02_call_step_proof D ioS muS hS io_read io_write mu_lock mu_unlock h_call
           no_uhold handlers_valid).
Qed.

(* 2'. per line: two callback operations (o1 after ops1, o2 after ops2 = ops1 ++ o1 :: mid) between
   which the selected command stays needed: ONE command, one CS_COMMAND_FOUND state, one line *)
Theorem C02_calls_one_line : forall m x mx h ops1 o1 mid o2 new1 new2 q1 q2 code1 code2,
  let ops2 := ops1 ++ o1 :: mid in
  wf_desc D m -> Forall (valid_op D) (ops2 ++ [o2]) ->
  let w0 := mkWorld (init_state D m) x mx h [] in
  flags_between_lines w0 ops2 ->
  tr (step (run w0 ops1) o1) = new1 ++ tr (run w0 ops1) ->
  In (ECall q1 code1) new1 -> Lemmas_Calls.ev_side q1 = false ->
  tr (step (run w0 ops2) o2) = new2 ++ tr (run w0 ops2) ->
  In (ECall q2 code2) new2 -> Lemmas_Calls.ev_side q2 = false ->
  (forall j, j <= length (o1 :: mid) ->
     Lemmas_C09.needs_cmd (st (run w0 (ops1 ++ firstn j (o1 :: mid)))) = true) ->
  req_cmd q2 = req_cmd q1 /\
  exists c ops0 opsm, ops1 = ops0 ++ opsm /\
    let wf := run w0 ops0 in
    k_state (k (st wf)) = CS_COMMAND_FOUND /\
    resolve (typed_of (line wf)) (enabled D (st wf)) (cmds D) = Some (req_cmd q1) /\
    nth_error (cmds D) (req_cmd q1) = Some c /\
    (exists more1, consumed (tr (run w0 ops1)) = consumed (tr wf) ++ more1 /\
                   line (run w0 ops1) = line wf ++ more1 /\
                   Lemmas_Calls.kind_type q1 = req_type (serves_test c) (type_of (line wf)) more1) /\
    (exists more2, consumed (tr (run w0 ops2)) = consumed (tr wf) ++ more2 /\
                   line (run w0 ops2) = line wf ++ more2 /\
                   Lemmas_Calls.kind_type q2 = req_type (serves_test c) (type_of (line wf)) more2).
Proof.
  exact (Lemmas_C02i.C02_calls_one_line_proof D ioS muS hS io_read io_write mu_lock mu_unlock h_call
           no_uhold handlers_valid).
Qed.

(* 3a. the request type whenever the selected command is needed *)
Theorem C02_type_when_needed : forall m x mx h ops,
  wf_desc D m -> Forall (valid_op D) ops ->
  let w0 := mkWorld (init_state D m) x mx h [] in
  flags_between_lines w0 ops ->
  Lemmas_C09.needs_cmd (st (run w0 ops)) = true ->
  exists ci c, k_cmd (k (st (run w0 ops))) = Some ci /\ on_line ops w0 ci c.
Proof.
  exact (Lemmas_C02i.C02_type_when_needed_proof D ioS muS hS io_read io_write mu_lock mu_unlock h_call
           no_uhold handlers_valid).
Qed.

(* the states of a TEST request (with their after-flush continuations), of a WRITE request *)
Example def_test_state : forall s,
  test_state s =
  (k_state (k s) = CS_WAIT_TEST_ACK \/ k_state (k s) = CS_FORMAT_TEST_ARGS \/ k_state (k s) = CS_TEST_LOOP \/
   k_state (k s) = CS_AFTER_FMT_TEST \/
   ((k_state (k s) = CS_FLUSH_WAIT \/ k_state (k s) = CS_FLUSH) /\ k_wafter (k s) = CS_AFTER_FMT_TEST)).
Proof. reflexivity. Qed.
Example def_write_state : forall s,
  write_state s =
  (k_state (k s) = CS_PARSE_COMMAND_ARGS \/ k_state (k s) = CS_PARSE_WRITE_ARGS \/ k_state (k s) = CS_WRITE_LOOP).
Proof. reflexivity. Qed.

(* 3b. by state: in the TEST states the request type is T_TEST, WRITE was announced, the first
   argument byte is '?' and the selected command serves TEST (for a lookup launched by a suffix: the
   line has the "=?" shape); in the WRITE states the request type is T_WRITE and NOT (first argument
   byte '?' and a TEST-serving command) *)
Theorem C02_types_by_state : forall m x mx h ops,
  wf_desc D m -> Forall (valid_op D) ops ->
  let w0 := mkWorld (init_state D m) x mx h [] in
  flags_between_lines w0 ops ->
  let w := run w0 ops in
  test_state (st w) \/ write_state (st w) ->
  exists ci c ops0 opsm more, ops = ops0 ++ opsm /\
    let wf := run w0 ops0 in
    k_state (k (st wf)) = CS_COMMAND_FOUND /\
    resolve (typed_of (line wf)) (enabled D (st wf)) (cmds D) = Some ci /\
    nth_error (cmds D) ci = Some c /\ k_cmd (k (st w)) = Some ci /\
    consumed (tr w) = consumed (tr wf) ++ more /\ line w = line wf ++ more /\
    type_of (line wf) = T_WRITE /\
    (test_state (st w) ->
       k_type (k (st w)) = T_TEST /\ serves_test c = true /\ is_qm (first_arg more) = true /\
       (by_suffix (xscan (line wf)) = true -> test_shape (xscan (line w)) = true)) /\
    (write_state (st w) ->
       k_type (k (st w)) = T_WRITE /\ (serves_test c = true -> is_qm (first_arg more) = false) /\
       (by_suffix (xscan (line wf)) = true -> serves_test c = true -> test_shape (xscan (line w)) = false)).
Proof.
  exact (Lemmas_C02i.C02_types_by_state_proof D ioS muS hS io_read io_write mu_lock mu_unlock h_call
           no_uhold handlers_valid).
Qed.

(* 3c. the kind of every command-side callback EQUALS the request type of its line *)
Theorem C02_handler_kind' : forall m x mx h ops o new q code,
  wf_desc D m -> Forall (valid_op D) (ops ++ [o]) ->
  let w0 := mkWorld (init_state D m) x mx h [] in
  flags_between_lines w0 ops ->
  tr (step (run w0 ops) o) = new ++ tr (run w0 ops) ->
  In (ECall q code) new -> Lemmas_Calls.ev_side q = false ->
  exists c ops0 opsm more, ops = ops0 ++ opsm /\
    let wf := run w0 ops0 in let w := run w0 ops in
    k_state (k (st wf)) = CS_COMMAND_FOUND /\
    resolve (typed_of (line wf)) (enabled D (st wf)) (cmds D) = Some (req_cmd q) /\
    nth_error (cmds D) (req_cmd q) = Some c /\
    consumed (tr w) = consumed (tr wf) ++ more /\ line w = line wf ++ more /\
    Lemmas_Calls.kind_type q = req_type (serves_test c) (type_of (line wf)) more /\
    (by_suffix (xscan (line wf)) = true -> Lemmas_Calls.kind_type q = type_of' c (line w)).
Proof.
  exact (Lemmas_C02i.C02_handler_kind'_proof D ioS muS hS io_read io_write mu_lock mu_unlock h_call
           no_uhold handlers_valid).
Qed.

End C02i.

Print Assumptions C02_found_is_resolve'.
Print Assumptions C02_handler_step.
Print Assumptions C02_calls_one_line.
Print Assumptions C02_type_when_needed.
Print Assumptions C02_types_by_state.
Print Assumptions C02_handler_kind'.

(* ------------------------------------------------------------------ *)
(* non-vacuity                                                          *)
(* ------------------------------------------------------------------ *)
Module Examples.

Definition mkc (nm : list N) (hw hr hrun ht : bool) (vars : list var) (imp : bool) : cmd :=
  mkCmd nm None hw hr hrun ht vars false false imp.
Definition v_u8 := mkVar None VUint 1 RW false false 0.
(* 0 "+W" (write handler; no test handler, no variables)   1 "+TEST" (run, test handler)
   2 "+GET" (one uint8 variable, no handlers)   3 "D" (implicit write) *)
Definition exD : desc :=
  mkDesc [[mkc [43;87]%N true false false false [] false;
           mkc [43;84;69;83;84]%N false false true true [] false;
           mkc [43;71;69;84]%N false false false false [v_u8] false;
           mkc [68]%N true false false false [] true]]
         [] 32 None 0%N 2 false.
Definition exM : list (list N) := [[7%N]].
Definition cW : cmd := mkc [43;87]%N true false false false [] false.
Definition cTEST : cmd := mkc [43;84;69;83;84]%N false false true true [] false.
Definition cGET : cmd := mkc [43;71;69;84]%N false false false false [v_u8] false.
Definition cD : cmd := mkc [68]%N true false false false [] true.

Definition ex_call (n : nat) (q : hreq) : nat * hres := (S n, default_res q).
Example ex_no_uhold : forall hs q, unsol_req q = true -> r_code (snd (ex_call hs q)) <> RC_HOLD.
Proof. intros hs q _. destruct q; discriminate. Qed.
Example ex_handlers_valid : forall hs q, Forall (valid_icall exD) (r_calls (snd (ex_call hs q))).
Proof. intros hs q. destruct q; constructor. Qed.
Example ex_wf : wf_desc exD exM.
Proof.
  unfold wf_desc. cbn. repeat split; try lia;
    repeat constructor; unfold wf_var, hexbuf_nonempty; cbn; eauto; try discriminate; try lia.
Qed.

Definition exW0 (input : list N) (rs : list bool) : world sio smu nat :=
  mkWorld sio smu nat (init_state exD exM) (mkSio input rs []) (mkSmu [] []) 0 [].
Definition exRun (input : list N) (rs : list bool) (ops : list op) : world sio smu nat :=
  run exD sio smu nat s_read s_write s_lock s_unlock ex_call (exW0 input rs) ops.
Definition exStep (w : world sio smu nat) (o : op) : world sio smu nat :=
  step exD sio smu nat s_read s_write s_lock s_unlock ex_call w o.
Definition ex_fbl (input : list N) (rs : list bool) (ops : list op) : Prop :=
  Lemmas_C09.flags_between_lines exD sio smu nat s_read s_write s_lock s_unlock ex_call (exW0 input rs) ops.
Definition ex_consumed (w : world sio smu nat) : list N := Lemmas_C01s.consumed (tr _ _ _ w).
Definition ex_line (w : world sio smu nat) : list N := cur_line (ex_consumed w).
(* state, selected command, request type; line in progress and its phase *)
Definition obs (w : world sio smu nat) :=
  (k_state (k (st _ _ _ w)), k_cmd (k (st _ _ _ w)), k_type (k (st _ _ _ w)), ex_line w, xscan (ex_line w)).
Definition ex_calls (w : world sio smu nat) : list hreq :=
  flat_map (fun e => match e with ECall q _ => [q] | _ => [] end) (rev (tr _ _ _ w)).
(* the events the operation o adds to the trace of w *)
Definition ex_new (w : world sio smu nat) (o : op) : list event :=
  firstn (length (tr _ _ _ (exStep w o)) - length (tr _ _ _ w)) (tr _ _ _ (exStep w o)).
Definition svc (n : nat) : list op := repeat OService n.

Lemma valid_service : forall n, Forall (valid_op exD) (svc n).
Proof. intros n. apply Forall_forall. intros o H. apply repeat_spec in H. subst o. exact I. Qed.
Lemma valid_service1 : forall n, Forall (valid_op exD) (svc n ++ [OService]).
Proof. intros n. apply Forall_app. split; [apply valid_service | repeat constructor]. Qed.
Lemma fbl_service : forall n input rs, ex_fbl input rs (svc n).
Proof.
  intros n input rs. unfold ex_fbl. generalize (exW0 input rs).
  induction n as [|n IH]; intros w; cbn [svc repeat Lemmas_C09.flags_between_lines]; [exact I|].
  split; [intros X; discriminate X | apply IH].
Qed.

(* ---- the theorems applied to abstract runs (instantiated below) ---- *)
Definition ex_step_concl (input : list N) (rs : list bool) (ops : list op) (o : op) (q : hreq) : Prop :=
  o = OService /\
  (let s := st _ _ _ (exRun input rs ops) in
   k_cmd (k s) = Some (req_cmd q) /\ k_state (k s) = Lemmas_Calls.call_state q /\
   k_type (k s) = Lemmas_Calls.kind_type q) /\
  exists c, Lemmas_C02i.on_line exD sio smu nat s_read s_write s_lock s_unlock ex_call ops (exW0 input rs)
              (req_cmd q) c.
Lemma ex_step_applies : forall input rs ops o new q code,
  Forall (valid_op exD) (ops ++ [o]) -> ex_fbl input rs ops ->
  tr _ _ _ (exStep (exRun input rs ops) o) = new ++ tr _ _ _ (exRun input rs ops) ->
  In (ECall q code) new -> Lemmas_Calls.ev_side q = false ->
  ex_step_concl input rs ops o q.
Proof.
  intros input rs ops o new q code H1 H2 H3 H4 H5.
  exact (Lemmas_C02i.C02_call_step_proof exD sio smu nat s_read s_write s_lock s_unlock ex_call ex_no_uhold
           ex_handlers_valid exM (mkSio input rs []) (mkSmu [] []) 0 ops o new q code ex_wf H1 H2 H3 H4 H5).
Qed.

Definition ex_state_concl (input : list N) (rs : list bool) (ops : list op) : Prop :=
  let w0 := exW0 input rs in let w := exRun input rs ops in
  exists ci c ops0 opsm more, ops = ops0 ++ opsm /\
    let wf := exRun input rs ops0 in
    k_state (k (st _ _ _ wf)) = CS_COMMAND_FOUND /\
    resolve (typed_of (ex_line wf)) (enabled exD (st _ _ _ wf)) (cmds exD) = Some ci /\
    nth_error (cmds exD) ci = Some c /\ k_cmd (k (st _ _ _ w)) = Some ci /\
    ex_consumed w = ex_consumed wf ++ more /\ ex_line w = ex_line wf ++ more /\
    type_of (ex_line wf) = T_WRITE /\
    (test_state (st _ _ _ w) ->
       k_type (k (st _ _ _ w)) = T_TEST /\ serves_test c = true /\ is_qm (first_arg more) = true /\
       (by_suffix (xscan (ex_line wf)) = true -> test_shape (xscan (ex_line w)) = true)) /\
    (write_state (st _ _ _ w) ->
       k_type (k (st _ _ _ w)) = T_WRITE /\ (serves_test c = true -> is_qm (first_arg more) = false) /\
       (by_suffix (xscan (ex_line wf)) = true -> serves_test c = true -> test_shape (xscan (ex_line w)) = false)).
Lemma ex_state_applies : forall input rs ops,
  Forall (valid_op exD) ops -> ex_fbl input rs ops ->
  test_state (st _ _ _ (exRun input rs ops)) \/ write_state (st _ _ _ (exRun input rs ops)) ->
  ex_state_concl input rs ops.
Proof.
  intros input rs ops H1 H2 H3.
  exact (C02_types_by_state exD sio smu nat s_read s_write s_lock s_unlock ex_call ex_no_uhold
           ex_handlers_valid exM (mkSio input rs []) (mkSmu [] []) 0 ops ex_wf H1 H2 H3).
Qed.

(* ---- a. two consecutive identical lines "AT+W=1": the SAME handler request twice ---- *)
Definition in_a : list N := [65;84;43;87;61;49;10;65;84;43;87;61;49;10]%N.
Definition qW1 : hreq := HWrite 0 [49; 0]%N 1 0.
Example ex_a :
  ex_calls (exRun in_a [] (svc 200)) = [qW1; qW1] /\
  (* first line: CS_COMMAND_FOUND after 14 calls, the callback is logged by call 18 *)
  obs (exRun in_a [] (svc 14)) = (CS_COMMAND_FOUND, Some 0, T_WRITE, [65;84;43;87;61]%N, XEq [43;87]%N) /\
  ex_calls (exRun in_a [] (svc 17)) = [] /\ ex_calls (exRun in_a [] (svc 18)) = [qW1] /\
  (* second line: CS_COMMAND_FOUND after 41 calls, the callback is logged by call 45 *)
  obs (exRun in_a [] (svc 41)) = (CS_COMMAND_FOUND, Some 0, T_WRITE, [65;84;43;87;61]%N, XEq [43;87]%N) /\
  ex_consumed (exRun in_a [] (svc 41)) = [65;84;43;87;61;49;10;65;84;43;87;61]%N /\
  ex_calls (exRun in_a [] (svc 44)) = [qW1] /\ ex_calls (exRun in_a [] (svc 45)) = [qW1; qW1] /\
  (* in between the selected command is not needed *)
  Lemmas_C09.needs_cmd (st _ _ _ (exRun in_a [] (svc 25))) = false.
Proof. vm_compute. repeat split; reflexivity. Qed.

Example ex_a_new1 :
  tr _ _ _ (exStep (exRun in_a [] (svc 17)) OService) =
  ex_new (exRun in_a [] (svc 17)) OService ++ tr _ _ _ (exRun in_a [] (svc 17)) /\
  In (ECall qW1 3%Z) (ex_new (exRun in_a [] (svc 17)) OService).
Proof. vm_compute. split; [reflexivity | auto 10]. Qed.
Example ex_a_new2 :
  tr _ _ _ (exStep (exRun in_a [] (svc 44)) OService) =
  ex_new (exRun in_a [] (svc 44)) OService ++ tr _ _ _ (exRun in_a [] (svc 44)) /\
  In (ECall qW1 3%Z) (ex_new (exRun in_a [] (svc 44)) OService).
Proof. vm_compute. split; [reflexivity | auto 10]. Qed.

(* C02_handler_step applied to each of the two occurrences *)
Example ex_a_first : ex_step_concl in_a [] (svc 17) OService qW1.
Proof.
  exact (ex_step_applies in_a [] (svc 17) OService _ qW1 3%Z (valid_service1 17) (fbl_service 17 in_a [])
           (proj1 ex_a_new1) (proj2 ex_a_new1) eq_refl).
Qed.
Example ex_a_second : ex_step_concl in_a [] (svc 44) OService qW1.
Proof.
  exact (ex_step_applies in_a [] (svc 44) OService _ qW1 3%Z (valid_service1 44) (fbl_service 44 in_a [])
           (proj1 ex_a_new2) (proj2 ex_a_new2) eq_refl).
Qed.

(* the per-occurrence form tells them apart: a witness of the SECOND occurrence (a split of the 44
   operations before it with the selected command needed throughout) cannot lie on the first line *)
Example ex_a_second_witness : forall ops0 opsm, svc 44 = ops0 ++ opsm ->
  (forall j, j <= length opsm ->
     Lemmas_C09.needs_cmd (st _ _ _ (exRun in_a [] (ops0 ++ firstn j opsm))) = true) ->
  25 < length ops0.
Proof.
  intros ops0 opsm E H. destruct (Nat.lt_ge_cases 25 (length ops0)) as [L|L]; [exact L|]. exfalso.
  assert (Len : length ops0 + length opsm = 44).
  { rewrite <- app_length, <- E. reflexivity. }
  specialize (H (25 - length ops0) ltac:(lia)).
  assert (X : ops0 ++ firstn (25 - length ops0) opsm = svc 25).
  { rewrite <- (firstn_app_2 (25 - length ops0) ops0 opsm), <- E.
    replace (length ops0 + (25 - length ops0)) with 25 by lia. reflexivity. }
  rewrite X in H. vm_compute in H. discriminate H.
Qed.

(* ... whereas the conclusion of C02_handler_is_resolved (Properties_C02h.v), which only asks for some
   split of the whole history, is satisfied for the request qW1 by the FIRST line's states *)
Example ex_a_old_form_ambiguous :
  svc 45 = svc 14 ++ svc 3 ++ OService :: svc 27 /\
  k_state (k (st _ _ _ (exRun in_a [] (svc 14)))) = CS_COMMAND_FOUND /\
  (forall j, j <= length (svc 3) ->
     Lemmas_C09.needs_cmd (st _ _ _ (exRun in_a [] (svc 14 ++ firstn j (svc 3)))) = true) /\
  k_state (k (st _ _ _ (exRun in_a [] (svc 14 ++ svc 3)))) = Lemmas_Calls.call_state qW1.
Proof.
  split; [reflexivity|]. split; [vm_compute; reflexivity|]. split; [|vm_compute; reflexivity].
  intros j Hj. do 4 (destruct j as [|j]; [vm_compute; reflexivity|]). cbn in Hj. lia.
Qed.

(* the count of LF-terminated non-blank lines is NOT the same at CS_COMMAND_FOUND and at the callback
   of a WRITE request (the line feed is consumed in between) *)
Example ex_lines_differ :
  Lemmas_C01s.nonblank_lines false (ex_consumed (exRun in_a [] (svc 14))) = 0 /\
  Lemmas_C01s.nonblank_lines false (ex_consumed (exRun in_a [] (svc 17))) = 1.
Proof. vm_compute. split; reflexivity. Qed.

(* ---- b. "=?" ---- *)
Definition t_test : list N := [65;84;43;84;69;83;84;61;63;10]%N.   (* AT+TEST=? *)
Definition t_get : list N := [65;84;43;71;69;84;61;63;10]%N.        (* AT+GET=?  *)
Definition t_w : list N := [65;84;43;87;61;63;10]%N.                (* AT+W=?    *)
Definition t_d : list N := [65;84;68;61;63;10]%N.                   (* ATD=?     *)
Definition t_d1 : list N := [65;84;68;49;63;10]%N.                  (* ATD1?     *)

(* a test handler: TEST, the test handler is called *)
Example ex_test :
  obs (exRun t_test [] (svc 33)) = (CS_TEST_LOOP, Some 1, T_TEST, t_test, XTestEnd [43;84;69;83;84]%N) /\
  ex_calls (exRun t_test [] (svc 200)) = [HTest ATCMD 1 [43;84;69;83;84;61;0]%N 6 16] /\
  serves_test cTEST = true /\ type_of' cTEST t_test = T_TEST /\ type_of t_test = T_WRITE.
Proof. vm_compute. repeat split; reflexivity. Qed.
(* variables, no test handler: TEST all the same (D9), no callback *)
Example ex_get :
  obs (exRun t_get [] (svc 28)) =
    (CS_WAIT_TEST_ACK, Some 2, T_TEST, [65;84;43;71;69;84;61;63]%N, XTest [43;71;69;84]%N) /\
  obs (exRun t_get [] (svc 29)) = (CS_FORMAT_TEST_ARGS, Some 2, T_TEST, t_get, XTestEnd [43;71;69;84]%N) /\
  ex_calls (exRun t_get [] (svc 200)) = [] /\
  serves_test cGET = true /\ type_of' cGET t_get = T_TEST.
Proof. vm_compute. repeat split; reflexivity. Qed.
(* neither test handler nor variables: the '?' is an ordinary argument byte of a WRITE *)
Example ex_w :
  obs (exRun t_w [] (svc 17)) = (CS_WRITE_LOOP, Some 0, T_WRITE, t_w, XTestEnd [43;87]%N) /\
  ex_calls (exRun t_w [] (svc 200)) = [HWrite 0 [63;0]%N 1 0] /\
  serves_test cW = false /\ type_of' cW t_w = T_WRITE.
Proof. vm_compute. repeat split; reflexivity. Qed.
(* an implicit-write command followed by "=?": a WRITE with the arguments "=?" *)
Example ex_d :
  obs (exRun t_d [] (svc 11)) = (CS_COMMAND_FOUND, Some 3, T_WRITE, [65;84;68]%N, XName [68]%N) /\
  obs (exRun t_d [] (svc 15)) = (CS_WRITE_LOOP, Some 3, T_WRITE, t_d, XTestEnd [68]%N) /\
  ex_calls (exRun t_d [] (svc 200)) = [HWrite 3 [61;63;0]%N 2 0] /\
  serves_test cD = false /\ type_of' cD t_d = T_WRITE /\
  req_type (serves_test cD) (type_of [65;84;68]%N) [61;63;10]%N = T_WRITE.
Proof. vm_compute. repeat split; reflexivity. Qed.

(* the lookup launched by the implicit-write rule: the request type is NOT a function of the line
   alone: after "ATD1?" the request is a WRITE (arguments "1?"), the line reads as name "D1", '?' *)
Example ex_implicit_not_by_line :
  obs (exRun t_d1 [] (svc 11)) = (CS_COMMAND_FOUND, Some 3, T_WRITE, [65;84;68]%N, XName [68]%N) /\
  by_suffix (xscan [65;84;68]%N) = false /\
  obs (exRun t_d1 [] (svc 15)) = (CS_WRITE_LOOP, Some 3, T_WRITE, t_d1, XEnd [68;49]%N T_READ) /\
  ex_calls (exRun t_d1 [] (svc 200)) = [HWrite 3 [49;63;0]%N 2 0] /\
  type_of' cD t_d1 = T_READ /\ type_of t_d1 = T_READ /\
  (* relative to the FOUND point the type is right *)
  req_type (serves_test cD) (type_of [65;84;68]%N) [49;63;10]%N = T_WRITE.
Proof. vm_compute. repeat split; reflexivity. Qed.

(* C02_types_by_state applied: "AT+GET=?" in CS_FORMAT_TEST_ARGS, "AT+W=?" in CS_WRITE_LOOP *)
Example ex_get_state : ex_state_concl t_get [] (svc 29).
Proof.
  apply (ex_state_applies t_get [] (svc 29) (valid_service 29) (fbl_service 29 t_get [])).
  left. right. left. vm_compute. reflexivity.
Qed.
Example ex_w_state : ex_state_concl t_w [] (svc 17).
Proof.
  apply (ex_state_applies t_w [] (svc 17) (valid_service 17) (fbl_service 17 t_w [])).
  right. right. right. vm_compute. reflexivity.
Qed.

(* ---- c. refused reads inside "=?": two refusals before the '?', one before the line feed ---- *)
Definition rs_r : list bool := [true;true;true;true;true;true;true;true;false;false;true;false;true].
Example ex_refused :
  obs (exRun t_test rs_r (svc 36)) = (CS_TEST_LOOP, Some 1, T_TEST, t_test, XTestEnd [43;84;69;83;84]%N) /\
  ex_calls (exRun t_test rs_r (svc 36)) = [] /\
  ex_calls (exRun t_test rs_r (svc 37)) = [HTest ATCMD 1 [43;84;69;83;84;61;0]%N 6 16] /\
  filter (fun e => match e with ERd None => true | _ => false end) (tr _ _ _ (exRun t_test rs_r (svc 36)))
    = [ERd None; ERd None; ERd None].
Proof. vm_compute. repeat split; reflexivity. Qed.
Definition qT : hreq := HTest ATCMD 1 [43;84;69;83;84;61;0]%N 6 16.
Example ex_refused_new :
  tr _ _ _ (exStep (exRun t_test rs_r (svc 36)) OService) =
  ex_new (exRun t_test rs_r (svc 36)) OService ++ tr _ _ _ (exRun t_test rs_r (svc 36)) /\
  In (ECall qT 3%Z) (ex_new (exRun t_test rs_r (svc 36)) OService).
Proof. vm_compute. split; [reflexivity | auto 10]. Qed.
Example ex_refused_applied : ex_step_concl t_test rs_r (svc 36) OService qT.
Proof.
  exact (ex_step_applies t_test rs_r (svc 36) OService _ qT 3%Z (valid_service1 36) (fbl_service 36 t_test rs_r)
           (proj1 ex_refused_new) (proj2 ex_refused_new) eq_refl).
Qed.

End Examples.

(* ------------------------------------------------------------------ *)
(* scripted worlds (Script.v): the same theorems for every script that   *)
(* never answers HOLD on the event side and only triggers pool commands  *)
(* (transfer as in Properties_Inv3.v; `_inv` forms in Lemmas_C02i.v)     *)
(* ------------------------------------------------------------------ *)
From CatV Require SchedDefs Lemmas_Inv Lemmas_Inv2.
Section C02i_scripted.
Import SchedDefs.
Variable D : desc.
Local Notation st := (Fsm.st sio smu shs).
Local Notation tr := (Fsm.tr sio smu shs).
Local Notation sreach m x mx h ops := (srun D (sinit D m x mx h) (map SOp ops)).
Local Notation line w := (cur_line (Lemmas_C01s.consumed (tr w))).
Local Notation s_on_line :=
  (Lemmas_C02i.on_line D sio smu shs s_read s_write s_lock s_unlock s_call).

Theorem C02_found_is_resolve'_scripted : forall m x mx h ops,
  wf_desc D m -> Forall (valid_op D) ops ->
  Lemmas_Inv.no_rt_hold h = true -> script_ok (Lemmas_Inv.res_calls_valid D) h = true ->
  Lemmas_Inv2.sc_flags_between_lines D (sinit D m x mx h) ops ->
  let w := sreach m x mx h ops in
  k_state (k (st w)) = CS_COMMAND_FOUND ->
  (k_cmd (k (st w)) = resolve (typed_of (line w)) (enabled D (st w)) (cmds D) /\
   k_cmd (k (st w)) <> None /\
   k_type (k (st w)) = type_of (line w)) /\
  typed_of (line w) <> [] /\
  typed_of (line w) = typed_decl (line w) /\
  fresh (xscan (line w)) = true.
Proof. exact (Lemmas_C02i.C02_found_is_resolve'_scripted D). Qed.

(* s_on_line ops w0 ci c is def_on_line with the scripted oracles; run w0 ops = sreach ... ops
   (Lemmas_Inv3.sreach_run) *)
Theorem C02_handler_step_scripted : forall m x mx h ops o new q code,
  wf_desc D m -> Forall (valid_op D) (ops ++ [o]) ->
  Lemmas_Inv.no_rt_hold h = true -> script_ok (Lemmas_Inv.res_calls_valid D) h = true ->
  Lemmas_Inv2.sc_flags_between_lines D (sinit D m x mx h) ops ->
  tr (sstep D (sreach m x mx h ops) (SOp o)) = new ++ tr (sreach m x mx h ops) ->
  In (ECall q code) new -> Lemmas_Calls.ev_side q = false ->
  o = OService /\
  (let s := st (sreach m x mx h ops) in
   k_cmd (k s) = Some (req_cmd q) /\ k_state (k s) = Lemmas_Calls.call_state q /\
   k_type (k s) = Lemmas_Calls.kind_type q) /\
  exists c, s_on_line ops (mkWorld sio smu shs (init_state D m) x mx h []) (req_cmd q) c.
Proof. exact (Lemmas_C02i.C02_call_step_scripted D). Qed.

Theorem C02_type_when_needed_scripted : forall m x mx h ops,
  wf_desc D m -> Forall (valid_op D) ops ->
  Lemmas_Inv.no_rt_hold h = true -> script_ok (Lemmas_Inv.res_calls_valid D) h = true ->
  Lemmas_Inv2.sc_flags_between_lines D (sinit D m x mx h) ops ->
  Lemmas_C09.needs_cmd (st (sreach m x mx h ops)) = true ->
  exists ci c, k_cmd (k (st (sreach m x mx h ops))) = Some ci /\
               s_on_line ops (mkWorld sio smu shs (init_state D m) x mx h []) ci c.
Proof. exact (Lemmas_C02i.C02_type_when_needed_scripted D). Qed.
End C02i_scripted.

Print Assumptions C02_found_is_resolve'_scripted.
Print Assumptions C02_handler_step_scripted.
Print Assumptions C02_type_when_needed_scripted.
