(* Lemmas_C13o.v -- property C13, the observer half: which event is being processed.

   Structure:
     1. `ep s` = the fields of the event machine that decide which event is in progress
        (u_state, u_cmd, u_type, u_wafter) together with the ring (`ringpart`); frame lemmas
        `ep (f s) = ep s` for every state-level function of the command machine;
     2. `upost s s'`: what a step of the event machine may do to these fields
        (nothing | back to idle with u_cmd cleared | still busy with the same u_cmd / u_type);
     3. world level: `kstep` (the event fields are untouched, no EPop is logged, the ring only grows
        by valid triggers) for the command machine, the API calls and the handler callbacks;
        `ustep` for a step of the busy event machine;
     4. the history invariant `Inv` (ring well formed and valid, idle <-> u_cmd = None,
        busy -> u_cmd/u_type = the last popped event) and the delivered theorems;
     5. the command machine: (k_state, k_cmd, k_wafter) invariant `K`, hence
        k_state = CS_IDLE -> k_cmd = None over every history (no hypothesis). *)
From Coq Require Import List NArith ZArith Bool Arith Lia.
From CatV Require Import Bytes Defs Codec Fsm TraceDefs Lemmas_C13 Lemmas_C03b Lemmas_C15.
Import ListNotations.
Local Open Scope nat_scope.

(* ------------------------------------------------------------------ *)
(* 1. the event-in-progress fields and their frame lemmas               *)
(* ------------------------------------------------------------------ *)

Definition ept : Type := (ustate * option nat * ctype * ustate * (list (nat * ctype) * nat * nat * nat))%type.
Definition ep (s : state) : ept :=
  (u_state (u s), u_cmd (u s), u_type (u s), u_wafter (u s), ringpart s).

Definition p_st (v : ustate) (e : ept) : ept := let '(a, b, c, d, r) := e in (v, b, c, d, r).
Definition p_cmd (v : option nat) (e : ept) : ept := let '(a, b, c, d, r) := e in (a, v, c, d, r).
Definition p_ty (v : ctype) (e : ept) : ept := let '(a, b, c, d, r) := e in (a, b, v, d, r).
Definition p_wa (v : ustate) (e : ept) : ept := let '(a, b, c, d, r) := e in (a, b, c, v, r).

Lemma ep_setu_state : forall v s, ep (setu_state v s) = p_st v (ep s). Proof. reflexivity. Qed.
Lemma ep_setu_cmd : forall v s, ep (setu_cmd v s) = p_cmd v (ep s). Proof. reflexivity. Qed.
Lemma ep_setu_type : forall v s, ep (setu_type v s) = p_ty v (ep s). Proof. reflexivity. Qed.
Lemma ep_setu_wafter : forall v s, ep (setu_wafter v s) = p_wa v (ep s). Proof. reflexivity. Qed.
#[local] Hint Rewrite ep_setu_state ep_setu_cmd ep_setu_type ep_setu_wafter : epdb.

Lemma ep_rp : forall s s', ep s' = ep s -> ringpart s' = ringpart s.
Proof. intros s s' H. unfold ep in H. congruence. Qed.

Lemma ep_setk_index : forall v s, ep (setk_index v s) = ep s. Proof. reflexivity. Qed.
Lemma ep_setk_partial : forall v s, ep (setk_partial v s) = ep s. Proof. reflexivity. Qed.
Lemma ep_setk_length : forall v s, ep (setk_length v s) = ep s. Proof. reflexivity. Qed.
Lemma ep_setk_position : forall v s, ep (setk_position v s) = ep s. Proof. reflexivity. Qed.
Lemma ep_setk_write_size : forall v s, ep (setk_write_size v s) = ep s. Proof. reflexivity. Qed.
Lemma ep_setk_cmd : forall v s, ep (setk_cmd v s) = ep s. Proof. reflexivity. Qed.
Lemma ep_setk_var : forall v s, ep (setk_var v s) = ep s. Proof. reflexivity. Qed.
Lemma ep_setk_type : forall v s, ep (setk_type v s) = ep s. Proof. reflexivity. Qed.
Lemma ep_setk_char : forall v s, ep (setk_char v s) = ep s. Proof. reflexivity. Qed.
Lemma ep_setk_state : forall v s, ep (setk_state v s) = ep s. Proof. reflexivity. Qed.
Lemma ep_setk_cr : forall v s, ep (setk_cr v s) = ep s. Proof. reflexivity. Qed.
Lemma ep_setk_hold : forall v s, ep (setk_hold v s) = ep s. Proof. reflexivity. Qed.
Lemma ep_setk_hold_exit : forall v s, ep (setk_hold_exit v s) = ep s. Proof. reflexivity. Qed.
Lemma ep_setk_wbuf : forall v s, ep (setk_wbuf v s) = ep s. Proof. reflexivity. Qed.
Lemma ep_setk_wstate : forall v s, ep (setk_wstate v s) = ep s. Proof. reflexivity. Qed.
Lemma ep_setk_wafter : forall v s, ep (setk_wafter v s) = ep s. Proof. reflexivity. Qed.
Lemma ep_setk_implicit : forall v s, ep (setk_implicit v s) = ep s. Proof. reflexivity. Qed.
Lemma ep_setu_index : forall v s, ep (setu_index v s) = ep s. Proof. reflexivity. Qed.
Lemma ep_setu_position : forall v s, ep (setu_position v s) = ep s. Proof. reflexivity. Qed.
Lemma ep_setu_var : forall v s, ep (setu_var v s) = ep s. Proof. reflexivity. Qed.
Lemma ep_setu_wbuf : forall v s, ep (setu_wbuf v s) = ep s. Proof. reflexivity. Qed.
Lemma ep_setu_wstate : forall v s, ep (setu_wstate v s) = ep s. Proof. reflexivity. Qed.
Lemma ep_set_cbuf : forall v s, ep (set_cbuf v s) = ep s. Proof. reflexivity. Qed.
Lemma ep_set_ubuf : forall v s, ep (set_ubuf v s) = ep s. Proof. reflexivity. Qed.
Lemma ep_set_mem : forall v s, ep (set_mem v s) = ep s. Proof. reflexivity. Qed.
Lemma ep_set_dis_cmd : forall v s, ep (set_dis_cmd v s) = ep s. Proof. reflexivity. Qed.
Lemma ep_set_dis_grp : forall v s, ep (set_dis_grp v s) = ep s. Proof. reflexivity. Qed.
Lemma ep_set_fault : forall v s, ep (set_fault v s) = ep s. Proof. reflexivity. Qed.
Lemma ep_set_gL : forall v s, ep (set_gL v s) = ep s. Proof. reflexivity. Qed.
Lemma ep_set_gS : forall v s, ep (set_gS v s) = ep s. Proof. reflexivity. Qed.
Lemma ep_set_gR : forall v s, ep (set_gR v s) = ep s. Proof. reflexivity. Qed.
Lemma ep_set_fault_flag : forall s, ep (set_fault_flag s) = ep s. Proof. reflexivity. Qed.
Lemma ep_setg_pos : forall f v s, ep (setg_pos f v s) = ep s. Proof. intros [|] v s; reflexivity. Qed.
Lemma ep_setg_buf : forall f v s, ep (setg_buf f v s) = ep s. Proof. intros [|] v s; reflexivity. Qed.
Lemma ep_setg_var : forall f v s, ep (setg_var f v s) = ep s. Proof. intros [|] v s; reflexivity. Qed.
Lemma ep_setg_index : forall f v s, ep (setg_index f v s) = ep s. Proof. intros [|] v s; reflexivity. Qed.
#[local] Hint Rewrite ep_setk_index ep_setk_partial ep_setk_length ep_setk_position ep_setk_write_size ep_setk_cmd ep_setk_var ep_setk_type ep_setk_char ep_setk_state ep_setk_cr ep_setk_hold ep_setk_hold_exit ep_setk_wbuf ep_setk_wstate ep_setk_wafter ep_setk_implicit ep_setu_index ep_setu_position ep_setu_var ep_setu_wbuf ep_setu_wstate ep_set_cbuf ep_set_ubuf ep_set_mem ep_set_dis_cmd ep_set_dis_grp ep_set_fault ep_set_gL ep_set_gS ep_set_gR ep_setg_pos ep_setg_buf ep_setg_var ep_setg_index ep_set_fault_flag : epdb.

(* generic tactic: case-split every stuck match; results of pair-returning helpers are kept
   as `fst (helper ..)` so that the helper's own frame lemma applies *)
Ltac ep_step :=
  match goal with
  | |- context[match ?x with _ => _ end] =>
    lazymatch type of x with
    | prod state _ =>
      let E := fresh "E" in let s0 := fresh "s" in let b0 := fresh "b" in
      destruct x as [s0 b0] eqn:E; apply (f_equal fst) in E; cbn [fst] in E; subst s0
    | _ => destruct x eqn:?
    end
  end.
Ltac ep_solve := cbv beta iota zeta; repeat (ep_step; cbn [fst snd]); autorewrite with epdb; reflexivity.

Lemma ep_reset_state : forall s, ep (reset_state s) = ep s.
Proof. intros. unfold reset_state. ep_solve. Qed.
Lemma ep_start_flush_c : forall a s, ep (start_flush_c a s) = ep s.
Proof. reflexivity. Qed.
Lemma ep_start_flush_raw_c : forall a s, ep (start_flush_raw_c a s) = ep s.
Proof. reflexivity. Qed.
Lemma ep_ack_error : forall s, ep (ack_error s) = ep s.
Proof. reflexivity. Qed.
Lemma ep_ack_ok : forall s, ep (ack_ok s) = ep s.
Proof. reflexivity. Qed.
Lemma ep_put_cur : forall f c s, ep (put_cur f c s) = ep s.
Proof. intros. unfold put_cur. ep_solve. Qed.
#[local] Hint Rewrite ep_reset_state ep_start_flush_c ep_start_flush_raw_c ep_ack_error ep_ack_ok ep_put_cur : epdb.

Lemma ep_print_string : forall f s t, ep (fst (print_string f s t)) = ep s.
Proof. intros. unfold print_string. ep_solve. Qed.
Lemma ep_print_strings : forall f s ts, ep (fst (print_strings f s ts)) = ep s.
Proof. intros. unfold print_strings. ep_solve. Qed.
Lemma ep_end_with_error : forall s, ep (end_with_error ATCMD s) = ep s.
Proof. intros. unfold end_with_error. ep_solve. Qed.
Lemma ep_end_with_ok : forall s, ep (end_with_ok ATCMD s) = ep s.
Proof. intros. unfold end_with_ok. ep_solve. Qed.
Lemma ep_set_loop_state : forall rd s, ep (set_loop_state ATCMD rd s) = ep s.
Proof. intros. unfold set_loop_state. ep_solve. Qed.
Lemma ep_start_flush_after_ok : forall s, ep (start_flush_after_ok ATCMD s) = ep s.
Proof. intros. unfold start_flush_after_ok. ep_solve. Qed.
Lemma ep_start_flush_after : forall a b s, ep (start_flush_after ATCMD a b s) = ep s.
Proof. intros. unfold start_flush_after. ep_solve. Qed.
#[local] Hint Rewrite ep_print_string ep_print_strings ep_end_with_error ep_end_with_ok ep_set_loop_state
  ep_start_flush_after_ok ep_start_flush_after : epdb.

Lemma ep_print_response_test : forall D s, ep (fst (print_response_test D ATCMD s)) = ep s.
Proof. intros. unfold print_response_test. ep_solve. Qed.
#[local] Hint Rewrite ep_print_response_test : epdb.
Lemma ep_start_processing_format_test_args : forall D s,
  ep (start_processing_format_test_args D ATCMD s) = ep s.
Proof. intros. unfold start_processing_format_test_args. ep_solve. Qed.
Lemma ep_start_processing_format_read_args : forall D s,
  ep (start_processing_format_read_args D ATCMD s) = ep s.
Proof. intros. unfold start_processing_format_read_args. ep_solve. Qed.
Lemma ep_next_format_var : forall D s, ep (fst (next_format_var D ATCMD s)) = ep s.
Proof. intros. unfold next_format_var. ep_solve. Qed.
Lemma ep_set_cmd_state : forall s i v, ep (set_cmd_state s i v) = ep s.
Proof. intros. unfold set_cmd_state. ep_solve. Qed.
Lemma ep_prepare_search_command : forall s, ep (prepare_search_command s) = ep s.
Proof. reflexivity. Qed.
Lemma ep_prepare_parse_command : forall s, ep (prepare_parse_command s) = ep s.
Proof. reflexivity. Qed.
#[local] Hint Rewrite ep_start_processing_format_test_args ep_start_processing_format_read_args
  ep_next_format_var ep_set_cmd_state ep_prepare_search_command ep_prepare_parse_command : epdb.

Lemma ep_update_command : forall D s, ep (update_command D s) = ep s.
Proof. intros. unfold update_command. ep_solve. Qed.
Lemma ep_search_command : forall D s, ep (search_command D s) = ep s.
Proof. intros. unfold search_command. ep_solve. Qed.
Lemma ep_command_found : forall D s, ep (command_found D s) = ep s.
Proof. intros. unfold command_found. ep_solve. Qed.
Lemma ep_start_print_cmd_list : forall D s, ep (start_print_cmd_list D s) = ep s.
Proof. intros. unfold start_print_cmd_list. ep_solve. Qed.
Lemma ep_cmd_list_next_cmd : forall D s, ep (fst (cmd_list_next_cmd D s)) = ep s.
Proof. intros. unfold cmd_list_next_cmd. ep_solve. Qed.
Lemma ep_print_current_cmd_full_name : forall s c sf,
  ep (fst (print_current_cmd_full_name s c sf)) = ep s.
Proof. intros. unfold print_current_cmd_full_name. ep_solve. Qed.
#[local] Hint Rewrite ep_update_command ep_search_command ep_command_found ep_start_print_cmd_list
  ep_cmd_list_next_cmd ep_print_current_cmd_full_name : epdb.
Lemma ep_print_cmd_form : forall s c a sf n, ep (print_cmd_form s c a sf n) = ep s.
Proof. intros. unfold print_cmd_form. ep_solve. Qed.
#[local] Hint Rewrite ep_print_cmd_form : epdb.
Lemma ep_print_cmd_list : forall D s, ep (print_cmd_list D s) = ep s.
Proof. intros. unfold print_cmd_list. ep_solve. Qed.
Lemma ep_enable_hold_state : forall s, ep (enable_hold_state s) = ep s.
Proof. reflexivity. Qed.
Lemma ep_hold_exit : forall s st, ep (fst (hold_exit s st)) = ep s.
Proof. intros. unfold hold_exit. ep_solve. Qed.
Lemma ep_process_hold_state : forall s, ep (process_hold_state s) = ep s.
Proof. intros. unfold process_hold_state. ep_solve. Qed.
Lemma ep_process_io_write_wait : forall s, ep (process_io_write_wait s) = ep s.
Proof. intros. unfold process_io_write_wait. ep_solve. Qed.
Lemma ep_apply_poke : forall s p, ep (apply_poke s p) = ep s.
Proof. intros. unfold apply_poke. ep_solve. Qed.
Lemma ep_apply_pokes : forall ps s, ep (fold_left apply_poke ps s) = ep s.
Proof. induction ps as [|p ps IH]; intros s; cbn [fold_left]; [reflexivity|]. rewrite IH. apply ep_apply_poke. Qed.
Lemma ep_apply_edit : forall f e s, ep (apply_edit f e s) = ep s.
Proof. intros. unfold apply_edit. ep_solve. Qed.
#[local] Hint Rewrite ep_print_cmd_list ep_enable_hold_state ep_hold_exit ep_process_hold_state
  ep_process_io_write_wait ep_apply_poke ep_apply_pokes ep_apply_edit : epdb.
Lemma ep_format_test_args : forall D s, ep (format_test_args D ATCMD s) = ep s.
Proof. intros. unfold format_test_args. ep_solve. Qed.
#[local] Hint Rewrite ep_format_test_args : epdb.

(* ------------------------------------------------------------------ *)
(* 2. what the event machine does to these fields                      *)
(* ------------------------------------------------------------------ *)

Lemma ep_unsolicited_reset_state : forall s,
  ep (unsolicited_reset_state s) = p_st US_IDLE (p_ty T_NONE (p_cmd None (ep s))).
Proof. reflexivity. Qed.
Lemma ep_end_with_error_u : forall s, ep (end_with_error UNSOL s) = p_st US_IDLE (p_ty T_NONE (p_cmd None (ep s))).
Proof. reflexivity. Qed.
Lemma ep_end_with_ok_u : forall s, ep (end_with_ok UNSOL s) = p_st US_IDLE (p_ty T_NONE (p_cmd None (ep s))).
Proof. reflexivity. Qed.
Lemma ep_set_loop_state_u : forall rd s,
  ep (set_loop_state UNSOL rd s) = p_st (if rd then US_READ_LOOP else US_TEST_LOOP) (ep s).
Proof. reflexivity. Qed.
Lemma ep_start_flush_u : forall a s, ep (start_flush_u a s) = p_st US_FLUSH_WAIT (p_wa a (ep s)).
Proof. reflexivity. Qed.
Lemma ep_start_flush_after_ok_u : forall s,
  ep (start_flush_after_ok UNSOL s) = p_st US_FLUSH_WAIT (p_wa US_AFTER_OK (ep s)).
Proof. reflexivity. Qed.
Lemma ep_start_flush_after_u : forall a b s,
  ep (start_flush_after UNSOL a b s) = p_st US_FLUSH_WAIT (p_wa b (ep s)).
Proof. reflexivity. Qed.
#[local] Hint Rewrite ep_unsolicited_reset_state ep_end_with_error_u ep_end_with_ok_u ep_set_loop_state_u
  ep_start_flush_u ep_start_flush_after_ok_u ep_start_flush_after_u : epdb.

(* the event machine is busy, and a flush knows where to continue *)
Definition okst (a d : ustate) : bool :=
  match a with
  | US_IDLE => false
  | US_FLUSH_WAIT | US_FLUSH => negb (ustate_beq d US_IDLE)
  | _ => true
  end.
Definition live (s : state) : Prop := okst (u_state (u s)) (u_wafter (u s)) = true.

(* strong form: the event is finished (idle, u_cmd cleared) or still in progress with the same
   u_cmd / u_type; the ring is not touched *)
Definition upostSE (e e' : ept) : Prop :=
  let '(a, b, c, d, r) := e in let '(a', b', c', d', r') := e' in
  r' = r /\ ((a' = US_IDLE /\ b' = None) \/ (okst a' d' = true /\ b' = b /\ c' = c)).
Definition upostS (s s' : state) : Prop := upostSE (ep s) (ep s').
(* weak form: or nothing happened to these fields (fault paths, retries) *)
Definition upost (s s' : state) : Prop := ep s' = ep s \/ upostS s s'.

Lemma upost_frame : forall s s', ep s' = ep s -> upost s s'.
Proof. intros s s' H. left. exact H. Qed.

Lemma upostS_pre : forall s0 s s', ep s0 = ep s -> upostS s0 s' -> upostS s s'.
Proof. intros s0 s s' H. unfold upostS. rewrite H. auto. Qed.
Lemma upost_pre : forall s0 s s', ep s0 = ep s -> upost s0 s' -> upost s s'.
Proof. intros s0 s s' H. unfold upost, upostS. rewrite H. auto. Qed.

Ltac ups_leaf :=
  unfold upostS, live in *; autorewrite with epdb;
  cbv beta iota zeta delta [upostSE ep p_st p_cmd p_ty p_wa];
  (split; [reflexivity|]);
  first [ left; split; reflexivity
        | right; repeat split; first [reflexivity | assumption] ].
Ltac up_leaf :=
  first [ left; autorewrite with epdb; reflexivity | right; ups_leaf ].

Ltac fst_eq E := apply (f_equal fst) in E; cbn [fst] in E; subst.

Lemma upostSE_reset : forall e, upostSE e (p_st US_IDLE (p_ty T_NONE (p_cmd None e))).
Proof. intros [[[[a b] c] d] r]. cbn. auto 6. Qed.

Section UPure.
Variable D : desc.

Lemma cmd_of_ep : forall s s', ep s' = ep s -> cmd_of D UNSOL s' = cmd_of D UNSOL s.
Proof.
  intros s s' H. unfold cmd_of, g_cmd. unfold ep in H.
  assert (E : u_cmd (u s') = u_cmd (u s)) by congruence. rewrite E. reflexivity.
Qed.

(* print_response_test: failed and nothing changed, or succeeded and a busy state was entered *)
Lemma up_prt : forall s,
  (snd (print_response_test D UNSOL s) = false /\ ep (fst (print_response_test D UNSOL s)) = ep s) \/
  (snd (print_response_test D UNSOL s) = true /\ upostS s (fst (print_response_test D UNSOL s))).
Proof.
  intros s. unfold print_response_test.
  destruct (cmd_of D UNSOL s) as [c|]; [|left; cbn [fst snd]; split; [reflexivity | autorewrite with epdb; reflexivity]].
  destruct (c_descr c) as [d|].
  - destruct (print_strings UNSOL s [nl_chars s; d]) as [s1 ok] eqn:E. fst_eq E.
    destruct ok; cbn [negb fst snd].
    + right. destruct (c_htest c); cbn [fst snd]; (split; [reflexivity | ups_leaf]).
    + left. split; [reflexivity | autorewrite with epdb; reflexivity].
  - cbn [negb]. right. destruct (c_htest c); cbn [fst snd]; (split; [reflexivity | ups_leaf]).
Qed.

Lemma up_spft : forall s,
  (cmd_of D UNSOL s = None /\ ep (start_processing_format_test_args D UNSOL s) = ep s) \/
  upostS s (start_processing_format_test_args D UNSOL s).
Proof.
  intros s. unfold start_processing_format_test_args. cbv beta iota zeta.
  change (cmd_of D UNSOL (setg_pos UNSOL 0 s)) with (cmd_of D UNSOL s).
  destruct (cmd_of D UNSOL s) as [c|]; [right|left; split; [reflexivity | autorewrite with epdb; reflexivity]].
  destruct (print_string UNSOL (setg_pos UNSOL 0 s) (c_name c)) as [s1 ok1] eqn:E1. fst_eq E1.
  destruct ok1; cbn [negb]; [|ups_leaf].
  destruct (print_string UNSOL _ [ch_EQ]) as [s2 ok2] eqn:E2.
  assert (H2 : ep s2 = ep s) by (apply (f_equal fst) in E2; cbn [fst] in E2; subst s2; autorewrite with epdb; reflexivity).
  clear E2.
  destruct ok2; cbn [negb]; [|unfold upostS; autorewrite with epdb; rewrite H2; apply upostSE_reset].
  destruct (c_vars c).
  - pose proof (up_prt s2) as Hp.
    destruct (print_response_test D UNSOL s2) as [s3 ok3]. cbn [fst snd] in *.
    destruct Hp as [[-> Hb]|[-> Ha]].
    + unfold upostS. autorewrite with epdb. rewrite Hb, H2. apply upostSE_reset.
    + eapply upostS_pre; [exact H2 | exact Ha].
  - unfold upostS. autorewrite with epdb. rewrite H2. clear. generalize s; intro s0; ups_leaf.
Qed.

Lemma up_spfr : forall s,
  (cmd_of D UNSOL s = None /\ ep (start_processing_format_read_args D UNSOL s) = ep s) \/
  upostS s (start_processing_format_read_args D UNSOL s).
Proof.
  intros s. unfold start_processing_format_read_args. cbv beta iota zeta.
  change (cmd_of D UNSOL (setg_pos UNSOL 0 s)) with (cmd_of D UNSOL s).
  destruct (cmd_of D UNSOL s) as [c|]; [right|left; split; [reflexivity | autorewrite with epdb; reflexivity]].
  destruct (print_string UNSOL (setg_pos UNSOL 0 s) (c_name c)) as [s1 ok1] eqn:E1. fst_eq E1.
  destruct ok1; cbn [negb]; [|ups_leaf].
  destruct (print_string UNSOL _ [ch_EQ]) as [s2 ok2] eqn:E2. fst_eq E2.
  destruct ok2; cbn [negb]; [|ups_leaf].
  destruct (vars_access_possible c RO); [ups_leaf|].
  destruct (c_hread c); cbn [negb]; ups_leaf.
Qed.

Lemma up_spft_w : forall s, upost s (start_processing_format_test_args D UNSOL s).
Proof. intros s. destruct (up_spft s) as [[_ H]|H]; [left|right]; exact H. Qed.
Lemma up_spfr_w : forall s, upost s (start_processing_format_read_args D UNSOL s).
Proof. intros s. destruct (up_spfr s) as [[_ H]|H]; [left|right]; exact H. Qed.

(* next_format_var: either it finished the event (handled), or nothing changed *)
Lemma up_nfv : forall s,
  ep (fst (next_format_var D UNSOL s)) = ep s \/
  (snd (next_format_var D UNSOL s) = true /\
   ep (fst (next_format_var D UNSOL s)) = p_st US_IDLE (p_ty T_NONE (p_cmd None (ep s)))).
Proof.
  intros s. unfold next_format_var. cbv beta iota zeta.
  destruct (cmd_of D UNSOL s) as [c|]; [|left; reflexivity].
  destruct (_ <? _); [|left; cbn [fst]; autorewrite with epdb; reflexivity].
  destruct (_ <=? _); cbn [fst snd].
  - right. split; [reflexivity|]. autorewrite with epdb. reflexivity.
  - left. autorewrite with epdb. reflexivity.
Qed.

Lemma up_fta : forall s, upost s (format_test_args D UNSOL s).
Proof.
  intros s. unfold format_test_args.
  destruct (cmd_of D UNSOL s) as [c|]; [|up_leaf].
  destruct (nth_error _ _) as [v|]; [|up_leaf].
  destruct (fmt_info v _) as [c1 ok].
  destruct ok; cbn [negb]; [|up_leaf].
  pose proof (up_nfv (put_cur UNSOL c1 s)) as Hn.
  destruct (next_format_var D UNSOL (put_cur UNSOL c1 s)) as [s2 h]. cbn [fst snd] in Hn.
  autorewrite with epdb in Hn.
  destruct h.
  - destruct Hn as [Hn|[_ Hn]]; [left; exact Hn | right; unfold upostS; rewrite Hn; apply upostSE_reset].
  - destruct Hn as [Hn|[Hn _]]; [|discriminate].
    pose proof (up_prt s2) as Hp.
    destruct (print_response_test D UNSOL s2) as [s3 ok3]. cbn [fst snd] in *.
    right. destruct Hp as [[-> Hb]|[-> Ha]].
    + unfold upostS. autorewrite with epdb. rewrite Hb, Hn. apply upostSE_reset.
    + eapply upostS_pre; [exact Hn | exact Ha].
Qed.

(* the part of format_read_args after the variable's read callback *)
Definition fra_post (v : var) (c : cmd) (s : state) : state :=
  match nth_error (mem s) (v_slot v) with
  | None => set_fault_flag s
  | Some data =>
    let (c1, ok) := fmt_var v data (get_cur UNSOL s) in
    let s1 := put_cur UNSOL c1 s in
    if negb ok then end_with_error UNSOL s1
    else
      let (s2, handled) := next_format_var D UNSOL s1 in
      if handled then s2
      else if c_hread c then set_loop_state UNSOL true s2
      else start_flush_after_ok UNSOL s2
  end.

Lemma up_fra_post : forall v c s, upost s (fra_post v c s).
Proof.
  intros v c s. unfold fra_post.
  destruct (nth_error _ _) as [data|]; [|up_leaf].
  destruct (fmt_var v data _) as [c1 ok]. cbv beta iota zeta.
  destruct ok; cbn [negb]; [|up_leaf].
  pose proof (up_nfv (put_cur UNSOL c1 s)) as Hn.
  destruct (next_format_var D UNSOL (put_cur UNSOL c1 s)) as [s2 h]. cbn [fst snd] in Hn.
  autorewrite with epdb in Hn.
  destruct h.
  - destruct Hn as [Hn|[_ Hn]]; [left; exact Hn | right; unfold upostS; rewrite Hn; apply upostSE_reset].
  - destruct Hn as [Hn|[Hn _]]; [|discriminate].
    right. destruct (c_hread c); unfold upostS; autorewrite with epdb; rewrite Hn; clear; generalize s; intro s0; ups_leaf.
Qed.

(* the part of process_rt_loop after the handler call *)
Definition rt_post (rd : bool) (e : option (list N)) (code : Z) (s : state) : state :=
  let s := apply_edit UNSOL e s in
  if (code =? RC_OK)%Z then end_with_ok UNSOL s
  else if (code =? RC_DATA_OK)%Z then start_flush_after UNSOL CS_AFTER_OK US_AFTER_OK s
  else if (code =? RC_DATA_NEXT)%Z then
    (if rd then start_flush_after UNSOL CS_AFTER_FMT_READ US_AFTER_FMT_READ s
     else start_flush_after UNSOL CS_AFTER_FMT_TEST US_AFTER_FMT_TEST s)
  else if (code =? RC_NEXT)%Z then
    (if rd then start_processing_format_read_args D UNSOL s
     else start_processing_format_test_args D UNSOL s)
  else if (code =? RC_HOLD)%Z then enable_hold_state s
  else if (code =? RC_HOLD_EXIT_OK)%Z then end_with_ok UNSOL (fst (hold_exit s ST_OK))
  else if (code =? RC_HOLD_EXIT_ERROR)%Z then end_with_error UNSOL (fst (hold_exit s ST_ERROR))
  else if (code =? RC_PRINT_CMD_LIST_OK)%Z && negb rd then end_with_ok UNSOL s
  else end_with_error UNSOL s.

Lemma up_rt_post : forall rd e code s, upost s (rt_post rd e code s).
Proof.
  intros rd e code s. unfold rt_post. cbv beta iota zeta.
  destruct (code =? RC_OK)%Z; [up_leaf|].
  destruct (code =? RC_DATA_OK)%Z; [up_leaf|].
  destruct (code =? RC_DATA_NEXT)%Z; [destruct rd; up_leaf|].
  destruct (code =? RC_NEXT)%Z.
  { destruct rd; (eapply upost_pre; [apply ep_apply_edit|]); [apply up_spfr_w | apply up_spft_w]. }
  destruct (code =? RC_HOLD)%Z; [up_leaf|].
  destruct (code =? RC_HOLD_EXIT_OK)%Z; [up_leaf|].
  destruct (code =? RC_HOLD_EXIT_ERROR)%Z; [up_leaf|].
  destruct (_ && _); up_leaf.
Qed.

Lemma up_wait : forall s, u_state (u s) = US_FLUSH_WAIT -> live s ->
  upost s (unsolicited_process_io_write_wait s).
Proof.
  intros s Hs Hl. unfold unsolicited_process_io_write_wait. destruct (negb _); [|up_leaf].
  unfold live in Hl. rewrite Hs in Hl. right. ups_leaf.
Qed.

Definition uiow_done (s : state) : state :=
  match u_wstate (u s) with
  | WS_BEFORE => s |> setu_position 0 |> setu_wbuf WB_MAIN |> setu_wstate WS_MAIN
  | WS_MAIN => s |> setu_position 0 |> setu_wbuf (WB_NL (k_cr (k s))) |> setu_wstate WS_AFTER
  | WS_AFTER => setu_state (u_wafter (u s)) s
  end.

Lemma up_uiow_done : forall s, u_state (u s) = US_FLUSH -> live s -> upost s (uiow_done s).
Proof.
  intros s Hs Hl. unfold uiow_done. destruct (u_wstate (u s)); [up_leaf|up_leaf|].
  unfold live in Hl. rewrite Hs in Hl.
  right. unfold upostS. autorewrite with epdb. cbv beta iota zeta delta [upostSE ep p_st p_cmd p_ty p_wa].
  split; [reflexivity|]. right. repeat split.
  destruct (u_wafter (u s)); try discriminate Hl; reflexivity.
Qed.

End UPure.

(* ------------------------------------------------------------------ *)
(* 3. the world level                                                   *)
(* ------------------------------------------------------------------ *)

Definition nopop (e : event) : bool := match e with EPop _ _ => false | _ => true end.

Lemma neutral_nopop : forall evs, forallb neutralb evs = true -> forallb nopop evs = true.
Proof.
  induction evs as [|e evs IH]; cbn [forallb]; auto. intros H. apply andb_true_iff in H. destruct H as [H1 H2].
  rewrite IH by exact H2. destruct e; try reflexivity; discriminate H1.
Qed.

Lemma popped_nopop : forall h evs, forallb nopop evs = true -> popped (h ++ evs) = popped h.
Proof.
  intros h evs H. unfold popped. rewrite flat_map_app.
  assert (E : flat_map popped_of evs = []).
  { induction evs as [|e evs IH]; cbn [flat_map forallb] in *; auto.
    apply andb_true_iff in H. destruct H as [H1 H2]. rewrite IH by exact H2.
    destruct e; try reflexivity; discriminate H1. }
  rewrite E. apply app_nil_r.
Qed.

Lemma op_eq_service : forall o : op, {o = OService} + {o <> OService}.
Proof. destruct o; try (right; discriminate). left; reflexivity. Qed.

Section World.
Variable D : desc.
Variables ioS muS hS : Type.
Variable io_read : ioS -> ioS * option N.
Variable io_write : ioS -> N -> ioS * bool.
Variable mu_lock : muS -> muS * bool.
Variable mu_unlock : muS -> muS * bool.
Variable h_call : hS -> hreq -> hS * hres.

Local Notation world := (Fsm.world ioS muS hS).
Local Notation mkWorld := (Fsm.mkWorld ioS muS hS).
Local Notation st := (Fsm.st ioS muS hS).
Local Notation tr := (Fsm.tr ioS muS hS).
Local Notation io := (Fsm.io ioS muS hS).
Local Notation mu := (Fsm.mu ioS muS hS).
Local Notation hs := (Fsm.hs ioS muS hS).
Local Notation logw := (Fsm.logw ioS muS hS).
Local Notation upd_st := (Fsm.upd_st ioS muS hS).
Local Notation set_st := (Fsm.set_st ioS muS hS).
Local Notation set_io := (Fsm.set_io ioS muS hS).
Local Notation set_mu := (Fsm.set_mu ioS muS hS).
Local Notation set_hs := (Fsm.set_hs ioS muS hS).
Local Notation busy := (Fsm.busy ioS muS hS).
Local Notation hist := (TraceDefs.hist ioS muS hS).
Local Notation bracket := (Fsm.bracket D ioS muS hS mu_lock mu_unlock).
Local Notation api_trigger := (Fsm.api_trigger D ioS muS hS mu_lock mu_unlock).
Local Notation api_hold_exit := (Fsm.api_hold_exit D ioS muS hS mu_lock mu_unlock).
Local Notation api_is_full := (Fsm.api_is_full D ioS muS hS mu_lock mu_unlock).
Local Notation apply_icall := (Fsm.apply_icall D ioS muS hS mu_lock mu_unlock).
Local Notation call_h := (Fsm.call_h D ioS muS hS mu_lock mu_unlock h_call).
Local Notation read_cmd_char := (Fsm.read_cmd_char ioS muS hS io_read).
Local Notation reading := (Fsm.reading ioS muS hS io_read).
Local Notation cmd_service := (Fsm.cmd_service D ioS muS hS io_read io_write mu_lock mu_unlock h_call).
Local Notation unsolicited_events_service :=
  (Fsm.unsolicited_events_service D ioS muS hS io_write mu_lock mu_unlock h_call).
Local Notation service_body := (Fsm.service_body D ioS muS hS io_read io_write mu_lock mu_unlock h_call).
Local Notation api_service := (Fsm.api_service D ioS muS hS io_read io_write mu_lock mu_unlock h_call).
Local Notation do_op := (Fsm.do_op D ioS muS hS io_read io_write mu_lock mu_unlock h_call).
Local Notation step := (Fsm.step D ioS muS hS io_read io_write mu_lock mu_unlock h_call).
Local Notation run := (Fsm.run D ioS muS hS io_read io_write mu_lock mu_unlock h_call).

Ltac wsimpl := cbn [Fsm.st Fsm.tr Fsm.io Fsm.mu Fsm.hs Fsm.set_st Fsm.set_io Fsm.set_mu Fsm.set_hs
                    Fsm.logw Fsm.upd_st Fsm.busy fst snd].

(* the queued events are valid triggers (pool command, READ or TEST) *)
Definition vitem (it : nat * ctype) : Prop := valid_trigger D (fst it) (snd it).
Definition RV (s : state) : Prop := ring_wf D s /\ Forall vitem (ring_items D s).
(* handlers only trigger valid events *)
Definition HV : Prop := forall h q, Forall (valid_icall D) (r_calls (snd (h_call h q))).

Lemma RV_rp : forall s s', ringpart s' = ringpart s -> RV s -> RV s'.
Proof.
  intros s s' H [Hw Hv]. split; [eapply ring_wf_rp; eauto|]. rewrite (ring_items_rp D _ _ H). exact Hv.
Qed.

(* a step that leaves the event fields alone, logs no pop, and lets the ring grow only by
   valid triggers (provided P) *)
Definition kstep (P : Prop) (w w' : world) : Prop :=
  fst (ep (st w')) = fst (ep (st w)) /\
  (exists evs, tr w' = evs ++ tr w /\ forallb nopop evs = true) /\
  (P -> RV (st w) -> RV (st w')).

Lemma kstep_refl : forall P w, kstep P w w.
Proof. intros. split; [reflexivity|]. split; [exists []; auto | auto]. Qed.

Lemma kstep_trans : forall P w1 w2 w3, kstep P w1 w2 -> kstep P w2 w3 -> kstep P w1 w3.
Proof.
  intros P w1 w2 w3 (A1 & (e1 & B1 & C1) & D1) (A2 & (e2 & B2 & C2) & D2).
  split; [congruence|]. split; [|auto].
  exists (e2 ++ e1). split; [rewrite B2, B1; apply app_assoc|].
  rewrite forallb_app, C1, C2. reflexivity.
Qed.

Lemma kstep_weaken : forall (P Q : Prop) w w', (Q -> P) -> kstep P w w' -> kstep Q w w'.
Proof. intros P Q w w' H (A & B & C). split; [exact A|]. split; [exact B|auto]. Qed.

Lemma kstep_frame : forall P w w', ep (st w') = ep (st w) -> tr w' = tr w -> kstep P w w'.
Proof.
  intros P w w' H Ht. split; [rewrite H; reflexivity|]. split; [exists []; auto|].
  intros _. apply RV_rp. apply ep_rp. exact H.
Qed.

Lemma kstep_log : forall P w w' e, ep (st w') = ep (st w) -> tr w' = e :: tr w -> nopop e = true -> kstep P w w'.
Proof.
  intros P w w' e H Ht He. split; [rewrite H; reflexivity|]. split.
  - exists [e]. split; [exact Ht|]. cbn [forallb]. rewrite He. reflexivity.
  - intros _. apply RV_rp. apply ep_rp. exact H.
Qed.

Lemma kstep_upd_st : forall P g w, ep (g (st w)) = ep (st w) -> kstep P w (upd_st g w).
Proof. intros P g w H. apply kstep_frame; [exact H | reflexivity]. Qed.
Lemma kstep_set_st : forall P s w, ep s = ep (st w) -> kstep P w (set_st s w).
Proof. intros P s w H. apply kstep_frame; [exact H | reflexivity]. Qed.
Lemma kstep_logw : forall P e w, nopop e = true -> kstep P w (logw e w).
Proof. intros P e w H. apply kstep_log with (e := e); auto. Qed.
Lemma kstep_then_upd : forall P g w w1, kstep P w w1 -> ep (g (st w1)) = ep (st w1) -> kstep P w (upd_st g w1).
Proof. intros P g w w1 H1 H2. eapply kstep_trans; [exact H1 | apply kstep_upd_st; exact H2]. Qed.

Lemma bracket_kstep : forall P w body, (forall w0, kstep P w0 (fst (body w0))) -> kstep P w (fst (bracket w body)).
Proof.
  intros P w body H. unfold Fsm.bracket. destruct (d_mutex D); [|apply H].
  destruct (mu_lock (mu w)) as [m1 ok]. destruct ok; cbn [negb].
  - pose proof (H (logw (ELock true) (set_mu m1 w))) as H1.
    destruct (body (logw (ELock true) (set_mu m1 w))) as [w2 s]. cbn [fst] in H1.
    destruct (mu_unlock (mu w2)) as [m2 ok2].
    assert (kstep P w (logw (EUnlock ok2) (set_mu m2 w2))).
    { apply kstep_trans with (w2 := logw (ELock true) (set_mu m1 w)).
      { apply kstep_log with (e := ELock true); reflexivity. }
      eapply kstep_trans; [exact H1|]. apply kstep_log with (e := EUnlock ok2); reflexivity. }
    destruct ok2; exact H0.
  - apply kstep_log with (e := ELock false); reflexivity.
Qed.

Lemma ep4_push : forall s ci t, fst (ep (fst (push_unsolicited_cmd D s ci t))) = fst (ep s).
Proof.
  intros. unfold push_unsolicited_cmd. destruct (ring_full D s); [reflexivity|].
  cbv zeta. destruct (_ <? _); reflexivity.
Qed.

Lemma RV_push : forall s ci t, valid_trigger D ci t -> RV s -> RV (fst (push_unsolicited_cmd D s ci t)).
Proof.
  intros s ci t Hv [Hw Hf]. pose proof (C13_push D s ci t Hw) as Hp.
  destruct (push_unsolicited_cmd D s ci t) as [s' r]. cbn [fst].
  destruct (_ <? _).
  - destruct Hp as (_ & Hw' & Hi & _). split; [exact Hw'|]. rewrite Hi. apply Forall_app. split; [exact Hf|].
    constructor; [exact Hv | constructor].
  - destruct Hp as (_ & ->). split; assumption.
Qed.

Lemma api_trigger_kstep : forall w ci t, kstep (valid_trigger D ci t) w (fst (api_trigger w ci t)).
Proof.
  intros w ci t.
  destruct (api_trigger_spec D ioS muS hS mu_lock mu_unlock w ci t) as (evs & Ht & Hn & Hc).
  split; [|split].
  - destruct Hc as [[_ Hs]|[Hs _]]; rewrite Hs; [reflexivity | apply ep4_push].
  - exists evs. split; [exact Ht | apply neutral_nopop; exact Hn].
  - intros Hv Hr. destruct Hc as [[_ Hs]|[Hs _]]; rewrite Hs; [exact Hr | apply RV_push; assumption].
Qed.

Lemma api_hold_exit_kstep : forall P w status, kstep P w (fst (api_hold_exit w status)).
Proof.
  intros. unfold Fsm.api_hold_exit. apply bracket_kstep. intros w0.
  destruct (hold_exit (Fsm.st _ _ _ w0) status) as [s' r] eqn:E. cbn [fst].
  apply kstep_set_st. apply (f_equal fst) in E. cbn [fst] in E. subst s'. apply ep_hold_exit.
Qed.

Lemma apply_icall_kstep : forall w c, kstep (valid_icall D c) w (apply_icall w c).
Proof.
  intros w [ci t|status]; unfold Fsm.apply_icall.
  - pose proof (api_trigger_kstep w ci t) as H.
    destruct (api_trigger w ci t) as [w' r]. cbn [fst] in H.
    eapply kstep_trans; [exact H | apply kstep_logw; reflexivity].
  - pose proof (api_hold_exit_kstep (valid_icall D (IHoldExit status)) w status) as H.
    destruct (api_hold_exit w status) as [w' r]. cbn [fst] in H.
    eapply kstep_trans; [exact H | apply kstep_logw; reflexivity].
Qed.

Lemma icalls_kstep : forall cs w, kstep (Forall (valid_icall D) cs) w (fold_left apply_icall cs w).
Proof.
  induction cs as [|c cs IH]; intros w; cbn [fold_left]; [apply kstep_refl|].
  apply kstep_trans with (w2 := apply_icall w c).
  - eapply kstep_weaken; [|apply apply_icall_kstep]. intros H. inversion H; assumption.
  - eapply kstep_weaken; [|apply IH]. intros H. inversion H; assumption.
Qed.

Lemma call_h_kstep : forall w q, kstep HV w (fst (call_h w q)).
Proof.
  intros. unfold Fsm.call_h. destruct (h_call (hs w) q) as [hs' r] eqn:E. cbn [fst].
  eapply kstep_trans; [|eapply kstep_weaken; [|apply icalls_kstep]].
  - apply kstep_then_upd; [|apply ep_apply_pokes].
    apply kstep_log with (e := ECall q (r_code r)); reflexivity.
  - intros H. specialize (H (hs w) q). rewrite E in H. exact H.
Qed.

Lemma call_h_kstep' : forall w0 w q w1 r, kstep HV w0 w -> call_h w q = (w1, r) -> kstep HV w0 w1.
Proof.
  intros w0 w q w1 r H E. eapply kstep_trans; [exact H|].
  pose proof (call_h_kstep w q) as H1. rewrite E in H1. exact H1.
Qed.

Lemma read_cmd_char_kstep : forall P w, kstep P w (fst (read_cmd_char w)).
Proof.
  intros. unfold Fsm.read_cmd_char. destruct (io_read (io w)) as [io' r]. destruct r as [ch|]; cbn [fst].
  - apply kstep_log with (e := ERd (Some ch)); [|reflexivity|reflexivity]. wsimpl. ep_solve.
  - apply kstep_log with (e := ERd None); reflexivity.
Qed.

Lemma reading_kstep : forall P w body, (forall ch s, ep (body ch s) = ep s) -> kstep P w (fst (reading w body)).
Proof.
  intros P w body H. unfold Fsm.reading. pose proof (read_cmd_char_kstep P w) as H1.
  destruct (read_cmd_char w) as [w1 got]. cbn [fst] in H1. destruct got; cbn [negb Fsm.busy fst]; [|exact H1].
  apply kstep_then_upd; [exact H1 | apply H].
Qed.

Ltac ks_upd := wsimpl; first [apply kstep_upd_st | apply kstep_set_st]; wsimpl; ep_solve.

Lemma parse_write_args_kstep : forall w, kstep HV w (fst (parse_write_args D ioS muS hS mu_lock mu_unlock h_call w)).
Proof.
  intros. unfold parse_write_args. cbv zeta.
  destruct (g_cmd ATCMD (st w)) as [ci|]; [|ks_upd].
  destruct (cmd_of D ATCMD (st w)) as [c|]; [|ks_upd].
  destruct (nth_error (c_vars c) (k_var (k (st w)))) as [v|]; [|ks_upd].
  destruct (nth_error (mem (st w)) (v_slot v)) as [data|]; [|ks_upd].
  destruct (decode_var v (skipn (k_position (k (st w))) (cbuf (st w))) data) as [[[pst data'] wsz] n].
  destruct pst as [| |comma]; [ks_upd|ks_upd|].
  destruct (v_hwrite v).
  - destruct (call_h _ _) as [w' r] eqn:E.
    assert (H : kstep HV w w').
    { eapply call_h_kstep'; [|exact E]. apply kstep_set_st. wsimpl. ep_solve. }
    destruct (negb (r_code r =? 0)%Z); wsimpl; (apply kstep_then_upd; [exact H|ep_solve]).
  - wsimpl. apply kstep_then_upd; [apply kstep_set_st; wsimpl; ep_solve | ep_solve].
Qed.

Lemma format_read_args_kstep : forall w, kstep HV w (fst (format_read_args D ioS muS hS mu_lock mu_unlock h_call ATCMD w)).
Proof.
  intros. unfold format_read_args. cbv zeta.
  destruct (g_cmd ATCMD (st w)) as [ci|]; [|ks_upd].
  destruct (cmd_of D ATCMD (st w)) as [c|]; [|ks_upd].
  destruct (nth_error (c_vars c) (g_var ATCMD (st w))) as [v|]; [|ks_upd].
  destruct (v_hread v).
  - destruct (call_h _ _) as [w' r] eqn:E.
    assert (H : kstep HV w w') by (eapply call_h_kstep'; [apply kstep_refl|exact E]).
    destruct (negb (r_code r =? 0)%Z); wsimpl; (apply kstep_then_upd; [exact H|ep_solve]).
  - wsimpl. apply kstep_upd_st. ep_solve.
Qed.

Lemma process_write_loop_kstep : forall w, kstep HV w (fst (process_write_loop D ioS muS hS mu_lock mu_unlock h_call w)).
Proof.
  intros. unfold process_write_loop. cbv zeta.
  destruct (g_cmd ATCMD (st w)) as [ci|]; [|ks_upd].
  destruct (call_h _ _) as [w' r] eqn:E.
  assert (H : kstep HV w w') by (eapply call_h_kstep'; [apply kstep_refl|exact E]).
  wsimpl. apply kstep_then_upd; [exact H|ep_solve].
Qed.

Lemma process_run_loop_kstep : forall w, kstep HV w (fst (process_run_loop D ioS muS hS mu_lock mu_unlock h_call w)).
Proof.
  intros. unfold process_run_loop. cbv zeta.
  destruct (g_cmd ATCMD (st w)) as [ci|]; [|ks_upd].
  destruct (call_h _ _) as [w' r] eqn:E.
  assert (H : kstep HV w w') by (eapply call_h_kstep'; [apply kstep_refl|exact E]).
  wsimpl. apply kstep_then_upd; [exact H|ep_solve].
Qed.

Lemma process_rt_loop_kstep : forall rd w,
  kstep HV w (fst (process_rt_loop D ioS muS hS mu_lock mu_unlock h_call rd ATCMD w)).
Proof.
  intros. unfold process_rt_loop. cbv zeta.
  destruct (g_cmd ATCMD (st w)) as [ci|]; [|ks_upd].
  destruct (call_h _ _) as [w' r] eqn:E.
  assert (H : kstep HV w w') by (eapply call_h_kstep'; [apply kstep_refl|exact E]).
  wsimpl. apply kstep_then_upd; [exact H|ep_solve].
Qed.

Lemma process_io_write_kstep : forall P w, kstep P w (fst (process_io_write ioS muS hS io_write w)).
Proof.
  intros. unfold process_io_write. cbv zeta.
  destruct (wbuf_char _ _ _) as [ch|]; [|ks_upd].
  destruct (ch =? 0)%N; [ks_upd|].
  destruct (io_write (io w) ch) as [io' ok].
  assert (H : kstep P w (logw (EWr ATCMD ch ok) (set_io io' w))) by (apply kstep_log with (e := EWr ATCMD ch ok); reflexivity).
  destruct ok; wsimpl; [|exact H]. apply kstep_then_upd; [exact H|ep_solve].
Qed.

Lemma cmd_service_kstep : forall w, kstep HV w (fst (cmd_service w)).
Proof.
  intros. unfold Fsm.cmd_service.
  destruct (k_state (k (st w))); try ks_upd.
  - unfold error_state. apply reading_kstep. intros. ep_solve.
  - unfold process_idle_state. apply reading_kstep. intros. ep_solve.
  - unfold parse_prefix. apply reading_kstep. intros. ep_solve.
  - unfold parse_command. apply reading_kstep. intros. ep_solve.
  - unfold wait_read_acknowledge. apply reading_kstep. intros. ep_solve.
  - unfold parse_command_args. apply reading_kstep. intros. ep_solve.
  - apply parse_write_args_kstep.
  - apply format_read_args_kstep.
  - unfold wait_test_acknowledge. apply reading_kstep. intros. ep_solve.
  - apply process_write_loop_kstep.
  - apply process_rt_loop_kstep.
  - apply process_rt_loop_kstep.
  - apply process_run_loop_kstep.
  - apply process_io_write_kstep.
Qed.


(* ---------------- the busy event machine ---------------- *)

Definition upostW (s s' : state) : Prop :=
  (u_state (u s') = u_state (u s) /\ u_cmd (u s') = u_cmd (u s) /\ u_type (u s') = u_type (u s) /\
   u_wafter (u s') = u_wafter (u s)) \/
  (u_state (u s') = US_IDLE /\ u_cmd (u s') = None) \/
  (live s' /\ u_cmd (u s') = u_cmd (u s) /\ u_type (u s') = u_type (u s)).

Lemma ep4_fields : forall s s', fst (ep s') = fst (ep s) ->
  u_state (u s') = u_state (u s) /\ u_cmd (u s') = u_cmd (u s) /\ u_type (u s') = u_type (u s) /\
  u_wafter (u s') = u_wafter (u s).
Proof. intros s s' H. unfold ep in H. cbn [fst] in H. injection H as -> -> -> ->. auto. Qed.

Lemma upostS_W : forall s s', upostS s s' -> ringpart s' = ringpart s /\ upostW s s'.
Proof.
  intros s s' H. unfold upostS, upostSE, ep in H. destruct H as [Hr H]. split; [exact Hr|].
  destruct H as [H|H]; [right; left; exact H | right; right; exact H].
Qed.

Lemma upost_W : forall s s', upost s s' -> ringpart s' = ringpart s /\ upostW s s'.
Proof.
  intros s s' [H|H]; [|apply upostS_W; exact H]. split; [apply ep_rp; exact H|].
  left. apply ep4_fields. rewrite H. reflexivity.
Qed.

Lemma upostW_pre : forall s0 s s', fst (ep s0) = fst (ep s) -> upostW s0 s' -> upostW s s'.
Proof.
  intros s0 s s' H. apply ep4_fields in H. destruct H as (H1 & H2 & H3 & H4).
  unfold upostW. rewrite H1, H2, H3, H4. auto.
Qed.

Lemma live_ep4 : forall s s', fst (ep s') = fst (ep s) -> live s -> live s'.
Proof. intros s s' H. apply ep4_fields in H. destruct H as (H1 & _ & _ & H4). unfold live. rewrite H1, H4. auto. Qed.

Definition ustep (w w' : world) : Prop :=
  (exists evs, tr w' = evs ++ tr w /\ forallb nopop evs = true) /\
  (HV -> live (st w) -> RV (st w) -> RV (st w') /\ upostW (st w) (st w')).

Lemma ustep_of : forall g w w1, kstep HV w w1 -> (live (st w1) -> upost (st w1) (g (st w1))) ->
  ustep w (upd_st g w1).
Proof.
  intros g w w1 (A & B & C) H. split; [exact B|]. intros Hv Hl Hr.
  assert (Hl1 : live (st w1)) by (eapply live_ep4; eauto).
  specialize (H Hl1). apply upost_W in H. destruct H as [Hrp HW]. wsimpl. split.
  - eapply RV_rp; [exact Hrp|]. auto.
  - eapply upostW_pre; [exact A | exact HW].
Qed.

Lemma ustep_of_kstep : forall w w1, kstep HV w w1 -> ustep w w1.
Proof.
  intros w w1 (A & B & C). split; [exact B|]. intros Hv Hl Hr. split; [auto|].
  left. apply ep4_fields. exact A.
Qed.

Ltac us_fault := wsimpl; apply ustep_of; [apply kstep_refl | intros _; apply upost_frame; reflexivity].

Lemma format_read_args_ustep : forall w,
  ustep w (fst (format_read_args D ioS muS hS mu_lock mu_unlock h_call UNSOL w)).
Proof.
  intros. unfold format_read_args. cbv zeta.
  destruct (g_cmd UNSOL (st w)) as [ci|]; [|us_fault].
  destruct (cmd_of D UNSOL (st w)) as [c|]; [|us_fault].
  destruct (nth_error (c_vars c) (g_var UNSOL (st w))) as [v|]; [|us_fault].
  destruct (v_hread v).
  - destruct (call_h _ _) as [w' r] eqn:E.
    assert (H : kstep HV w w') by (eapply call_h_kstep'; [apply kstep_refl|exact E]).
    destruct (negb (r_code r =? 0)%Z); wsimpl.
    + apply ustep_of; [exact H|]. intros _. right. ups_leaf.
    + apply (ustep_of (fra_post D v c)); [exact H|]. intros _. apply up_fra_post.
  - wsimpl. apply (ustep_of (fra_post D v c)); [apply kstep_refl|]. intros _. apply up_fra_post.
Qed.

Lemma process_rt_loop_ustep : forall rd w,
  ustep w (fst (process_rt_loop D ioS muS hS mu_lock mu_unlock h_call rd UNSOL w)).
Proof.
  intros. unfold process_rt_loop. cbv zeta.
  destruct (g_cmd UNSOL (st w)) as [ci|]; [|us_fault].
  destruct (call_h _ _) as [w' r] eqn:E.
  assert (H : kstep HV w w') by (eapply call_h_kstep'; [apply kstep_refl|exact E]).
  wsimpl. apply (ustep_of (rt_post D rd (r_edit r) (r_code r))); [exact H|]. intros _. apply up_rt_post.
Qed.

Lemma unsolicited_process_io_write_ustep : forall w, u_state (u (st w)) = US_FLUSH ->
  ustep w (fst (unsolicited_process_io_write ioS muS hS io_write w)).
Proof.
  intros w Hs. unfold unsolicited_process_io_write. cbv zeta.
  destruct (wbuf_char _ _ _) as [ch|]; [|us_fault].
  destruct (ch =? 0)%N.
  - wsimpl. apply (ustep_of uiow_done); [apply kstep_refl|]. intros Hl. apply up_uiow_done; assumption.
  - destruct (io_write (io w) ch) as [io' ok].
    assert (H : kstep HV w (logw (EWr UNSOL ch ok) (set_io io' w))) by (apply kstep_log with (e := EWr UNSOL ch ok); reflexivity).
    destruct ok; wsimpl; [|apply ustep_of_kstep; exact H].
    apply ustep_of; [exact H|]. intros _. apply upost_frame. reflexivity.
Qed.

Lemma uns_busy_ustep : forall w, u_state (u (st w)) <> US_IDLE -> ustep w (fst (unsolicited_events_service w)).
Proof.
  intros w Hs. unfold Fsm.unsolicited_events_service.
  destruct (u_state (u (st w))) eqn:Es; try (exfalso; apply Hs; reflexivity).
  - apply format_read_args_ustep.
  - wsimpl. apply ustep_of; [apply kstep_refl|]. intros _. apply up_fta.
  - apply process_rt_loop_ustep.
  - apply process_rt_loop_ustep.
  - wsimpl. apply ustep_of; [apply kstep_refl|]. intros Hl. apply up_wait; assumption.
  - apply unsolicited_process_io_write_ustep. exact Es.
  - wsimpl. apply ustep_of; [apply kstep_refl|]. intros _. right. ups_leaf.
  - wsimpl. apply ustep_of; [apply kstep_refl|]. intros _. right. ups_leaf.
  - wsimpl. apply ustep_of; [apply kstep_refl|]. intros _. apply up_spfr_w.
  - wsimpl. apply ustep_of; [apply kstep_refl|]. intros _. apply up_spft_w.
Qed.

(* ---------------- P1: a pop starts the processing of exactly that event ---------------- *)

Definition start_event (ci : nat) (t : ctype) (s1 : state) : state :=
  let s2 := s1 |> setu_cmd (Some ci) |> setu_type t in
  match t with
  | T_READ => start_processing_format_read_args D UNSOL s2
  | T_TEST => start_processing_format_test_args D UNSOL s2
  | _ => s2
  end.

Lemma ep4_pop : forall s, fst (ep (fst (pop_unsolicited_cmd D s))) = fst (ep s).
Proof.
  intros. unfold pop_unsolicited_cmd. destruct (ring_empty s); [reflexivity|].
  cbv zeta. destruct (nth_error _ _); reflexivity.
Qed.

Theorem pop_starts : forall w ci t rest,
  ring_wf D (st w) -> u_state (u (st w)) = US_IDLE -> ring_items D (st w) = (ci, t) :: rest ->
  exists s1, pop_unsolicited_cmd D (st w) = (s1, Some (ci, t)) /\ ring_wf D s1 /\ ring_items D s1 = rest /\
    unsolicited_events_service w =
      (mkWorld (start_event ci t s1) (io w) (mu w) (hs w) (EPop ci t :: tr w), ST_BUSY).
Proof.
  intros w ci t rest Hw Hs Hi.
  pose proof (C13_pop D (st w) Hw) as Hp. rewrite Hi in Hp. destruct Hp as (s1 & Hp & Hw1 & Hi1 & _).
  exists s1. split; [exact Hp|]. split; [exact Hw1|]. split; [exact Hi1|].
  unfold Fsm.unsolicited_events_service. rewrite Hs.
  assert (He : ring_empty (st w) = false).
  { unfold ring_empty. pose proof (C13_items_length D (st w) Hw) as HL. rewrite Hi in HL. cbn [length] in HL.
    rewrite <- HL. reflexivity. }
  rewrite He, Hi. cbn [negb fst snd]. unfold Fsm.busy, Fsm.upd_st, Fsm.set_st, Fsm.logw.
  cbn [Fsm.st Fsm.io Fsm.mu Fsm.hs Fsm.tr].
  unfold check_unsolicited_buffers. rewrite Hp. unfold start_event. destruct t; reflexivity.
Qed.

Theorem idle_empty_nothing : forall w,
  ring_wf D (st w) -> u_state (u (st w)) = US_IDLE -> ring_items D (st w) = [] ->
  unsolicited_events_service w = (w, ST_OK).
Proof.
  intros w Hw Hs Hi. unfold Fsm.unsolicited_events_service. rewrite Hs.
  assert (He : ring_empty (st w) = true).
  { unfold ring_empty. pose proof (C13_items_length D (st w) Hw) as HL. rewrite Hi in HL. cbn [length] in HL.
    rewrite <- HL. reflexivity. }
  rewrite He. reflexivity.
Qed.

(* what the started event looks like: finished at once, or in progress with u_cmd / u_type set *)
Lemma start_event_post : forall ci t s1, vitem (ci, t) ->
  let s' := start_event ci t s1 in
  ringpart s' = ringpart s1 /\
  ((u_state (u s') = US_IDLE /\ u_cmd (u s') = None) \/
   (live s' /\ u_cmd (u s') = Some ci /\ u_type (u s') = t)).
Proof.
  intros ci t s1 [Hc Ht] s'. cbn [fst snd] in Hc, Ht.
  set (s2 := s1 |> setu_cmd (Some ci) |> setu_type t).
  assert (Hcmd : cmd_of D UNSOL s2 <> None).
  { unfold cmd_of, cmd_at. cbn. apply nth_error_Some. exact Hc. }
  assert (H : upostS s2 s').
  { subst s'. unfold start_event. fold s2. destruct Ht as [-> | ->].
    - destruct (up_spfr D s2) as [[Hn _]|H]; [contradiction | exact H].
    - destruct (up_spft D s2) as [[Hn _]|H]; [contradiction | exact H]. }
  unfold upostS, upostSE, ep in H. destruct H as [Hr H]. split; [exact Hr|].
  destruct H as [H|H]; [left; exact H | right; exact H].
Qed.


(* ---------------- the history invariant ---------------- *)

Definition cur_ok (w : world) : Prop :=
  (u_state (u (st w)) = US_IDLE -> u_cmd (u (st w)) = None) /\
  (u_state (u (st w)) <> US_IDLE ->
     live (st w) /\
     exists p ci t, popped (hist w) = p ++ [(ci, t)] /\ u_cmd (u (st w)) = Some ci /\ u_type (u (st w)) = t).
Definition Inv (w : world) : Prop := RV (st w) /\ cur_ok w.

Lemma popped_same : forall w w', (exists evs, tr w' = evs ++ tr w /\ forallb nopop evs = true) ->
  popped (hist w') = popped (hist w).
Proof.
  intros w w' (evs & Ht & Hn). rewrite (hist_app ioS muS hS w w' evs Ht).
  apply popped_nopop. apply forallb_rev. exact Hn.
Qed.

Lemma Inv_kstep : forall (P : Prop) w w', P -> kstep P w w' -> Inv w -> Inv w'.
Proof.
  intros P w w' HP (A & B & C) [Hr [Hi Hb]]. split; [auto|].
  apply ep4_fields in A. destruct A as (A1 & A2 & A3 & A4).
  unfold cur_ok, live. rewrite A1, A2, A3, A4, (popped_same w w' B). split; assumption.
Qed.

Lemma Inv_ustep : forall w w', HV -> u_state (u (st w)) <> US_IDLE -> ustep w w' -> Inv w -> Inv w'.
Proof.
  intros w w' Hv Hs [B C] [Hr [Hi Hb]].
  destruct (Hb Hs) as (Hl & p & ci & t & Hp & Hc & Ht).
  destruct (C Hv Hl Hr) as [Hr' HW]. split; [exact Hr'|].
  unfold cur_ok. rewrite (popped_same w w' B).
  destruct HW as [(H1 & H2 & H3 & H4)|[[H1 H2]|(H1 & H2 & H3)]].
  - unfold live. rewrite H1, H2, H3, H4. split; [intros; contradiction|].
    intros _. split; [exact Hl|]. exists p, ci, t. auto.
  - split; [intros _; exact H2 | intros H; contradiction].
  - split.
    + intros H. unfold live in H1. rewrite H in H1. discriminate H1.
    + intros _. split; [exact H1|]. exists p, ci, t. rewrite H2, H3. auto.
Qed.

Lemma Inv_uns : forall w, HV -> Inv w -> Inv (fst (unsolicited_events_service w)).
Proof.
  intros w Hv HI. destruct (ustate_eq_dec (u_state (u (st w))) US_IDLE) as [Hs|Hs].
  2:{ eapply Inv_ustep; [exact Hv | exact Hs | apply uns_busy_ustep; exact Hs | exact HI]. }
  destruct HI as [[Hw Hf] [Hi Hb]].
  destruct (ring_items D (st w)) as [|[ci t] rest] eqn:Ei.
  - rewrite (idle_empty_nothing w Hw Hs Ei). cbn [fst]. split; [split; [exact Hw | rewrite Ei; exact Hf] | split; assumption].
  - destruct (pop_starts w ci t rest Hw Hs Ei) as (s1 & Hp & Hw1 & Hi1 & Hu). rewrite Hu. cbn [fst].
    inversion Hf as [|x l Hv1 Hvr]; subst x l.
    destruct (start_event_post ci t s1 Hv1) as [Hrp Hc].
    split.
    + cbn [Fsm.st]. apply RV_rp with (s := s1); [exact Hrp|]. split; [exact Hw1 | rewrite Hi1; exact Hvr].
    + unfold cur_ok. cbn [Fsm.st].
      assert (Hh : popped (hist (mkWorld (start_event ci t s1) (io w) (mu w) (hs w) (EPop ci t :: tr w))) =
                   popped (hist w) ++ [(ci, t)]).
      { unfold TraceDefs.hist. cbn [Fsm.tr rev]. apply popped_snoc. }
      rewrite Hh. destruct Hc as [[H1 H2]|(H1 & H2 & H3)].
      * split; [intros _; exact H2 | intros H; contradiction].
      * split.
        -- intros H. unfold live in H1. rewrite H in H1. discriminate H1.
        -- intros _. split; [exact H1|]. exists (popped (hist w)), ci, t. auto.
Qed.

Lemma Inv_service_body : forall w, HV -> Inv w -> Inv (fst (service_body w)).
Proof.
  intros w Hv HI. unfold Fsm.service_body.
  pose proof (Inv_uns w Hv HI) as H1.
  destruct (unsolicited_events_service w) as [w1 us]. cbn [fst] in H1.
  pose proof (cmd_service_kstep w1) as H2.
  destruct (cmd_service w1) as [w2 s]. cbn [fst] in H2.
  assert (H : Inv w2) by (eapply Inv_kstep; [exact Hv | exact H2 | exact H1]).
  destruct (_ || _); exact H.
Qed.

Lemma bracket_Inv : forall w body, (forall w0, Inv w0 -> Inv (fst (body w0))) -> Inv w -> Inv (fst (bracket w body)).
Proof.
  intros w body H HI. unfold Fsm.bracket. destruct (d_mutex D); [|apply H; exact HI].
  destruct (mu_lock (mu w)) as [m1 ok]. destruct ok; cbn [negb].
  - assert (H0 : Inv (logw (ELock true) (set_mu m1 w))).
    { eapply (Inv_kstep True); [exact I| |exact HI]. apply kstep_log with (e := ELock true); reflexivity. }
    pose proof (H _ H0) as H1.
    destruct (body (logw (ELock true) (set_mu m1 w))) as [w2 s]. cbn [fst] in H1.
    destruct (mu_unlock (mu w2)) as [m2 ok2].
    assert (Inv (logw (EUnlock ok2) (set_mu m2 w2))).
    { eapply (Inv_kstep True); [exact I| |exact H1]. apply kstep_log with (e := EUnlock ok2); reflexivity. }
    destruct ok2; assumption.
  - cbn [fst]. eapply (Inv_kstep True); [exact I| |exact HI]. apply kstep_log with (e := ELock false); reflexivity.
Qed.

Lemma Inv_do_op : forall w o, HV -> valid_op D o -> Inv w -> Inv (fst (do_op w o)).
Proof.
  intros w o Hv Ho HI. destruct o as [|ci t|status| | | |ci t|f|i b|g b]; cbn [Fsm.do_op fst].
  - unfold Fsm.api_service. apply bracket_Inv; [|exact HI]. intros w0 H0. apply Inv_service_body; assumption.
  - eapply Inv_kstep; [exact Ho | apply api_trigger_kstep | exact HI].
  - eapply (Inv_kstep True); [exact I | apply api_hold_exit_kstep | exact HI].
  - unfold Fsm.api_is_busy. apply bracket_Inv; [|exact HI]. intros w0 H0. exact H0.
  - unfold Fsm.api_is_hold. apply bracket_Inv; [|exact HI]. intros w0 H0. exact H0.
  - unfold Fsm.api_is_full. apply bracket_Inv; [|exact HI]. intros w0 H0. exact H0.
  - exact HI.
  - exact HI.
  - eapply (Inv_kstep True); [exact I | apply kstep_upd_st; reflexivity | exact HI].
  - eapply (Inv_kstep True); [exact I | apply kstep_upd_st; reflexivity | exact HI].
Qed.

Lemma Inv_step : forall w o, HV -> valid_op D o -> Inv w -> Inv (step w o).
Proof.
  intros w o Hv Ho HI. unfold Fsm.step. pose proof (Inv_do_op w o Hv Ho HI) as H.
  destruct (do_op w o) as [w' r]. cbn [fst] in H.
  eapply (Inv_kstep True); [exact I | apply kstep_logw; reflexivity | exact H].
Qed.

Lemma Inv_run : forall ops w, HV -> Forall (valid_op D) ops -> Inv w -> Inv (run w ops).
Proof.
  induction ops as [|o ops IH]; intros w Hv Ho HI; cbn [Fsm.run fold_left]; [exact HI|].
  inversion Ho; subst. apply IH; [exact Hv | assumption | apply Inv_step; assumption].
Qed.

Lemma Inv_init : forall m x mx h, 0 < d_cap D -> Inv (mkWorld (init_state D m) x mx h []).
Proof.
  intros m x mx h Hc. split.
  - split; [apply init_wf; exact Hc | constructor].
  - split; [reflexivity | intros H; exfalso; apply H; reflexivity].
Qed.

Theorem Inv_reachable : forall m x mx h ops, 0 < d_cap D -> HV -> Forall (valid_op D) ops ->
  Inv (run (mkWorld (init_state D m) x mx h []) ops).
Proof. intros. apply Inv_run; [assumption | assumption | apply Inv_init; assumption]. Qed.

(* ---------------- P2: the event in progress is the last popped one ---------------- *)

Theorem in_progress_history : forall m x mx h ops, 0 < d_cap D -> HV -> Forall (valid_op D) ops ->
  let w := run (mkWorld (init_state D m) x mx h []) ops in
  (u_state (u (st w)) = US_IDLE -> u_cmd (u (st w)) = None) /\
  (u_state (u (st w)) <> US_IDLE ->
     exists p ci t, popped (hist w) = p ++ [(ci, t)] /\ u_cmd (u (st w)) = Some ci /\ u_type (u (st w)) = t).
Proof.
  intros m x mx h ops Hc Hv Ho w.
  destruct (Inv_reachable m x mx h ops Hc Hv Ho) as [_ [Hi Hb]]. fold w in Hi, Hb.
  split; [exact Hi|]. intros H. destruct (Hb H) as [_ He]. exact He.
Qed.

(* ---------------- P3: the observers ---------------- *)

Definition in_progress (w : world) : list (nat * ctype) :=
  if ustate_beq (u_state (u (st w))) US_IDLE then [] else [last (popped (hist w)) (0, T_NONE)].

Lemma observers_of_cur : forall w, cur_ok w ->
  (forall ci t, is_event_buffered D (st w) ci t = ST_BUSY <->
     exists it, In it (in_progress w ++ ring_items D (st w)) /\ ev_match ci t it = true) /\
  get_processed (st w) UNSOL = match in_progress w with [] => (-1)%Z | it :: _ => Z.of_nat (fst it) end.
Proof.
  intros w [Hi Hb]. unfold in_progress.
  destruct (ustate_eq_dec (u_state (u (st w))) US_IDLE) as [Hs|Hs].
  - rewrite Hs. cbn [ustate_beq app]. specialize (Hi Hs). split.
    + intros ci t. rewrite (C13_is_buffered D). rewrite Hi. split.
      * intros [(c & Hc & _)|H]; [discriminate Hc | exact H].
      * intros H. right. exact H.
    + unfold get_processed, g_cmd. rewrite Hi. reflexivity.
  - destruct (Hb Hs) as (_ & p & c0 & t0 & Hp & Hc & Ht).
    assert (Eb : ustate_beq (u_state (u (st w))) US_IDLE = false).
    { destruct (ustate_beq (u_state (u (st w))) US_IDLE) eqn:E; [|reflexivity].
      apply internal_ustate_dec_bl in E. contradiction. }
    rewrite Eb, Hp, last_last. split.
    + intros ci t. rewrite (C13_is_buffered D). rewrite Hc, Ht. split.
      * intros [(c & Hc' & Hm)|(it & Hin & Hm)].
        -- injection Hc' as <-. exists (c0, t0). split; [left; reflexivity | exact Hm].
        -- exists it. split; [right; exact Hin | exact Hm].
      * intros (it & [<-|Hin] & Hm).
        -- left. exists c0. auto.
        -- right. exists it. auto.
    + unfold get_processed, g_cmd. rewrite Hc. reflexivity.
Qed.

Theorem observers_exact : forall m x mx h ops, 0 < d_cap D -> HV -> Forall (valid_op D) ops ->
  let w := run (mkWorld (init_state D m) x mx h []) ops in
  (forall ci t, is_event_buffered D (st w) ci t = ST_BUSY <->
     exists it, In it (in_progress w ++ ring_items D (st w)) /\ ev_match ci t it = true) /\
  get_processed (st w) UNSOL = match in_progress w with [] => (-1)%Z | it :: _ => Z.of_nat (fst it) end.
Proof.
  intros m x mx h ops Hc Hv Ho w. apply observers_of_cur.
  destruct (Inv_reachable m x mx h ops Hc Hv Ho) as [_ H]. exact H.
Qed.


(* ---------------- P1 (converse): idle is left only by a pop; an EPop is logged exactly then ---------------- *)

Lemma start_event_any : forall ci t s1, u_state (u s1) = US_IDLE ->
  let s' := start_event ci t s1 in
  u_state (u s') <> US_IDLE -> u_cmd (u s') = Some ci /\ u_type (u s') = t.
Proof.
  intros ci t s1 Hs s' Hn. subst s'. unfold start_event in *.
  set (s2 := s1 |> setu_cmd (Some ci) |> setu_type t) in *.
  assert (Hs2 : u_state (u s2) = US_IDLE) by exact Hs.
  assert (G : forall s', (cmd_of D UNSOL s2 = None /\ ep s' = ep s2) \/ upostS s2 s' ->
              u_state (u s') <> US_IDLE -> u_cmd (u s') = Some ci /\ u_type (u s') = t).
  { intros s' [[_ H]|H] Hn'.
    - exfalso. apply Hn'. apply (f_equal fst) in H. apply ep4_fields in H. destruct H as [H _]. congruence.
    - unfold upostS, upostSE, ep in H. destruct H as [_ [[H _]|(_ & H2 & H3)]]; [contradiction|].
      split; assumption. }
  destruct t; try (exfalso; apply Hn; exact Hs2).
  - apply G; [apply up_spfr | exact Hn].
  - apply G; [apply up_spft | exact Hn].
Qed.

(* one call of the service body *)
Lemma service_body_pops : forall w, ring_wf D (st w) ->
  let w2 := fst (service_body w) in
  (u_state (u (st w)) <> US_IDLE /\ popped (hist w2) = popped (hist w)) \/
  (u_state (u (st w)) = US_IDLE /\ ring_items D (st w) = [] /\ popped (hist w2) = popped (hist w) /\
   fst (ep (st w2)) = fst (ep (st w))) \/
  (u_state (u (st w)) = US_IDLE /\ exists ci t rest s1, ring_items D (st w) = (ci, t) :: rest /\
   pop_unsolicited_cmd D (st w) = (s1, Some (ci, t)) /\
   popped (hist w2) = popped (hist w) ++ [(ci, t)] /\
   fst (ep (st w2)) = fst (ep (start_event ci t s1))).
Proof.
  intros w Hw w2. subst w2. unfold Fsm.service_body.
  pose proof (cmd_service_kstep (fst (unsolicited_events_service w))) as Hk.
  destruct Hk as (A & B & _).
  destruct (ustate_eq_dec (u_state (u (st w))) US_IDLE) as [Hs|Hs].
  - right. destruct (ring_items D (st w)) as [|[ci t] rest] eqn:Ei.
    + left. rewrite (idle_empty_nothing w Hw Hs Ei) in *. cbn [fst] in *.
      destruct (cmd_service w) as [w2 s]. cbn [fst] in *.
      assert (E : forall b : bool, fst (if b then (w2, ST_BUSY) else (w2, s)) = w2) by (intros []; reflexivity).
      rewrite E. split; [exact Hs|]. split; [reflexivity|]. split; [apply popped_same; exact B | exact A].
    + right. destruct (pop_starts w ci t rest Hw Hs Ei) as (s1 & Hp & _ & _ & Hu). rewrite Hu in *. cbn [fst] in *.
      destruct (cmd_service _) as [w2 s]. cbn [fst] in *.
      assert (E : forall b : bool, fst (if b then (w2, ST_BUSY) else (w2, s)) = w2) by (intros []; reflexivity).
      rewrite E. split; [exact Hs|]. exists ci, t, rest, s1. split; [reflexivity|]. split; [exact Hp|]. split; [|exact A].
      rewrite (popped_same _ w2 B). unfold TraceDefs.hist. cbn [Fsm.tr rev]. apply popped_snoc.
  - left. split; [exact Hs|].
    pose proof (uns_busy_ustep w Hs) as [B1 _].
    destruct (unsolicited_events_service w) as [w1 us]. cbn [fst] in *.
    destruct (cmd_service w1) as [w2 s]. cbn [fst] in *.
    assert (E : forall b : bool, fst (if b then (w2, ST_BUSY) else (w2, s)) = w2) by (intros []; reflexivity).
    rewrite E. rewrite (popped_same _ _ B). apply popped_same. exact B1.
Qed.

(* did cat_service get the lock? *)
Definition lockb (w : world) : bool := negb (d_mutex D) || snd (mu_lock (mu w)).

Lemma api_service_split : forall w,
  (lockb w = false /\ st (fst (api_service w)) = st w /\ popped (hist (fst (api_service w))) = popped (hist w)) \/
  (lockb w = true /\ exists w1, st w1 = st w /\ popped (hist w1) = popped (hist w) /\
     st (fst (api_service w)) = st (fst (service_body w1)) /\
     popped (hist (fst (api_service w))) = popped (hist (fst (service_body w1)))).
Proof.
  intros w. unfold Fsm.api_service, Fsm.bracket, lockb. destruct (d_mutex D); cbn [negb orb].
  - destruct (mu_lock (mu w)) as [m1 ok]. cbn [snd]. destruct ok; cbn [negb].
    + right. split; [reflexivity|]. exists (logw (ELock true) (set_mu m1 w)).
      split; [reflexivity|]. split.
      { unfold TraceDefs.hist. cbn [Fsm.tr Fsm.logw Fsm.set_mu rev]. rewrite popped_snoc. apply app_nil_r. }
      destruct (service_body _) as [w2 s]. destruct (mu_unlock (mu w2)) as [m2 ok2]. cbn [fst].
      assert (E : forall (a b : Z), fst (if negb ok2 then (logw (EUnlock ok2) (set_mu m2 w2), a)
                                        else (logw (EUnlock ok2) (set_mu m2 w2), b)) = logw (EUnlock ok2) (set_mu m2 w2))
        by (intros; destruct ok2; reflexivity).
      rewrite E. split; [reflexivity|].
      unfold TraceDefs.hist. cbn [Fsm.tr Fsm.logw Fsm.set_mu rev]. rewrite popped_snoc. apply app_nil_r.
    + left. split; [reflexivity|]. cbn [fst]. split; [reflexivity|].
      unfold TraceDefs.hist. cbn [Fsm.tr Fsm.logw Fsm.set_mu rev]. rewrite popped_snoc. apply app_nil_r.
  - right. split; [reflexivity|]. exists w. auto.
Qed.

(* every operation other than cat_service leaves the event fields alone and logs no pop *)
Lemma other_ops_kstep : forall w o, o <> OService -> kstep (valid_op D o) w (fst (do_op w o)).
Proof.
  intros w o Ho. destruct o as [|ci t|status| | | |ci t|f|i b|g b]; cbn [Fsm.do_op fst]; try contradiction.
  - apply api_trigger_kstep.
  - apply api_hold_exit_kstep.
  - unfold Fsm.api_is_busy. apply bracket_kstep. intros; apply kstep_refl.
  - unfold Fsm.api_is_hold. apply bracket_kstep. intros; apply kstep_refl.
  - unfold Fsm.api_is_full. apply bracket_kstep. intros; apply kstep_refl.
  - apply kstep_refl.
  - apply kstep_refl.
  - apply kstep_upd_st; reflexivity.
  - apply kstep_upd_st; reflexivity.
Qed.

Lemma step_st : forall w o, st (step w o) = st (fst (do_op w o)).
Proof. intros. unfold Fsm.step. destruct (do_op w o). reflexivity. Qed.
Lemma step_popped : forall w o, popped (hist (step w o)) = popped (hist (fst (do_op w o))).
Proof.
  intros. unfold Fsm.step. destruct (do_op w o) as [w' r]. cbn [fst].
  unfold TraceDefs.hist. cbn [Fsm.tr Fsm.logw rev]. rewrite popped_snoc. apply app_nil_r.
Qed.

(* an EPop is logged exactly when cat_service, holding the lock, finds the event machine idle and
   the queue non-empty; it names the head of the queue *)
Theorem pop_logged_exactly : forall w o, ring_wf D (st w) ->
  popped (hist (step w o)) = popped (hist w) ++
    match o with
    | OService => if ustate_beq (u_state (u (st w))) US_IDLE && lockb w then firstn 1 (ring_items D (st w)) else []
    | _ => []
    end.
Proof.
  intros w o Hw. rewrite step_popped.
  destruct (op_eq_service o) as [->|Ho].
  2:{ destruct (other_ops_kstep w o Ho) as (_ & B & _). rewrite (popped_same _ _ B).
      destruct o; try (symmetry; apply app_nil_r). contradiction. }
  cbn [Fsm.do_op].
  destruct (api_service_split w) as [(Hl & _ & Hp)|(Hl & w1 & Hs1 & Hp1 & _ & Hp)]; rewrite Hl, Hp.
  - rewrite andb_false_r. symmetry. apply app_nil_r.
  - rewrite andb_true_r. rewrite <- Hs1 in *. rewrite <- Hp1.
    destruct (service_body_pops w1 Hw) as [(Hs & H)|[(Hs & Hi & H & _)|(Hs & ci & t & rest & s1 & Hi & _ & H & _)]]; rewrite H.
    + destruct (ustate_beq (u_state (u (st w1))) US_IDLE) eqn:E; [|symmetry; apply app_nil_r].
      apply internal_ustate_dec_bl in E. contradiction.
    + rewrite Hi. destruct (ustate_beq _ _); symmetry; apply app_nil_r.
    + rewrite Hs, Hi. reflexivity.
Qed.

(* the event machine leaves US_IDLE only by such a pop *)
Theorem idle_left_only_by_pop : forall w o, ring_wf D (st w) ->
  u_state (u (st w)) = US_IDLE -> u_state (u (st (step w o))) <> US_IDLE ->
  o = OService /\ lockb w = true /\
  exists ci t rest, ring_items D (st w) = (ci, t) :: rest /\
    popped (hist (step w o)) = popped (hist w) ++ [(ci, t)] /\
    u_cmd (u (st (step w o))) = Some ci /\ u_type (u (st (step w o))) = t.
Proof.
  intros w o Hw Hs Hn.
  pose proof (pop_logged_exactly w o Hw) as HP. rewrite step_st in *.
  destruct (op_eq_service o) as [->|Ho].
  2:{ exfalso. destruct (other_ops_kstep w o Ho) as (A & _ & _). apply ep4_fields in A. destruct A as [A _]. congruence. }
  split; [reflexivity|]. cbn [Fsm.do_op] in *.
  destruct (api_service_split w) as [(Hl & Hst & _)|(Hl & w1 & Hs1 & _ & Hst & _)].
  { exfalso. rewrite Hst in Hn. contradiction. }
  split; [exact Hl|]. rewrite Hst in *. rewrite <- Hs1 in *.
  destruct (service_body_pops w1 Hw) as [(Hs' & _)|[(_ & _ & _ & A)|(_ & ci & t & rest & s1 & Hi & Hp & _ & A)]].
  - contradiction.
  - exfalso. apply ep4_fields in A. destruct A as [A _]. congruence.
  - exists ci, t, rest. split; [exact Hi|]. split.
    + rewrite HP, Hs, Hl, Hi. reflexivity.
    + apply ep4_fields in A. destruct A as (A1 & A2 & A3 & _). rewrite A1 in Hn. rewrite A2, A3.
      apply start_event_any; [|exact Hn].
      pose proof (ep4_pop (st w1)) as Ep. rewrite Hp in Ep. cbn [fst] in Ep.
      apply ep4_fields in Ep. destruct Ep as [Ep _]. congruence.
Qed.


(* ---------------- P4: cat_is_unsolicited_buffer_full predicts the next trigger ---------------- *)

Ltac zdisc H := unfold ST_OK, ST_BUFFER_FULL, ST_MUTEX_UNLOCK, ST_MUTEX_LOCK in H; discriminate H.

Theorem full_predicts : forall w ci t, d_mutex D = false ->
  fst (api_is_full w) = w /\
  (snd (api_is_full w) = ST_BUFFER_FULL <-> snd (api_trigger w ci t) = ST_BUFFER_FULL) /\
  (snd (api_is_full w) = ST_OK <-> snd (api_trigger w ci t) = ST_OK).
Proof.
  intros w ci t Hm. unfold Fsm.api_is_full, Fsm.api_trigger, Fsm.bracket. rewrite Hm.
  unfold push_unsolicited_cmd. destruct (ring_full D (st w)); cbn [fst snd].
  - split; [reflexivity|]. split; split; intros H; try reflexivity; zdisc H.
  - split; [reflexivity|]. split; split; intros H; try reflexivity; zdisc H.
Qed.

(* with a mutex whose operations succeed: the query is followed by the trigger *)
Theorem full_predicts_mutex : forall w ci t,
  (forall m, snd (mu_lock m) = true) -> (forall m, snd (mu_unlock m) = true) ->
  st (fst (api_is_full w)) = st w /\
  (snd (api_is_full w) = ST_BUFFER_FULL <-> snd (api_trigger (fst (api_is_full w)) ci t) = ST_BUFFER_FULL) /\
  (snd (api_is_full w) = ST_OK <-> snd (api_trigger (fst (api_is_full w)) ci t) = ST_OK).
Proof.
  intros w ci t HL HU. unfold Fsm.api_is_full, Fsm.api_trigger, Fsm.bracket.
  destruct (d_mutex D).
  - pose proof (HL (mu w)) as E1. destruct (mu_lock (mu w)) as [m1 ok1]. cbn [snd] in E1. subst ok1. cbn [negb].
    wsimpl. pose proof (HU m1) as E2. destruct (mu_unlock m1) as [m2 ok2]. cbn [snd] in E2. subst ok2. cbn [negb].
    wsimpl. pose proof (HL m2) as E3. destruct (mu_lock m2) as [m3 ok3]. cbn [snd] in E3. subst ok3. cbn [negb].
    wsimpl. unfold push_unsolicited_cmd. destruct (ring_full D (st w)); wsimpl.
    + pose proof (HU m3) as E4. destruct (mu_unlock m3) as [m4 ok4]. cbn [snd] in E4. subst ok4. cbn [negb snd].
      split; [reflexivity|]. split; split; intros H; try reflexivity; zdisc H.
    + pose proof (HU m3) as E4. destruct (mu_unlock m3) as [m4 ok4]. cbn [snd] in E4. subst ok4. cbn [negb snd].
      split; [reflexivity|]. split; split; intros H; try reflexivity; zdisc H.
  - cbn [fst snd]. unfold push_unsolicited_cmd. destruct (ring_full D (st w)); cbn [fst snd];
      (split; [reflexivity|]; split; split; intros H; try reflexivity; zdisc H).
Qed.

(* the trigger with a mutex, by cases on lock / unlock *)
Theorem trigger_lock_fails : forall w ci t, d_mutex D = true -> snd (mu_lock (mu w)) = false ->
  api_trigger w ci t = (logw (ELock false) (set_mu (fst (mu_lock (mu w))) w), ST_MUTEX_LOCK).
Proof.
  intros w ci t Hm Hl. unfold Fsm.api_trigger, Fsm.bracket. rewrite Hm.
  destruct (mu_lock (mu w)) as [m1 ok]. cbn [snd fst] in *. subst ok. reflexivity.
Qed.

Theorem trigger_locked : forall w ci t, d_mutex D = true -> snd (mu_lock (mu w)) = true -> ring_wf D (st w) ->
  let w' := fst (api_trigger w ci t) in
  let r := snd (api_trigger w ci t) in
  let ok2 := snd (mu_unlock (fst (mu_lock (mu w)))) in
  tr w' = [EUnlock ok2; ELock true] ++ tr w /\
  (r = ST_MUTEX_UNLOCK <-> ok2 = false) /\
  ((length (ring_items D (st w)) < d_cap D /\ ring_wf D (st w') /\
    ring_items D (st w') = ring_items D (st w) ++ [(ci, t)] /\ (ok2 = true -> r = ST_OK)) \/
   (length (ring_items D (st w)) = d_cap D /\ st w' = st w /\ (ok2 = true -> r = ST_BUFFER_FULL))).
Proof.
  intros w ci t Hm Hl Hw. cbv zeta. unfold Fsm.api_trigger, Fsm.bracket. rewrite Hm.
  destruct (mu_lock (mu w)) as [m1 ok]. cbn [snd fst] in *. subst ok. cbn [negb]. wsimpl.
  pose proof (C13_push D (st w) ci t Hw) as Hp.
  destruct (push_unsolicited_cmd D (st w) ci t) as [s' r0]. wsimpl.
  destruct (mu_unlock m1) as [m2 ok2]. cbn [snd].
  assert (Hr0 : r0 <> ST_MUTEX_UNLOCK).
  { destruct (_ <? _); [destruct Hp as (-> & _) | destruct Hp as (-> & _)]; intros H; zdisc H. }
  destruct (Nat.ltb_spec (length (ring_items D (st w))) (d_cap D)) as [Hlt|Hge].
  - destruct Hp as (-> & Hw' & Hi & _).
    destruct ok2; cbn [negb]; wsimpl; (split; [reflexivity|]); (split; [split; intros H; [try reflexivity; try zdisc H | try reflexivity; try zdisc H]|]);
      left; (split; [exact Hlt|]); (split; [exact Hw'|]); (split; [exact Hi|]); intros H; try reflexivity; zdisc H.
  - destruct Hp as (-> & ->).
    assert (Hle : length (ring_items D (st w)) = d_cap D).
    { pose proof (C13_items_length D (st w) Hw) as HL. destruct Hw as (_ & _ & _ & _ & Hn & _). lia. }
    destruct ok2; cbn [negb]; wsimpl; (split; [reflexivity|]); (split; [split; intros H; [try reflexivity; try zdisc H | try reflexivity; try zdisc H]|]);
      right; (split; [exact Hle|]); (split; [reflexivity|]); intros H; try reflexivity; zdisc H.
Qed.

(* ---------------- P5: when cat_service answers OK, nothing accepted is left unprocessed ---------------- *)

Theorem ok_means_all_processed : forall m x mx h ops,
  0 < d_cap D -> HV -> Forall (valid_op D) ops ->
  let w := run (mkWorld (init_state D m) x mx h []) ops in
  snd (do_op w OService) = ST_OK ->
  pushed (d_cap D) (hist w) = popped (hist w) /\
  (unlock_ok D muS mu_unlock -> accepted (hist w) = popped (hist w)) /\
  ring_items D (st w) = [] /\
  u_state (u (st w)) = US_IDLE /\ u_cmd (u (st w)) = None /\ in_progress w = [] /\
  (forall ci t, is_event_buffered D (st w) ci t = ST_OK) /\
  get_processed (st w) UNSOL = (-1)%Z /\
  st (step w OService) = st w.
Proof.
  intros m x mx h ops Hc Hv Ho w Hok. cbn [Fsm.do_op] in Hok.
  destruct (C15_api_ok D ioS muS hS io_read io_write mu_lock mu_unlock h_call w Hok) as (_ & Hs & Hi & Hst & _).
  destruct (C13_exactly_once_general D ioS muS hS io_read io_write mu_lock mu_unlock h_call m x mx h ops Hc) as [_ Hg].
  fold w in Hg. rewrite Hi, app_nil_r in Hg.
  destruct (Inv_reachable m x mx h ops Hc Hv Ho) as [_ [Hidle _]]. fold w in Hidle. specialize (Hidle Hs).
  split; [exact Hg|]. split.
  { intros Hu. destruct (C13_exactly_once D ioS muS hS io_read io_write mu_lock mu_unlock h_call m x mx h ops Hc Hu) as [_ Ha].
    fold w in Ha. rewrite Hi, app_nil_r in Ha. exact Ha. }
  split; [exact Hi|]. split; [exact Hs|]. split; [exact Hidle|].
  split; [unfold in_progress; rewrite Hs; reflexivity|].
  split.
  { intros ci t. unfold is_event_buffered. rewrite Hidle, Hi. reflexivity. }
  split; [unfold get_processed, g_cmd; rewrite Hidle; reflexivity|].
  rewrite step_st. cbn [Fsm.do_op]. exact Hst.
Qed.


End World.

(* ================================================================== *)
(* 5. the command machine: k_state = CS_IDLE -> k_cmd = None            *)
(*    (what cat_get_processed_command(ATCMD) returns between lines)     *)
(* ================================================================== *)

Definition kpt : Type := (cstate * option nat * cstate)%type.
Definition kp (s : state) : kpt := (k_state (k s), k_cmd (k s), k_wafter (k s)).
Definition q_st (v : cstate) (e : kpt) : kpt := let '(a, b, d) := e in (v, b, d).
Definition q_cmd (v : option nat) (e : kpt) : kpt := let '(a, b, d) := e in (a, v, d).
Definition q_wa (v : cstate) (e : kpt) : kpt := let '(a, b, d) := e in (a, b, v).

Lemma kp_setk_state : forall v s, kp (setk_state v s) = q_st v (kp s). Proof. reflexivity. Qed.
Lemma kp_setk_cmd : forall v s, kp (setk_cmd v s) = q_cmd v (kp s). Proof. reflexivity. Qed.
Lemma kp_setk_wafter : forall v s, kp (setk_wafter v s) = q_wa v (kp s). Proof. reflexivity. Qed.
Lemma kp_start_flush_c : forall a s, kp (start_flush_c a s) = q_st CS_FLUSH_WAIT (q_wa a (kp s)). Proof. reflexivity. Qed.
Lemma kp_start_flush_raw_c : forall a s, kp (start_flush_raw_c a s) = q_st CS_FLUSH_WAIT (q_wa a (kp s)). Proof. reflexivity. Qed.
Lemma kp_ack_error : forall s, kp (ack_error s) = q_st CS_FLUSH_WAIT (q_wa CS_AFTER_RESET (kp s)). Proof. reflexivity. Qed.
Lemma kp_ack_ok : forall s, kp (ack_ok s) = q_st CS_FLUSH_WAIT (q_wa CS_AFTER_RESET (kp s)). Proof. reflexivity. Qed.
Lemma kp_end_with_error_c : forall s, kp (end_with_error ATCMD s) = q_st CS_FLUSH_WAIT (q_wa CS_AFTER_RESET (kp s)). Proof. reflexivity. Qed.
Lemma kp_end_with_ok_c : forall s, kp (end_with_ok ATCMD s) = q_st CS_FLUSH_WAIT (q_wa CS_AFTER_RESET (kp s)). Proof. reflexivity. Qed.
Lemma kp_reset_state : forall s,
  kp (reset_state s) = q_cmd None (q_st (if k_hold (k s) then CS_HOLD else CS_IDLE) (kp s)).
Proof. intros s. unfold reset_state. destruct (k_hold (k s)); reflexivity. Qed.
Lemma kp_enable_hold_state : forall s, kp (enable_hold_state s) = q_st CS_HOLD (kp s). Proof. reflexivity. Qed.
Lemma kp_prepare_search_command : forall s, kp (prepare_search_command s) = q_cmd None (kp s). Proof. reflexivity. Qed.
Lemma kp_set_loop_state_c : forall rd s,
  kp (set_loop_state ATCMD rd s) = q_st (if rd then CS_READ_LOOP else CS_TEST_LOOP) (kp s).
Proof. reflexivity. Qed.
Lemma kp_start_flush_after_ok_c : forall s,
  kp (start_flush_after_ok ATCMD s) = q_st CS_FLUSH_WAIT (q_wa CS_AFTER_OK (kp s)).
Proof. reflexivity. Qed.
Lemma kp_start_flush_after_c : forall a b s,
  kp (start_flush_after ATCMD a b s) = q_st CS_FLUSH_WAIT (q_wa a (kp s)).
Proof. reflexivity. Qed.
#[local] Hint Rewrite kp_setk_state kp_setk_cmd kp_setk_wafter kp_start_flush_c kp_start_flush_raw_c kp_ack_error kp_ack_ok
  kp_end_with_error_c kp_end_with_ok_c kp_reset_state kp_enable_hold_state kp_prepare_search_command
  kp_set_loop_state_c kp_start_flush_after_ok_c kp_start_flush_after_c : kpdb.

Lemma kp_setk_index : forall v s, kp (setk_index v s) = kp s. Proof. reflexivity. Qed.
Lemma kp_setk_partial : forall v s, kp (setk_partial v s) = kp s. Proof. reflexivity. Qed.
Lemma kp_setk_length : forall v s, kp (setk_length v s) = kp s. Proof. reflexivity. Qed.
Lemma kp_setk_position : forall v s, kp (setk_position v s) = kp s. Proof. reflexivity. Qed.
Lemma kp_setk_write_size : forall v s, kp (setk_write_size v s) = kp s. Proof. reflexivity. Qed.
Lemma kp_setk_var : forall v s, kp (setk_var v s) = kp s. Proof. reflexivity. Qed.
Lemma kp_setk_type : forall v s, kp (setk_type v s) = kp s. Proof. reflexivity. Qed.
Lemma kp_setk_char : forall v s, kp (setk_char v s) = kp s. Proof. reflexivity. Qed.
Lemma kp_setk_cr : forall v s, kp (setk_cr v s) = kp s. Proof. reflexivity. Qed.
Lemma kp_setk_hold : forall v s, kp (setk_hold v s) = kp s. Proof. reflexivity. Qed.
Lemma kp_setk_hold_exit : forall v s, kp (setk_hold_exit v s) = kp s. Proof. reflexivity. Qed.
Lemma kp_setk_wbuf : forall v s, kp (setk_wbuf v s) = kp s. Proof. reflexivity. Qed.
Lemma kp_setk_wstate : forall v s, kp (setk_wstate v s) = kp s. Proof. reflexivity. Qed.
Lemma kp_setk_implicit : forall v s, kp (setk_implicit v s) = kp s. Proof. reflexivity. Qed.
Lemma kp_setu_state : forall v s, kp (setu_state v s) = kp s. Proof. reflexivity. Qed.
Lemma kp_setu_index : forall v s, kp (setu_index v s) = kp s. Proof. reflexivity. Qed.
Lemma kp_setu_position : forall v s, kp (setu_position v s) = kp s. Proof. reflexivity. Qed.
Lemma kp_setu_cmd : forall v s, kp (setu_cmd v s) = kp s. Proof. reflexivity. Qed.
Lemma kp_setu_var : forall v s, kp (setu_var v s) = kp s. Proof. reflexivity. Qed.
Lemma kp_setu_type : forall v s, kp (setu_type v s) = kp s. Proof. reflexivity. Qed.
Lemma kp_setu_wbuf : forall v s, kp (setu_wbuf v s) = kp s. Proof. reflexivity. Qed.
Lemma kp_setu_wstate : forall v s, kp (setu_wstate v s) = kp s. Proof. reflexivity. Qed.
Lemma kp_setu_wafter : forall v s, kp (setu_wafter v s) = kp s. Proof. reflexivity. Qed.
Lemma kp_set_cbuf : forall v s, kp (set_cbuf v s) = kp s. Proof. reflexivity. Qed.
Lemma kp_set_ubuf : forall v s, kp (set_ubuf v s) = kp s. Proof. reflexivity. Qed.
Lemma kp_set_mem : forall v s, kp (set_mem v s) = kp s. Proof. reflexivity. Qed.
Lemma kp_set_dis_cmd : forall v s, kp (set_dis_cmd v s) = kp s. Proof. reflexivity. Qed.
Lemma kp_set_dis_grp : forall v s, kp (set_dis_grp v s) = kp s. Proof. reflexivity. Qed.
Lemma kp_set_fault : forall v s, kp (set_fault v s) = kp s. Proof. reflexivity. Qed.
Lemma kp_set_gL : forall v s, kp (set_gL v s) = kp s. Proof. reflexivity. Qed.
Lemma kp_set_gS : forall v s, kp (set_gS v s) = kp s. Proof. reflexivity. Qed.
Lemma kp_set_gR : forall v s, kp (set_gR v s) = kp s. Proof. reflexivity. Qed.
Lemma kp_set_fault_flag : forall s, kp (set_fault_flag s) = kp s. Proof. reflexivity. Qed.
Lemma kp_setg_pos : forall f v s, kp (setg_pos f v s) = kp s. Proof. intros [|] v s; reflexivity. Qed.
Lemma kp_setg_buf : forall f v s, kp (setg_buf f v s) = kp s. Proof. intros [|] v s; reflexivity. Qed.
Lemma kp_setg_var : forall f v s, kp (setg_var f v s) = kp s. Proof. intros [|] v s; reflexivity. Qed.
Lemma kp_setg_index : forall f v s, kp (setg_index f v s) = kp s. Proof. intros [|] v s; reflexivity. Qed.
#[local] Hint Rewrite kp_setk_index kp_setk_partial kp_setk_length kp_setk_position kp_setk_write_size kp_setk_var kp_setk_type kp_setk_char kp_setk_cr kp_setk_hold kp_setk_hold_exit kp_setk_wbuf kp_setk_wstate kp_setk_implicit kp_setu_state kp_setu_index kp_setu_position kp_setu_cmd kp_setu_var kp_setu_type kp_setu_wbuf kp_setu_wstate kp_setu_wafter kp_set_cbuf kp_set_ubuf kp_set_mem kp_set_dis_cmd kp_set_dis_grp kp_set_fault kp_set_gL kp_set_gS kp_set_gR kp_setg_pos kp_setg_buf kp_setg_var kp_setg_index kp_set_fault_flag : kpdb.

(* generic tactic: case-split every stuck match; results of pair-returning helpers are kept
   as `fst (helper ..)` so that the helper's own frame lemma applies *)
Ltac kp_step :=
  match goal with
  | |- context[match ?x with _ => _ end] =>
    lazymatch type of x with
    | prod state _ =>
      let E := fresh "E" in let s0 := fresh "s" in let b0 := fresh "b" in
      destruct x as [s0 b0] eqn:E; apply (f_equal fst) in E; cbn [fst] in E; subst s0
    | _ => destruct x eqn:?
    end
  end.
Ltac kp_solve := cbv beta iota zeta; repeat (kp_step; cbn [fst snd]); autorewrite with kpdb; reflexivity.

Lemma kp_unsolicited_reset_state : forall s, kp (unsolicited_reset_state s) = kp s.
Proof. reflexivity. Qed.
Lemma kp_start_flush_u : forall a s, kp (start_flush_u a s) = kp s.
Proof. reflexivity. Qed.
Lemma kp_put_cur : forall f c s, kp (put_cur f c s) = kp s.
Proof. intros. unfold put_cur. kp_solve. Qed.
#[local] Hint Rewrite kp_unsolicited_reset_state kp_start_flush_u
  kp_put_cur : kpdb.

Lemma kp_print_string : forall f s t, kp (fst (print_string f s t)) = kp s.
Proof. intros. unfold print_string. kp_solve. Qed.
Lemma kp_print_strings : forall f s ts, kp (fst (print_strings f s ts)) = kp s.
Proof. intros. unfold print_strings. kp_solve. Qed.
Lemma kp_end_with_error : forall s, kp (end_with_error UNSOL s) = kp s.
Proof. intros. unfold end_with_error. kp_solve. Qed.
Lemma kp_end_with_ok : forall s, kp (end_with_ok UNSOL s) = kp s.
Proof. intros. unfold end_with_ok. kp_solve. Qed.
Lemma kp_set_loop_state : forall rd s, kp (set_loop_state UNSOL rd s) = kp s.
Proof. intros. unfold set_loop_state. kp_solve. Qed.
Lemma kp_start_flush_after_ok : forall s, kp (start_flush_after_ok UNSOL s) = kp s.
Proof. intros. unfold start_flush_after_ok. kp_solve. Qed.
Lemma kp_start_flush_after : forall a b s, kp (start_flush_after UNSOL a b s) = kp s.
Proof. intros. unfold start_flush_after. kp_solve. Qed.
#[local] Hint Rewrite kp_print_string kp_print_strings kp_end_with_error kp_end_with_ok kp_set_loop_state
  kp_start_flush_after_ok kp_start_flush_after : kpdb.

Lemma kp_print_response_test : forall D s, kp (fst (print_response_test D UNSOL s)) = kp s.
Proof. intros. unfold print_response_test. kp_solve. Qed.
#[local] Hint Rewrite kp_print_response_test : kpdb.
Lemma kp_start_processing_format_test_args : forall D s,
  kp (start_processing_format_test_args D UNSOL s) = kp s.
Proof. intros. unfold start_processing_format_test_args. kp_solve. Qed.
Lemma kp_start_processing_format_read_args : forall D s,
  kp (start_processing_format_read_args D UNSOL s) = kp s.
Proof. intros. unfold start_processing_format_read_args. kp_solve. Qed.
Lemma kp_next_format_var : forall D s, kp (fst (next_format_var D UNSOL s)) = kp s.
Proof. intros. unfold next_format_var. kp_solve. Qed.
Lemma kp_set_cmd_state : forall s i v, kp (set_cmd_state s i v) = kp s.
Proof. intros. unfold set_cmd_state. kp_solve. Qed.
Lemma kp_prepare_parse_command : forall s, kp (prepare_parse_command s) = kp s.
Proof. reflexivity. Qed.
#[local] Hint Rewrite kp_start_processing_format_test_args kp_start_processing_format_read_args
  kp_next_format_var kp_set_cmd_state kp_prepare_parse_command : kpdb.

Lemma kp_print_current_cmd_full_name : forall s c sf,
  kp (fst (print_current_cmd_full_name s c sf)) = kp s.
Proof. intros. unfold print_current_cmd_full_name. kp_solve. Qed.
#[local] Hint Rewrite kp_print_current_cmd_full_name : kpdb.
Lemma kp_hold_exit : forall s st, kp (fst (hold_exit s st)) = kp s.
Proof. intros. unfold hold_exit. kp_solve. Qed.
Lemma kp_unsolicited_process_io_write_wait : forall s, kp (unsolicited_process_io_write_wait s) = kp s.
Proof. intros. unfold unsolicited_process_io_write_wait. kp_solve. Qed.
Lemma kp_apply_poke : forall s p, kp (apply_poke s p) = kp s.
Proof. intros. unfold apply_poke. kp_solve. Qed.
Lemma kp_apply_pokes : forall ps s, kp (fold_left apply_poke ps s) = kp s.
Proof. induction ps as [|p ps IH]; intros s; cbn [fold_left]; [reflexivity|]. rewrite IH. apply kp_apply_poke. Qed.
Lemma kp_apply_edit : forall f e s, kp (apply_edit f e s) = kp s.
Proof. intros. unfold apply_edit. kp_solve. Qed.
#[local] Hint Rewrite kp_hold_exit kp_unsolicited_process_io_write_wait kp_apply_poke kp_apply_pokes kp_apply_edit : kpdb.
Lemma kp_format_test_args : forall D s, kp (format_test_args D UNSOL s) = kp s.
Proof. intros. unfold format_test_args. kp_solve. Qed.
#[local] Hint Rewrite kp_format_test_args : kpdb.

Definition kok (a : cstate) (b : option nat) (d : cstate) : bool :=
  match a with
  | CS_IDLE => match b with None => true | Some _ => false end
  | CS_FLUSH_WAIT | CS_FLUSH => negb (cstate_beq d CS_IDLE)
  | _ => true
  end.
Definition kokE (e : kpt) : bool := let '(a, b, d) := e in kok a b d.
Definition K (s : state) : Prop := kokE (kp s) = true.

Lemma K_frame : forall s s', kp s' = kp s -> K s -> K s'.
Proof. intros s s' H. unfold K. rewrite H. auto. Qed.

Lemma K_idle : forall s, K s -> k_state (k s) = CS_IDLE -> k_cmd (k s) = None.
Proof.
  intros s H Hs. unfold K, kokE, kp in H. rewrite Hs in H. cbn in H.
  destruct (k_cmd (k s)); [discriminate H | reflexivity].
Qed.

(* leaf: the new k_state is a constant, or the old one (known from Hs) *)
Ltac k_leaf Hs HK :=
  unfold K in *; autorewrite with kpdb;
  cbv beta iota zeta delta [kokE kp q_st q_cmd q_wa] in *;
  rewrite ?Hs in *;
  first [ reflexivity | exact HK
        | match goal with |- context[if ?b then _ else _] => destruct b; first [reflexivity | exact HK] end ].
Ltac k_solve Hs HK := cbv beta iota zeta; repeat (kp_step; cbn [fst snd]); k_leaf Hs HK.

Section KPure.
Variable D : desc.

Lemma K_update_command : forall s, k_state (k s) = CS_UPDATE_COMMAND_STATE -> K s -> K (update_command D s).
Proof. intros s Hs HK. unfold update_command. k_solve Hs HK. Qed.
Lemma K_search_command : forall s, k_state (k s) = CS_SEARCH_COMMAND -> K s -> K (search_command D s).
Proof. intros s Hs HK. unfold search_command. k_solve Hs HK. Qed.
Lemma K_spfr : forall s, K s -> K (start_processing_format_read_args D ATCMD s).
Proof.
  intros s HK. unfold start_processing_format_read_args.
  cbv beta iota zeta; repeat (kp_step; cbn [fst snd]);
  unfold K in *; autorewrite with kpdb; cbv beta iota zeta delta [kokE kp q_st q_cmd q_wa] in *;
  first [reflexivity | exact HK].
Qed.
Lemma K_spft : forall s, K s -> K (start_processing_format_test_args D ATCMD s).
Proof.
  intros s HK. unfold start_processing_format_test_args, print_response_test.
  cbv beta iota zeta; repeat (kp_step; cbn [fst snd]);
  unfold K in *; autorewrite with kpdb; cbv beta iota zeta delta [kokE kp q_st q_cmd q_wa] in *;
  first [reflexivity | exact HK].
Qed.
Lemma K_command_found : forall s, k_state (k s) = CS_COMMAND_FOUND -> K s -> K (command_found D s).
Proof.
  intros s Hs HK. unfold command_found.
  destruct (cmd_of D ATCMD s) as [c|]; [|k_leaf Hs HK].
  destruct (k_type (k s)); try solve [k_solve Hs HK].
  destruct (c_only_test c); [k_leaf Hs HK | apply K_spfr; exact HK].
Qed.
Lemma K_fta : forall s, k_state (k s) = CS_FORMAT_TEST_ARGS -> K s -> K (format_test_args D ATCMD s).
Proof.
  intros s Hs HK. unfold format_test_args, next_format_var, print_response_test. k_solve Hs HK.
Qed.
Lemma K_print_cmd_list : forall s, k_state (k s) = CS_PRINT_CMD -> K s -> K (print_cmd_list D s).
Proof.
  intros s Hs HK. unfold print_cmd_list, print_cmd_form, cmd_list_next_cmd. k_solve Hs HK.
Qed.
Lemma K_start_print_cmd_list : forall s, K (start_print_cmd_list D s).
Proof.
  intros s. unfold start_print_cmd_list. destruct (_ =? _);
  unfold K; autorewrite with kpdb; destruct (kp s) as [[a b] d]; reflexivity.
Qed.
Lemma K_process_hold_state : forall s, k_state (k s) = CS_HOLD -> K s -> K (process_hold_state s).
Proof. intros s Hs HK. unfold process_hold_state. k_solve Hs HK. Qed.
Lemma K_process_io_write_wait : forall s, k_state (k s) = CS_FLUSH_WAIT -> K s -> K (process_io_write_wait s).
Proof. intros s Hs HK. unfold process_io_write_wait. k_solve Hs HK. Qed.
Lemma K_reset_state : forall s, K (reset_state s).
Proof.
  intros s. unfold K. autorewrite with kpdb. destruct (kp s) as [[a b] d]. destruct (k_hold (k s)); reflexivity.
Qed.
Lemma K_ack : forall s, K (ack_error s) /\ K (ack_ok s).
Proof. intros s. unfold K. autorewrite with kpdb. destruct (kp s) as [[a b] d]. split; reflexivity. Qed.
Lemma K_ack_error : forall s, K (ack_error s). Proof. intros s. exact (proj1 (K_ack s)). Qed.
Lemma K_ack_ok : forall s, K (ack_ok s). Proof. intros s. exact (proj2 (K_ack s)). Qed.
Lemma K_end_err : forall s, K (end_with_error ATCMD s). Proof. intros s. exact (K_ack_error s). Qed.
End KPure.

Section KWorld.
Variable D : desc.
Variables ioS muS hS : Type.
Variable io_read : ioS -> ioS * option N.
Variable io_write : ioS -> N -> ioS * bool.
Variable mu_lock : muS -> muS * bool.
Variable mu_unlock : muS -> muS * bool.
Variable h_call : hS -> hreq -> hS * hres.

Local Notation world := (Fsm.world ioS muS hS).
Local Notation mkWorld := (Fsm.mkWorld ioS muS hS).
Local Notation st := (Fsm.st ioS muS hS).
Local Notation io := (Fsm.io ioS muS hS).
Local Notation mu := (Fsm.mu ioS muS hS).
Local Notation hs := (Fsm.hs ioS muS hS).
Local Notation logw := (Fsm.logw ioS muS hS).
Local Notation upd_st := (Fsm.upd_st ioS muS hS).
Local Notation set_st := (Fsm.set_st ioS muS hS).
Local Notation set_io := (Fsm.set_io ioS muS hS).
Local Notation set_mu := (Fsm.set_mu ioS muS hS).
Local Notation bracket := (Fsm.bracket D ioS muS hS mu_lock mu_unlock).
Local Notation api_trigger := (Fsm.api_trigger D ioS muS hS mu_lock mu_unlock).
Local Notation api_hold_exit := (Fsm.api_hold_exit D ioS muS hS mu_lock mu_unlock).
Local Notation apply_icall := (Fsm.apply_icall D ioS muS hS mu_lock mu_unlock).
Local Notation call_h := (Fsm.call_h D ioS muS hS mu_lock mu_unlock h_call).
Local Notation read_cmd_char := (Fsm.read_cmd_char ioS muS hS io_read).
Local Notation reading := (Fsm.reading ioS muS hS io_read).
Local Notation cmd_service := (Fsm.cmd_service D ioS muS hS io_read io_write mu_lock mu_unlock h_call).
Local Notation unsolicited_events_service :=
  (Fsm.unsolicited_events_service D ioS muS hS io_write mu_lock mu_unlock h_call).
Local Notation service_body := (Fsm.service_body D ioS muS hS io_read io_write mu_lock mu_unlock h_call).
Local Notation do_op := (Fsm.do_op D ioS muS hS io_read io_write mu_lock mu_unlock h_call).
Local Notation step := (Fsm.step D ioS muS hS io_read io_write mu_lock mu_unlock h_call).
Local Notation run := (Fsm.run D ioS muS hS io_read io_write mu_lock mu_unlock h_call).

Ltac wsimpl := cbn [Fsm.st Fsm.tr Fsm.io Fsm.mu Fsm.hs Fsm.set_st Fsm.set_io Fsm.set_mu Fsm.set_hs
                    Fsm.logw Fsm.upd_st Fsm.busy fst snd].

(* steps that do not touch (k_state, k_cmd, k_wafter) *)
Definition kfr (w w' : world) : Prop := kp (st w') = kp (st w).

Lemma kfr_refl : forall w, kfr w w. Proof. intros; reflexivity. Qed.
Lemma kfr_trans : forall w1 w2 w3, kfr w1 w2 -> kfr w2 w3 -> kfr w1 w3.
Proof. unfold kfr. intros. congruence. Qed.

Lemma bracket_kfr : forall w body, (forall w0, kfr w0 (fst (body w0))) -> kfr w (fst (bracket w body)).
Proof.
  intros w body H. unfold Fsm.bracket. destruct (d_mutex D); [|apply H].
  destruct (mu_lock (mu w)) as [m1 ok]. destruct ok; cbn [negb]; [|reflexivity].
  pose proof (H (logw (ELock true) (set_mu m1 w))) as H1.
  destruct (body (logw (ELock true) (set_mu m1 w))) as [w2 s]. cbn [fst] in H1.
  destruct (mu_unlock (mu w2)) as [m2 ok2]. destruct ok2; exact H1.
Qed.

Lemma kp_push : forall s ci t, kp (fst (push_unsolicited_cmd D s ci t)) = kp s.
Proof.
  intros. unfold push_unsolicited_cmd. destruct (ring_full D s); [reflexivity|].
  cbv zeta. destruct (_ <? _); reflexivity.
Qed.
Lemma kp_pop : forall s, kp (fst (pop_unsolicited_cmd D s)) = kp s.
Proof.
  intros. unfold pop_unsolicited_cmd. destruct (ring_empty s); [reflexivity|].
  cbv zeta. destruct (nth_error _ _); reflexivity.
Qed.

Lemma api_trigger_kfr : forall w ci t, kfr w (fst (api_trigger w ci t)).
Proof.
  intros. unfold Fsm.api_trigger. apply bracket_kfr. intros w0.
  destruct (push_unsolicited_cmd D (Fsm.st _ _ _ w0) ci t) as [s' r] eqn:E. cbn [fst].
  apply (f_equal fst) in E. cbn [fst] in E. subst s'. unfold kfr. wsimpl. apply kp_push.
Qed.
Lemma api_hold_exit_kfr : forall w status, kfr w (fst (api_hold_exit w status)).
Proof.
  intros. unfold Fsm.api_hold_exit. apply bracket_kfr. intros w0.
  destruct (hold_exit (Fsm.st _ _ _ w0) status) as [s' r] eqn:E. cbn [fst].
  apply (f_equal fst) in E. cbn [fst] in E. subst s'. unfold kfr. wsimpl. apply kp_hold_exit.
Qed.
Lemma apply_icall_kfr : forall w c, kfr w (apply_icall w c).
Proof.
  intros w [ci t|status]; unfold Fsm.apply_icall.
  - pose proof (api_trigger_kfr w ci t) as H. destruct (api_trigger w ci t) as [w' r]. exact H.
  - pose proof (api_hold_exit_kfr w status) as H. destruct (api_hold_exit w status) as [w' r]. exact H.
Qed.
Lemma icalls_kfr : forall cs w, kfr w (fold_left apply_icall cs w).
Proof.
  induction cs as [|c cs IH]; intros w; cbn [fold_left]; [apply kfr_refl|].
  eapply kfr_trans; [apply apply_icall_kfr | apply IH].
Qed.
Lemma call_h_kfr : forall w q, kfr w (fst (call_h w q)).
Proof.
  intros. unfold Fsm.call_h. destruct (h_call (hs w) q) as [hs' r]. cbn [fst].
  eapply kfr_trans; [|apply icalls_kfr]. unfold kfr. wsimpl. apply kp_apply_pokes.
Qed.
Lemma call_h_kfr' : forall w q w1 r, call_h w q = (w1, r) -> kp (st w1) = kp (st w).
Proof. intros w q w1 r E. pose proof (call_h_kfr w q) as H. rewrite E in H. exact H. Qed.

Lemma kp_kstate : forall s s', kp s' = kp s -> k_state (k s') = k_state (k s).
Proof. intros s s' H. unfold kp in H. congruence. Qed.

(* ---- the command machine ---- *)
Lemma read_cmd_char_kfr : forall w, kfr w (fst (read_cmd_char w)).
Proof.
  intros. unfold Fsm.read_cmd_char, kfr. destruct (io_read (io w)) as [io' r]. destruct r as [ch|]; wsimpl; [|reflexivity].
  cbv beta iota zeta; repeat (kp_step; cbn [fst snd]); autorewrite with kpdb; reflexivity.
Qed.

Lemma reading_K : forall X w body,
  (forall ch s, k_state (k s) = X -> K s -> K (body ch s)) ->
  k_state (k (st w)) = X -> K (st w) -> K (st (fst (reading w body))).
Proof.
  intros X w body H Hs HK. unfold Fsm.reading.
  pose proof (read_cmd_char_kfr w) as E.
  destruct (read_cmd_char w) as [w1 got]. cbn [fst] in E. destruct got; cbn [negb]; wsimpl.
  - apply H; [rewrite (kp_kstate _ _ E); exact Hs | eapply K_frame; [exact E | exact HK]].
  - eapply K_frame; [exact E | exact HK].
Qed.

Ltac k_upd Hs HK := wsimpl; k_solve Hs HK.

Lemma K_post_call : forall (g : state -> state) w w1,
  kp (st w1) = kp (st w) -> K (st w) ->
  (forall s, k_state (k s) = k_state (k (st w)) -> K s -> K (g s)) -> K (g (st w1)).
Proof.
  intros g w w1 E HK H. apply H; [apply kp_kstate; exact E | eapply K_frame; [exact E | exact HK]].
Qed.

Ltac pc s1 E Hs HK :=
  generalize (eq_trans (kp_kstate _ _ E) Hs) (K_frame _ _ E HK); generalize s1;
  let s := fresh "s" in let Hs' := fresh "Hs'" in let HK' := fresh "HK'" in intros s Hs' HK'.

Lemma K_cmd_service : forall w, K (st w) -> K (st (fst (cmd_service w))).
Proof.
  intros w HK. unfold Fsm.cmd_service. destruct (k_state (k (st w))) eqn:Hs.
  - (* ERROR *) unfold error_state. apply reading_K with (X := CS_ERROR); [|exact Hs|exact HK].
    intros ch s Hs' HK'. k_solve Hs' HK'.
  - (* IDLE *) unfold process_idle_state. apply reading_K with (X := CS_IDLE); [|exact Hs|exact HK].
    intros ch s Hs' HK'. k_solve Hs' HK'.
  - unfold parse_prefix. apply reading_K with (X := CS_PARSE_PREFIX); [|exact Hs|exact HK].
    intros ch s Hs' HK'. k_solve Hs' HK'.
  - unfold parse_command. apply reading_K with (X := CS_PARSE_COMMAND_CHAR); [|exact Hs|exact HK].
    intros ch s Hs' HK'. k_solve Hs' HK'.
  - wsimpl. apply K_update_command; assumption.
  - unfold wait_read_acknowledge. apply reading_K with (X := CS_WAIT_READ_ACK); [|exact Hs|exact HK].
    intros ch s Hs' HK'. k_solve Hs' HK'.
  - wsimpl. apply K_search_command; assumption.
  - wsimpl. apply K_command_found; assumption.
  - wsimpl. exact (K_ack_error _).
  - unfold parse_command_args. apply reading_K with (X := CS_PARSE_COMMAND_ARGS); [|exact Hs|exact HK].
    intros ch s Hs' HK'. k_solve Hs' HK'.
  - (* PARSE_WRITE_ARGS *)
    unfold parse_write_args. cbv zeta.
    destruct (g_cmd ATCMD (st w)) as [ci|]; [|k_upd Hs HK].
    destruct (cmd_of D ATCMD (st w)) as [c|]; [|k_upd Hs HK].
    destruct (nth_error (c_vars c) (k_var (k (st w)))) as [v|]; [|k_upd Hs HK].
    destruct (nth_error (mem (st w)) (v_slot v)) as [data|]; [|k_upd Hs HK].
    destruct (decode_var v (skipn (k_position (k (st w))) (cbuf (st w))) data) as [[[pst data'] wsz] n].
    destruct pst as [| |comma]; [k_upd Hs HK|k_upd Hs HK|].
    match goal with |- context[Fsm.set_st _ _ _ ?s2 w] => remember s2 as s2' eqn:Es2 end.
    assert (E2 : kp s2' = kp (st w)) by (subst s2'; autorewrite with kpdb; reflexivity). clear Es2.
    destruct (v_hwrite v).
    + destruct (call_h _ _) as [w' r] eqn:E. apply call_h_kfr' in E. cbn [Fsm.st Fsm.set_st] in E. rewrite E2 in E.
      destruct (negb (r_code r =? 0)%Z); wsimpl.
      * exact (K_ack_error _).
      * pc (st w') E Hs HK. k_solve Hs' HK'.
    + wsimpl. pc s2' E2 Hs HK. k_solve Hs' HK'.
  - (* FORMAT_READ_ARGS *)
    unfold format_read_args. cbv zeta.
    destruct (g_cmd ATCMD (st w)) as [ci|]; [|k_upd Hs HK].
    destruct (cmd_of D ATCMD (st w)) as [c|]; [|k_upd Hs HK].
    destruct (nth_error (c_vars c) (g_var ATCMD (st w))) as [v|]; [|k_upd Hs HK].
    destruct (v_hread v).
    + destruct (call_h _ _) as [w' r] eqn:E. apply call_h_kfr' in E.
      destruct (negb (r_code r =? 0)%Z); wsimpl.
      * exact (K_end_err _).
      * pc (st w') E Hs HK. unfold next_format_var. k_solve Hs' HK'.
    + wsimpl. unfold next_format_var. k_solve Hs HK.
  - unfold wait_test_acknowledge. apply reading_K with (X := CS_WAIT_TEST_ACK); [|exact Hs|exact HK].
    intros ch s Hs' HK'. destruct (ch =? ch_LF)%N; [apply K_spft; exact HK' | k_solve Hs' HK'].
  - wsimpl. apply K_fta; assumption.
  - (* WRITE_LOOP *)
    unfold process_write_loop. cbv zeta.
    destruct (g_cmd ATCMD (st w)) as [ci|]; [|k_upd Hs HK].
    destruct (call_h _ _) as [w' r] eqn:E. apply call_h_kfr' in E. wsimpl.
    pc (st w') E Hs HK. k_solve Hs' HK'.
  - (* READ_LOOP *)
    unfold process_rt_loop. cbv zeta.
    destruct (g_cmd ATCMD (st w)) as [ci|]; [|k_upd Hs HK].
    destruct (call_h _ _) as [w' r] eqn:E. apply call_h_kfr' in E. wsimpl.
    pc (st w') E Hs HK.
    assert (HK2 : K (apply_edit ATCMD (r_edit r) s)) by (eapply K_frame; [apply kp_apply_edit | exact HK']).
    assert (Hs2 : k_state (k (apply_edit ATCMD (r_edit r) s)) = CS_READ_LOOP)
      by (rewrite (kp_kstate _ _ (kp_apply_edit ATCMD (r_edit r) s)); exact Hs').
    cbv beta iota zeta. generalize dependent (apply_edit ATCMD (r_edit r) s). intros s0 HK2 Hs2.
    destruct (r_code r =? RC_OK)%Z; [k_leaf Hs2 HK2|].
    destruct (r_code r =? RC_DATA_OK)%Z; [k_leaf Hs2 HK2|].
    destruct (r_code r =? RC_DATA_NEXT)%Z; [k_leaf Hs2 HK2|].
    destruct (r_code r =? RC_NEXT)%Z; [apply K_spfr; exact HK2|].
    destruct (r_code r =? RC_HOLD)%Z; [k_leaf Hs2 HK2|].
    destruct (r_code r =? RC_HOLD_EXIT_OK)%Z; [k_leaf Hs2 HK2|].
    destruct (r_code r =? RC_HOLD_EXIT_ERROR)%Z; [k_leaf Hs2 HK2|].
    destruct (_ && _); [apply K_start_print_cmd_list | k_leaf Hs2 HK2].
  - (* TEST_LOOP *)
    unfold process_rt_loop. cbv zeta.
    destruct (g_cmd ATCMD (st w)) as [ci|]; [|k_upd Hs HK].
    destruct (call_h _ _) as [w' r] eqn:E. apply call_h_kfr' in E. wsimpl.
    pc (st w') E Hs HK.
    assert (HK2 : K (apply_edit ATCMD (r_edit r) s)) by (eapply K_frame; [apply kp_apply_edit | exact HK']).
    assert (Hs2 : k_state (k (apply_edit ATCMD (r_edit r) s)) = CS_TEST_LOOP)
      by (rewrite (kp_kstate _ _ (kp_apply_edit ATCMD (r_edit r) s)); exact Hs').
    cbv beta iota zeta. generalize dependent (apply_edit ATCMD (r_edit r) s). intros s0 HK2 Hs2.
    destruct (r_code r =? RC_OK)%Z; [k_leaf Hs2 HK2|].
    destruct (r_code r =? RC_DATA_OK)%Z; [k_leaf Hs2 HK2|].
    destruct (r_code r =? RC_DATA_NEXT)%Z; [k_leaf Hs2 HK2|].
    destruct (r_code r =? RC_NEXT)%Z; [apply K_spft; exact HK2|].
    destruct (r_code r =? RC_HOLD)%Z; [k_leaf Hs2 HK2|].
    destruct (r_code r =? RC_HOLD_EXIT_OK)%Z; [k_leaf Hs2 HK2|].
    destruct (r_code r =? RC_HOLD_EXIT_ERROR)%Z; [k_leaf Hs2 HK2|].
    destruct (_ && _); cbn [negb]; [apply K_start_print_cmd_list | k_leaf Hs2 HK2].
  - (* RUN_LOOP *)
    unfold process_run_loop. cbv zeta.
    destruct (g_cmd ATCMD (st w)) as [ci|]; [|k_upd Hs HK].
    destruct (call_h _ _) as [w' r] eqn:E. apply call_h_kfr' in E. wsimpl.
    pc (st w') E Hs HK.
    destruct (_ || _); [exact (K_ack_ok _)|].
    destruct (_ || _); [exact HK'|].
    destruct (_ =? _)%Z; [k_leaf Hs' HK'|].
    destruct (_ =? _)%Z; [apply K_start_print_cmd_list | exact (K_ack_error _)].
  - wsimpl. apply K_process_hold_state; assumption.
  - wsimpl. apply K_process_io_write_wait; assumption.
  - (* FLUSH *)
    unfold process_io_write. cbv zeta.
    destruct (wbuf_char _ _ _) as [ch|]; [|k_upd Hs HK].
    destruct (ch =? 0)%N.
    + wsimpl. destruct (k_wstate (k (st w))); [k_solve Hs HK | k_solve Hs HK |].
      assert (G : K (setk_state (k_wafter (k (st w))) (st w))).
      { unfold K in *. autorewrite with kpdb. cbv beta iota zeta delta [kokE kp q_st q_cmd q_wa] in *.
        rewrite Hs in HK. cbn in HK. destruct (k_wafter (k (st w))); try discriminate HK; reflexivity. }
      destruct (cstate_beq _ _); [eapply K_frame; [|exact G]; reflexivity | exact G].
    + destruct (io_write (io w) ch) as [io' ok]. destruct ok; wsimpl; [k_solve Hs HK | exact HK].
  - wsimpl. apply K_reset_state.
  - wsimpl. exact (K_ack_ok _).
  - wsimpl. apply K_spfr; exact HK.
  - wsimpl. apply K_spft; exact HK.
  - wsimpl. apply K_print_cmd_list; assumption.
Qed.

(* ---- the event machine touches the command machine only by enable_hold_state (scope decision D3) ---- *)
Definition kq (s s' : state) : Prop := kp s' = kp s \/ kp s' = q_st CS_HOLD (kp s).

Lemma K_kq : forall s s', kq s s' -> K s -> K s'.
Proof.
  intros s s' [H|H] HK; [eapply K_frame; eauto|]. unfold K. rewrite H. destruct (kp s) as [[a b] d]. reflexivity.
Qed.

Lemma kp_check : forall s, kp (check_unsolicited_buffers D s) = kp s.
Proof.
  intros s. unfold check_unsolicited_buffers. pose proof (kp_pop s) as H.
  destruct (pop_unsolicited_cmd D s) as [s1 [[ci t]|]]; cbn [fst] in H; [|exact H].
  destruct t; autorewrite with kpdb; exact H.
Qed.

Lemma rt_post_kq : forall rd e code s, kq s (rt_post D rd e code s).
Proof.
  intros rd e code s. unfold rt_post. cbv beta iota zeta.
  destruct (code =? RC_OK)%Z; [left; autorewrite with kpdb; reflexivity|].
  destruct (code =? RC_DATA_OK)%Z; [left; autorewrite with kpdb; reflexivity|].
  destruct (code =? RC_DATA_NEXT)%Z; [left; destruct rd; autorewrite with kpdb; reflexivity|].
  destruct (code =? RC_NEXT)%Z; [left; destruct rd; autorewrite with kpdb; reflexivity|].
  destruct (code =? RC_HOLD)%Z; [right; autorewrite with kpdb; reflexivity|].
  destruct (code =? RC_HOLD_EXIT_OK)%Z; [left; autorewrite with kpdb; reflexivity|].
  destruct (code =? RC_HOLD_EXIT_ERROR)%Z; [left; autorewrite with kpdb; reflexivity|].
  destruct (_ && _); left; autorewrite with kpdb; reflexivity.
Qed.

Lemma fra_post_kp : forall v c s, kp (fra_post D v c s) = kp s.
Proof. intros. unfold fra_post. kp_solve. Qed.

Lemma uns_kq : forall w, kq (st w) (st (fst (unsolicited_events_service w))).
Proof.
  intros w. unfold Fsm.unsolicited_events_service.
  destruct (u_state (u (st w))); try (left; wsimpl; autorewrite with kpdb; reflexivity).
  - (* IDLE *) left. destruct (negb _); [|reflexivity]. wsimpl.
    destruct (ring_items D (st w)); wsimpl; apply kp_check.
  - (* FORMAT_READ_ARGS *) left. unfold format_read_args. cbv zeta.
    destruct (g_cmd UNSOL (st w)) as [ci|]; [|reflexivity].
    destruct (cmd_of D UNSOL (st w)) as [c|]; [|reflexivity].
    destruct (nth_error (c_vars c) (g_var UNSOL (st w))) as [v|]; [|reflexivity].
    destruct (v_hread v).
    + destruct (call_h _ _) as [w' r] eqn:E. apply call_h_kfr' in E.
      destruct (negb (r_code r =? 0)%Z); wsimpl.
      * autorewrite with kpdb. exact E.
      * rewrite <- E. apply (fra_post_kp v c).
    + wsimpl. apply (fra_post_kp v c).
  - (* READ_LOOP *) unfold process_rt_loop. cbv zeta.
    destruct (g_cmd UNSOL (st w)) as [ci|]; [|left; reflexivity].
    destruct (call_h _ _) as [w' r] eqn:E. apply call_h_kfr' in E. wsimpl.
    destruct (rt_post_kq true (r_edit r) (r_code r) (st w')) as [H|H]; [left|right]; rewrite <- E; exact H.
  - (* TEST_LOOP *) unfold process_rt_loop. cbv zeta.
    destruct (g_cmd UNSOL (st w)) as [ci|]; [|left; reflexivity].
    destruct (call_h _ _) as [w' r] eqn:E. apply call_h_kfr' in E. wsimpl.
    destruct (rt_post_kq false (r_edit r) (r_code r) (st w')) as [H|H]; [left|right]; rewrite <- E; exact H.
  - (* FLUSH *) left. unfold unsolicited_process_io_write. cbv zeta.
    destruct (wbuf_char _ _ _) as [ch|]; [|reflexivity].
    destruct (ch =? 0)%N.
    + wsimpl. destruct (u_wstate (u (st w))); reflexivity.
    + destruct (io_write (io w) ch) as [io' ok]. destruct ok; reflexivity.
Qed.

Lemma K_service_body : forall w, K (st w) -> K (st (fst (service_body w))).
Proof.
  intros w HK. unfold Fsm.service_body.
  pose proof (K_kq _ _ (uns_kq w) HK) as H1.
  destruct (unsolicited_events_service w) as [w1 us]. cbn [fst] in H1.
  pose proof (K_cmd_service w1 H1) as H2.
  destruct (cmd_service w1) as [w2 s]. cbn [fst] in H2.
  destruct (_ || _); exact H2.
Qed.

Lemma bracket_K : forall w body, (forall w0, K (st w0) -> K (st (fst (body w0)))) ->
  K (st w) -> K (st (fst (bracket w body))).
Proof.
  intros w body H HK. unfold Fsm.bracket. destruct (d_mutex D); [|apply H; exact HK].
  destruct (mu_lock (mu w)) as [m1 ok]. destruct ok; cbn [negb]; [|exact HK].
  pose proof (H (logw (ELock true) (set_mu m1 w)) HK) as H1.
  destruct (body (logw (ELock true) (set_mu m1 w))) as [w2 s]. cbn [fst] in H1.
  destruct (mu_unlock (mu w2)) as [m2 ok2]. destruct ok2; exact H1.
Qed.

Lemma K_do_op : forall w o, K (st w) -> K (st (fst (do_op w o))).
Proof.
  intros w o HK. destruct o as [|ci t|status| | | |ci t|f|i b|g b]; cbn [Fsm.do_op fst].
  - unfold Fsm.api_service. apply bracket_K; [|exact HK]. intros w0 H0. apply K_service_body; exact H0.
  - eapply K_frame; [apply api_trigger_kfr | exact HK].
  - eapply K_frame; [apply api_hold_exit_kfr | exact HK].
  - unfold Fsm.api_is_busy. apply bracket_K; [|exact HK]. intros w0 H0. exact H0.
  - unfold Fsm.api_is_hold. apply bracket_K; [|exact HK]. intros w0 H0. exact H0.
  - unfold Fsm.api_is_full. apply bracket_K; [|exact HK]. intros w0 H0. exact H0.
  - exact HK.
  - exact HK.
  - exact HK.
  - exact HK.
Qed.

Lemma K_run : forall ops w, K (st w) -> K (st (run w ops)).
Proof.
  induction ops as [|o ops IH]; intros w HK; cbn [Fsm.run fold_left]; [exact HK|].
  apply IH. unfold Fsm.step. pose proof (K_do_op w o HK) as H. destruct (do_op w o) as [w' r]. exact H.
Qed.

(* every history, every oracle, no hypothesis: between command lines no command is selected *)
Theorem idle_cmd_none : forall m x mx h ops,
  let w := run (mkWorld (init_state D m) x mx h []) ops in
  k_state (k (st w)) = CS_IDLE -> k_cmd (k (st w)) = None.
Proof.
  intros m x mx h ops w Hs. apply K_idle; [|exact Hs]. apply K_run. reflexivity.
Qed.

Theorem get_processed_atcmd : forall m x mx h ops,
  let w := run (mkWorld (init_state D m) x mx h []) ops in
  get_processed (st w) ATCMD = match k_cmd (k (st w)) with Some ci => Z.of_nat ci | None => (-1)%Z end /\
  (k_state (k (st w)) = CS_IDLE -> get_processed (st w) ATCMD = (-1)%Z).
Proof.
  intros m x mx h ops w. split; [reflexivity|]. intros Hs.
  pose proof (idle_cmd_none m x mx h ops Hs) as H. fold w in H.
  unfold get_processed, g_cmd. rewrite H. reflexivity.
Qed.

End KWorld.
